"""C03: generators of Exo source text around the safety boundary.

Three sources, all pushed through the REAL front end by the caller:
  * valid stream      : progen.ProgGen (grammar-directed, mostly accepted)
  * template stream   : parametrised families that straddle the accept/reject boundary of every clause of the
                        property (index offsets, loop trip counts, allocation sizes, call sizes / shapes / assertions,
                        aliasing, window expressions vs. the base extent, accesses vs. the window's own extent,
                        writes through aliases, guards, div/mod indices, window-of-window, index arguments, config)
  * mutation stream   : textual mutations of valid progen programs (index off by one, loop bound, alloc size,
                        window interval, call argument, dropped assertion, duplicated buffer argument)
Nothing here decides whether a program is safe: verdicts come from @proc, from vcgen+z3 and from the extracted
reference semantics."""
from __future__ import annotations

import importlib.util
import os
import random
import re
import sys

import common
import progen

HEADER = progen.HEADER


def _ind(lines, n=1):
    return ["    " * n + l for l in lines]


def _proc(name, sig, preds, body, deco="@proc"):
    out = [deco, "def %s(%s):" % (name, ", ".join(sig))]
    out += _ind(["assert %s" % p for p in preds])
    out += _ind(body or ["pass"])
    return "\n".join(out) + "\n"


def _off(v, k):
    if k == 0:
        return v
    return "%s + %d" % (v, k) if k > 0 else "%s - %d" % (v, -k)


# ---------------------------------------------------------------------------------------------- templates
def t_offset(r):
    """x[i+k] in seq(lo, n-d) over R[n] (or a window argument [R][n])"""
    k, d, lo = r.choice([-2, -1, 0, 1, 1, 2, 3]), r.choice([0, 0, 1, 2, 3]), r.choice([0, 0, 1, 2])
    a = r.choice([None, None, d, d + 1, lo + d, lo + d + 1])
    ty = r.choice(["R[n]", "[R][n]"])
    acc = "x[%s]" % _off("i", k)
    st = r.choice(["%s = y[i]", "%s += y[i]", "y[i] = %s", "y[i] += %s * 2.0"]) % acc
    preds = ["n >= %d" % a] if a is not None and a > 0 else []
    return _proc("foo", ["n: size", "x: " + ty, "y: R[n]"], preds,
                 ["for i in seq(%d, %s):" % (lo, _off("n", -d))] + _ind([st]))


def t_trip(r):
    """loop seq(a, n - d) with or without the assertion that makes the trip count non-negative"""
    a, d = r.choice([1, 2, 3, 3]), r.choice([0, 0, 1])
    b = r.choice([None, a + d - 1, a + d, a + d + 1])
    preds = ["n >= %d" % b] if b else []
    inner = r.choice(["x[i - %d] = 0.0" % a, "x[i - %d] += 1.0" % a, "pass"])
    body = ["for i in seq(%d, %s):" % (a, _off("n", -d))] + _ind([inner])
    q = r.random()
    if q < 0.25:  # guarded loop
        g = r.choice(["n >= %d" % (a + d), "n > %d" % (a + d), "n >= %d" % (a + d - 1)])
        body = ["if %s:" % g] + _ind(body)
    elif q < 0.5:  # loop in the else branch: safe iff the NEGATED guard gives the bound
        g = r.choice(["n < %d" % (a + d), "n <= %d" % (a + d), "n >= %d" % (a + d), "n < %d" % (a + d - 1)])
        body = ["if %s:" % g, "    pass", "else:"] + _ind(body)
    return _proc("foo", ["n: size", "x: R[n]"], preds, body)


def t_alloc(r):
    """allocation of extent n - a (or constant c - c') under assert n >= b"""
    a = r.choice([0, 1, 1, 2])
    b = r.choice([None, a, a + 1, a + 2])
    preds = ["n >= %d" % b] if b else []
    if r.random() < 0.25:
        c = r.choice([0, 1, 2])
        ext = "%d" % c if r.random() < 0.5 else "4 - %d" % (4 - c)
    else:
        ext = _off("n", -a)
    use = r.choice([["for i in seq(0, %s):" % ext, "    t[i] = 0.0"], ["pass"]])
    if r.random() < 0.25:
        return _proc("foo", ["n: size", "m: size", "x: R[n]"], preds, ["t: R[%s, m]" % ext, "pass"])
    body = ["t: R[%s]" % ext] + use
    if r.random() < 0.3:  # allocation in a branch
        g = r.choice(["n > %d" % a, "n >= %d" % a, "n <= %d" % a])
        body = r.choice([["if %s:" % g] + _ind(body), ["if %s:" % g, "    pass", "else:"] + _ind(body)])
    return _proc("foo", ["n: size", "x: R[n]"], preds, body)


def _sub_vec(r, name="sub"):
    """callee over a window of symbolic extent; its body is safe on its own"""
    pre = r.choice([None, None, 2, 3])
    k = r.choice([0, 0, 1])
    body = ["for i in seq(0, %s):" % _off("n", -k), "    dst[%s] = src[i] + 1.0" % _off("i", k)]
    preds = ["n >= %d" % pre] if pre else []
    return _proc(name, ["n: size", "dst: [R][n]", "src: [R][n]"], preds, body), pre


def t_call_size(r):
    """size argument n - a, window arguments of matching or mismatching length"""
    sub, pre = _sub_vec(r)
    a = r.choice([0, 1, 1, 2])
    b = r.choice([None, a + 1, a + (pre or 1), a + (pre or 1) - 1])
    preds = ["n >= %d" % b] if b and b > 0 else []
    sz = _off("n", -a)
    L1 = r.choice([sz, sz, "n", _off("n", -a - 1)])
    lo = r.choice([0, 0, 1])
    hi1 = L1 if lo == 0 else "%s + %d" % (L1, lo)
    call = "sub(%s, x[%d:%s], y[0:%s])" % (sz, lo, hi1, sz)
    if r.random() < 0.3:  # a size parameter that is not the extent of any argument
        sub = _proc("sub", ["k: size", "dst: [R][4]"], [], r.choice([["dst[0] = 1.0"], ["for i in seq(0, k):", "    dst[0] += 1.0"]]))
        return sub + "\n" + _proc("foo", ["n: size", "x: R[8]"], preds, ["sub(%s, x[0:4])" % sz])
    return sub + "\n" + _proc("foo", ["n: size", "x: R[n]", "y: R[n]"], preds, [call])


def t_call_const_window(r):
    """callee over [R][M]; caller passes x[a:a+L] of x: R[N]"""
    M, N = r.choice([2, 4]), r.choice([6, 8])
    touch = r.choice([0, M - 1, M - 1, M])  # index the callee writes (M is out of its own bounds -> callee rejected)
    sub = _proc("sub", ["dst: [R][%d]" % M], [], ["dst[%d] = 1.0" % touch])
    a = r.choice([0, 1, N - M, N - M + 1, N - 1])
    L = r.choice([M, M, M, M - 1, M + 1])
    arg = "x[%d:%d]" % (a, a + L)
    if r.random() < 0.3:
        body = ["w = %s" % arg, "sub(w)"]
    else:
        body = ["sub(%s)" % arg]
    return sub + "\n" + _proc("foo", ["x: R[%d]" % N], [], body)


def t_call_assert(r):
    """callee assertion on an index / size argument; caller passes i + d or a size"""
    c = r.choice([0, 1, 2])
    up = r.choice([4, 4, 5])
    sub = _proc("sub", ["k: index", "dst: [R][4]"], ["k >= %d" % c, "k < %d" % up], ["dst[k] = 1.0" if up <= 4 else "dst[0] = 1.0"])
    d, lo, hi = r.choice([-1, 0, 1]), r.choice([0, 1]), r.choice([3, 4, 5])
    arg = _off("i", d)
    body = ["for i in seq(%d, %d):" % (lo, hi), "    sub(%s, x[0:4])" % arg]
    if r.random() < 0.3:
        body = ["for i in seq(%d, %d):" % (lo, hi), "    if %s >= %d:" % (arg, c), "        sub(%s, x[0:4])" % arg]
    if r.random() < 0.25:
        sub = _proc("sub", ["n: size", "dst: [R][n]"], ["n >= %d" % (c + 1)], ["dst[%d] = 1.0" % c])
        pre = r.choice([None, c, c + 1])
        return sub + "\n" + _proc("foo", ["n: size", "x: R[n]"], ["n >= %d" % pre] if pre else [], ["sub(n, x[0:n])"])
    return sub + "\n" + _proc("foo", ["x: R[8]"], [], body)


def t_alias(r):
    """one buffer reaching two arguments of a call (directly, through windows, through a window alias)"""
    sub = _proc("sub", ["dst: [R][4]", "src: [R][4]"], [], ["for i in seq(0, 4):", "    dst[i] = src[i]"])
    k = r.randrange(7)
    body = [
        ["sub(x[0:4], x[4:8])"],
        ["sub(x[0:4], y[0:4])"],
        ["w = x[0:4]", "sub(w, x[4:8])"],
        ["w = x[0:4]", "v = x[4:8]", "sub(w, v)"],
        ["w = x[0:4]", "sub(w, y[4:8])"],
        ["w = x[0:8]", "v = w[4:8]", "sub(v, x[0:4])"],
        ["sub(y[4:8], y[0:4])"],
    ][k]
    return sub + "\n" + _proc("foo", ["x: R[8]", "y: R[8]"], [], body)


def t_alias_scalar(r):
    sub = _proc("sub", ["a: R", "b: R"], [], ["a = b"])
    body = r.choice([["sub(s, s)"], ["sub(s, t)"], ["sub(t, s)"]])
    return sub + "\n" + _proc("foo", ["s: R", "t: R"], [], body)


def t_window_base(r):
    """window statement w = x[a:b] vs. the base extent N; w is then unused, read, or written inside/outside"""
    N = r.choice([6, 8])
    a = r.choice([0, 2, 4, N - 2])
    b = r.choice([a + 2, a + 4, N, N + 1, N + 4, a, a - 1 if a > 0 else a])
    use = r.choice(["none", "none", "read", "write", "loop"])
    body = ["w = x[%d:%d]" % (a, b)]
    if use == "read":
        body.append("y[0] = w[%d]" % r.choice([0, 1, max(0, b - a - 1), b - a if b > a else 0]))
    elif use == "write":
        body.append("w[%d] = 1.0" % r.choice([0, 1, max(0, b - a - 1), b - a if b > a else 0]))
    elif use == "loop":
        body += ["for i in seq(0, %d):" % max(0, min(b, N) - a), "    w[i] = y[i]"]
    else:
        body.append("pass")
    return _proc("foo", ["x: R[%d]" % N, "y: R[%d]" % N], [], body)


def t_window_sym(r):
    """symbolic window w = x[a:n-d] / x[0:n+1]"""
    a, d = r.choice([0, 1, 2]), r.choice([-1, 0, 0, 1])
    pre = r.choice([None, a + d, a + d + 1])
    hi = _off("n", -d)
    body = ["w = x[%d:%s]" % (a, hi)]
    body += r.choice([["pass"], ["for i in seq(0, %s):" % _off("n", -d - a), "    w[i] = 0.0"],
                      ["if n > %d:" % (a + d), "    w[0] = 1.0"]])
    return _proc("foo", ["n: size", "x: R[n]"], ["n >= %d" % pre] if pre and pre > 0 else [], body)


def t_window_own(r):
    """access beyond the window's OWN extent that may stay inside the base buffer"""
    N = 8
    a, L = r.choice([0, 0, 2, 4]), r.choice([2, 4])
    j = r.choice([0, L - 1, L, L + 1, N - a - 1, N - a, -1])
    form = r.choice(["read", "write", "reduce", "loop-read", "loop-write"])
    body = ["w = x[%d:%d]" % (a, a + L)]
    if form == "read":
        body.append("y[0] = w[%s]" % j)
    elif form == "write":
        body.append("w[%s] = y[0]" % j)
    elif form == "reduce":
        body.append("w[%s] += y[0]" % j)
    else:
        hi = r.choice([L, L + 1, N - a, N - a + 1])
        body += ["for i in seq(0, %d):" % hi,
                 "    y[0] += w[i]" if form == "loop-read" else "    w[i] = y[0]"]
    return _proc("foo", ["x: R[%d]" % N, "y: R[%d]" % N], [], body)


def t_window_alias_write(r):
    """write / reduce through a window alias with an index that leaves the base buffer"""
    N = r.choice([4, 8])
    a = r.choice([0, 2])
    L = N - a
    j = r.choice([L - 1, L, L + 1, 100, -1, -a - 1])
    op = r.choice(["=", "+="])
    two = r.random() < 0.3
    if two:
        body = ["w = x[%d:%d]" % (a, N), "v = w[0:%d]" % L, "v[%s] %s 1.0" % (j, op)]
    else:
        body = ["w = x[%d:%d]" % (a, N), "w[%s] %s 1.0" % (j, op)]
    if r.random() < 0.3:
        body = ["for k in seq(0, 2):"] + _ind(body)
    return _proc("foo", ["x: R[%d]" % N], [], body)


def t_window_2d(r):
    """2-D windows with points, window of window"""
    pt = r.choice(["i", "i + 1", "1", "3", "4"])
    a, b = r.choice([(0, 4), (1, 5), (2, 6), (2, 7)])
    j = r.choice([0, b - a - 1, b - a, 5])
    body = ["for i in seq(0, 3):",
            "    w = y[%s, %d:%d]" % (pt, a, b),
            r.choice(["    w[%d] = 1.0" % j, "    x[0] += w[%d]" % j, "    v = w[1:%d]\n        v[0] = 2.0" % r.choice([2, b - a, b - a + 1])])]
    return _proc("foo", ["x: R[8]", "y: R[4, 6]"], [], body)


def t_guard(r):
    """guards (and negated guards) that make an access safe or leave it unsafe"""
    k = r.choice([1, 2])
    g = r.choice(["i + %d < n" % k, "i + %d <= n" % k, "i < n - %d" % k, "i + %d < n and i >= 0" % k, "i + %d > n" % k])
    then = "x[i + %d] = 1.0" % k
    els = r.choice([None, "x[i] = 2.0", "x[i + %d] = 2.0" % k])
    body = ["for i in seq(0, n):", "    if %s:" % g, "        " + then]
    if els:
        body += ["    else:", "        " + els]
    if r.random() < 0.3:
        body = ["for i in seq(0, n):", "    if %s:" % g, "        pass", "    else:", "        " + then]
    return _proc("foo", ["n: size", "x: R[n]"], [], body)


def t_divmod(r):
    E = r.choice([3, 4])
    e = r.choice(["i %% %d" % E, "i %% %d" % (E + 1), "(i - 3) %% %d" % E, "i / 2", "(i + 1) / 2", "(i - 1) / 2", "(i / 2) %% %d" % E, "i / 2 + i %% %d" % 2])
    hi = r.choice([E, 2 * E, 2 * E + 1, 2 * E - 1])
    return _proc("foo", ["x: R[%d]" % E, "y: R[16]"], [], ["for i in seq(0, %d):" % hi, "    x[%s] += y[i]" % e])


def t_divmod_sym(r):
    sh = r.choice(["(n + 1) / 2", "n / 2", "n / 2 + 1"])
    idx = r.choice(["i / 2", "(i + 1) / 2"])
    pre = r.choice([None, 2])
    return _proc("foo", ["n: size", "x: R[%s]" % sh, "y: R[n]"], ["n >= %d" % pre] if pre else [],
                 ["for i in seq(0, n):", "    x[%s] += y[i]" % idx])


def t_index_arg(r):
    lo = r.choice([None, 0, 1, -1])
    hi = r.choice([None, "kk < n", "kk <= n", "kk < 4", "kk + 1 < n"])
    preds = (["kk >= %d" % lo] if lo is not None else []) + ([hi] if hi else [])
    st = r.choice(["x[kk] = 1.0", "x[kk + 1] = 1.0", "x[kk] += y[kk]", "if bb:\n        x[kk] = 0.0"])
    return _proc("foo", ["n: size", "kk: index", "bb: bool", "x: R[n]", "y: R[4]"], preds, [st])


def t_bool_guard(r):
    body = r.choice([
        ["if bb:", "    x[n - 1] = 0.0", "else:", "    x[n] = 0.0"],
        ["if bb:", "    x[n - 1] = 0.0", "else:", "    x[0] = 0.0"],
        ["if bb == True:", "    x[0] = 0.0"] if False else ["if bb:", "    pass", "else:", "    x[0 - 1] = 0.0"],
        ["if bb and n > 2:", "    x[2] = 1.0"],
        ["if bb or n > 2:", "    x[2] = 1.0"],
    ])
    return _proc("foo", ["n: size", "bb: bool", "x: R[n]"], [], body)


def t_nested_call(r):
    """callee safe on its own; its effects land in a window of the caller"""
    k = r.choice([0, 1])
    sub = _proc("sub", ["n: size", "dst: [R][n]"], [], ["for i in seq(0, n):", "    dst[i] = 0.0"])
    N = 8
    a = r.choice([0, 2, 4])
    L = r.choice([2, 4, N - a, N - a + 1])
    sz = r.choice([L, L, L - 1, L + 1])
    body = ["sub(%d, x[%d:%d])" % (sz, a, a + L)]
    if r.random() < 0.4:
        body = ["for j in seq(0, 2):", "    sub(%d, y[j, %d:%d])" % (sz, a, a + L)]
    return sub + "\n" + _proc("foo", ["x: R[%d]" % N, "y: R[2, %d]" % N], [], body)


def t_call_tensor_whole(r):
    """whole tensors passed to R[n] / [R][n] parameters with a size"""
    sub = _proc("sub", ["n: size", "dst: %s" % r.choice(["R[n]", "[R][n]"])], [], ["dst[n - 1] = 0.0"])
    arg = r.choice(["n", "n", "m", "n - 1", "n + 1"])
    pre = r.choice([None, 2])
    return sub + "\n" + _proc("foo", ["n: size", "m: size", "x: R[n]"], ["n >= %d" % pre] if pre else [], ["sub(%s, x)" % arg])


def t_config(r):
    cfg = "@config\nclass CfgB:\n    a: index\n    flag: bool\n"
    body = r.choice([
        ["for i in seq(0, CfgB.a):", "    x[0] = 1.0"],
        ["if CfgB.a >= 0:", "    for i in seq(0, CfgB.a):", "        x[0] = 1.0"],
        ["if CfgB.a >= 0 and CfgB.a < 4:", "    x[CfgB.a] = 1.0"],
        ["x[CfgB.a] = 1.0"],
        ["CfgB.a = 2", "x[CfgB.a] = 1.0"],
        ["CfgB.a = 4", "x[CfgB.a] = 1.0"],
        ["if CfgB.flag:", "    x[3] = 1.0", "else:", "    x[4] = 1.0"],
    ])
    return cfg + "\n" + _proc("foo", ["x: R[4]"], [], body)


def t_instr(r):
    k = r.choice([0, 1])
    return _proc("foo", ["n: size", "x: [R][n]"], [], ["for i in seq(0, n):", "    x[%s] = 0.0" % _off("i", k)],
                 deco='@instr("/* {x_data} */")')


def t_stride(r):
    sub = _proc("sub", ["n: size", "dst: [R][n]"], ["stride(dst, 0) == 1"], ["dst[0] = 0.0"])
    body = r.choice([["sub(4, y[0, 0:4])"], ["sub(4, y[0:4, 0])"], ["sub(4, x[0:4])"]])
    return sub + "\n" + _proc("foo", ["x: R[8]", "y: R[4, 4]"], [], body)


def t_neg_window_access(r):
    """window with hi < lo (negative extent) and an access through it"""
    a, b = r.choice([(6, 2), (4, 4), (5, 4)])
    body = ["w = x[%d:%d]" % (a, b), r.choice(["pass", "w[0] = 1.0", "y[0] = w[0]"])]
    return _proc("foo", ["x: R[8]", "y: R[8]"], [], body)


def t_callee_loop(r):
    """callee whose own loop / allocation needs its assertion: safe at every call that satisfies the assertion"""
    c = r.choice([2, 3])
    inner = r.choice(["for i in seq(%d, n):\n        dst[i] = 0.0" % c, "t: R[n - %d]\n    dst[0] = 0.0" % (c - 1),
                      "dst[%d] = 0.0" % (c - 1)])
    sub = "@proc\ndef sub(n: size, dst: [R][n]):\n    assert n >= %d\n    %s\n" % (c, inner)
    arg = r.choice([8, c, c - 1])
    return sub + "\n" + _proc("foo", ["x: R[8]"], [], ["sub(%d, x[0:%d])" % (arg, arg)])


def t_extern(r):
    """reads inside the arguments of externs"""
    j = r.choice([0, 7, 8, 100, -1])
    e = r.choice(["relu(y[%s])" % j, "select(y[0], y[1], y[%s], y[2])" % j, "relu(y[i + %d])" % r.choice([0, 1, 4])])
    return _proc("foo", ["x: R[8]", "y: R[8]"], [], ["for i in seq(0, 4):", "    x[i] = %s" % e])


def t_alias_by_name(r):
    """a window alias passed BY NAME to a callee that touches its last element"""
    M = r.choice([2, 4])
    sub = _proc("sub", ["dst: [R][%d]" % M], [], ["dst[%d] = 1.0" % (M - 1)])
    a = r.choice([0, 8 - M, 8 - M + 1, 7])
    body = ["w = x[%d:%d]" % (a, a + M), "sub(w)"]
    if r.random() < 0.3:
        body = ["w = x[%d:%d]" % (a, a + M), "v = w[0:%d]" % M, "sub(v)"]
    return sub + "\n" + _proc("foo", ["x: R[8]"], [], body)


TEMPLATES = [
    ("offset", t_offset, 4), ("trip", t_trip, 3), ("alloc", t_alloc, 3), ("call-size", t_call_size, 3),
    ("call-const-window", t_call_const_window, 3), ("call-assert", t_call_assert, 3), ("alias", t_alias, 2),
    ("alias-scalar", t_alias_scalar, 1), ("window-base", t_window_base, 3), ("window-sym", t_window_sym, 2),
    ("window-own", t_window_own, 3), ("window-alias-write", t_window_alias_write, 3), ("window-2d", t_window_2d, 2),
    ("guard", t_guard, 2), ("divmod", t_divmod, 2), ("divmod-sym", t_divmod_sym, 1), ("index-arg", t_index_arg, 2),
    ("bool-guard", t_bool_guard, 1), ("nested-call", t_nested_call, 3), ("call-tensor-whole", t_call_tensor_whole, 2),
    ("config", t_config, 1), ("instr", t_instr, 1), ("stride", t_stride, 1), ("neg-window", t_neg_window_access, 1),
    ("callee-loop", t_callee_loop, 2), ("extern", t_extern, 2), ("alias-by-name", t_alias_by_name, 2),
]


def template(rng: random.Random, family: str | None = None):
    """-> (family, full module source)"""
    if family is None:
        pool = [t for t in TEMPLATES for _ in range(t[2])]
        name, fn, _ = rng.choice(pool)
    else:
        name, fn, _ = next(t for t in TEMPLATES if t[0] == family)
    return name, HEADER + "\n" + fn(rng)


# ---------------------------------------------------------------------------------------------- corpus
# minimal programs that always run first: the witnesses of the findings and one program per clause of the property
CORPUS = [
    ("corpus:window-beyond-base", "@proc\ndef foo(x: R[8]):\n    w = x[4:12]\n    pass\n"),
    ("corpus:window-own-extent", "@proc\ndef foo(x: R[8], y: R[8]):\n    w = x[0:4]\n    y[0] = w[5]\n"),
    ("corpus:window-own-extent-write", "@proc\ndef foo(x: R[8], y: R[8]):\n    w = x[0:4]\n    w[5] = y[0]\n"),
    ("corpus:extern-arg-read", "@proc\ndef foo(x: R[8], y: R[8]):\n    x[0] = relu(y[8])\n"),
    ("corpus:alias-by-name", "@proc\ndef sub(dst: [R][4]):\n    dst[3] = 1.0\n\n@proc\ndef foo(x: R[8]):\n    w = x[6:10]\n    sub(w)\n"),
    ("corpus:window-alias-write-oob", "@proc\ndef foo(x: R[8]):\n    w = x[0:4]\n    w[100] = 1.0\n"),
    ("corpus:off-by-one", "@proc\ndef foo(n: size, x: R[n]):\n    for i in seq(0, n):\n        x[i + 1] = 0.0\n"),
    ("corpus:trip", "@proc\ndef foo(n: size, x: R[n]):\n    for i in seq(3, n):\n        x[i] = 0.0\n"),
    ("corpus:trip-asserted", "@proc\ndef foo(n: size, x: R[n]):\n    assert n >= 3\n    for i in seq(3, n):\n        x[i] = 0.0\n"),
    ("corpus:alloc", "@proc\ndef foo(n: size, x: R[n]):\n    t: R[n - 1]\n    pass\n"),
    ("corpus:call-short-window", "@proc\ndef sub(dst: [R][4]):\n    dst[3] = 1.0\n\n@proc\ndef foo(x: R[8]):\n    sub(x[0:3])\n"),
    ("corpus:call-size", "@proc\ndef sub(n: size, dst: [R][n]):\n    dst[0] = 1.0\n\n@proc\ndef foo(n: size, x: R[n]):\n    sub(n - 1, x[0:n - 1])\n"),
    ("corpus:call-assert", "@proc\ndef sub(n: size, dst: [R][n]):\n    assert n >= 3\n    dst[2] = 1.0\n\n@proc\ndef foo(x: R[8]):\n    sub(2, x[0:2])\n"),
    ("corpus:same-buffer-twice", "@proc\ndef sub(dst: [R][4], src: [R][4]):\n    dst[0] = src[0]\n\n@proc\ndef foo(x: R[8]):\n    sub(x[0:4], x[4:8])\n"),
    ("corpus:safe", "@proc\ndef sub(n: size, dst: [R][n]):\n    for i in seq(0, n):\n        dst[i] = 0.0\n\n@proc\ndef foo(n: size, x: R[n], y: R[n]):\n    assert n >= 2\n    for i in seq(0, n - 1):\n        x[i + 1] = y[i] + 1.0\n    w = x[1:n]\n    w[0] += y[0]\n    t: R[n - 1]\n    sub(n - 1, x[0:n - 1])\n"),
]


def corpus():
    return [(fam, HEADER + "\n" + src) for fam, src in CORPUS]


# ---------------------------------------------------------------------------------------------- textual mutations
_ACCESS = re.compile(r"\b([A-Za-z_]\w*)\[([^\[\]]*)\]")


def _split_top(s):
    out, depth, cur = [], 0, ""
    for ch in s:
        if ch == "(":
            depth += 1
        elif ch == ")":
            depth -= 1
        if ch == "," and depth == 0:
            out.append(cur)
            cur = ""
        else:
            cur += ch
    out.append(cur)
    return out


def _body_lines(lines):
    """indices of lines inside the body of the LAST procedure (`foo`; not decorators/defs/asserts): callees are
    left intact so that a rejection is a rejection of `foo`"""
    out, inproc = [], False
    last = max([k for k, l in enumerate(lines) if l.startswith("def ")] or [0])
    for k, l in enumerate(lines):
        if k < last:
            continue
        s = l.strip()
        if s.startswith("def "):
            inproc = True
            continue
        if s.startswith("@") or s.startswith("class "):
            inproc = False
            continue
        if inproc and s and not s.startswith("assert") and l.startswith("    "):
            out.append(k)
    return out


def m_index(lines, r):
    """off-by-one (or more) on one index of one access"""
    cands = []
    for k in _body_lines(lines):
        l = lines[k]
        if re.match(r"\s*\w+\s*:\s*\[?R", l):  # allocation
            continue
        for m in _ACCESS.finditer(l):
            if ":" in m.group(2):
                continue
            cands.append((k, m))
    if not cands:
        return None
    k, m = r.choice(cands)
    parts = _split_top(m.group(2))
    j = r.randrange(len(parts))
    d = r.choice([1, 1, -1, 2])
    parts[j] = "%s %s %d" % (parts[j].strip(), "+" if d > 0 else "-", abs(d))
    lines[k] = lines[k][: m.start(2)] + ", ".join(parts) + lines[k][m.end(2):]
    return "index%+d" % d


def m_loop(lines, r):
    cands = [k for k in _body_lines(lines) if re.search(r"\b(seq|par)\(", lines[k])]
    if not cands:
        return None
    k = r.choice(cands)
    m = re.search(r"\b(seq|par)\(([^,]+),\s*(.+)\):\s*$", lines[k])
    if not m:
        return None
    lo, hi = m.group(2).strip(), m.group(3).strip()
    kind = r.choice(["hi+1", "lo=3", "swap", "hi+1"])
    if kind == "hi+1":
        hi = hi + " + 1"
    elif kind == "lo=3":
        lo = "3"
    else:
        lo, hi = hi, lo
    lines[k] = lines[k][: m.start()] + "%s(%s, %s):" % (m.group(1), lo, hi)
    return "loop:" + kind


def m_alloc(lines, r):
    cands = []
    for k in _body_lines(lines):
        m = re.match(r"(\s*\w+\s*:\s*R\[)([^\]]*)(\]\s*)$", lines[k])
        if m:
            cands.append((k, m))
    if not cands:
        return None
    k, m = r.choice(cands)
    parts = _split_top(m.group(2))
    j = r.randrange(len(parts))
    p = parts[j].strip()
    if p.isdigit():
        parts[j] = r.choice(["%s - %s" % (p, p), str(max(0, int(p) - 1)), "%s - %d" % (p, int(p) + 1)])
    else:
        parts[j] = p + " - 1"
    lines[k] = m.group(1) + ", ".join(parts) + m.group(3)
    return "alloc-size"


def m_window(lines, r):
    cands = []
    for k in _body_lines(lines):
        for m in re.finditer(r"(\d+|\w+):(\d+|\w+)", lines[k]):
            cands.append((k, m))
    if not cands:
        return None
    k, m = r.choice(cands)
    lo, hi = m.group(1), m.group(2)
    kind = r.choice(["hi+", "hi+", "lo-", "shift"])
    d = r.choice([1, 2, 4])
    if kind == "hi+":
        hi = "%s + %d" % (hi, d) if not hi.isdigit() else str(int(hi) + d)
    elif kind == "lo-":
        lo = "%s - %d" % (lo, d) if not lo.isdigit() else ("%d" % (int(lo) - d) if int(lo) - d >= 0 else "0 - %d" % (d - int(lo)))
    else:
        if lo.isdigit() and hi.isdigit():
            lo, hi = str(int(lo) + d), str(int(hi) + d)
        else:
            lo, hi = "%s + %d" % (lo, d), "%s + %d" % (hi, d)
    lines[k] = lines[k][: m.start()] + "%s:%s" % (lo, hi) + lines[k][m.end():]
    return "window:" + kind


def m_drop_assert(lines, r):
    last = max([k for k, l in enumerate(lines) if l.startswith("def ")] or [0])
    cands = [k for k, l in enumerate(lines) if l.strip().startswith("assert ") and k > last]
    if not cands:
        return None
    del lines[r.choice(cands)]
    return "drop-assert"


def m_call_arg(lines, r):
    cands = [k for k in _body_lines(lines) if re.match(r"\s*sub\w*\(", lines[k])]
    if not cands:
        return None
    k = r.choice(cands)
    m = re.match(r"(\s*\w+\()(.*)(\)\s*)$", lines[k])
    args = []
    depth, cur = 0, ""
    for ch in m.group(2):
        if ch in "([":
            depth += 1
        elif ch in ")]":
            depth -= 1
        if ch == "," and depth == 0:
            args.append(cur.strip())
            cur = ""
        else:
            cur += ch
    args.append(cur.strip())
    bufs = [j for j, a in enumerate(args) if re.match(r"[a-z]\w*(\[.*\])?$", a) and not a.isdigit() and not re.match(r"^(n|m|i|j|k|ii|kk)$", a)]
    szs = [j for j, a in enumerate(args) if re.match(r"^(n|m|\d+)$", a)]
    kind = r.choice(["dup"] * (len(bufs) >= 2) + ["size-1"] * bool(szs) + ["size+1"] * bool(szs))if (len(bufs) >= 2 or szs) else None
    if kind is None:
        return None
    if kind == "dup":
        a, b = r.sample(bufs, 2)
        base = re.match(r"\w+", args[a]).group(0)
        args[b] = re.sub(r"^\w+", base, args[b])
    else:
        j = r.choice(szs)
        d = -1 if kind == "size-1" else 1
        args[j] = str(int(args[j]) + d) if args[j].isdigit() else "%s %s 1" % (args[j], "-" if d < 0 else "+")
    lines[k] = m.group(1) + ", ".join(args) + m.group(3)
    return "call:" + kind


MUTATORS = [m_index, m_index, m_index, m_loop, m_loop, m_alloc, m_window, m_window, m_drop_assert, m_call_arg, m_call_arg]


def mutate(src: str, rng: random.Random):
    """-> (kind, mutated source) or None"""
    for _ in range(6):
        lines = src.split("\n")
        kind = rng.choice(MUTATORS)(lines, rng)
        if kind:
            new = "\n".join(lines)
            if new != src:
                return kind, new
    return None


# ---------------------------------------------------------------------------------------------- front end
_count = [0]


def load_module(src: str, tag: str = "c03"):
    """progen.load_module with the full error text (its 300-character cut loses the part of exo's message that says
    WHICH check failed): exec `src` as a real module file through the real @proc; -> (module | None, error text)"""
    d = common.SCRATCH / "mods"
    d.mkdir(parents=True, exist_ok=True)
    _count[0] += 1
    path = d / ("%s_%d_%d.py" % (tag, os.getpid(), _count[0]))
    path.write_text(src)
    spec = importlib.util.spec_from_file_location(path.stem, path)
    mod = importlib.util.module_from_spec(spec)
    sys.modules[path.stem] = mod
    try:
        spec.loader.exec_module(mod)
        return mod, None
    except Exception as e:  # front-end rejection (or a generator slip)
        # which top-level definition was being executed: the last frame of the traceback that lies in the module file
        at, tb = 0, e.__traceback__
        while tb is not None:
            if tb.tb_frame.f_code.co_filename == str(path):
                at = tb.tb_lineno
            tb = tb.tb_next
        return None, "[def-at-line %d] %s: %s" % (at, type(e).__name__, str(e)[:4000])
    finally:
        sys.modules.pop(path.stem, None)
        try:
            path.unlink()
        except OSError:
            pass
