"""C06 part (a): internal-API correspondence between exo.core.internal_cursors and the Coq model.

For each generated case: a random statement tree, a chain of 1-3 random atomic edits applied through the
REAL API (each edit generated against the current real tree), and for EVERY node / block / gap cursor of
the source tree the composed real forwarding result is compared with the model's ``fwd_chain``; the final
trees are compared label by label; the model's validity flags are compared with what the real tree says.
"""
from __future__ import annotations

import random

import c06_impl as I
from exo.core import internal_cursors as ic


def one_case(rng, malformed=False, kinds=None, nedits=None):
    """returns dict with everything needed to compare, or None if no edit could be generated"""
    w = I.World()
    spec0 = I.gen_proc_spec(rng, w, max_stmts=rng.choice([4, 7, 10, 12]))
    root0 = w.build(spec0)
    edits = []
    root, spec = root0, spec0
    fwds = []
    specs = [spec0]
    raised = None
    n = nedits or rng.choice([1, 1, 1, 2, 3])
    for k in range(n):
        e = I.gen_edit(rng, w, spec, kind=(rng.choice(kinds) if kinds else None),
                       malformed=(malformed and k == n - 1))
        if e is None:
            break
        edits.append(e)
        try:
            root1, fwd = I.impl_apply(w, root, e)
            spec1 = w.export(root1, filler=I.filler_of(e))
        except (IndexError, AssertionError, ic.InvalidCursorError, AttributeError, TypeError, ValueError) as ex:
            raised = type(ex).__name__
            break
        fwds.append((root, fwd))
        root, spec = root1, spec1
        specs.append(spec1)
    if not edits:
        return None
    cursors = I.enum_cursors(spec0, odd=malformed)
    results = []          # per cursor: list of per-step results, stopping after the first non-cursor result
    if raised is None:
        for c in cursors:
            steps = []
            try:
                x = I.mk_cursor(root0, c)
            except Exception:
                results.append(["crash"])
                continue
            for _r, f in fwds:
                try:
                    x = f(x)
                    res = I.canon_cursor(x)
                except ic.InvalidCursorError:
                    res = "invalid"
                except (AssertionError, IndexError, TypeError, AttributeError):
                    res = "crash"
                steps.append(res)
                if res in ("invalid", "crash"):
                    break
            results.append(steps)
    return dict(w=w, spec0=spec0, edits=edits, cursors=cursors, impl_results=results, impl_spec=spec,
                raised=raised, specs=specs)


def edit_del_new(spec, e):
    """labels removed / put in place by a local edit (Spec.edit_del / edit_new)"""
    k = e[0]
    if k in ("replace", "delete", "wrap"):
        ks = I.spec_kids(I.spec_get(spec, e[1]), e[2])
        dele = [x[0] for x in ks[e[3]:e[4]]]
        new = [x[0] for x in e[5]] if k == "replace" else ([] if k == "delete" else [e[5]])
        return dele, new
    if k == "insert":
        return [], [x[0] for x in e[3]]
    return [], []


def same_e_fails(e, spec, c, spec2, c2):
    """None if Spec.same_e holds between (spec, c) and (spec2, c2), else a description"""
    a = I.resolve_spec(spec, c)
    b = I.resolve_spec(spec2, c2)
    if a is None or b is None:
        return "dangling"
    if c[0] != c2[0]:
        return "cursor kind changed"
    if c[0] in ("n", "g"):
        return None if a == b else "denotes %r, was %r" % (b, a)
    if a == b:
        return None
    dele, new = edit_del_new(spec, e)
    for i in range(len(a) + 1):
        if a[i:i + len(dele)] == dele and a[:i] + new + a[i + len(dele):] == b:
            return None
    return "block labels %r, were %r (del %r new %r)" % (b, a, dele, new)


def strip_wrap(e):
    return e[:8] if e[0] == "wrap" else e


def compare_case(case, mres):
    """mres: parsed model result.  returns (list of divergence dicts, stats dict)"""
    div = []
    mtree = I.model_tree_to_plain(mres[0])
    valids = [v == "1" for v in mres[1]]
    mpre = [v == "1" for v in mres[2]]
    stats = {"invalid": 0, "crash": 0, "ok": 0, "same_fail": 0, "dangling": 0, "move_pre_false": mpre.count(False)}
    if case["raised"] is not None:
        # the real edit raised: the model must call the edit invalid
        k = len(case["edits"]) - 1
        if all(valids[: k + 1]) and mtree is not None:
            div.append({"what": "impl raised %s on an edit the model calls valid" % case["raised"],
                        "edit": repr(case["edits"][k])})
        return div, stats
    if not all(valids):
        # edit outside the model's validity domain and the implementation did not raise: nothing to compare
        stats["outside_domain"] = 1
        return div, stats
    itree = I.spec_sexp(case["impl_spec"])
    if mtree != itree:
        div.append({"what": "final trees differ", "model": mtree, "impl": itree})
        return div, stats
    for c, isteps, msteps in zip(case["cursors"], case["impl_results"], mres[3]):
        # compare step by step; the model stops after a step that is not ok / not in bounds (from then on
        # the real code computes on garbage, e.g. getattr(Pass, "body"))
        src = I.resolve_spec(case["spec0"], c)
        for k, mr in enumerate(msteps):
            mc = I.model_cursor(mr)
            ir = isteps[k] if k < len(isteps) else "missing"
            if mc != ir:
                if (mc == "crash" and ir == "invalid" and not I.VARIANT[0][1] and c[0] == "b"
                        and case["edits"][k][0] == "move" and not mpre[k]):
                    # negative-index garbage paths (move outside move_pre) are modelled as Crash; the repaired
                    # block branch of _forward_move turns such end points into InvalidCursorError
                    stats["tolerated_garbage"] = stats.get("tolerated_garbage", 0) + 1
                    break
                div.append({"what": "forwarding differs at step %d" % k, "cursor": c, "model": mc, "impl": ir})
                break
            if ir in ("invalid", "crash"):
                stats[ir] += 1
                break
            # the model's in-bounds flag against the real intermediate tree
            den = I.resolve_spec(case["specs"][k + 1], ir)
            inb = mr[2] == "1"
            if (den is not None) != inb:
                div.append({"what": "inb flag differs", "cursor": c, "fwd": ir, "model_inb": inb, "impl_den": den})
                break
            # where the hypotheses of theorem C06_edit hold for this step, its CONCLUSION is checked on the
            # real result: in bounds, and same statements modulo the edit (Spec.same_e)
            if len(mr) > 4 and mr[4] == "1":
                stats["thm_covered"] = stats.get("thm_covered", 0) + 1
                prev = c if k == 0 else isteps[k - 1]
                why = same_e_fails(case["edits"][k], case["specs"][k], prev, case["specs"][k + 1], ir)
                if why:
                    stats["thm_conclusion_fails"] = stats.get("thm_conclusion_fails", 0) + 1
                    div.append({"what": "conclusion of C06_edit fails on the real result: " + why,
                                "cursor": c, "step": k, "fwd": ir})
                    break
            if k == len(msteps) - 1:
                stats["ok"] += 1
                # property oracle at the internal-API level (counted, not reported: see the _refuted theorems)
                if den is None:
                    stats["dangling"] += 1
                elif den != src:
                    stats["same_fail"] += 1
    return div, stats


def run(ck, ncases, stream, malformed=False, kinds=None, batch=200, budget_s=None):
    import time
    t0 = time.time()
    rng = random.Random(ck.rng.getrandbits(64))
    done = 0
    totals = {}
    while done < ncases:
        if budget_s is not None and time.time() - t0 > budget_s:
            ck.log("%s stopped by its time budget (%ds) after %d of %d cases" % (stream, budget_s, done, ncases))
            break
        cases = []
        while len(cases) < min(batch if budget_s is None else 100, ncases - done):
            c = one_case(rng, malformed=malformed, kinds=kinds)
            if c is not None:
                cases.append(c)
        mres = I.run_model([(c["spec0"], [strip_wrap(e) for e in c["edits"]], c["cursors"]) for c in cases])
        for c, m in zip(cases, mres):
            tag = "+".join(e[0] for e in c["edits"]) + ("!" + c["raised"] if c["raised"] else "")
            key = (I.spec_sexp(c["spec0"]), [I.edit_sexp(strip_wrap(e)) for e in c["edits"]])
            ck.case(stream, key, nontrivial=True, tag=tag,
                    sample={"tree": common_sexp(I.spec_sexp(c["spec0"])),
                            "edits": [common_sexp(I.edit_sexp(strip_wrap(e))) for e in c["edits"]],
                            "n_cursors": len(c["cursors"])})
            if m and m[0] == "error":
                ck.corr_diverge(stream, {"what": "driver error", "msg": m})
                continue
            div, st = compare_case(c, m)
            for k, v in st.items():
                totals[k] = totals.get(k, 0) + v
            totals["cursors"] = totals.get("cursors", 0) + len(c["impl_results"])
            if div:
                d = div[0]
                d["tree"] = common_sexp(I.spec_sexp(c["spec0"]))
                d["edits"] = [common_sexp(I.edit_sexp(strip_wrap(e))) for e in c["edits"]]
                d["n_div"] = len(div)
                ck.corr_diverge(stream, d)
            else:
                ck.corr_agree(stream)
        done += len(cases)
    ck.stream(stream)["totals"] = totals
    return totals


def common_sexp(x):
    import common
    return common.sexp(x)
