#!/venv/bin/python
"""runall.py [--thorough] [ids...]: run the registered checks one after the other on /repo, print exit code, wall time,
VIOLATION / KNOWN-FINDING counts, and validate each evidence file against the schema (python3-vt jsonschema)."""
import json, subprocess, sys, time
tier = "--thorough" if "--thorough" in sys.argv else "--quick"
ids = [a for a in sys.argv[1:] if not a.startswith("--")]
man = json.load(open("/verif/MANIFEST.json"))
if not ids:
    ids = [c["property_id"] for c in man["checks"]]
bad = 0
for pid in ids:
    t0 = time.time()
    r = subprocess.run(["/venv/bin/python", "/verif/harness/check.py", pid, tier], capture_output=True, text=True)
    out = r.stdout.splitlines()
    viol = [l for l in out if l.startswith("VIOLATION")]
    kf = [l for l in out if l.startswith("KNOWN-FINDING")]
    v = subprocess.run(["python3-vt", "-c", "import json,jsonschema,sys; d=json.load(open('/verif/evidence/%s.json'));"
                        "jsonschema.validate(d,json.load(open('/root/.vp/EVIDENCE.schema.json')));"
                        "c=d['coverage']; assert c.get('obligations')==c.get('discharged'), (c.get('obligations'),c.get('discharged')); print('evidence-ok')" % pid],
                       capture_output=True, text=True)
    ok = r.returncode == 0 and not viol and "evidence-ok" in v.stdout
    bad += 0 if ok else 1
    print("%s rc=%d %4.0fs violations=%d known=%d %s" % (pid, r.returncode, time.time() - t0, len(viol), len(kf),
                                                        "evidence-ok" if "evidence-ok" in v.stdout else "EVIDENCE-BAD " + (v.stderr.strip().splitlines() or ["?"])[-1][:200]), flush=True)
    for l in viol[:5]:
        print("   ", l[:200])
sys.exit(1 if bad else 0)
