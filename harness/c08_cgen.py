"""C08: generation of a C `main` that calls a compiled exo procedure on VALID inputs.

Valid = every size argument >= 1, every assertion (predicate) of the procedure true, every tensor argument backed by
exactly product(shape) elements, every window argument backed by exactly the cells its (offset, strides, shape)
address — so that any access outside what the procedure's signature promises lands in an ASan red zone.
Index arguments range over negative values where the assertions allow; window strides are non-unit in most inputs."""
from __future__ import annotations

import re

from exo.core.LoopIR import LoopIR, T
import exo.backend.LoopIR_compiler as LC
from exo.backend.prec_analysis import PrecisionAnalysis

import c08_export as X


class NoInput(Exception):
    pass


def ev(e, env, strides):
    """evaluate an index/bool LoopIR expression; raises NoInput if not evaluable"""
    if isinstance(e, LoopIR.Const):
        return e.val
    if isinstance(e, LoopIR.Read):
        if e.idx or e.name not in env:
            raise NoInput("predicate reads %s" % e.name)
        return env[e.name]
    if isinstance(e, LoopIR.USub):
        return -ev(e.arg, env, strides)
    if isinstance(e, LoopIR.StrideExpr):
        if e.name not in strides:
            raise NoInput("stride of %s" % e.name)
        return strides[e.name][e.dim]
    if isinstance(e, LoopIR.BinOp):
        a, b = ev(e.lhs, env, strides), ev(e.rhs, env, strides)
        op = e.op
        if op == "+":
            return a + b
        if op == "-":
            return a - b
        if op == "*":
            return a * b
        if op == "/":
            if not isinstance(b, int) or b <= 0:
                raise NoInput("division by %r" % (b,))
            return a // b
        if op == "%":
            if not isinstance(b, int) or b <= 0:
                raise NoInput("modulo by %r" % (b,))
            return a % b
        if op == "and":
            return bool(a) and bool(b)
        if op == "or":
            return bool(a) or bool(b)
        if op == "==":
            return a == b
        if op == "<":
            return a < b
        if op == ">":
            return a > b
        if op == "<=":
            return a <= b
        if op == ">=":
            return a >= b
    raise NoInput("predicate construct %s" % type(e).__name__)


def consts_in(e, acc):
    if isinstance(e, LoopIR.Const) and isinstance(e.val, int) and not isinstance(e.val, bool):
        acc.add(e.val)
    elif isinstance(e, LoopIR.BinOp):
        consts_in(e.lhs, acc)
        consts_in(e.rhs, acc)
    elif isinstance(e, LoopIR.USub):
        consts_in(e.arg, acc)


def gen_input(p, rng, attempt):
    """one valid input description or None"""
    pool = set()
    for pr in p.preds:
        consts_in(pr, pool)
    near = sorted({c + d for c in pool for d in (-1, 0, 1)})
    env, strides, args = {}, {}, []
    for a in p.args:
        t = a.type
        if isinstance(t, T.Size):
            cands = [1, 1, 2, 3, 4, 5, 6, 8] + [c for c in near if 1 <= c <= 12] * 2
            v = rng.choice(cands)
            env[a.name] = v
            args.append({"k": "int", "v": v})
        elif isinstance(t, T.Index):
            cands = [-3, -2, -1, 0, 0, 1, 2, 3, 4, 5, 7] + [c for c in near if -6 <= c <= 12] * 2
            v = rng.choice(cands)
            env[a.name] = v
            args.append({"k": "int", "v": v})
        elif isinstance(t, T.Stride):
            v = rng.choice([1, 2, 3] + [c for c in near if 1 <= c <= 8])
            env[a.name] = v
            args.append({"k": "int", "v": v})
        elif isinstance(t, T.Bool):
            v = rng.random() < 0.5
            env[a.name] = v
            args.append({"k": "bool", "v": v})
        elif t.is_real_scalar():
            args.append({"k": "scalar", "v": rng.randint(0, 4)})
        elif isinstance(t, T.Tensor):
            shape = []
            for d in t.hi:
                try:
                    s = ev(d, env, strides)
                except NoInput:
                    return None
                if not isinstance(s, int) or s < 1 or s > 64:
                    return None
                shape.append(s)
            if t.is_window and (attempt % 4 != 3):
                st, acc = [], 1
                for n in reversed(shape):
                    k = rng.choice([1, 2, 2, 3])
                    st.insert(0, acc * k)
                    acc = acc * k * n
                off = rng.choice([0, 1, 3])
            else:
                st, acc = [], 1
                for n in reversed(shape):
                    st.insert(0, acc)
                    acc *= n
                off = rng.choice([0, 2]) if t.is_window else 0
            total = off + sum((n - 1) * s for n, s in zip(shape, st)) + 1
            strides[a.name] = st
            args.append({"k": "win" if t.is_window else "tensor", "shape": shape, "strides": st, "off": off, "total": total,
                         "fill": rng.randint(1, 4)})
        else:
            return None
    for pr in p.preds:
        if not ev(pr, env, strides):
            return None
    return args


def gen_main(ir, code: str, rng, n_inputs: int):
    """(C text of main, list of input descriptions)"""
    p = PrecisionAnalysis().run(ir)
    ft = X.c_function_text(code, p.name)
    if ft is None:
        raise NoInput("definition of %s not found in the C text" % p.name)
    decl = [a.strip() for a in ft[0].split(",")]
    ctx_decl, decl = decl[0], decl[1:]
    if len(decl) != len(p.args):
        raise NoInput("signature does not parse")
    inputs = []
    seen = set()
    for attempt in range(400):
        if len(inputs) >= n_inputs:
            break
        try:
            inp = gen_input(p, rng, attempt)
        except NoInput as e:
            raise
        if inp is None:
            continue
        key = repr(inp)
        if key in seen:
            continue
        seen.add(key)
        inputs.append(inp)
    if not inputs:
        raise NoInput("no valid input found in 400 attempts")
    # configuration struct
    has_ctxt = not ctx_decl.startswith("void")
    ctx_type = ctx_decl.split("*")[0].strip()
    cfg_sets = []
    if has_ctxt:
        for c in sorted(LC.find_all_configs(LC.find_all_subprocs([ir])), key=lambda c: c.name()):
            if not c.is_allow_rw():
                continue
            for (f, _) in c.fields():
                ty = c.lookup_type(f)
                if ty is T.bool:
                    cfg_sets.append(("%s.%s" % (c.name(), f), "bool"))
                elif ty.is_indexable() or ty is T.stride:
                    cfg_sets.append(("%s.%s" % (c.name(), f), "int"))
                else:
                    cfg_sets.append(("%s.%s" % (c.name(), f), "real"))
    L = ["", "/* ---- generated driver (harness/c08_cgen.py) ---- */", "#include <stdio.h>", "#include <stdlib.h>",
         "#include <string.h>", "int main(void) {"]
    for k, inp in enumerate(inputs):
        L.append("  { /* input %d */" % k)
        L.append('    printf("INPUT %d\\n"); fflush(stdout);' % k)
        if has_ctxt:
            L.append("    %s ctxt; memset(&ctxt, 0, sizeof(ctxt));" % ctx_type)
            for j, (f, ty) in enumerate(cfg_sets):
                if ty == "bool":
                    L.append("    ctxt.%s = %s;" % (f, "true" if (k + j) % 2 else "false"))
                elif ty == "int":
                    L.append("    ctxt.%s = %d;" % (f, (k + j) % 3))
                else:
                    L.append("    ctxt.%s = %d;" % (f, (k + j) % 3))
        call = ["&ctxt" if has_ctxt else "NULL"]
        frees = []
        for j, (a, d, v) in enumerate(zip(p.args, decl, inp)):
            if v["k"] == "int":
                call.append(str(v["v"]))
            elif v["k"] == "bool":
                call.append("true" if v["v"] else "false")
            else:
                m = re.search(r"(float|double|int8_t|int32_t|uint8_t|uint16_t|_Float16)", d)
                wm = X.WIN_RE.search(d)
                if wm:
                    cty = {"f16": "_Float16", "f32": "float", "f64": "double", "i8": "int8_t", "ui8": "uint8_t",
                           "ui16": "uint16_t", "i32": "int32_t"}[wm.group(2)]
                elif m:
                    cty = m.group(1)
                else:
                    raise NoInput("C type of argument `%s`" % d)
                nm = "b%d_%d" % (k, j)
                total = 1 if v["k"] == "scalar" else v["total"]
                L.append("    %s *%s = (%s*) malloc(%d * sizeof(%s));" % (cty, nm, cty, total, cty))
                if v["k"] == "scalar":
                    L.append("    %s[0] = (%s)%d;" % (nm, cty, v["v"]))
                else:
                    L.append("    for (long q = 0; q < %d; q++) %s[q] = (%s)((q * %d + 1) %% 5);" % (total, nm, cty, v["fill"]))
                if v["k"] == "win":
                    call.append("(%s){ %s + %d, { %s } }" % (wm.group(0), nm, v["off"], ", ".join(map(str, v["strides"]))))
                else:
                    call.append(nm)
                frees.append(nm)
        L.append("    %s(%s);" % (p.name, ", ".join(call)))
        for nm in frees:
            L.append("    free(%s);" % nm)
        L.append("  }")
    L.append('  printf("DONE\\n");')
    L.append("  return 0;")
    L.append("}")
    return "\n".join(L) + "\n", inputs
