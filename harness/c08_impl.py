"""C08 worker: generates procedures (progen), applies random scheduling operations (sched), observes the REAL backend
on each variant and writes one JSON line per variant.

    c08_impl.py SEED START COUNT NSCHED OUT.jsonl [FEATURES_JSON]

Runs with PYTHONPATH=$EXO_REPO/src:harness, PYTHONHASHSEED=0, EXO_VERIF=1.  For every variant:
  * the LoopIR of every non-instr procedure in the call closure after ParallelAnalysis/PrecisionAnalysis/WindowAnalysis
    is exported as a Gallina term (model input), REAL MemoryAnalysis().run is applied and its output canonicalised;
  * the REAL C text (Procedure.c_code_str()) is produced while lift_to_cir / simplify_cir / comp_cir / comp_e are
    observed; const qualifiers are read off the text;
  * a C `main` with valid inputs is generated (c08_cgen)."""
from __future__ import annotations

import json
import random
import sys
import traceback

import common  # noqa: F401  (sets nothing; keeps path conventions)
import progen
import c08_shapes
import c08_corpus
import c08_export as X
import c08_cgen as G


def variant_record(proc, rng, tag, src, sched_descr, rec: X.Recorder, n_inputs):
    """observe the real backend on Procedure `proc`"""
    from exo.backend.LoopIR_compiler import find_all_subprocs
    from exo.backend.mem_analysis import MemoryAnalysis

    out = {"tag": tag, "src": src, "sched": sched_descr, "procs": [], "div": [], "status": "ok"}
    ir = proc._loopir_proc
    try:
        out["proc_text"] = str(proc)
    except Exception as e:  # printing is another property's business
        out["proc_text"] = "<unprintable: %s>" % e
    # ---- the real C text, with the lowering observed
    rec.rec = []
    rec.on = True
    try:
        code = proc.c_code_str()
    except Exception as e:
        rec.on = False
        out["status"] = "compile-refused"
        out["error"] = "%s: %s" % (type(e).__name__, str(e)[:300])
        out["assertion"] = isinstance(e, AssertionError)
        out["trace"] = traceback.format_exc()[-1500:] if isinstance(e, (AssertionError, KeyError, AttributeError, IndexError)) else ""
        return out
    rec.on = False
    out["c"] = code
    # ---- per procedure: model input, real MemoryAnalysis output, const qualifiers
    procs = sorted(find_all_subprocs([ir]), key=lambda x: x.name)
    for p in procs:
        if p.instr is not None:
            continue
        pr = {"name": p.name}
        try:
            p1 = X.backend_passes(p)
            p2 = MemoryAnalysis().run(p1)
            ex = X.Exporter()
            pr["body"] = ex.stmts(p1.body)
            pr["real_after"] = ex.canon(p2.body)
            pr["body_after"] = ex.stmts(p2.body)
            pr["buf_args"] = [ex.sy(a.name) for a in X.buf_args(p2)]
            pr["names"] = ex.sy.names
            pr["has_instr_call"] = any_instr_call(p2.body)
            pr["const"] = X.observe_const(code, p2)
            pr["n_free"] = count_free_text(code, p2)
            pr["feat"] = features(p1.body)
            from exo.core.LoopIR import get_writes_of_stmts
            pr["writes_real"] = [ex.sy(s) for s, _ in get_writes_of_stmts(p2.body)]
            pr["heap"] = heap_counts(p2.body)
            pr["static_free"] = static_free_check(p2.body)
        except X.Unsupported as e:
            pr["unsupported"] = str(e)
        out["procs"].append(pr)
    # ---- division lowering records
    seen = set()
    n_plain = 0
    for r in rec.rec:
        try:
            sy = X.Syms()
            if r[0] == "lift":
                _, e, fl, k = r
                if not X.has_divmod(e):
                    continue
                term = X.iexp_term(e, sy, lambda x: fl[id(x)])
                d = {"kind": "lift", "term": term, "real": X.kcanon(k, sy), "lit": X.literal_divisors(e)}
            elif r[0] == "simp":
                _, k, k2 = r
                if not X.has_divmod(k):
                    n_plain += 1
                    if n_plain > 4:
                        continue
                term = X.cir_term(k, sy)
                d = {"kind": "simplify", "term": term, "real": ([0] + X.kcanon(k2, sy)) if k2 is not None else [-1],
                     "lit": X.literal_divisors(k)}
            elif r[0] == "cir":
                _, k, text = r
                if not X.has_divmod(k):
                    continue
                d = {"kind": "div_cir", "term": X.cir_term(k, sy), "real": X.div_tokens(text), "text": text,
                     "lit": X.literal_divisors(k)}
            else:
                _, e, fl, text = r
                if not X.has_divmod(e):
                    continue
                d = {"kind": "div_e", "term": X.iexp_term(e, sy, lambda x: fl[id(x)]), "real": X.div_tokens(text),
                     "text": text, "lit": X.literal_divisors(e)}
        except X.Unsupported:
            continue
        key = (d["kind"], d["term"])
        if key in seen:
            continue
        seen.add(key)
        out["div"].append(d)
    # ---- generated main
    try:
        out["main"], out["inputs"] = G.gen_main(ir, code, rng, n_inputs)
    except G.NoInput as e:
        out["main"], out["inputs"] = None, []
        out["noinput"] = str(e)
    return out


def any_instr_call(ss):
    from exo.core.LoopIR import LoopIR
    for s in ss:
        if isinstance(s, LoopIR.Call) and s.f.instr is not None:
            return True
        if isinstance(s, LoopIR.If) and (any_instr_call(s.body) or any_instr_call(s.orelse)):
            return True
        if isinstance(s, LoopIR.For) and any_instr_call(s.body):
            return True
    return False


def features(ss):
    """shape statistics for the evidence / violation keys"""
    from exo.core.LoopIR import LoopIR
    f = {"alloc": 0, "alloc_in_else": 0, "window": 0, "call": 0, "if": 0, "for": 0, "win_of_win": 0}
    wins = set()

    def go(ss, in_else):
        for s in ss:
            if isinstance(s, LoopIR.Alloc):
                f["alloc"] += 1
                if in_else:
                    f["alloc_in_else"] += 1
            elif isinstance(s, LoopIR.WindowStmt):
                f["window"] += 1
                if s.rhs.name in wins:
                    f["win_of_win"] += 1
                wins.add(s.name)
            elif isinstance(s, LoopIR.Call):
                f["call"] += 1
            elif isinstance(s, LoopIR.If):
                f["if"] += 1
                go(s.body, in_else)
                go(s.orelse, True)
            elif isinstance(s, LoopIR.For):
                f["for"] += 1
                go(s.body, in_else)

    go(ss, False)
    return f


def all_syms_e(e, acc):
    """every Sym occurring anywhere in expression e (independent of used_e)"""
    from exo.core.LoopIR import LoopIR
    if isinstance(e, (LoopIR.Read, LoopIR.WindowExpr, LoopIR.StrideExpr)):
        acc.add(e.name)
    if isinstance(e, LoopIR.Read):
        for i in e.idx:
            all_syms_e(i, acc)
    elif isinstance(e, LoopIR.WindowExpr):
        for w in e.idx:
            if isinstance(w, LoopIR.Interval):
                all_syms_e(w.lo, acc)
                all_syms_e(w.hi, acc)
            else:
                all_syms_e(w.pt, acc)
    elif isinstance(e, LoopIR.BinOp):
        all_syms_e(e.lhs, acc)
        all_syms_e(e.rhs, acc)
    elif isinstance(e, LoopIR.USub):
        all_syms_e(e.arg, acc)
    elif isinstance(e, LoopIR.Extern):
        for a in e.args:
            all_syms_e(a, acc)


def all_syms_s(s, acc, wins):
    from exo.core.LoopIR import LoopIR
    if isinstance(s, (LoopIR.Assign, LoopIR.Reduce)):
        acc.add(s.name)
        for i in s.idx:
            all_syms_e(i, acc)
        all_syms_e(s.rhs, acc)
    elif isinstance(s, LoopIR.WriteConfig):
        all_syms_e(s.rhs, acc)
    elif isinstance(s, LoopIR.If):
        all_syms_e(s.cond, acc)
        for b in s.body + s.orelse:
            all_syms_s(b, acc, wins)
    elif isinstance(s, LoopIR.For):
        all_syms_e(s.lo, acc)
        all_syms_e(s.hi, acc)
        for b in s.body:
            all_syms_s(b, acc, wins)
    elif isinstance(s, LoopIR.Call):
        for a in s.args:
            all_syms_e(a, acc)
    elif isinstance(s, LoopIR.WindowStmt):
        wins[s.name] = s.rhs.name
        all_syms_e(s.rhs, acc)
    elif isinstance(s, LoopIR.Alloc):
        acc.add(s.name)


def static_free_check(ss, wins=None, out=None):
    """Direct check of the REAL MemoryAnalysis output, independent of the model and of used_e/used_s: in every scope,
    (a) no statement after `Free x` mentions x or a window whose base chain reaches x, (b) every Alloc of the scope has
    exactly one Free of the scope after it.  Returns a list of findings."""
    from exo.core.LoopIR import LoopIR
    wins = {} if wins is None else wins
    out = [] if out is None else out
    freed = []
    allocd = {}
    for s in ss:
        if isinstance(s, LoopIR.Free):
            if allocd.get(s.name, 0) != 1:
                out.append("free-without-alloc:%s" % s.name)
            allocd[s.name] = allocd.get(s.name, 0) - 1
            freed.append(s.name)
            continue
        acc = set()
        all_syms_s(s, acc, wins)
        reach = set()
        for n in acc:
            seen = 0
            while n is not None and seen < 100:
                reach.add(n)
                n = wins.get(n)
                seen += 1
        for x in freed:
            if x in reach:
                out.append("use-after-free:%s:in-%s" % (x, type(s).__name__))
        if isinstance(s, LoopIR.Alloc):
            allocd[s.name] = allocd.get(s.name, 0) + 1
        elif isinstance(s, LoopIR.If):
            static_free_check(s.body, wins, out)
            static_free_check(s.orelse, wins, out)
        elif isinstance(s, LoopIR.For):
            static_free_check(s.body, wins, out)
    for x, k in allocd.items():
        if k != 0:
            out.append("alloc-not-freed-in-scope:%s" % x)
    return out


def heap_counts(ss):
    """(heap allocations, frees of heap allocations) in an analysed body: DRAM tensors are malloc'ed / free'd"""
    from exo.core.LoopIR import LoopIR
    from exo.core.memory import DRAM
    a = f = 0
    for s in ss:
        if isinstance(s, (LoopIR.Alloc, LoopIR.Free)) and s.mem is DRAM and len(s.type.shape()) > 0:
            if isinstance(s, LoopIR.Alloc):
                a += 1
            else:
                f += 1
        elif isinstance(s, LoopIR.If):
            x, y = heap_counts(s.body)
            u, v = heap_counts(s.orelse)
            a, f = a + x + u, f + y + v
        elif isinstance(s, LoopIR.For):
            x, y = heap_counts(s.body)
            a, f = a + x, f + y
    return [a, f]


def count_free_text(code, p):
    ft = X.c_function_text(code, p.name)
    if ft is None:
        return None
    return {"free": ft[1].count("free("), "malloc": ft[1].count("malloc(")}


def main(argv):
    seed, start, count, nsched, outp = int(argv[1]), int(argv[2]), int(argv[3]), int(argv[4]), argv[5]
    feats = json.loads(argv[6]) if len(argv) > 6 else None
    n_inputs = int(argv[7]) if len(argv) > 7 else 4
    import sched as SC
    from exo.API import Procedure
    from exo.core.configs import Config

    rec = X.Recorder()
    rec.install()
    with open(outp, "w") as fo:
        corpus = c08_corpus.modules() if start < 0 else []
        pre = "c" if start < 0 else "g"
        for i in (range(len(corpus)) if start < 0 else range(start, start + count)):
            rng = random.Random("c08:%d:%d" % (seed, i))
            if start < 0:
                src = corpus[i][1]
            elif i % 5 in (1, 3):  # two fifths: shapes aimed at C08 (c08_shapes); the rest: the general generator
                src = c08_shapes.ShapeGen(rng, "h%d" % i).module("foo")
            else:
                pg = progen.ProgGen(rng, uid="q%d" % i, features=feats)
                src = pg.module("foo")
            mod, err = progen.load_module(src, "c08")
            if mod is None:
                fo.write(json.dumps({"tag": "%s%d" % (pre, i), "status": "frontend-rejected", "error": err, "src": src}) + "\n")
                continue
            p0 = getattr(mod, "foo")
            configs = [v for v in vars(mod).values() if isinstance(v, Config)]
            others = [v for k, v in vars(mod).items() if isinstance(v, Procedure) and k != "foo"]
            variants = [(p0, [])]
            for k in range(nsched):
                p, descr = p0, []
                for _ in range(rng.choice([1, 1, 2, 3])):
                    try:
                        cands = SC.candidates(p, rng, configs=configs, other_procs=())
                    except Exception as e:
                        break
                    rng.shuffle(cands)
                    for (op, d, th) in cands[:12]:
                        try:
                            q = th()
                        except SC.REFUSALS:
                            continue
                        except Exception:
                            continue
                        if isinstance(q, Procedure):
                            p = q
                            descr.append("%s %s" % (op, d))
                            break
                if descr:
                    variants.append((p, descr))
            for k, (p, descr) in enumerate(variants):
                try:
                    r = variant_record(p, rng, "%s%d.v%d" % (pre, i, k), src, descr, rec, n_inputs)
                except Exception as e:
                    r = {"tag": "%s%d.v%d" % (pre, i, k), "status": "harness-error", "error": traceback.format_exc()[-1500:],
                         "src": src, "sched": descr}
                fo.write(json.dumps(r) + "\n")
                fo.flush()
    rec.uninstall()
    return 0


if __name__ == "__main__":
    sys.exit(main(sys.argv))
