"""C06 helpers, part (a): statement trees built directly as LoopIR, atomic edits through the REAL
exo.core.internal_cursors API, canonical export of trees / cursors / forwarding results, and the bridge
to the extracted Coq model (coq/Cursors/_build/c06_driver).

Labels: every statement created here carries a unique tag in ``srcinfo.lineno`` (kept by ``n.update``)
and is registered by ``id()``.  A node of a result tree is labelled by its ``id()`` when the object is
known (carried over unchanged), by its tag when it was rebuilt by ``update`` along the edit spine, and
by the edit's filler label when it is the ``LoopIR.Pass`` that ``Block._delete`` puts into an emptied
block."""
from __future__ import annotations

import subprocess
from pathlib import Path

import common

from exo.core import internal_cursors as ic
from exo.core.LoopIR import LoopIR, T
from exo.core.prelude import Sym, SrcInfo

DRIVER = common.COQ / "Cursors" / "_build" / "c06_driver"

ATTR = {"body": "b", "orelse": "o"}
RATTR = {"b": "body", "o": "orelse"}


# ----------------------------------------------------------------------------------------------------
# specs: nested tuples (label, kind, body, orelse), kind in {"leaf","for","if","proc"}
class World:
    """Owns the label supply and the id()->label table of one generated case."""

    def __init__(self):
        self.next = 0
        self.by_id = {}
        self.keep = []  # keeps every object alive so that id() stays unique

    def fresh(self):
        self.next += 1
        return self.next - 1

    def reg(self, node, lab):
        self.by_id[id(node)] = lab
        self.keep.append(node)
        return node

    # -- construction of real LoopIR from a spec
    def build(self, spec):
        lab, kind, body, orelse = spec
        si = SrcInfo("c06", lab)
        if kind == "leaf":
            n = LoopIR.Pass(si)
        elif kind == "for":
            n = LoopIR.For(Sym("i%d" % lab), LoopIR.Const(0, T.index, si), LoopIR.Const(4, T.index, si),
                           [self.build(c) for c in body], LoopIR.Seq(), si)
        elif kind == "if":
            n = LoopIR.If(LoopIR.Const(True, T.bool, si), [self.build(c) for c in body],
                          [self.build(c) for c in orelse], si)
        elif kind == "proc":
            n = LoopIR.proc("p%d" % lab, [], [], [self.build(c) for c in body], None, si)
        else:
            raise ValueError(kind)
        return self.reg(n, lab)

    # -- export of a real tree to a spec; ``filler`` = label for an unknown Pass (Block._delete filler)
    def export(self, node, filler=None):
        def kind_of(n):
            if isinstance(n, LoopIR.proc):
                return "proc"
            if isinstance(n, LoopIR.For):
                return "for"
            if isinstance(n, LoopIR.If):
                return "if"
            return "leaf"

        def go(n):
            k = kind_of(n)
            if id(n) in self.by_id:
                lab = self.by_id[id(n)]
            elif isinstance(n, LoopIR.Pass):
                if filler is None:
                    raise AssertionError("unknown Pass node and no filler label pending")
                lab = filler
                self.reg(n, lab)
            else:  # rebuilt along the spine by n.update(...): the tag survives
                lab = n.srcinfo.lineno
                self.reg(n, lab)
            body = [go(c) for c in n.body] if k in ("for", "if", "proc") else []
            orelse = [go(c) for c in n.orelse] if k == "if" else []
            return (lab, k, body, orelse)

        return go(node)


def spec_sexp(spec):
    lab, _k, body, orelse = spec
    return [lab, [spec_sexp(c) for c in body], [spec_sexp(c) for c in orelse]]


def spec_size(spec):
    return 1 + sum(spec_size(c) for c in spec[2]) + sum(spec_size(c) for c in spec[3])


def spec_get(spec, path):
    for a, i in path:
        spec = spec[2][i] if a == "b" else spec[3][i]
    return spec


def spec_kids(spec, a):
    return spec[2] if a == "b" else spec[3]


def spec_attrs(spec):
    k = spec[1]
    return {"leaf": [], "for": ["b"], "proc": ["b"], "if": ["b", "o"]}[k]


# ----------------------------------------------------------------------------------------------------
# generators
def gen_stmt(rng, w, depth, budget):
    """budget: mutable [remaining statements]"""
    budget[0] -= 1
    lab = w.fresh()
    r = rng.random()
    if depth >= 3 or budget[0] <= 0 or r < 0.45:
        return (lab, "leaf", [], [])
    if r < 0.75:
        return (lab, "for", gen_block(rng, w, depth + 1, budget, 1), [])
    body = gen_block(rng, w, depth + 1, budget, 1)
    orelse = gen_block(rng, w, depth + 1, budget, 0) if rng.random() < 0.6 else []
    return (lab, "if", body, orelse)


def gen_block(rng, w, depth, budget, minlen):
    n = rng.choice([1, 1, 2, 2, 3, 4]) if minlen else rng.choice([0, 1, 2, 3])
    out = []
    for _ in range(max(n, minlen)):
        if budget[0] <= 0 and len(out) >= minlen:
            break
        out.append(gen_stmt(rng, w, depth, budget))
    return out


def gen_proc_spec(rng, w, max_stmts=12):
    lab = w.fresh()
    budget = [max_stmts]
    body = gen_block(rng, w, 1, budget, 1)
    return (lab, "proc", body, [])


def gen_new_nodes(rng, w, k):
    out = []
    for _ in range(k):
        lab = w.fresh()
        r = rng.random()
        if r < 0.6:
            out.append((lab, "leaf", [], []))
        elif r < 0.85:
            out.append((lab, "for", [(w.fresh(), "leaf", [], [])], []))
        else:
            out.append((lab, "if", [(w.fresh(), "leaf", [], [])],
                        [(w.fresh(), "leaf", [], [])] if rng.random() < 0.5 else []))
    return out


def all_nodes(spec, path=()):
    """all (path, spec) pairs, root included"""
    out = [(path, spec)]
    for a in spec_attrs(spec):
        for i, c in enumerate(spec_kids(spec, a)):
            out.extend(all_nodes(c, path + ((a, i),)))
    return out


def all_lists(spec):
    """all (anchor path, attr, length)"""
    return [(p, a, len(spec_kids(s, a))) for p, s in all_nodes(spec) for a in spec_attrs(s)]


def enum_cursors(spec, odd=False):
    """every node / block (lo<hi) / gap cursor of the tree; ``odd`` adds empty and out-of-range ones"""
    cs = []
    for p, s in all_nodes(spec):
        cs.append(("n", p))
        if p:
            cs.append(("g", p, "before"))
            cs.append(("g", p, "after"))
    for p, a, n in all_lists(spec):
        for lo in range(n):
            for hi in range(lo + 1, n + 1):
                cs.append(("b", p, a, lo, hi))
        if odd:
            for lo in range(n + 1):
                cs.append(("b", p, a, lo, lo))  # empty blocks
            cs.append(("n", p + ((a, n),)))  # dangling node
            cs.append(("b", p, a, 0, n + 1))  # overlong block
    return cs


def cursor_sexp(c):
    def ps(p):
        return [[a, i] for a, i in p]

    if c[0] == "n":
        return ["n", ps(c[1])]
    if c[0] == "g":
        return ["g", ps(c[1]), c[2]]
    return ["b", ps(c[1]), c[2], c[3], c[4]]


def gen_edit(rng, w, spec, kind=None, malformed=False):
    """returns an edit description (tuple) valid for ``spec`` (unless malformed), or None"""
    lists = all_lists(spec)
    nodes = [(p, s) for p, s in all_nodes(spec) if p]
    kind = kind or rng.choice(["replace", "delete", "insert", "wrap", "move", "move", "move"])
    if kind in ("replace", "delete", "wrap", "move"):
        cand = [(p, a, n) for p, a, n in lists if n > 0 or kind == "replace"]
        if not cand:
            return None
        p, a, n = rng.choice(cand)
        if n == 0:
            lo = hi = 0
        else:
            lo = rng.randrange(n)
            hi = rng.randrange(lo + 1, n + 1)
            if kind in ("replace", "delete") and rng.random() < 0.1:
                hi = lo  # empty range: pure insertion / no-op delete
            if rng.random() < 0.25:
                lo, hi = 0, n  # whole list (Pass filler, wrap-whole-body)
        if malformed and rng.random() < 0.5:
            hi = n + 1 + rng.randrange(2)
        if kind == "replace":
            return ("replace", p, a, lo, hi, gen_new_nodes(rng, w, rng.choice([0, 1, 1, 2, 3])))
        if kind == "delete":
            return ("delete", p, a, lo, hi, w.fresh())
        if kind == "wrap":
            wa = rng.choice(["b", "b", "o"])
            other = [(w.fresh(), "leaf", [], [])] if (wa == "o" or rng.random() < 0.3) else []
            wkind = "if" if (wa == "o" or other or rng.random() < 0.4) else "for"
            return ("wrap", p, a, lo, hi, w.fresh(), wa, other, wkind)
        # move: pick a gap
        gaps = []
        for q, _s in nodes:
            under = len(q) > len(p) + 1 and q[: len(p)] == p and q[len(p)][0] == a and lo <= q[len(p)][1] < hi
            if under != malformed:
                continue
            gaps.append(q)
        if not gaps:
            return None
        gp = rng.choice(gaps)
        # bias towards the interesting relative positions: same list, deeper later subtree
        return ("move", p, a, lo, hi, gp, rng.choice(["before", "after"]), w.fresh())
    if kind == "insert":
        if not nodes:
            return None
        gp, _ = rng.choice(nodes)
        return ("insert", gp, rng.choice(["before", "after"]), gen_new_nodes(rng, w, rng.choice([0, 1, 1, 2, 3])))
    raise ValueError(kind)


def edit_sexp(e):
    def ps(p):
        return [[a, i] for a, i in p]

    k = e[0]
    if k == "replace":
        return ["replace", ps(e[1]), e[2], e[3], e[4], [spec_sexp(s) for s in e[5]]]
    if k == "delete":
        return ["delete", ps(e[1]), e[2], e[3], e[4], e[5]]
    if k == "insert":
        return ["insert", ps(e[1]), e[2], [spec_sexp(s) for s in e[3]]]
    if k == "wrap":
        return ["wrap", ps(e[1]), e[2], e[3], e[4], e[5], e[6], [spec_sexp(s) for s in e[7]]]
    if k == "move":
        return ["move", ps(e[1]), e[2], e[3], e[4], ps(e[5]), e[6], e[7]]
    if k == "nop":
        return ["nop"]
    raise ValueError(k)


# ----------------------------------------------------------------------------------------------------
# the real implementation
def mk_cursor(root, c):
    def pp(p):
        return [(RATTR[a], i) for a, i in p]

    if c[0] == "n":
        return ic.Node(root, pp(c[1]))
    if c[0] == "g":
        return ic.Gap(root, ic.Node(root, pp(c[1])), ic.GapType.Before if c[2] == "before" else ic.GapType.After)
    return ic.Block(root, ic.Node(root, pp(c[1])), RATTR[c[2]], range(c[3], c[4]))


def canon_cursor(c):
    """real cursor -> ('n', path) / ('b', path, attr, lo, hi) / ('g', path, side); 'crash' if an index is
    negative or None (garbage path)"""

    def pp(p):
        out = []
        for a, i in p:
            if a not in ATTR or i is None or i < 0:
                return None
            out.append((ATTR[a], i))
        return tuple(out)

    if isinstance(c, ic.Gap):
        p = pp(c._anchor._path)
        return "crash" if p is None else ("g", p, "before" if c._type == ic.GapType.Before else "after")
    if isinstance(c, ic.Block):
        p = pp(c._anchor._path)
        r = c._range
        if p is None or c._attr not in ATTR or r.start < 0 or r.stop < 0 or r.step != 1:
            return "crash"
        return ("b", p, ATTR[c._attr], r.start, r.stop)
    p = pp(c._path)
    return "crash" if p is None else ("n", p)


def impl_apply(w, root, e):
    """apply one edit through the real API; returns (new_root, fwd) or raises"""
    k = e[0]
    if k == "replace":
        return mk_cursor(root, ("b",) + e[1:5])._replace([w.build(s) for s in e[5]])
    if k == "delete":
        return mk_cursor(root, ("b",) + e[1:5])._delete()
    if k == "insert":
        return mk_cursor(root, ("g", e[1], e[2]))._insert([w.build(s) for s in e[3]])
    if k == "wrap":
        _, p, a, lo, hi, wl, wa, other, wkind = e
        si = SrcInfo("c06", wl)
        oth = [w.build(s) for s in other]

        def ctor(**kw):
            (attr, nodes), = kw.items()
            if wkind == "for":
                assert attr == "body" and not oth
                n = LoopIR.For(Sym("w%d" % wl), LoopIR.Const(0, T.index, si), LoopIR.Const(4, T.index, si),
                               nodes, LoopIR.Seq(), si)
            else:
                cond = LoopIR.Const(True, T.bool, si)
                n = LoopIR.If(cond, nodes, oth, si) if attr == "body" else LoopIR.If(cond, oth, nodes, si)
            return w.reg(n, wl)

        return mk_cursor(root, ("b", p, a, lo, hi))._wrap(ctor, RATTR[wa])
    if k == "move":
        _, p, a, lo, hi, gp, s, _pl = e
        return mk_cursor(root, ("b", p, a, lo, hi))._move(mk_cursor(root, ("g", gp, s)))
    raise ValueError(k)


def impl_forward(fwd, root, c):
    try:
        return canon_cursor(fwd(mk_cursor(root, c)))
    except ic.InvalidCursorError:
        return "invalid"
    except (AssertionError, IndexError, TypeError, AttributeError) as ex:  # anything else is left to propagate
        return "crash"


def filler_of(e):
    return {"delete": lambda: e[5], "move": lambda: e[7]}.get(e[0], lambda: None)()


def resolve_spec(spec, c):
    """what a canonical cursor denotes in a spec: label / label list / (label, side); None if dangling"""
    try:
        if c[0] == "n":
            return spec_get(spec, c[1])[0]
        if c[0] == "g":
            if not c[1]:
                return None
            return (spec_get(spec, c[1])[0], c[2])
        s = spec_get(spec, c[1])
        ks = spec_kids(s, c[2])
        if not (0 <= c[3] <= c[4] <= len(ks)):
            return None
        return [x[0] for x in ks[c[3]:c[4]]]
    except (IndexError, KeyError):
        return None


# ----------------------------------------------------------------------------------------------------
# the model
# the variant of internal_cursors.py the code under test has: (wrap_fixed, move_asserts); set by props/C06.py
VARIANT = [(False, True)]


def run_model(jobs, fixed=None, timeout=600):
    """jobs: list of (spec, [edit...], [cursor...]) -> list of parsed result s-expressions"""
    lines = []
    v = VARIANT[0] if fixed is None else fixed
    vs = "v" + ("1" if v[0] else "0") + ("1" if v[1] else "0")
    for spec, edits, cursors in jobs:
        lines.append(common.sexp([vs, spec_sexp(spec), [edit_sexp(e) for e in edits],
                                  [cursor_sexp(c) for c in cursors]]))
    p = subprocess.run([str(DRIVER)], input="\n".join(lines) + "\n", stdout=subprocess.PIPE,
                       stderr=subprocess.PIPE, text=True, timeout=timeout)
    if p.returncode != 0:
        raise RuntimeError("c06_driver failed: " + p.stderr[-400:])
    out = [common.parse_sexp(l) for l in p.stdout.splitlines() if l.strip()]
    if len(out) != len(jobs):
        raise RuntimeError("c06_driver returned %d lines for %d jobs" % (len(out), len(jobs)))
    return out


def model_tree_to_plain(sx):
    """parsed model tree -> nested [label, [body], [orelse]] with ints"""
    if sx == "none":
        return None
    return [int(sx[0]), [model_tree_to_plain(c) for c in sx[1]], [model_tree_to_plain(c) for c in sx[2]]]


def model_cursor(sx):
    def pp(p):
        return tuple((a, int(i)) for a, i in p)

    if sx in ("invalid", "crash"):
        return sx
    assert sx[0] == "ok"
    c = sx[1]
    if c[0] == "n":
        return ("n", pp(c[1]))
    if c[0] == "g":
        return ("g", pp(c[1]), c[2])
    return ("b", pp(c[1]), c[2], int(c[3]), int(c[4]))
