"""C08: generator of Exo source text aimed at the shapes the property text singles out and that the general-purpose
generator (progen) produces only rarely:

  * a buffer allocated in a scope whose LAST use is through a window, a window of a window, or a call that receives
    such a window (use-after-free if the Free is placed by direct uses only);
  * allocations in both branches of an if, in else branches only, inside loop bodies, in nested scopes;
  * strided windows (a column of a 2-D buffer), windows passed to callees that write / only read their formal
    (const-ness of pointers and window structs in caller and callee);
  * `/` and `%` on index expressions that are negative for some valid inputs, in buffer indices (comp_cir path) and in
    conditions / loop bounds / call arguments (comp_e path);
  * stack and static memories next to heap allocations.

Everything is emitted as source text and goes through the real front end like progen's output."""
from __future__ import annotations

import random

HEADER = (
    "from __future__ import annotations\n"
    "from exo import proc, instr, config, DRAM\n"
    "from exo.libs.memories import DRAM_STACK, DRAM_STATIC\n"
    "from exo.libs.externs import relu, select\n"
    "from exo.stdlib.scheduling import *\n"
)


class Buf:
    def __init__(self, name, dims, root, kind, writable=True):
        self.name, self.dims, self.root, self.kind, self.writable = name, dims, root, kind, writable


class ShapeGen:
    def __init__(self, rng: random.Random, uid: str):
        self.rng = rng
        self.uid = uid
        self.n = 0
        self.leaf = False  # no calls when static memory is allocated (exo refuses otherwise)

    def fresh(self, base):
        self.n += 1
        return "%s%d" % (base, self.n)

    # -------------------------------------------------------------- index expressions into an extent-E dimension
    def idx(self, E, ivar, env):
        """expression in [0, E) for ivar in [0, 4); env: names of index arguments k (asserted -2 <= k <= 2)"""
        rng = self.rng
        k = rng.choice(env["idx"]) if env["idx"] else None
        opts = ["plain", "plain", "mod_neg", "mod_neg", "div", "mod_div"]
        if k:
            opts += ["mod_k", "mod_k", "div_k"]
        c = rng.choice(opts)
        if E < 4:
            return "%s %% %d" % (ivar, E) if E > 1 else "0"
        if c == "plain":
            return ivar
        if c == "mod_neg":
            return "(%s - %d) %% %d" % (ivar, rng.choice([1, 2, 3, 5, 7]), E)
        if c == "div":
            return "(%s + %d) / %d" % (ivar, rng.choice([0, 1, 2]), rng.choice([2, 3]))
        if c == "mod_div":
            return "((%s - %d) / 2) %% %d" % (ivar, rng.choice([1, 3, 4]), E)
        if c == "mod_k":
            return "(%s + %s) %% %d" % (ivar, k, E)
        return "((%s + %s + 2) / 2) %% %d" % (ivar, k, E)

    def access(self, b: Buf, ivar, env):
        if not b.dims:
            return b.name
        out = []
        used_iv = False
        for d in b.dims:
            if not used_iv and d >= 4:
                out.append(self.idx(d, ivar, env))
                used_iv = True
            else:
                out.append(str(self.rng.randrange(d)))
        return "%s[%s]" % (b.name, ", ".join(out))

    def window_of(self, b: Buf, want=4):
        """(window expression with one interval of extent `want`, or None)"""
        rng = self.rng
        cands = [q for q, d in enumerate(b.dims) if d >= want]
        if not cands:
            return None
        q = rng.choice(cands)
        acc = []
        for j, d in enumerate(b.dims):
            if j == q:
                lo = rng.randint(0, d - want)
                acc.append("%d:%d" % (lo, lo + want))
            else:
                acc.append(str(rng.randrange(d)))
        return "%s[%s]" % (b.name, ", ".join(acc))

    # -------------------------------------------------------------- statements
    def block(self, env, bufs, depth, ind, nstmts, force_chain=False):
        rng = self.rng
        bufs = list(bufs)
        L = []
        tail = []  # statements that must come last in this block (last use of a window chain)
        for _ in range(nstmts):
            kinds = ["alloc"] * 3 + ["window"] * 4 + ["use"] * 4 + ["call"] * 3 + ["scalar"] + ["chain"] * 2
            if depth > 0:
                kinds += ["if"] * 2 + ["for"] * 2
            k = rng.choice(kinds)
            if force_chain and _ == 0:
                k = "chain"
            if k == "chain":
                # a heap allocation, a chain of 2 or 3 windows on it, and — as the LAST statement of this block — a use
                # through the innermost window only (read / write / call); the buffer and the outer windows are not
                # mentioned after the chain is built
                t = self.fresh("t")
                dims = rng.choice([[8], [8], [4, 8], [8, 4]])
                L.append("%s%s: R[%s]" % (ind, t, ", ".join(map(str, dims))))
                ivs, ind2 = [], ind
                for q, d in enumerate(dims):
                    iv = "z%d" % q
                    L.append("%sfor %s in seq(0, %d):" % (ind2, iv, d))
                    ind2 += "    "
                    ivs.append(iv)
                L.append("%s%s[%s] = %s" % (ind2, t, ", ".join(ivs), rng.choice(["0.0", "1.0", "2.0"])))
                cur = Buf(t, dims, t, "alloc")
                for level in range(rng.choice([2, 2, 3])):
                    w = self.fresh("w")
                    L.append("%s%s = %s" % (ind, w, self.window_of(cur, 4)))
                    cur = Buf(w, [4], t, "win")
                bufs.append(cur)
                others = [b for b in bufs if b.dims and max(b.dims) >= 4 and b.root != t]
                how = rng.choice(["read", "write", "call_src", "call_dst", "rd4"])
                if how in ("call_src", "call_dst", "rd4") and self.leaf:
                    how = "read"
                if not others:
                    how = "write_const"
                if how == "read":
                    d = rng.choice([b for b in others if b.writable] or others)
                    final = ["%sfor i in seq(0, 4):" % ind, "%s    %s = %s[i]" % (ind, self.access(d, "i", env), cur.name)]
                elif how == "write":
                    final = ["%sfor i in seq(0, 4):" % ind, "%s    %s[i] = %s" % (ind, cur.name, self.access(rng.choice(others), "i", env))]
                elif how == "write_const":
                    final = ["%s%s[%d] = 3.0" % (ind, cur.name, rng.randrange(4))]
                elif how == "call_src":
                    d = rng.choice([b for b in others if b.writable] or others)
                    final = ["%scp4%s(%s, %s[0:4])" % (ind, self.uid, self.window_of(d, 4), cur.name)]
                elif how == "call_dst":
                    final = ["%sacc4%s(%s, %s)" % (ind, self.uid, cur.name, self.window_of(rng.choice(others), 4))]
                else:
                    sc = self.fresh("s")
                    final = ["%s%s: R" % (ind, sc), "%s%s = 0.0" % (ind, sc), "%srd4%s(%s, %s[0:4])" % (ind, self.uid, sc, cur.name)]
                tail = final + tail
            elif k == "alloc":
                nm = self.fresh("t")
                dims = rng.choice([[8], [8], [4], [4, 8], [8, 4]])
                mem = ""
                r = rng.random()
                if r < 0.15:
                    mem = " @ DRAM_STACK"
                elif r < 0.22 and self.leaf:
                    mem = " @ DRAM_STATIC"
                L.append("%s%s: R[%s]%s" % (ind, nm, ", ".join(map(str, dims)), mem))
                ivs, ind2 = [], ind
                for q, d in enumerate(dims):
                    iv = "z%d" % q
                    L.append("%sfor %s in seq(0, %d):" % (ind2, iv, d))
                    ind2 += "    "
                    ivs.append(iv)
                L.append("%s%s[%s] = %s" % (ind2, nm, ", ".join(ivs), rng.choice(["0.0", "1.0", "2.0"])))
                bufs.append(Buf(nm, dims, nm, "alloc"))
            elif k == "window":
                src = [b for b in bufs if b.dims and max(b.dims) >= 4]
                # prefer allocated buffers and windows of them
                pref = [b for b in src if b.kind != "arg"]
                if pref and rng.random() < 0.8:
                    src = pref
                if not src:
                    continue
                b = rng.choice(src)
                w = self.window_of(b, 4)
                if w is None:
                    continue
                nm = self.fresh("w")
                L.append("%s%s = %s" % (ind, nm, w))
                bufs.append(Buf(nm, [4], b.root, "win", b.writable))
                if b.kind != "arg" and rng.random() < 0.6:
                    bufs.remove(b)  # from here on the buffer is only reachable through the window
            elif k == "use":
                wr = [b for b in bufs if b.writable and b.dims]
                if not wr:
                    continue
                d = rng.choice(wr)
                s = rng.choice([b for b in bufs if b.dims])
                op = rng.choice(["=", "+="])
                rhs = self.access(s, "i", env)
                if rng.random() < 0.3:
                    rhs = "relu(%s)" % rhs
                elif rng.random() < 0.3:
                    rhs = "%s + %s" % (rhs, self.access(rng.choice([b for b in bufs if b.dims]), "i", env))
                L.append("%sfor i in seq(0, 4):" % ind)
                L.append("%s    %s %s %s" % (ind, self.access(d, "i", env), op, rhs))
            elif k == "scalar":
                nm = self.fresh("s")
                L.append("%s%s: R" % (ind, nm))
                s = rng.choice([b for b in bufs if b.dims])
                L.append("%s%s = %s" % (ind, nm, self.access(s, "0", env)))
                wr = [b for b in bufs if b.writable and b.dims]
                if wr:
                    L.append("%s%s = %s" % (ind, self.access(rng.choice(wr), "1", env), nm))
            elif k == "call" and not self.leaf:
                f = rng.choice(["cp4", "cp4", "acc4", "rd4"])
                if f == "rd4":
                    sc = [b for b in bufs if not b.dims and b.writable]
                    srcs = [b for b in bufs if b.dims and max(b.dims) >= 4]
                    if not srcs:
                        continue
                    s = rng.choice(srcs)
                    # a whole window variable passed for a formal the callee only reads makes exo emit C that does not
                    # compile (struct exo_win_1f32 vs exo_win_1f32c): a C15 matter; keep it rare so that the programs run
                    sw = s.name if s.dims == [4] and rng.random() < 0.05 else self.window_of(s, 4)
                    if sc:
                        L.append("%srd4%s(%s, %s)" % (ind, self.uid, rng.choice(sc).name, sw))
                    else:
                        nm = self.fresh("s")
                        L.append("%s%s: R" % (ind, nm))
                        L.append("%s%s = 0.0" % (ind, nm))
                        L.append("%srd4%s(%s, %s)" % (ind, self.uid, nm, sw))
                    continue
                dsts = [b for b in bufs if b.writable and b.dims and max(b.dims) >= 4]
                if not dsts:
                    continue
                d = rng.choice(dsts)
                srcs = [b for b in bufs if b.dims and max(b.dims) >= 4 and b.root != d.root]
                if not srcs:
                    continue
                s = rng.choice(srcs)
                dw = d.name if d.dims == [4] and rng.random() < 0.6 else self.window_of(d, 4)
                sw = s.name if s.dims == [4] and rng.random() < 0.05 else self.window_of(s, 4)
                L.append("%s%s%s(%s, %s)" % (ind, f, self.uid, dw, sw))
            elif k == "if":
                cond = rng.choice(["n > %d" % rng.randint(1, 4), "n == %d" % rng.randint(1, 3)] +
                                  (["%s >= %d" % (env["idx"][0], rng.randint(-1, 1)),
                                    "(%s - 1) / 2 == %d" % (env["idx"][0], rng.choice([-1, 0])),
                                    "(%s + n) %% 3 == %d" % (env["idx"][0], rng.randint(0, 2))] if env["idx"] else []))
                L.append("%sif %s:" % (ind, cond))
                L += self.block(env, bufs, depth - 1, ind + "    ", rng.randint(1, 4)) or [ind + "    pass"]
                if rng.random() < 0.7:
                    L.append("%selse:" % ind)
                    L += self.block(env, bufs, depth - 1, ind + "    ", rng.randint(1, 4)) or [ind + "    pass"]
            elif k == "for":
                hi = rng.choice(["n", "n", "2", "3", "1"])
                it = rng.choice(["j", "jj"])
                L.append("%sfor %s in seq(0, %s):" % (ind, it, hi))
                L += self.block(env, bufs, depth - 1, ind + "    ", rng.randint(1, 3)) or [ind + "    pass"]
        return L + tail

    def module(self, name="foo"):
        rng = self.rng
        u = self.uid
        self.leaf = rng.random() < 0.2
        parts = [HEADER]
        parts.append("@proc\ndef cp4%s(dst: [R][4], src: [R][4]):\n    for i in seq(0, 4):\n        dst[i] = src[i]\n" % u)
        parts.append("@proc\ndef acc4%s(dst: [R][4], src: [R][4]):\n    for i in seq(0, 4):\n        dst[i] += src[(i + 1) %% 4]\n" % u)
        parts.append("@proc\ndef rd4%s(s: R, src: [R][4]):\n    s = src[0] + src[3]\n" % u)
        sig = ["n: size"]
        preds = ["assert n <= 8"]
        env = {"idx": []}
        if rng.random() < 0.75:
            sig.append("k: index")
            env["idx"].append("k")
            preds += ["assert k >= -2", "assert k <= 2"]
        bufs = []
        for nm, ty, dims in rng.sample([("x", "R[8]", [8]), ("y", "[R][8]", [8]), ("z", "R[4, 8]", [4, 8]), ("u", "[R][8, 4]", [8, 4]),
                                        ("v", "R[4]", [4])], rng.randint(2, 4)):
            sig.append("%s: %s" % (nm, ty))
            bufs.append(Buf(nm, dims, nm, "arg"))
        body = self.block(env, bufs, 2, "    ", rng.randint(3, 7), force_chain=rng.random() < 0.7)
        if not body:
            body = ["    pass"]
        parts.append("@proc\ndef %s(%s):\n%s%s\n" % (name, ", ".join(sig), "".join("    %s\n" % p for p in preds), "\n".join(body)))
        return "\n".join(parts)
