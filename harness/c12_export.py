"""C12: LoopIR -> s-expression exporter for the Simplify model (coq/Simplify/Model.v).

The model sees a procedure as: size arguments, predicates, and a statement tree whose leaves carry their
"slots" = the maximal sub-expressions of indexable or bool type, in the order LoopIR_Rewrite.map_s / map_e / map_t
visit them.  Every node carries (type, srcinfo identity); srcinfo identities are numbered by first occurrence in a
table shared between the export of the input and of the output of simplify, so that the two texts are comparable
and LoopIR's structural `==` (which compares srcinfo by identity) can be modelled.
"""
from __future__ import annotations

from exo.core.LoopIR import LoopIR, T

OPS = {"+": "add", "-": "sub", "*": "mul", "/": "div", "%": "mod", "and": "and", "or": "or",
       "<": "lt", ">": "gt", "<=": "le", ">=": "ge", "==": "eq"}
KINDS = {"Pass": 0, "Assign": 1, "Reduce": 2, "Call": 3, "Alloc": 4, "WriteConfig": 5, "WindowStmt": 6}


class Unsupported(Exception):
    pass


def tyname(t) -> str:
    if isinstance(t, T.Int):
        return "int"
    if isinstance(t, T.Index):
        return "index"
    if isinstance(t, T.Size):
        return "size"
    if isinstance(t, T.Bool):
        return "bool"
    return "other"


def in_model(t) -> bool:
    return tyname(t) != "other"


class Exporter:
    def __init__(self):
        self.src = {}  # id(srcinfo) -> small int
        self.keep = []  # keep srcinfo objects alive so that id() stays unique

    def sid(self, srcinfo) -> int:
        k = id(srcinfo)
        if k not in self.src:
            self.src[k] = len(self.src) + 1
            self.keep.append(srcinfo)
        return self.src[k]

    # ---------------------------------------------------------------- expressions of the model
    def ann(self, e) -> str:
        return "%s %d" % (tyname(e.type), self.sid(e.srcinfo))

    def expr(self, e) -> str:
        if isinstance(e, LoopIR.Read):
            if e.idx:
                raise Unsupported("indexed read inside a model expression")
            return "(v %s %d %s)" % (e.name.name(), e.name._id, self.ann(e))
        if isinstance(e, LoopIR.Const):
            v = e.val
            if isinstance(v, bool):
                v = 1 if v else 0
            if not isinstance(v, int):
                raise Unsupported("non-integer constant %r" % (v,))
            return "(c %d %s)" % (v, self.ann(e))
        if isinstance(e, LoopIR.USub):
            return "(n %s %s)" % (self.expr(e.arg), self.ann(e))
        if isinstance(e, LoopIR.BinOp):
            return "(b %s %s %s %s)" % (OPS[e.op], self.expr(e.lhs), self.expr(e.rhs), self.ann(e))
        if isinstance(e, LoopIR.ReadConfig):
            return "(g %s %s %s)" % (e.config.name(), e.field, self.ann(e))
        raise Unsupported(type(e).__name__)

    # ---------------------------------------------------------------- slots (order of LoopIR_Rewrite)
    def slots_e(self, e) -> list:
        if in_model(e.type):
            return [e]
        if isinstance(e, LoopIR.Read):
            return self.slots_t(e.type) + [x for i in e.idx for x in self.slots_e(i)]
        if isinstance(e, LoopIR.BinOp):
            return self.slots_e(e.lhs) + self.slots_e(e.rhs) + self.slots_t(e.type)
        if isinstance(e, LoopIR.Extern):
            return self.slots_t(e.type) + [x for a in e.args for x in self.slots_e(a)]
        if isinstance(e, LoopIR.USub):
            return self.slots_e(e.arg) + self.slots_t(e.type)
        if isinstance(e, LoopIR.WindowExpr):
            return [x for w in e.idx for x in self.slots_w(w)] + self.slots_t(e.type)
        if isinstance(e, LoopIR.ReadConfig):
            return self.slots_t(e.type)
        if isinstance(e, (LoopIR.Const, LoopIR.StrideExpr)):
            return []
        raise Unsupported(type(e).__name__)

    def slots_w(self, w) -> list:
        if isinstance(w, LoopIR.Interval):
            return self.slots_e(w.lo) + self.slots_e(w.hi)
        return self.slots_e(w.pt)

    def slots_t(self, t) -> list:
        if isinstance(t, T.Tensor):
            return [x for h in t.hi for x in self.slots_e(h)] + self.slots_t(t.type)
        if isinstance(t, T.Window):
            return self.slots_t(t.src_type) + self.slots_t(t.as_tensor) + [x for w in t.idx for x in self.slots_w(w)]
        return []

    def leaf_slots(self, s) -> list:
        if isinstance(s, (LoopIR.Assign, LoopIR.Reduce)):
            return self.slots_t(s.type) + [x for i in s.idx for x in self.slots_e(i)] + self.slots_e(s.rhs)
        if isinstance(s, (LoopIR.WriteConfig, LoopIR.WindowStmt)):
            return self.slots_e(s.rhs)
        if isinstance(s, LoopIR.Call):
            return [x for a in s.args for x in self.slots_e(a)]
        if isinstance(s, LoopIR.Alloc):
            return self.slots_t(s.type)
        if isinstance(s, LoopIR.Pass):
            return []
        raise Unsupported(type(s).__name__)

    # ---------------------------------------------------------------- statements / procedures
    def stmt(self, s) -> str:
        if isinstance(s, LoopIR.If):
            return "(if %d %s %s %s)" % (self.sid(s.srcinfo), self.expr(s.cond), self.stmts(s.body),
                                         self.stmts(s.orelse))
        if isinstance(s, LoopIR.For):
            return "(for %d %s %d %s %s %s)" % (self.sid(s.srcinfo), s.iter.name(), s.iter._id, self.expr(s.lo),
                                                self.expr(s.hi), self.stmts(s.body))
        k = KINDS[type(s).__name__]
        return "(leaf %d %d (%s))" % (k, self.sid(s.srcinfo), " ".join(self.expr(e) for e in self.leaf_slots(s)))

    def stmts(self, ss) -> str:
        return "(" + " ".join(self.stmt(s) for s in ss) + ")"

    def proc(self, p) -> str:
        sizes = " ".join("(%s %d)" % (a.name.name(), a.name._id) for a in p.args if isinstance(a.type, T.Size))
        preds = " ".join(self.expr(e) for e in p.preds)
        return "(proc %d (%s) (%s) %s)" % (self.sid(p.srcinfo), sizes, preds, self.stmts(p.body))
