#!/venv/bin/python
"""replay.py <replay.json>: show what a VIOLATION replay file contains and re-run the check that wrote it with the
same seed (every random choice of a check derives from its seed, so the same failing case is regenerated; corpus and
witness cases are deterministic and run first)."""
import json, os, subprocess, sys
path = sys.argv[1]
d = json.load(open(path))
pid, seed = d["property"], d.get("seed", 20260923)
print("property:", pid)
print("key     :", d.get("key"))
print("what    :", d.get("what"))
r = d.get("replay") or {}
for k in ("program", "schedule", "source", "result", "input", "old_outcome", "new_outcome"):
    if isinstance(r, dict) and k in r:
        print("--- %s\n%s" % (k, r[k] if isinstance(r[k], str) else json.dumps(r[k])))
if "no_longer_checks" in d:
    print("--- no longer checks:\n" + json.dumps(d["no_longer_checks"], indent=1)[:3000])
print("--- re-running: check.py %s --seed %s" % (pid, seed))
tier = "--thorough" if "--thorough" in sys.argv else "--quick"
sys.exit(subprocess.call(["/venv/bin/python", os.path.join(os.path.dirname(os.path.abspath(__file__)), "check.py"), pid, tier, "--seed", str(seed)]))
