"""C03: client of the extracted Bounds tools (coq/Bounds/_build/bounds: vcgen, locate) and the SMT-LIB
rendering of Bounds.VC.vc discharged by z3 (an oracle for `valid`, exactly like the solver exo uses)."""
from __future__ import annotations

import os
import subprocess
import time

import common

TOOL = str(common.COQ / "Bounds" / "_build" / "bounds")


class Tool:
    def __init__(self):
        if not os.path.exists(TOOL):
            rc, out = common.sh(["bash", "extract.sh"], cwd=common.COQ / "Bounds", timeout=600)
            if rc != 0:
                raise RuntimeError("cannot build the extracted Bounds tool: " + out[-500:])
        for attempt in range(6):
            try:
                self.p = subprocess.Popen([TOOL], stdin=subprocess.PIPE, stdout=subprocess.PIPE, text=True, bufsize=1)
                break
            except OSError:
                if attempt == 5:
                    raise
                time.sleep(4)

    def ask(self, line: str) -> str:
        self.p.stdin.write(line + "\n")
        self.p.stdin.flush()
        out = self.p.stdout.readline()
        if not out:
            raise RuntimeError("Bounds tool died on: " + line[:300])
        return out.strip()

    def define(self, defs):
        for d in defs:
            r = self.ask(d)
            assert r == "ok", (r, d[:200])

    def vcgen(self, name: str):
        """None if the procedure is outside the fragment, else a list of (vars, hyps, goal) s-expressions"""
        out = self.ask("(vcgen %s)" % name)
        if out == "outside":
            return None
        assert out.startswith("vcs "), out[:200]
        return common.parse_sexp(out[4:])

    def locate(self, name: str, inp: str) -> str:
        return self.ask("(locate %s %s)" % (name, inp))

    def locate_mem(self, name: str, inp: str) -> str:
        return self.ask("(locate-mem %s %s)" % (name, inp))

    def run(self, name: str, inp: str) -> str:
        return self.ask("(run %s %s)" % (name, inp))

    def close(self):
        try:
            self.p.stdin.close()
            self.p.wait(timeout=5)
        except Exception:
            self.p.kill()


# ---------------------------------------------------------------------------------------------- SMT-LIB
_OPS = {"+": "+", "-": "-", "*": "*", "/": "div", "%": "mod", "<": "<", ">": ">", "<=": "<=", ">=": ">=",
        "==": "=", "and": "and", "or": "or"}


def smt_expr(e) -> str:
    h = e[0]
    if h == "var":
        return "v" + e[1]
    if h == "int":
        z = int(e[1])
        return str(z) if z >= 0 else "(- %d)" % -z
    if h == "bool":
        return e[1]
    if h == "neg":
        return "(- %s)" % smt_expr(e[1])
    if h == "bin":
        return "(%s %s %s)" % (_OPS[e[1]], smt_expr(e[2]), smt_expr(e[3]))
    raise ValueError("not a control expression: %r" % (e,))


def smt_prelude(vars_, hyps) -> str:
    lines = []
    for ty, x in vars_:
        lines.append("(declare-const v%s %s)" % (x, "Bool" if ty == "bool" else "Int"))
    for h in hyps:
        lines.append("(assert %s)" % smt_expr(h))
    return "\n".join(lines)


def smt_of_vc(vc) -> str:
    vars_, hyps, goal = vc
    return smt_prelude(vars_, hyps) + "\n(assert (not %s))\n(check-sat)\n" % smt_expr(goal)


def goal_kind(goal) -> str:
    """coarse classification of what a VC asks (for the evidence and for comparing with exo's message)"""
    g = goal
    if g[0] == "bin" and g[1] == "and":
        inner = g[3]
        if inner[0] == "bin" and inner[1] == "and":
            return "window-interval"
        return "index-in-bounds"
    if g[0] == "bin" and g[1] == "<=":
        return "loop-trip"
    if g[0] == "bin" and g[1] == "<" and g[2] == ["int", "0"]:
        return "positive-extent"
    if g[0] == "bin" and g[1] == "==":
        return "shape-or-assert"
    return "assertion"


class Discharger:
    """z3 over the SMT-LIB text of each VC; VCs sharing declarations+hypotheses share one solver frame"""

    def __init__(self, timeout_ms=2000):
        import z3

        self.z3 = z3
        self.timeout_ms = timeout_ms
        self.cache = {}
        self.calls = 0
        self.unknown = 0

    def check(self, vcs):
        """-> list of 'valid' | 'invalid' | 'unknown' per VC (same order)"""
        z3 = self.z3
        out = [None] * len(vcs)
        groups = {}
        for k, (vars_, hyps, goal) in enumerate(vcs):
            pre = smt_prelude(vars_, hyps)
            groups.setdefault(pre, []).append((k, goal))
        for pre, items in groups.items():
            s = None
            for k, goal in items:
                g = smt_expr(goal)
                key = (pre, g)
                if key in self.cache:
                    out[k] = self.cache[key]
                    continue
                if s is None:
                    s = z3.Solver()
                    s.set("timeout", self.timeout_ms)
                    s.from_string(pre)
                s.push()
                # declarations are visible to from_string only within one string: re-declare through the prelude's
                # symbols by parsing the goal in the context of the existing declarations
                decls = {}
                for line in pre.split("\n"):
                    if line.startswith("(declare-const "):
                        nm, ty = line[len("(declare-const "):-1].split()
                        decls[nm] = z3.Bool(nm) if ty == "Bool" else z3.Int(nm)
                f = z3.parse_smt2_string("(assert (not %s))" % g, decls=decls)
                s.add(f)
                self.calls += 1
                r = s.check()
                s.pop()
                v = "valid" if r == z3.unsat else "invalid" if r == z3.sat else "unknown"
                if v == "unknown":
                    self.unknown += 1
                self.cache[key] = v
                out[k] = v
            if len(self.cache) > 200000:
                self.cache.clear()
        return out
