"""C05: generation of `replace` instances.

An *instance* is (p, block, callee): a real exo Procedure `p`, the position of a statement block in it and
a callee Procedure.  True instances are obtained the way the property text describes the inverse: a caller
that CALLS the callee (checked by the real front end) is run through the real `inline` (optionally followed
by `inline_window` / `simplify`), so the resulting block is the callee's body under a known argument
binding.  Perturbed instances are the same block with one small LoopIR-level edit (index offset, stride,
bound, operand order, constant, buffer, transposition, Assign<->Reduce) that makes it (usually) a
non-instance; the real `replace` has to reject those or produce a semantically equal program.

Everything random derives from the rng handed in."""
from __future__ import annotations

import random

import common  # noqa: F401
import progen

import exo.API_cursors as PC
import exo.core.internal_cursors as ic
from exo.API import Procedure
from exo.core.LoopIR import LoopIR, T

HEADER = progen.HEADER


# ------------------------------------------------------------------------------------------------
# callee templates.  formals: list of (name, kind, dims) with kind in size|index|bool|scalar|tensor;
# dims of a tensor: ints or names of size formals.  `need`: lower bounds of size formals implied by preds.
# ------------------------------------------------------------------------------------------------
def _rhs_variants(rng, dst, src, extra=None):
    opts = [
        "{s}",
        "{s} + 1.0",
        "2.0 * {s}",
        "{s} * {s}",
        "{s} - 3.0",
        "3.0 - {s}",
    ]
    if extra:
        opts += ["{s} + {e}", "{s} * {e}", "{e} - {s}", "{s} - {e}"]
    return rng.choice(opts).format(s=src, e=extra)


def callee_vec(rng):
    op = rng.choice(["=", "=", "+="])
    variant = rng.choice(["plain", "rev", "shift", "lo1", "guard", "two"])
    preds, need = [], {}
    if variant == "plain":
        body = ["for i in seq(0, n):", "    dst[i] %s %s" % (op, _rhs_variants(rng, "dst[i]", "src[i]"))]
    elif variant == "rev":
        body = ["for i in seq(0, n):", "    dst[i] %s %s" % (op, _rhs_variants(rng, "dst[i]", "src[n - 1 - i]"))]
    elif variant == "shift":
        preds, need = ["assert n >= 2"], {"n": 2}
        body = ["for i in seq(0, n - 1):", "    dst[i] %s %s" % (op, _rhs_variants(rng, "dst[i]", "src[i + 1]", "src[i]"))]
    elif variant == "lo1":
        preds, need = ["assert n >= 1"], {"n": 1}
        body = ["for i in seq(1, n):", "    dst[i] %s %s" % (op, _rhs_variants(rng, "dst[i]", "src[i - 1]"))]
    elif variant == "guard":
        preds, need = ["assert n >= 2"], {"n": 2}
        body = ["for i in seq(0, n):", "    if i < n - 1:", "        dst[i] %s %s" % (op, _rhs_variants(rng, "dst[i]", "src[i + 1]")),
                "    else:", "        dst[i] = 0.0"]
    else:
        body = ["for i in seq(0, n):", "    dst[i] %s %s" % (op, _rhs_variants(rng, "dst[i]", "src[i]")),
                "for j in seq(0, n):", "    dst[j] += src[j]"]
    if rng.random() < 0.25:
        preds.append("assert stride(src, 0) == 1")
    return dict(kind="vec:" + variant, sig=["n: size", "dst: [R][n]", "src: [R][n]"],
                formals=[("n", "size", None), ("dst", "tensor", ["n"]), ("src", "tensor", ["n"])],
                preds=preds, need=need, body=body)


def callee_fix(rng):
    c = rng.choice([2, 4])
    variant = rng.choice(["copy", "fma", "bcast", "bcast_scalar", "zero", "alloc"])
    preds = []
    if variant == "copy":
        sig = ["dst: [R][%d]" % c, "src: [R][%d]" % c]
        formals = [("dst", "tensor", [c]), ("src", "tensor", [c])]
        body = ["for i in seq(0, %d):" % c, "    dst[i] = src[i]"]
    elif variant == "fma":
        sig = ["dst: [R][%d]" % c, "a: [R][%d]" % c, "b: [R][%d]" % c]
        formals = [("dst", "tensor", [c]), ("a", "tensor", [c]), ("b", "tensor", [c])]
        body = ["for i in seq(0, %d):" % c, "    dst[i] += a[i] * b[i]"]
    elif variant == "bcast":
        sig = ["dst: [R][%d]" % c, "val: [R][1]"]
        formals = [("dst", "tensor", [c]), ("val", "tensor", [1])]
        body = ["for i in seq(0, %d):" % c, "    dst[i] = val[0]"]
    elif variant == "bcast_scalar":
        sig = ["dst: [R][%d]" % c, "val: R"]
        formals = [("dst", "tensor", [c]), ("val", "scalar", None)]
        body = ["for i in seq(0, %d):" % c, "    dst[i] = val"]
    elif variant == "zero":
        sig = ["dst: [R][%d]" % c]
        formals = [("dst", "tensor", [c])]
        body = ["for i in seq(0, %d):" % c, "    dst[i] = 0.0"]
    else:
        sig = ["dst: [R][%d]" % c, "src: [R][%d]" % c]
        formals = [("dst", "tensor", [c]), ("src", "tensor", [c])]
        body = ["for i in seq(0, %d):" % c, "    tmp: R", "    tmp = src[i]", "    dst[i] = tmp + tmp"]
    if rng.random() < 0.5:
        for (nm, k, d) in formals:
            if k == "tensor" and d != [1] and rng.random() < 0.7:
                preds.append("assert stride(%s, 0) == 1" % nm)
    return dict(kind="fix:" + variant, sig=sig, formals=formals, preds=preds, need={}, body=body)


def callee_mat(rng):
    variant = rng.choice(["copy", "transpose", "rowsum", "fixed"])
    preds, need = [], {}
    if variant == "copy":
        sig = ["n: size", "m: size", "dst: [R][n, m]", "src: [R][n, m]"]
        formals = [("n", "size", None), ("m", "size", None), ("dst", "tensor", ["n", "m"]), ("src", "tensor", ["n", "m"])]
        body = ["for i in seq(0, n):", "    for j in seq(0, m):", "        dst[i, j] = src[i, j]"]
    elif variant == "transpose":
        sig = ["n: size", "m: size", "dst: [R][n, m]", "src: [R][m, n]"]
        formals = [("n", "size", None), ("m", "size", None), ("dst", "tensor", ["n", "m"]), ("src", "tensor", ["m", "n"])]
        body = ["for i in seq(0, n):", "    for j in seq(0, m):", "        dst[i, j] = src[j, i]"]
    elif variant == "rowsum":
        sig = ["n: size", "m: size", "dst: [R][n]", "src: [R][n, m]"]
        formals = [("n", "size", None), ("m", "size", None), ("dst", "tensor", ["n"]), ("src", "tensor", ["n", "m"])]
        body = ["for i in seq(0, n):", "    for j in seq(0, m):", "        dst[i] += src[i, j]"]
    else:
        sig = ["dst: [R][2, 4]", "src: [R][4, 2]"]
        formals = [("dst", "tensor", [2, 4]), ("src", "tensor", [4, 2])]
        body = ["for i in seq(0, 2):", "    for j in seq(0, 4):", "        dst[i, j] += 2.0 * src[j, i]"]
        if rng.random() < 0.5:
            preds.append("assert stride(dst, 1) == 1")
    return dict(kind="mat:" + variant, sig=sig, formals=formals, preds=preds, need=need, body=body)


def callee_ctl(rng):
    variant = rng.choice(["bound", "index", "bool", "idxoff"])
    preds, need = [], {}
    if variant == "bound":
        sig = ["dst: [R][4]", "src: [R][4]", "bound: size"]
        formals = [("dst", "tensor", [4]), ("src", "tensor", [4]), ("bound", "size", None)]
        body = ["for i in seq(0, 4):", "    if i < bound:", "        dst[i] = src[i]"]
        if rng.random() < 0.5:
            preds, need = ["assert bound <= 4"], {}
    elif variant == "index":
        sig = ["dst: [R][4]", "src: [R][4]", "k: index"]
        formals = [("dst", "tensor", [4]), ("src", "tensor", [4]), ("k", "index", None)]
        preds = ["assert k >= 0", "assert k < 4"]
        body = ["for i in seq(0, 4):", "    dst[i] = src[k]", "dst[k] += 1.0"]
    elif variant == "bool":
        sig = ["dst: [R][4]", "src: [R][4]", "b: bool"]
        formals = [("dst", "tensor", [4]), ("src", "tensor", [4]), ("b", "bool", None)]
        body = ["for i in seq(0, 4):", "    if b:", "        dst[i] = src[i]", "    else:", "        dst[i] = 0.0"]
    elif variant == "lohi":
        sig = ["n: size", "m: size", "dst: [R][n]", "src: [R][n]"]
        formals = [("n", "size", None), ("m", "size", None), ("dst", "tensor", ["n"]), ("src", "tensor", ["n"])]
        preds, need = ["assert m < n"], {"n": 2, "m<n": True}
        body = ["for i in seq(m, n):", "    dst[i] = src[i]"]
    else:
        sig = ["dst: [R][8]", "src: [R][4]", "k: index"]
        formals = [("dst", "tensor", [8]), ("src", "tensor", [4]), ("k", "index", None)]
        preds = ["assert k >= 0", "assert k <= 4"]
        body = ["for i in seq(0, 4):", "    dst[i + k] = src[i]"]
    return dict(kind="ctl:" + variant, sig=sig, formals=formals, preds=preds, need=need, body=body)


CMP_OPS = ["==", "<", "<=", ">", ">="]


def callee_guard(rng):
    """guards that compare an index expression with control formals, one of every comparison operator,
    alone or combined with and / or"""
    variant = rng.choice(["one", "one", "one-else", "and", "or"])
    preds = []
    if variant in ("one", "one-else"):
        op = rng.choice(CMP_OPS)
        lhs = rng.choice(["i", "i", "i + 1", "k"])
        cond = {"i": "i %s k", "k": "k %s i", "i + 1": "i + 1 %s k"}[lhs] % op
        sig = ["dst: [R][4]", "src: [R][4]", "k: index"]
        formals = [("dst", "tensor", [4]), ("src", "tensor", [4]), ("k", "index", None)]
        body = ["for i in seq(0, 4):", "    if %s:" % cond, "        dst[i] = src[i]"]
        if variant == "one-else":
            body += ["    else:", "        dst[i] = 0.0"]
        kind = "guard:%s" % op
    else:
        o1, o2 = rng.choice([">=", ">", "=="]), rng.choice(["<", "<=", "=="])
        conn = "and" if variant == "and" else "or"
        sig = ["dst: [R][4]", "src: [R][4]", "lo: index", "hi: index"]
        formals = [("dst", "tensor", [4]), ("src", "tensor", [4]), ("lo", "index", None), ("hi", "index", None)]
        body = ["for i in seq(0, 4):", "    if i %s lo %s i %s hi:" % (o1, conn, o2), "        dst[i] += src[i]"]
        kind = "guard:%s" % conn
    return dict(kind=kind, sig=sig, formals=formals, preds=preds, need={}, body=body)


def callee_scalar(rng):
    variant = rng.choice(["acc", "scale"])
    if variant == "acc":
        sig = ["s: R", "src: [R][4]"]
        formals = [("s", "scalar", None), ("src", "tensor", [4])]
        body = ["for i in seq(0, 4):", "    s += src[i]"]
    else:
        sig = ["dst: [R][4]", "s: R"]
        formals = [("dst", "tensor", [4]), ("s", "scalar", None)]
        body = ["for i in seq(0, 4):", "    dst[i] = dst[i] * s"]
    return dict(kind="scalar:" + variant, sig=sig, formals=formals, preds=[], need={}, body=body)


TEMPLATES = [callee_vec, callee_vec, callee_fix, callee_fix, callee_mat, callee_ctl, callee_ctl, callee_scalar,
             callee_guard, callee_guard, callee_guard]


def callee_src(c, name="callee"):
    c["name"] = name
    return "@proc\ndef %s(%s):\n%s%s\n" % (
        name, ", ".join(c["sig"]), "".join("    %s\n" % p for p in c["preds"]), "\n".join("    " + l for l in c["body"]))


def callee_from_progen(rng):
    """a random sub-procedure body from the shared program generator ('/' and '%' are outside the unifier)"""
    g = progen.ProgGen(rng, features={"divmod": 0.0, "config": 0.0, "extern": 0.0, "par": 0.0, "shadow": 0.0})
    src = g.subproc()
    sp = g.subprocs[-1]
    need = {}
    if "assert n >= 2" in src:
        need["n"] = 2
    formals = [(a, "tensor" if k == "tensor" else k, d) for (a, k, d) in sp["args"]]
    return dict(kind="gen", name=sp["name"], formals=formals, preds=[], need=need, src=src)


# ------------------------------------------------------------------------------------------------
# callers
# ------------------------------------------------------------------------------------------------
def make_caller(rng, c, name="caller"):
    """Exo source of a procedure that calls the callee `c` once with window / offset / point arguments."""
    use_loop = rng.random() < 0.6
    sizes_sym = rng.random() < 0.35
    sig, preds, pre = [], [], []
    szval = {}
    have_N = False
    for (nm, kind, dims) in c["formals"]:
        if kind == "size":
            lo = c["need"].get(nm, 1)
            if sizes_sym and nm == "n" and not c["need"].get("m<n"):
                szval[nm] = "N"
                have_N = True
                if lo > 1:
                    preds.append("assert N >= %d" % lo)
            else:
                szval[nm] = rng.randint(max(lo, 1), 4)
    if c["need"].get("m<n"):
        szval["n"] = rng.randint(2, 4)
        szval["m"] = rng.randint(1, szval["n"] - 1)
    if "bound" in szval and isinstance(szval["bound"], int):
        szval["bound"] = rng.randint(1, 4)
    if have_N:
        sig.append("N: size")
    args, used = [], 0
    bufnames = ["x", "y", "u", "v"]
    for (nm, kind, dims) in c["formals"]:
        if kind == "size":
            args.append(str(szval[nm]))
        elif kind == "index":
            args.append(rng.choice(["0", "1", "2", "io"] if use_loop else ["0", "1", "2", "3"]))
        elif kind == "bool":
            if rng.random() < 0.5:
                sig.append("bb: bool") if "bb: bool" not in sig else None
                args.append("bb")
            else:
                args.append(rng.choice(["io < 1", "io == 0"]) if use_loop else rng.choice(["True", "False"]))
        elif kind == "scalar":
            b = "s%d" % used
            used += 1
            sig.append("%s: R" % b)
            args.append(b)
        else:
            b = bufnames[used % 4] + (str(used // 4) if used >= 4 else "")
            used += 1
            want = [szval.get(d, d) for d in dims]
            bdims, acc = [], []
            extra = rng.choice([0, 0, 1]) if len(want) < 2 else rng.choice([0, 0, 0, 1])
            pos_extra = rng.randrange(len(want) + 1) if extra else -1
            whole = True
            for k, w in enumerate(want + ([None] if pos_extra == len(want) else [])):
                if k == pos_extra:
                    bdims.append("8")
                    acc.append(rng.choice(["io", "0", "3", "io + 1"] if use_loop else ["0", "3", "5"]))
                    whole = False
                    if w is None:
                        break
                if w is None:
                    break
                if w == "N":
                    bdims.append("N")
                    acc.append("0:N")
                else:
                    ext = rng.choice([w, 8, 8, 12]) if rng.random() < 0.8 else w
                    ext = max(ext, w)
                    room = ext - w
                    if use_loop and room >= 2 * 1 and rng.random() < 0.4:
                        step = rng.choice([s for s in (1, 2, w) if s * 1 <= room] or [1])
                        lo = "%d * io" % step if step != 1 else "io"
                        k0 = rng.randint(0, room - step)
                        if k0:
                            lo += " + %d" % k0
                        acc.append("%s:%s + %d" % (lo, lo, w))
                        whole = False
                    else:
                        lo = rng.randint(0, room)
                        acc.append("%d:%d" % (lo, lo + w))
                        if ext != w:
                            whole = False
                    bdims.append(str(ext))
            sig.append("%s: R[%s]" % (b, ", ".join(bdims)))
            if whole and rng.random() < 0.5:
                args.append(b)
            else:
                args.append("%s[%s]" % (b, ", ".join(acc)))
    call = "%s(%s)" % (c["name"], ", ".join(args))
    lines = []
    npre = 0
    if rng.random() < 0.3 and used:
        pass
    if use_loop:
        lines.append("for io in seq(0, 2):")
        lines.append("    " + call)
    else:
        lines.append(call)
    src = "@proc\ndef %s(%s):\n%s%s\n" % (name, ", ".join(sig), "".join("    %s\n" % p for p in preds),
                                         "\n".join("    " + l for l in lines))
    return src


# ------------------------------------------------------------------------------------------------
# LoopIR helpers: blocks by path, perturbations
# ------------------------------------------------------------------------------------------------
def node_at(ir, path):
    n = ir
    for attr, idx in path:
        n = getattr(n, attr)
        if idx is not None:
            n = n[idx]
    return n


def block_cursor(p: Procedure, parent_path, attr, lo, hi):
    root = p._loopir_proc
    blk = ic.Block(root, ic.Node(root, list(parent_path)), attr, range(lo, hi))
    return PC.lift_cursor(blk, p)


def block_nodes(p: Procedure, parent_path, attr, lo, hi):
    return list(getattr(node_at(p._loopir_proc, parent_path), attr)[lo:hi])


def rebuild(ir, path, fn):
    """functional update of the node at `path` (list of (attr, idx)) by fn(node) -> node | [nodes]"""
    if not path:
        return fn(ir)
    (attr, idx), rest = path[0], path[1:]
    ch = getattr(ir, attr)
    if idx is None:
        return ir.update(**{attr: rebuild(ch, rest, fn)})
    new = rebuild(ch[idx], rest, fn)
    if not isinstance(new, list):
        new = [new]
    return ir.update(**{attr: ch[:idx] + new + ch[idx + 1:]})


def _subexprs(node, path, out):
    """all (path, expr-or-stmt node) strictly inside `node`, paths relative to the proc root"""
    def child(attr, idx, n):
        p2 = path + [(attr, idx)]
        out.append((p2, n))
        _subexprs(n, p2, out)

    if isinstance(node, (LoopIR.Assign, LoopIR.Reduce)):
        for k, e in enumerate(node.idx):
            child("idx", k, e)
        child("rhs", None, node.rhs)
    elif isinstance(node, LoopIR.WriteConfig):
        child("rhs", None, node.rhs)
    elif isinstance(node, LoopIR.If):
        child("cond", None, node.cond)
        for k, s in enumerate(node.body):
            child("body", k, s)
        for k, s in enumerate(node.orelse):
            child("orelse", k, s)
    elif isinstance(node, LoopIR.For):
        child("lo", None, node.lo)
        child("hi", None, node.hi)
        for k, s in enumerate(node.body):
            child("body", k, s)
    elif isinstance(node, LoopIR.WindowStmt):
        child("rhs", None, node.rhs)
    elif isinstance(node, LoopIR.Call):
        for k, e in enumerate(node.args):
            child("args", k, e)
    elif isinstance(node, LoopIR.Read):
        for k, e in enumerate(node.idx):
            child("idx", k, e)
    elif isinstance(node, LoopIR.USub):
        child("arg", None, node.arg)
    elif isinstance(node, LoopIR.BinOp):
        child("lhs", None, node.lhs)
        child("rhs", None, node.rhs)
    elif isinstance(node, LoopIR.Extern):
        for k, e in enumerate(node.args):
            child("args", k, e)
    # window expressions inside WindowStmt / call args: perturb their bounds through a rebuilt idx list
    elif isinstance(node, LoopIR.WindowExpr):
        pass


def perturbations(p: Procedure, parent_path, attr, lo, hi, rng, limit=6, prefer=None):
    """list of (kind, Procedure): one small edit inside the block [lo,hi) of the list `attr` of the node at
    parent_path.  Edits are plain `update`s of existing nodes; the result is NOT re-checked here."""
    ir = p._loopir_proc
    parent = node_at(ir, parent_path)
    sites = []
    for k in range(lo, hi):
        s = getattr(parent, attr)[k]
        pth = list(parent_path) + [(attr, k)]
        sites.append((pth, s))
        _subexprs(s, pth, sites)
    # numeric buffers visible in the block, by rank, for the "other buffer" perturbation
    bufs = {}
    for a in ir.args:
        if a.type.is_numeric():
            bufs.setdefault(len(a.type.shape()), []).append((a.name, a.type))
    cands = []
    for pth, n in sites:
        if isinstance(n, LoopIR.Const) and n.type.is_indexable():
            cands.append(("const+1", pth, lambda n=n: n.update(val=n.val + 1)))
            if n.val >= 1:
                cands.append(("const-1", pth, lambda n=n: n.update(val=n.val - 1)))
        elif isinstance(n, LoopIR.Const) and n.type.is_real_scalar():
            cands.append(("realconst", pth, lambda n=n: n.update(val=n.val + 1.0)))
        elif isinstance(n, LoopIR.BinOp) and n.op == "-":
            cands.append(("swap-sub", pth, lambda n=n: n.update(lhs=n.rhs, rhs=n.lhs)))
            cands.append(("sub->add", pth, lambda n=n: n.update(op="+")))
        elif isinstance(n, LoopIR.BinOp) and n.op == "+" and n.type.is_real_scalar():
            cands.append(("add->mul", pth, lambda n=n: n.update(op="*")))
        elif isinstance(n, LoopIR.BinOp) and n.op == "*" and n.type.is_real_scalar():
            cands.append(("mul->add", pth, lambda n=n: n.update(op="+")))
        elif isinstance(n, LoopIR.BinOp) and n.op == "+" and n.type.is_indexable():
            cands.append(("add->sub", pth, lambda n=n: n.update(op="-")))
        elif isinstance(n, LoopIR.BinOp) and n.op == "*" and n.type.is_indexable():
            if isinstance(n.lhs, LoopIR.Const):
                cands.append(("stride-coeff", pth, lambda n=n: n.update(lhs=n.lhs.update(val=n.lhs.val + 1))))
        elif isinstance(n, LoopIR.BinOp) and n.op in CMP_OPS and n.lhs.type.is_indexable() and n.rhs.type.is_indexable():
            for other in CMP_OPS:   # every ordered pair of comparison operators
                if other != n.op:
                    cands.append(("cmp:%s->%s" % (n.op, other), pth, lambda n=n, other=other: n.update(op=other)))
        elif isinstance(n, LoopIR.BinOp) and n.op in ("and", "or"):
            other = "or" if n.op == "and" else "and"
            cands.append(("bool:%s->%s" % (n.op, other), pth, lambda n=n, other=other: n.update(op=other)))
        if isinstance(n, LoopIR.Read) and n.type.is_real_scalar() and len(n.idx) >= 1:
            if len(n.idx) == 2:
                cands.append(("transpose", pth, lambda n=n: n.update(idx=[n.idx[1], n.idx[0]])))
            i0 = n.idx[0]
            one = LoopIR.Const(1, T.int, n.srcinfo)
            cands.append(("idx+1", pth, lambda n=n, i0=i0, one=one: n.update(
                idx=[LoopIR.BinOp("+", i0, one, T.index, n.srcinfo)] + list(n.idx[1:]))))
            two = LoopIR.Const(2, T.int, n.srcinfo)
            cands.append(("idx*2", pth, lambda n=n, i0=i0, two=two: n.update(
                idx=[LoopIR.BinOp("*", two, i0, T.index, n.srcinfo)] + list(n.idx[1:]))))
            for (bn, bt) in bufs.get(len(n.idx), []):
                if bn != n.name:
                    cands.append(("other-buffer", pth, lambda n=n, bn=bn: n.update(name=bn)))
                    break
        if isinstance(n, (LoopIR.Assign, LoopIR.Reduce)):
            other = LoopIR.Reduce if isinstance(n, LoopIR.Assign) else LoopIR.Assign
            cands.append(("assign<->reduce", pth, lambda n=n, other=other: other(n.name, n.type, n.idx, n.rhs, n.srcinfo)))
            if len(n.idx) == 2:
                cands.append(("transpose-lhs", pth, lambda n=n: n.update(idx=[n.idx[1], n.idx[0]])))
            if n.idx:
                i0 = n.idx[0]
                one = LoopIR.Const(1, T.int, n.srcinfo)
                cands.append(("lhs-idx+1", pth, lambda n=n, i0=i0, one=one: n.update(
                    idx=[LoopIR.BinOp("+", i0, one, T.index, n.srcinfo)] + list(n.idx[1:]))))
        if isinstance(n, LoopIR.For):
            if isinstance(n.hi, LoopIR.Const) and n.hi.val >= 2:
                cands.append(("bound-1", pth, lambda n=n: n.update(hi=n.hi.update(val=n.hi.val - 1))))
            if isinstance(n.lo, LoopIR.Const):
                cands.append(("lo+1", pth, lambda n=n: n.update(lo=n.lo.update(val=n.lo.val + 1))))
        if isinstance(n, LoopIR.If) and n.orelse:
            cands.append(("swap-branches", pth, lambda n=n: n.update(body=n.orelse, orelse=n.body)))
    rng.shuffle(cands)
    if prefer:
        cands = [c for c in cands if c[0].startswith(prefer)] + [c for c in cands if not c[0].startswith(prefer)]
    out, seen = [], set()
    for kind, pth, mk in cands:
        if kind in seen and rng.random() < 0.6 and not (prefer and kind.startswith(prefer)):
            continue
        seen.add(kind)
        try:
            new_ir = rebuild(ir, pth, lambda _n, mk=mk: mk())
            out.append((kind, Procedure(new_ir)))
        except Exception:  # an edit the IR constructors refuse
            continue
        if len(out) >= limit:
            break
    return out


def front_end_accepts(p: Procedure, callees_src: str = ""):
    """re-parse the printed procedure through the real front end (type, bounds and aliasing checks)"""
    txt = str(p)
    src = HEADER + "\n" + callees_src + "\n@proc\n" + txt + "\n"
    mod, err = progen.load_module(src, "c05chk")
    return mod is not None, err
