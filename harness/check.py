#!/venv/bin/python
"""Entry point: check.py <ID> --quick|--thorough [--seed N]

exit 0  = property held on everything explored (KNOWN-FINDING lines allowed)
exit 1  = a line `VIOLATION property=<id> replay=<path>[ no-failing-input-found]` was printed
"""
import argparse
import importlib
import os
import sys
import traceback

sys.path.insert(0, os.path.dirname(os.path.abspath(__file__)))
import common  # noqa: E402


def _fault():
    import faulthandler, os, sys
    t = os.environ.get("VERIF_FAULT")
    if t:
        faulthandler.dump_traceback_later(int(t), repeat=True, file=sys.stderr)


def main():
    if os.environ.get("PYTHONHASHSEED") != "0":  # reproducible generation: every run uses hash seed 0
        os.environ["PYTHONHASHSEED"] = "0"
        os.execv(sys.executable, [sys.executable] + sys.argv)
    ap = argparse.ArgumentParser()
    ap.add_argument("pid")
    g = ap.add_mutually_exclusive_group()
    g.add_argument("--quick", action="store_true")
    g.add_argument("--thorough", action="store_true")
    ap.add_argument("--seed", type=int, default=None)
    a = ap.parse_args()
    tier = "thorough" if a.thorough else os.environ.get("VERIF_TIER", "quick")
    if tier not in ("quick", "thorough"):
        tier = "quick"
    seed = a.seed if a.seed is not None else int(os.environ.get("VERIF_SEED", "20260923"))
    os.chdir(common.VERIF)
    # the implementation is always the working tree of /repo, hooks on, fixed hash seed
    os.environ["PYTHONPATH"] = str(common.REPO / "src")
    os.environ[common.GUARD] = "1"
    sys.path.insert(0, str(common.REPO / "src"))
    _fault()
    # every temporary file of the check, of its workers and of gcc/clang goes under /verif/.scratch/tmp/<pid> and is
    # removed when the check exits (nothing is left, or needed, under /tmp)
    import atexit, shutil, tempfile
    tmpd = os.path.join(str(common.SCRATCH), "tmp", "%s-%d" % (a.pid, os.getpid()))
    os.makedirs(tmpd, exist_ok=True)
    os.environ["TMPDIR"] = tmpd
    tempfile.tempdir = None
    atexit.register(shutil.rmtree, tmpd, True)
    ck = common.Check(a.pid, tier, seed)
    try:
        mod = importlib.import_module("props." + a.pid)
        mod.run(ck)
    except Exception as e:  # a crashing harness must not look like a pass
        traceback.print_exc()
        ck.broken_obligation("harness-crash", "%s: %s" % (type(e).__name__, e))
    sys.exit(ck.finish())


if __name__ == "__main__":
    main()
