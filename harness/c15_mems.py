"""Memory classes used by the C15 generator next to the library ones (DRAM, DRAM_STACK, DRAM_STATIC, AVX2).

They only vary the three capabilities the backend consults (can_read / write / reduce) and the position in the
subclass order consulted by MemoryAnalysis at call boundaries; their C strings are those of DRAM, so every accepted
program must still be valid C.  The C15 model receives the subclass relation and the capabilities AS DATA
(`describe(mems)` below probes the real classes), it never sees these definitions."""
from exo.core.memory import DRAM, Memory, MemGenError
from exo.libs.memories import DRAM_STACK


class C15_RO(DRAM):
    """readable DRAM that refuses direct writes and reductions"""

    @classmethod
    def write(cls, s, lhs, rhs):
        raise MemGenError(f"{s.srcinfo}: cannot write to buffer '{s.name}' in memory '{cls.name()}'")

    @classmethod
    def reduce(cls, s, lhs, rhs):
        raise MemGenError(f"{s.srcinfo}: cannot reduce to buffer '{s.name}' in memory '{cls.name()}'")


class C15_NR(DRAM):
    """DRAM that can be written and reduced to but not read directly"""

    @classmethod
    def can_read(cls):
        return False


class C15_ACC(Memory):
    """not a DRAM subclass: own root of the lattice; readable, writable, no reduction"""

    @classmethod
    def global_(cls):
        return "#include <stdlib.h>"

    @classmethod
    def alloc(cls, new_name, prim_type, shape, srcinfo):
        if len(shape) == 0:
            return f"{prim_type} {new_name};"
        return f"{prim_type} *{new_name} = ({prim_type}*) malloc({' * '.join(shape)} * sizeof(*{new_name}));"

    @classmethod
    def free(cls, new_name, prim_type, shape, srcinfo):
        if len(shape) == 0:
            return ""
        return f"free({new_name});"

    @classmethod
    def can_read(cls):
        return True

    @classmethod
    def write(cls, s, lhs, rhs):
        return f"{lhs} = {rhs};"


class C15_STK2(DRAM_STACK):
    """second level below DRAM (subclass of a subclass)"""


class _S:  # dummy statement for probing write/reduce
    srcinfo = "<probe>"
    name = "probe"


def capabilities(m):
    """(can_read, can_write, can_reduce) of a real Memory class, by asking it"""
    try:
        rd = bool(m.can_read())
    except Exception:
        rd = False
    res = [rd]
    for meth in (m.write, m.reduce):
        try:
            meth(_S, "l", "r")
            res.append(True)
        except MemGenError:
            res.append(False)
    return tuple(res)


def describe(mems):
    """mems: list of Memory classes -> {"names": [...], "sub": [[bool]], "caps": [(r,w,red)]}"""
    return {
        "names": [m.name() for m in mems],
        "sub": [[bool(issubclass(a, b)) for b in mems] for a in mems],
        "caps": [capabilities(m) for m in mems],
    }
