"""C05: client of the extracted Coq models (coq/Unify/_build/c05_driver) and the inline correspondence.

`inline_case` exports one call site and the result of the REAL `inline` with ONE Exporter (callee first,
then the actual arguments, then the spliced statements) and asks the model for
`do_inline (first unused id) callee args`.  Symbols are numbered by first occurrence, Alpha_Rename's fresh
Syms are created in binder pre-order, so the two texts have to be identical; `canon` additionally
renumbers binders by first occurrence so that a pure freshness problem can be told from a structural one."""
from __future__ import annotations

import os
import subprocess

import common
import export

DRIVER = str(common.COQ / "Unify" / "_build" / "c05_driver")


class Model:
    def __init__(self):
        rc, out = common.sh(["bash", "extract.sh"], cwd=common.COQ / "Unify", timeout=900)
        if rc != 0 or not os.path.exists(DRIVER):
            raise RuntimeError("cannot build the extracted C05 models: " + out[-600:])
        self.p = subprocess.Popen([DRIVER], stdin=subprocess.PIPE, stdout=subprocess.PIPE, text=True, bufsize=1)

    def ask(self, line: str) -> str:
        self.p.stdin.write(line + "\n")
        self.p.stdin.flush()
        out = self.p.stdout.readline()
        if not out:
            raise RuntimeError("C05 model driver died on: " + line[:300])
        return out.strip()

    def define(self, ex: export.Exporter):
        n = getattr(ex, "_c05_sent", 0)  # per-Exporter count (id() of a dead Exporter may be reused)
        for d in ex.defs[n:]:
            r = self.ask(d)
            assert r == "ok", r
        ex._c05_sent = len(ex.defs)

    def close(self):
        try:
            self.p.stdin.close()
            self.p.wait(timeout=5)
        except Exception:
            self.p.kill()


# ---------------------------------------------------------------------- alpha-canonical form of a statement list
def canon(sx, start=1000000):
    """renumber binders (alloc, wins, for) of a parsed statement-list s-expression by first occurrence,
    respecting scopes; free symbols keep their ids.  Returns the text."""
    counter = [start]

    def fresh():
        counter[0] += 1
        return "b%d" % (counter[0] - start)

    def e(x, env):
        if not isinstance(x, list):
            return x
        h = x[0]
        if h == "var":
            return ["var", env.get(x[1], x[1])]
        if h in ("read", "win"):
            return [h, env.get(x[1], x[1]), [e(y, env) for y in x[2]]]
        if h == "stride":
            return [h, env.get(x[1], x[1]), x[2]]
        if h in ("int", "bool", "real", "cfg"):
            return x
        if h == "ext":
            return [h, x[1], [e(y, env) for y in x[2]]]
        if h == "bin":
            return [h, x[1], e(x[2], env), e(x[3], env)]
        return [h] + [e(y, env) for y in x[1:]]  # neg, pt, iv

    def ss(l, env):
        env = dict(env)
        out = []
        for s in l:
            h = s[0]
            if h in ("assign", "reduce"):
                out.append([h, env.get(s[1], s[1]), [e(y, env) for y in s[2]], e(s[3], env)])
            elif h == "wcfg":
                out.append([h, s[1], e(s[2], env)])
            elif h == "pass":
                out.append(s)
            elif h == "if":
                out.append([h, e(s[1], env), ss(s[2], env), ss(s[3], env)])
            elif h == "for":
                lo, hi = e(s[2], env), e(s[3], env)
                env2 = dict(env)
                env2[s[1]] = fresh()
                out.append([h, env2[s[1]], lo, hi, ss(s[4], env2), s[5]])
            elif h == "alloc":
                sh = [e(y, env) for y in s[2]]
                env[s[1]] = fresh()
                out.append([h, env[s[1]], sh])
            elif h == "call":
                out.append([h, s[1], [e(y, env) for y in s[2]]])
            elif h == "wins":
                rhs = e(s[2], env)
                env[s[1]] = fresh()
                out.append([h, env[s[1]], rhs])
            else:
                raise ValueError(h)
        return out

    return common.sexp(ss(sx, {}))


def binders(sx):
    out = []

    def ss(l):
        for s in l:
            if s[0] == "for":
                out.append(int(s[1]))
                ss(s[4])
            elif s[0] == "if":
                ss(s[2])
                ss(s[3])
            elif s[0] in ("alloc", "wins"):
                out.append(int(s[1]))

    ss(sx)
    return out


def inline_case(model: Model, call_node, new_nodes):
    """-> dict(agree=bool, exact=bool, real=..., model=..., n0=..., detail=...)"""
    ex = export.Exporter()
    ref = ex.proc_ref(call_node.f)
    args = "(" + " ".join(ex.expr(a) for a in call_node.args) + ")"
    n0 = len(ex.syms)
    real = ex.stmts(new_nodes)
    model.define(ex)
    got = model.ask("(inline %d %s %s)" % (n0 + 1, ref, args))
    side = model.ask("(inlineok %s %s)" % (ref, args))
    exact = " ".join(real.split()) == " ".join(got.split())
    res = {"exact": exact, "agree": exact, "real": real, "model": got, "n0": n0, "side_conditions": side,
           "job": "(inline %d %s %s)" % (n0 + 1, ref, args), "defs": list(ex.defs)}
    if exact:
        return res
    if got.startswith("error"):
        res["detail"] = "model driver: " + got
        return res
    r_sx, m_sx = common.parse_sexp(real), common.parse_sexp(got)
    same_shape = canon(r_sx) == canon(m_sx)
    stale = [b for b in binders(r_sx) if b <= n0]
    if same_shape and stale:
        res["detail"] = "binders of the spliced code are not fresh symbols (ids %s occur in the callee / arguments)" % stale
    elif same_shape:
        res["detail"] = "same term up to alpha, binders numbered in a different order"
        res["agree"] = True  # order of Sym creation is not observable
    else:
        res["detail"] = "different terms"
    return res


def validate_case(model: Model, block_nodes, call_node):
    """run the extracted validator on the exported (block, call) pair -> (verdict text, job)"""
    ex = export.Exporter()
    ex.erase_flags = True
    blk = ex.stmts(block_nodes)
    call = ex.stmt(call_node)
    model.define(ex)
    job = "(validate %s %s)" % (blk, call)
    return model.ask(job), {"job": job, "defs": list(ex.defs)}
