"""C12 brute-force oracle: transliterate a LoopIR procedure into a Python function that, for one valuation of
the index / size / bool arguments and of the configuration fields, returns the *trace* of everything observable
about index arithmetic: for every executed leaf statement its identity and the integer values of all of its index,
size and condition expressions (and the value written, over exact rationals), and for every loop / branch that
survives simplify its bounds / condition each time it is reached.  Python's // and % ARE exo's floor division and
modulo, so no model is involved: the oracle is integer arithmetic.

simplify keeps statement identities (srcinfo objects), only rewrites expressions and deletes statements, hence
   trace(before, v) == trace(after, v)   for every valuation v admitted by the assertions
is exactly property C12 (same value for every index/bound/size/condition expression under every assignment permitted
by the enclosing loops, guards and assertions; removed branches / loops never execute)."""
from __future__ import annotations

import itertools
from fractions import Fraction

from exo.core.LoopIR import LoopIR, T

from c12_export import Unsupported, in_model


def _default_cell(name: str, idx: tuple) -> Fraction:
    h = 7 * len(name) + sum((k + 1) * (3 * v + 1) for k, v in enumerate(idx))
    return Fraction(h % 13 - 6, 1)


def _rd(M, name, idx):
    k = (name, idx)
    if k not in M:
        M[k] = _default_cell(name, idx)
    return M[k]


def _fdiv(a, b):
    if isinstance(a, tuple) or isinstance(b, tuple) or b == 0:
        return ("nan",)
    return a / b


def _arith(op, a, b):
    if isinstance(a, tuple) or isinstance(b, tuple):
        return ("nan",)
    return a + b if op == "+" else a - b if op == "-" else a * b


class Compiler:
    """compile(proc) -> f(A: {sym_id: int}, cfg: {(cfg, field): int}) -> trace list, or None if a pred fails"""

    def __init__(self, ex, keep_ctrl=None, check_preds=True):
        self.ex = ex
        self.keep = keep_ctrl
        self.check_preds = check_preds
        self.lines = []
        self.nodes = {}  # (sid, kind) -> stmt
        self.ctrl = set()

    # ------------------------------------------------------------ index / bool expressions
    def ce(self, e) -> str:
        if isinstance(e, LoopIR.Read):
            if e.idx:
                raise Unsupported("indexed read in index expression")
            return "v_%d" % e.name._id
        if isinstance(e, LoopIR.Const):
            v = e.val
            if isinstance(v, bool):
                return "1" if v else "0"
            if not isinstance(v, int):
                raise Unsupported("non-int const in index expression")
            return "(%d)" % v
        if isinstance(e, LoopIR.USub):
            return "(-%s)" % self.ce(e.arg)
        if isinstance(e, LoopIR.BinOp):
            a, b = self.ce(e.lhs), self.ce(e.rhs)
            if e.op == "/":
                return "(%s // %s)" % (a, b)
            if e.op in ("<", ">", "<=", ">=", "=="):
                return "int(%s %s %s)" % (a, e.op, b)
            return "(%s %s %s)" % (a, e.op, b)
        if isinstance(e, LoopIR.ReadConfig):
            return "cfg[(%r, %r)]" % (e.config.name(), e.field)
        raise Unsupported(type(e).__name__)

    # ------------------------------------------------------------ data expressions (exact rationals)
    def cd(self, e) -> str:
        if in_model(e.type):
            return self.ce(e)
        if isinstance(e, LoopIR.Read):
            if isinstance(e.type, (T.Tensor, T.Window)):
                return repr(("buf", repr(e.name)))
            idx = "(%s)" % "".join(self.ce(i) + "," for i in e.idx)
            return "_rd(M, %r, %s)" % (repr(e.name), idx)
        if isinstance(e, LoopIR.Const):
            fr = Fraction(e.val)
            return "F(%d, %d)" % (fr.numerator, fr.denominator)
        if isinstance(e, LoopIR.USub):
            return "_arith('-', F(0, 1), %s)" % self.cd(e.arg)
        if isinstance(e, LoopIR.BinOp):
            if e.op == "/":
                return "_fdiv(%s, %s)" % (self.cd(e.lhs), self.cd(e.rhs))
            if e.op in ("+", "-", "*"):
                return "_arith(%r, %s, %s)" % (e.op, self.cd(e.lhs), self.cd(e.rhs))
            raise Unsupported("data op " + e.op)
        if isinstance(e, LoopIR.ReadConfig):
            return "cfg[(%r, %r)]" % (e.config.name(), e.field)
        if isinstance(e, LoopIR.WindowExpr):
            parts = []
            for w in e.idx:
                if isinstance(w, LoopIR.Interval):
                    parts.append("(%s, %s)" % (self.ce(w.lo), self.ce(w.hi)))
                else:
                    parts.append("(%s,)" % self.ce(w.pt))
            return "('win', %r, (%s))" % (repr(e.name), "".join(p + "," for p in parts))
        raise Unsupported(type(e).__name__)

    def ct(self, t) -> str:
        if isinstance(t, T.Tensor):
            return "(%s)" % "".join(self.ce(h) + "," for h in t.hi)
        return "()"

    # ------------------------------------------------------------ statements
    def emit(self, ind, s):
        self.lines.append("    " * ind + s)

    def cs(self, s, ind):
        sid = self.ex.sid(s.srcinfo)
        kind = type(s).__name__
        self.nodes[(sid, kind)] = s
        if not isinstance(s, (LoopIR.If, LoopIR.For, LoopIR.Pass)):
            # values of all index / size / condition expressions of the leaf, in slot order (c12_export.leaf_slots)
            self.emit(ind, "_s = (%s)" % "".join(self.ce(e) + "," for e in self.ex.leaf_slots(s)))
        if isinstance(s, LoopIR.Pass):
            self.emit(ind, "pass")
        elif isinstance(s, (LoopIR.Assign, LoopIR.Reduce)):
            idx = "(%s)" % "".join(self.ce(i) + "," for i in s.idx)
            nm = repr(s.name)
            self.emit(ind, "_i = %s; _v = %s" % (idx, self.cd(s.rhs)))
            if isinstance(s, LoopIR.Reduce):
                self.emit(ind, "_v = _arith('+', _rd(M, %r, _i), _v)" % nm)
            self.emit(ind, "M[(%r, _i)] = _v; TR.append((%d, %r, %r, _i, _v, _s))" % (nm, sid, kind, nm))
        elif isinstance(s, LoopIR.WriteConfig):
            k = (s.config.name(), s.field)
            self.emit(ind, "_v = %s; cfg[%r] = _v; TR.append((%d, 'WriteConfig', %r, _v, _s))" % (self.cd(s.rhs), k, sid, k))
        elif isinstance(s, LoopIR.WindowStmt):
            self.emit(ind, "TR.append((%d, 'WindowStmt', %r, %s, _s))" % (sid, repr(s.name), self.cd(s.rhs)))
        elif isinstance(s, LoopIR.Call):
            args = "(%s)" % "".join(self.cd(a) + "," for a in s.args)
            self.emit(ind, "TR.append((%d, 'Call', %r, %s, _s))" % (sid, s.f.name, args))
        elif isinstance(s, LoopIR.Alloc):
            self.emit(ind, "TR.append((%d, 'Alloc', %r, %s, _s))" % (sid, repr(s.name), self.ct(s.type)))
        elif isinstance(s, LoopIR.If):
            self.ctrl.add((sid, kind))
            self.emit(ind, "_c = %s" % self.ce(s.cond))
            if self.keep is None or (sid, kind) in self.keep:
                self.emit(ind, "TR.append((%d, 'If', int(bool(_c))))" % sid)
            self.emit(ind, "if _c:")
            self.block(s.body, ind + 1)
            if s.orelse:
                self.emit(ind, "else:")
                self.block(s.orelse, ind + 1)
        elif isinstance(s, LoopIR.For):
            self.ctrl.add((sid, kind))
            v = "v_%d" % s.iter._id
            self.emit(ind, "_lo = %s; _hi = %s" % (self.ce(s.lo), self.ce(s.hi)))
            if self.keep is None or (sid, kind) in self.keep:
                self.emit(ind, "TR.append((%d, 'For', _lo, _hi))" % sid)
            self.emit(ind, "for %s in range(_lo, _hi):" % v)
            self.block(s.body, ind + 1)
        else:
            raise Unsupported(kind)

    def block(self, ss, ind):
        if not ss:
            self.emit(ind, "pass")
        for s in ss:
            self.cs(s, ind)

    def compile(self, p):
        self.lines = ["def run(A, cfg):", "    TR = []; M = {}"]
        for a in p.args:
            if in_model(a.type):
                self.emit(1, "v_%d = A[%d]" % (a.name._id, a.name._id))
        for k, pr in enumerate(p.preds):
            if self.check_preds:
                self.emit(1, "if not (%s): return None" % self.ce(pr))
            else:
                self.emit(1, "TR.append(('pred', %d, int(bool(%s))))" % (k, self.ce(pr)))
        self.block(p.body, 1)
        self.emit(1, "return TR")
        src = "\n".join(self.lines)
        g = {"F": Fraction, "_rd": _rd, "_fdiv": _fdiv, "_arith": _arith}
        exec(compile(src, "<c12-oracle>", "exec"), g)
        return g["run"], src


# ------------------------------------------------------------------------------------------------ the box
SIZE_RANGE = range(1, 7)
INDEX_RANGE = range(-8, 25)
CFG_RANGE = range(0, 4)


def box(p, cfg_fields, cap):
    """all valuations of the size / index / bool arguments and configuration fields (exhaustive; if the box is
    larger than `cap` the index arguments are thinned deterministically, the corners are kept)"""
    dims = []
    for a in p.args:
        if isinstance(a.type, T.Size):
            dims.append((("arg", a.name._id), list(SIZE_RANGE)))
        elif isinstance(a.type, (T.Index, T.Int)):
            dims.append((("arg", a.name._id), list(INDEX_RANGE)))
        elif isinstance(a.type, T.Bool):
            dims.append((("arg", a.name._id), [0, 1]))
    for (c, f, ty) in cfg_fields:
        dims.append((("cfg", (c, f)), [0, 1] if ty == "bool" else list(CFG_RANGE)))
    total = 1
    for _, d in dims:
        total *= len(d)
    thinned = False
    while total > cap:
        # thin the largest dimension (keeps both ends)
        k = max(range(len(dims)), key=lambda j: len(dims[j][1]))
        d = dims[k][1]
        if len(d) <= 3:
            break
        nd = d[::2] if d[-1] in d[::2] else d[::2] + [d[-1]]
        total = total // len(d) * len(nd)
        dims[k] = (dims[k][0], nd)
        thinned = True
    keys = [k for k, _ in dims]
    for vals in itertools.product(*[d for _, d in dims]):
        A, cfg = {}, {}
        for (kind, k), v in zip(keys, vals):
            if kind == "arg":
                A[k] = v
            else:
                cfg[k] = v
        yield A, cfg
    return thinned


def collect_cfg_fields(p):
    """(config name, field, 'bool'|'int') of every configuration field read or written (model-typed ones)"""
    out = {}

    def do_e(e):
        if isinstance(e, LoopIR.ReadConfig):
            out[(e.config.name(), e.field)] = "bool" if isinstance(e.type, T.Bool) else "int"
        for attr in ("lhs", "rhs", "arg", "lo", "hi", "pt", "cond"):
            x = getattr(e, attr, None)
            if isinstance(x, LoopIR.expr):
                do_e(x)
        for attr in ("idx", "args"):
            for x in getattr(e, attr, None) or []:
                if isinstance(x, LoopIR.expr):
                    do_e(x)
                elif isinstance(x, (LoopIR.Interval, LoopIR.Point)):
                    do_e(x)

    def do_s(s):
        if isinstance(s, LoopIR.WriteConfig):
            ty = s.config.lookup_type(s.field) if hasattr(s.config, "lookup_type") else None
            out.setdefault((s.config.name(), s.field), "bool" if isinstance(ty, T.Bool) else "int")
        for attr in ("cond", "lo", "hi", "rhs"):
            x = getattr(s, attr, None)
            if isinstance(x, LoopIR.expr):
                do_e(x)
        for attr in ("idx", "args"):
            for x in getattr(s, attr, None) or []:
                if isinstance(x, LoopIR.expr):
                    do_e(x)
        if isinstance(s, LoopIR.Alloc) and isinstance(s.type, T.Tensor):
            for h in s.type.hi:
                do_e(h)
        for attr in ("body", "orelse"):
            for x in getattr(s, attr, None) or []:
                do_s(x)

    for pr in p.preds:
        do_e(pr)
    for s in p.body:
        do_s(s)
    return sorted((c, f, t) for (c, f), t in out.items())


def ctrl_nodes(ex, p):
    out = set()

    def go(ss):
        for s in ss:
            if isinstance(s, (LoopIR.If, LoopIR.For)):
                out.add((ex.sid(s.srcinfo), type(s).__name__))
                go(s.body)
                if isinstance(s, LoopIR.If):
                    go(s.orelse)

    go(p.body)
    return out


def compare(ex, before, after, cap=4000):
    """brute-force comparison of two LoopIR procedures.  Returns (n_valuations, n_trace_entries, divergence|None);
    divergence = dict(valuation, cfg, position, before_entry, after_entry, before_node, after_node)"""
    keep = ctrl_nodes(ex, after)
    cb = Compiler(ex, keep_ctrl=keep, check_preds=True)
    fb, srcb = cb.compile(before)
    ca = Compiler(ex, keep_ctrl=None, check_preds=False)
    fa, srca = ca.compile(after)
    fields = sorted(set(collect_cfg_fields(before)) | set(collect_cfg_fields(after)))
    nval = nent = 0
    same_preds = len(before.preds) == len(after.preds)
    for A, cfg in box(before, fields, cap):
        tb = fb(dict(A), dict(cfg))
        if tb is None:
            continue  # valuation not admitted by the assertions
        nval += 1
        try:
            ta = fa(dict(A), dict(cfg))
        except ZeroDivisionError:
            ta = [("ZeroDivisionError",)]
        npred = len(after.preds)
        ta_preds, ta = ta[:npred], ta[npred:]
        if same_preds:
            for k, ent in enumerate(ta_preds):
                if ent[0] == "pred" and ent[2] != 1:
                    return nval, nent, dict(A=A, cfg=cfg, pos=-1, before=("pred", k, 1), after=ent, kind="pred",
                                            before_node=before.preds[k], after_node=after.preds[k])
        nent += len(tb)
        if tb != ta:
            pos = next((i for i, (x, y) in enumerate(zip(tb, ta)) if x != y), min(len(tb), len(ta)))
            eb = tb[pos] if pos < len(tb) else None
            ea = ta[pos] if pos < len(ta) else None
            nb = cb.nodes.get((eb[0], eb[1])) if eb else None
            na = ca.nodes.get((ea[0], ea[1])) if ea else None
            return nval, nent, dict(A=A, cfg=cfg, pos=pos, before=eb, after=ea, kind="trace",
                                    before_node=nb, after_node=na)
    return nval, nent, None
