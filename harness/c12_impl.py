"""C12 implementation-side worker.  Runs in its own process (env from common.exo_env: the implementation comes from
$EXO_REPO/src, EXO_VERIF=1, PYTHONHASHSEED=0), generates the cases of one shard from the seed, runs the REAL
exo code on them, exports inputs/outputs for the Coq model, and runs the brute-force search on every
(before, after) pair.  Output: <out>/jobs_<k>.sexp (one model job per line) and <out>/cases_<k>.jsonl."""
from __future__ import annotations

import argparse
import json
import os
import random
import sys
import time
import traceback
from collections import ChainMap

sys.path.insert(0, os.path.dirname(os.path.abspath(__file__)))
import common  # noqa: E402

sys.path.insert(0, str(common.REPO / "src"))

from exo import DRAM  # noqa: E402
from exo.API import Procedure  # noqa: E402
from exo.core.LoopIR import LoopIR, T  # noqa: E402
from exo.core.prelude import Sym, SrcInfo  # noqa: E402
from exo.rewrite import LoopIR_scheduling as S  # noqa: E402
from exo.rewrite.range_analysis import IndexRangeEnvironment  # noqa: E402
from exo.stdlib.scheduling import simplify  # noqa: E402

import c12_corpus  # noqa: E402
import c12_gen as G  # noqa: E402
import c12_oracle as O  # noqa: E402
import progen  # noqa: E402
from c12_export import Exporter, Unsupported  # noqa: E402


# ============================================================================================ range-analysis taps
# The model re-implements range_analysis.py by hand, so every call the REAL simplify makes to constant_bound /
# IndexRangeEnvironment.add_loop_iter is recorded (wrappers installed in this process only, /repo is untouched)
# and replayed in the model: a change in range_analysis.py shows up as a divergence even when simplify's output
# happens not to change.
import exo.rewrite.range_analysis as RA  # noqa: E402

TAP = {"on": False, "calls": []}
_real_constant_bound = RA.constant_bound
_real_add_loop_iter = IndexRangeEnvironment.add_loop_iter


def _flat_env(env):
    out, seen = [], set()
    maps = env.maps if isinstance(env, ChainMap) else [env]
    for m in maps:  # innermost scope first = lookup order
        for k, v in m.items():
            if k not in seen:
                seen.add(k)
                out.append((k, v))
    return out


def _tap_constant_bound(expr, env):
    r = _real_constant_bound(expr, env)
    if TAP["on"] and isinstance(expr, LoopIR.expr) and len(TAP["calls"]) < 60:
        TAP["calls"].append(("cbound", _flat_env(env), expr, r))
    return r


def _tap_add_loop_iter(self, sym, lo_expr, hi_expr):
    before = _flat_env(self.env) if TAP["on"] else None
    _real_add_loop_iter(self, sym, lo_expr, hi_expr)
    if TAP["on"] and len(TAP["calls"]) < 60:
        TAP["calls"].append(("loopiter", before, (sym, lo_expr, hi_expr), self.env[sym]))


RA.constant_bound = _tap_constant_bound
IndexRangeEnvironment.add_loop_iter = _tap_add_loop_iter


def env_sexp(envl):
    return "(%s)" % " ".join("(%s %d %s %s)" % (k.name(), k._id, "N" if lo is None else lo, "N" if hi is None else hi)
                             for k, (lo, hi) in envl)


def bound_sexp(r):
    return "(%s %s)" % tuple("N" if v is None else v for v in r)


def range_tap_cases(calls, add):
    seen = set()
    for kind, envl, what, res in calls:
        ex = Exporter()
        try:
            if kind == "cbound":
                job = "(cbound %s %s)" % (env_sexp(envl), ex.expr(what))
                sample = "constant_bound(%s) under %s = %s" % (first_line(what), env_sexp(envl), res)
            else:
                sym, lo, hi = what
                job = "(loopiter %s %s %d %s %s)" % (env_sexp(envl), sym.name(), sym._id, ex.expr(lo), ex.expr(hi))
                sample = "add_loop_iter(%s, %s, %s) under %s = %s" % (sym, first_line(lo), first_line(hi), env_sexp(envl), res)
        except Unsupported:
            continue
        if job in seen:
            continue
        seen.add(job)
        add({"stream": "range:" + kind, "expect": bound_sexp(res), "sample": sample, "changed": res != (None, None),
             "tags": [kind]}, job)


# ============================================================================================ LoopIR construction
class IrBuilder:
    """expression trees of c12_gen (nested tuples) -> LoopIR, with explicit control of Sym and SrcInfo identity"""

    def __init__(self, rng, syms, nsrc):
        self.rng = rng
        self.syms = {k: (Sym(nm), {"size": T.size, "index": T.index, "loop": T.index}[kind]) for k, nm, kind in syms}
        self.pool = [SrcInfo("ir.py", 10 + k) for k in range(nsrc)]
        self.nstmt = 0

    def src(self):
        return self.rng.choice(self.pool)

    def ssrc(self):
        self.nstmt += 1
        return SrcInfo("ir.py", 1000 + self.nstmt)

    def e(self, t):
        k = t[0]
        if k == "v":
            sy, ty = self.syms[t[1]]
            return LoopIR.Read(sy, [], ty, self.src())
        if k == "c":
            return LoopIR.Const(t[1], T.int, self.src())
        if k == "neg":
            a = self.e(t[1])
            return LoopIR.USub(a, a.type, self.src())
        _, op, l, r = t
        l, r = self.e(l), self.e(r)
        if op in ("and", "or", "<", ">", "<=", ">=", "=="):
            ty = T.bool
        elif op in ("/", "%"):
            ty = l.type
        elif op == "*":
            ty = r.type if l.type == T.int else l.type
        else:
            ty = T.index if T.index in (l.type, r.type) else T.size if T.size in (l.type, r.type) else T.int
        return LoopIR.BinOp(op, l, r, ty, self.src())


def build_ir_proc(desc):
    rng = random.Random(desc["srcseed"])
    b = IrBuilder(rng, desc["syms"], desc["nsrc"])
    xs = Sym("x")
    psrc = SrcInfo("ir.py", 1)
    args = [LoopIR.fnarg(b.syms[k][0], T.size, None, psrc) for k in desc["sizes"]]
    args += [LoopIR.fnarg(b.syms[k][0], T.index, None, psrc) for k in desc["idxs"]]
    args.append(LoopIR.fnarg(xs, T.Tensor([LoopIR.Const(64, T.int, psrc), LoopIR.Const(64, T.int, psrc)], False, T.R),
                             DRAM, psrc))

    def stmts(ss):
        out = []
        for s in ss:
            if s[0] == "for":
                out.append(LoopIR.For(b.syms[s[1]][0], b.e(s[2]), b.e(s[3]), stmts(s[4]), LoopIR.Seq(), b.ssrc()))
            elif s[0] == "if":
                out.append(LoopIR.If(b.e(s[1]), stmts(s[2]), stmts(s[3]), b.ssrc()))
            elif s[0] == "assign":
                idx = [b.e(x) for x in s[1]]
                while len(idx) < 2:
                    idx.append(LoopIR.Const(0, T.int, b.src()))
                out.append(LoopIR.Assign(xs, T.R, idx, LoopIR.Const(1.0, T.R, b.src()), b.ssrc()))
            else:
                out.append(LoopIR.Pass(b.ssrc()))
        return out

    body = stmts(desc["body"])
    return LoopIR.proc("irp", args, [], body, None, psrc)


# ============================================================================================ helpers
def first_line(x) -> str:
    try:
        return str(x).strip().splitlines()[0][:160]
    except Exception as e:  # printing must never kill the worker
        return "<unprintable %s>" % type(e).__name__


def classify(before: str, after: str) -> str:
    if "%" in before and "/" in before and "%" not in after and "/" not in after:
        return "quotient_remainder"
    if before.count("%") > after.count("%"):
        return "mod"
    if before.count("/") > after.count("/"):
        return "div"
    return "value"


def slot_exprs(ex, node):
    if isinstance(node, LoopIR.If):
        return [node.cond]
    if isinstance(node, LoopIR.For):
        return [node.lo, node.hi]
    return ex.leaf_slots(node)


def describe_divergence(ex, d):
    """-> (key, what) for ck.violation"""
    nb, na = d.get("before_node"), d.get("after_node")
    eb, ea = d.get("before"), d.get("after")
    if d["kind"] == "pred":
        b, a = first_line(nb), first_line(na)
        return "simplify:pred:%s -> %s" % (b, a), "assertion `%s` became `%s`, which is false for an admitted valuation" % (b, a)
    if eb is not None and ea is not None and eb[:2] == ea[:2] and nb is not None and na is not None:
        try:
            sb, sa = slot_exprs(ex, nb), slot_exprs(ex, na)
        except Unsupported:
            sb, sa = [], []
        # slot values: control entries are (sid, kind, v...) ; leaf entries end with the tuple of slot values
        vb = eb[2:] if eb[1] in ("If", "For") else eb[-1]
        va = ea[2:] if ea[1] in ("If", "For") else ea[-1]
        if len(sb) == len(sa) == len(vb) == len(va):
            for x, y, p, q in zip(sb, sa, vb, va):
                if (bool(p) != bool(q)) if eb[1] == "If" else (p != q):
                    b, a = first_line(x), first_line(y)
                    return ("simplify:%s:%s -> %s" % (classify(b, a), b, a),
                            "`%s` (= %r) was replaced by `%s` (= %r) in `%s`" % (b, p, a, q, first_line(nb)))
        return ("simplify:stmt:%s -> %s" % (first_line(nb), first_line(na)),
                "statement values differ: %r vs %r" % (eb, ea))
    if eb is not None and (ea is None or eb[:2] != ea[:2]):
        return ("simplify:removed:%s" % first_line(nb if nb is not None else eb),
                "a statement that executes before simplify does not execute (at the same position) afterwards: "
                "%r vs %r" % (eb, ea))
    return ("simplify:added:%s" % first_line(na if na is not None else ea),
            "a statement executes after simplify that did not before: %r vs %r" % (eb, ea))


# ============================================================================================ proc-level cases
def run_proc_case(stream, before_ir, make_proc, meta, out, cap):
    """before_ir: LoopIR.proc; make_proc() -> exo Procedure wrapping it"""
    ex = Exporter()
    rec = {"stream": stream, "meta": meta}
    try:
        job_in = ex.proc(before_ir)
    except Unsupported as e:
        rec.update(skip="export: %s" % e)
        return rec, None
    t0 = time.time()
    TAP["calls"] = []
    try:
        pr = make_proc()
        TAP["on"] = True
        try:
            after = simplify(pr)
        finally:
            TAP["on"] = False
        after_ir = after._loopir_proc
        expect = ex.proc(after_ir)
    except Unsupported as e:
        rec.update(skip="export-after: %s" % e)
        return rec, None
    except Exception as e:
        after_ir = None
        expect = "crash"
        rec["exc"] = "%s: %s" % (type(e).__name__, str(e)[:200])
    rec["t_simplify"] = round(time.time() - t0, 4)
    rec["range_calls"] = TAP["calls"]
    TAP["calls"] = []
    rec["expect"] = expect
    rec["changed"] = expect != job_in
    rec["tags"] = tags_of(before_ir, after_ir)
    # ---- brute-force search
    if after_ir is not None:
        t0 = time.time()
        try:
            nval, nent, div = O.compare(ex, before_ir, after_ir, cap=cap)
            rec["bf"] = {"valuations": nval, "entries": nent}
            if div is not None:
                key, what = describe_divergence(ex, div)
                rec["violation"] = {
                    "key": key, "what": what,
                    "replay": {"stream": stream, "meta": meta, "before": str(before_ir), "after": str(after_ir),
                               "args": {str(k): v for k, v in div["A"].items()},
                               "config": {"%s.%s" % k: v for k, v in div["cfg"].items()},
                               "trace_position": div["pos"], "before_entry": repr(div["before"]),
                               "after_entry": repr(div["after"])}}
        except Unsupported as e:
            rec["bf"] = {"skip": str(e)}
        rec["t_bf"] = round(time.time() - t0, 4)
    return rec, "(simplify %s)" % job_in


def tags_of(before_ir, after_ir):
    b = str(before_ir)
    tags = []
    for t, s in (("div", " / "), ("mod", " % "), ("cfg", "Cfg."), ("guard", "if "), ("loop", "for ")):
        if s in b:
            tags.append(t)
    if after_ir is None:
        tags.append("crash")
    else:
        a = str(after_ir)
        if b.count("for ") > a.count("for "):
            tags.append("loop-removed")
        if b.count("if ") > a.count("if "):
            tags.append("branch-removed")
        if b.count(" % ") > a.count(" % "):
            tags.append("mod-dropped")
        if b.count(" / ") > a.count(" / "):
            tags.append("div-dropped")
    return tags


# ============================================================================================ unit-level cases
def fake_normalizer(envmap):
    n = object.__new__(S._DoNormalize)
    n.C = Sym("temporary_constant_symbol")
    env = object.__new__(IndexRangeEnvironment)
    env.proc = None
    env.env = ChainMap(dict(envmap))
    n.env = env
    return n


def fake_simplifier():
    s = object.__new__(S.DoSimplify)
    s.facts = ChainMap()
    return s


def unit_cases(rng, n, jobs, recs, late=lambda: False):
    eg = G.ExprGen(rng)
    for it in range(n):
        if it >= 150 and it % 50 == 0 and late():
            break
        nsy = rng.choice([1, 2, 2, 3, 4])
        syms = [("s%d" % k, rng.choice(G.IrGen.NAMES), rng.choice(["size", "index", "loop"])) for k in range(nsy)]
        b = IrBuilder(rng, syms, rng.choice([1, 2, 4]))
        names = [k for k, _, _ in syms]
        ex = Exporter()
        kind = rng.choice(["index_start", "index_start", "simp_e", "simp_e", "streq", "factkey", "cbound", "cbound",
                           "loopiter"])
        rec = {"stream": "unit:" + kind}
        try:
            if kind == "index_start":
                envmap, envs = {}, []
                for k in names:
                    if rng.random() < 0.8:
                        lo = rng.choice([None, 0, 0, 0, 1, -2, 3])
                        hi = rng.choice([None, 0, 1, 3, 3, 7, 7, 15, 2])
                        envmap[b.syms[k][0]] = (lo, hi)
                        envs.append("(%s %d %s %s)" % (b.syms[k][0].name(), b.syms[k][0]._id,
                                                       "N" if lo is None else lo, "N" if hi is None else hi))
                if rng.random() < 0.4:
                    # shifted / mirrored iterator: in range only thanks to a non-zero lower bound / negative coefficient
                    v = names[0]
                    lo = rng.choice([1, 2, 3, 4, 5])
                    hi = lo + rng.choice([0, 1, 2, 3, 3, 7])
                    envmap[b.syms[v][0]] = (lo, hi)
                    envs = ["(%s %d %s %s)" % (k2.name(), k2._id, "N" if l2 is None else l2, "N" if h2 is None else h2)
                            for k2, (l2, h2) in envmap.items()]
                    qd, md, _ = eg.shifted(v, lo, hi, names[1:])
                    t = qd if rng.random() < 0.5 else md
                    if rng.random() < 0.3:
                        t = ("b", rng.choice(["+", "-"]), t, eg.affine(names, [], 1))
                    e = b.e(t)
                else:
                    e = b.e(eg.expr(names, [], rng.choice([1, 2, 2, 3])))
                job = "(index_start (%s) %s)" % (" ".join(envs), ex.expr(e))
                try:
                    r = fake_normalizer(envmap).index_start(e)
                    expect = ex.expr(r)
                    rec["bf"] = bf_expr(e, r, envmap, [], b)
                except Unsupported:
                    raise
                except Exception as exn:
                    expect = "crash"
                    rec["exc"] = type(exn).__name__
                rec["sample"] = "%s  |env %s|  ->  %s" % (first_line(e), " ".join(envs), expect if expect == "crash" else first_line(r))
            elif kind in ("cbound", "loopiter"):
                envmap, envs = {}, []
                for k in names:
                    if rng.random() < 0.9:
                        lo = rng.choice([None, 0, 0, 0, 1, 2, 3, -2, 5])
                        hi = None if rng.random() < 0.12 else (lo if lo is not None else 0) + rng.choice([0, 1, 2, 2, 3, 4, 7])
                        envmap[b.syms[k][0]] = (lo, hi)
                envs = env_sexp(list(envmap.items()))
                fenv = object.__new__(IndexRangeEnvironment)
                fenv.proc = None
                fenv.env = ChainMap(dict(envmap))
                if kind == "cbound":
                    e = b.e(eg.expr(names, [], rng.choice([1, 1, 2, 3])))
                    job = "(cbound %s %s)" % (envs, ex.expr(e))
                    try:
                        r = _real_constant_bound(e, fenv.env)
                        expect = bound_sexp(r)
                        rec["bf"] = bf_range(e, r, envmap, b)
                    except Unsupported:
                        raise
                    except Exception as exn:
                        expect = "crash"
                        rec["exc"] = type(exn).__name__
                    rec["sample"] = "constant_bound(%s) under %s = %s" % (first_line(e), envs, expect)
                else:
                    it = Sym("it")
                    lo_e = b.e(eg.expr(names, [], rng.choice([0, 1, 1, 2])))
                    hi_e = b.e(eg.expr(names, [], rng.choice([0, 1, 1, 2])))
                    e = lo_e
                    job = "(loopiter %s it %d %s %s)" % (envs, it._id, ex.expr(lo_e), ex.expr(hi_e))
                    try:
                        _real_add_loop_iter(fenv, it, lo_e, hi_e)
                        r = fenv.env[it]
                        expect = bound_sexp(r)
                        rec["bf"] = bf_range(None, r, envmap, b, loop=(lo_e, hi_e))
                    except Unsupported:
                        raise
                    except Exception as exn:
                        expect = "crash"
                        rec["exc"] = type(exn).__name__
                    rec["sample"] = "add_loop_iter(it, %s, %s) under %s = %s" % (first_line(lo_e), first_line(hi_e), envs, expect)
            elif kind == "simp_e":
                conds = [b.e(eg.cond(names, [], 0)) for _ in range(rng.choice([0, 1, 1, 2]))]
                # make facts likely to apply: reuse a guard's lhs inside the expression
                t = eg.expr(names, [], rng.choice([1, 2, 2]))
                e = b.e(t)
                if conds and rng.random() < 0.6 and isinstance(conds[0], LoopIR.BinOp):
                    sub = conds[0].lhs if rng.random() < 0.8 else conds[0].rhs
                    e = LoopIR.BinOp(rng.choice(["+", "-", "*"]) if sub.type == T.int else rng.choice(["+", "-"]),
                                     sub, e, T.index, b.src())
                    if rng.random() < 0.3:
                        e = sub
                sm = fake_simplifier()
                scond = []
                try:
                    for c in conds:
                        c2 = sm.map_e(c) or c
                        scond.append(c2)
                        sm.facts = sm.facts.new_child()
                        sm.add_fact(c2)
                    r = sm.map_e(e) or e
                    expect = ex.expr(r)
                    rec["bf"] = bf_expr(e, r, {}, scond, b)
                except Unsupported:
                    raise
                except Exception as exn:
                    expect = "crash"
                    rec["exc"] = type(exn).__name__
                job = "(simp_e (%s) %s)" % (" ".join(ex.expr(c) for c in scond), ex.expr(e))
                rec["sample"] = "%s  |facts %s|  ->  %s" % (first_line(e), "; ".join(first_line(c) for c in scond),
                                                           expect if expect == "crash" else first_line(r))
            else:
                t1 = eg.expr(names, [], rng.choice([0, 1, 1, 2]))
                if rng.random() < 0.6:
                    t2 = rename_tree(t1, names, rng)
                else:
                    t2 = eg.expr(names, [], rng.choice([0, 1, 1, 2]))
                e1, e2 = b.e(t1), b.e(t2)
                if kind == "streq":
                    expect = "true" if str(e1) == str(e2) else "false"
                    job = "(streq %s %s)" % (ex.expr(e1), ex.expr(e2))
                else:
                    expect = "true" if S.DoSimplify._fact_key(e1) == S.DoSimplify._fact_key(e2) else "false"
                    job = "(factkey %s %s)" % (ex.expr(e1), ex.expr(e2))
                rec["sample"] = "%s  ~  %s  : %s" % (first_line(e1), first_line(e2), expect)
        except Unsupported as e:
            continue
        rec["expect"] = expect
        if kind in ("cbound", "loopiter"):
            rec["changed"] = expect not in ("(N N)", "crash")  # non-trivial: a bound was derived
        elif kind in ("index_start", "simp_e"):
            rec["changed"] = expect != ex.expr(e)       # non-trivial: the real code rewrote the expression
        else:
            rec["changed"] = expect == "true"            # non-trivial: the two expressions are identified
        rec["tags"] = [kind, "crash" if expect == "crash" else "ok"]
        if "bf" in rec and rec["bf"] and rec["bf"].get("violation"):
            rec["violation"] = rec["bf"].pop("violation")
        jobs.append(job)
        recs.append(rec)


def rename_tree(t, names, rng):
    """same shape, variables possibly replaced (to probe the printed-name comparison)"""
    if t[0] == "v":
        return ("v", rng.choice(names)) if rng.random() < 0.5 else t
    if t[0] == "neg":
        return ("neg", rename_tree(t[1], names, rng))
    if t[0] == "b":
        return ("b", t[1], rename_tree(t[2], names, rng), rename_tree(t[3], names, rng))
    if t[0] == "c" and rng.random() < 0.1:
        return ("c", t[1] + 1)
    return t


def bf_range(e, r, envmap, b, loop=None):
    """every value the expression (resp. the loop iterator) takes under the environment lies in the bound the REAL
    range analysis returned"""
    import itertools
    ex = Exporter()
    c = O.Compiler(ex)
    args = ", ".join("v_%d" % sy._id for sy, _ in b.syms.values())
    try:
        if loop is None:
            fs = [eval("lambda cfg, %s: %s" % (args, c.ce(e)))]
        else:
            fs = [eval("lambda cfg, %s: %s" % (args, c.ce(x))) for x in loop]
    except Unsupported as exn:
        return {"skip": str(exn)}
    doms = []
    for sy, ty in b.syms.values():
        lo, hi = envmap.get(sy, (None, None))
        lo_ = (1 if ty == T.size else -6) if lo is None else lo
        hi_ = (lo_ + 9) if hi is None else hi
        if lo is None and hi is not None:
            lo_ = hi - 9
        doms.append(range(lo_, hi_ + 1))
    n = 0
    for vals in itertools.product(*doms):
        try:
            vs = [f({}, *vals) for f in fs]
        except ZeroDivisionError:
            continue
        cand = [vs[0]] if loop is None else range(vs[0], vs[1])
        for v in cand:
            n += 1
            if (r[0] is not None and v < r[0]) or (r[1] is not None and v > r[1]):
                what = first_line(e) if loop is None else "iterator of seq(%s, %s)" % (first_line(loop[0]), first_line(loop[1]))
                return {"valuations": n, "violation": {
                    "key": "simplify:range:%s in [%s, %s]" % (what, r[0], r[1]),
                    "what": "range analysis bounds `%s` by [%s, %s] but it takes the value %r" % (what, r[0], r[1], v),
                    "replay": {"expr": what, "env": {repr(k): v2 for k, v2 in envmap.items()}, "bound": list(r),
                               "valuation": {repr(sy): x for (sy, _), x in zip(b.syms.values(), vals)}, "value": v}}}
    return {"valuations": n}


def bf_expr(before, after, envmap, conds, b):
    """exhaustive comparison of two expressions over all valuations admitted by the range environment and by the
    guards `conds` (unknown side of a range: -6..9)"""
    import itertools
    ex = Exporter()
    c = O.Compiler(ex)
    try:
        fb = eval("lambda cfg, %s: %s" % (", ".join("v_%d" % sy._id for sy, _ in b.syms.values()), c.ce(before)))
        fa = eval("lambda cfg, %s: %s" % (", ".join("v_%d" % sy._id for sy, _ in b.syms.values()), c.ce(after)))
        fcs = [eval("lambda cfg, %s: %s" % (", ".join("v_%d" % sy._id for sy, _ in b.syms.values()), c.ce(x)))
               for x in conds]
    except Unsupported as e:
        return {"skip": str(e)}
    doms = []
    for sy, ty in b.syms.values():
        lo, hi = envmap.get(sy, (None, None))
        lo_ = (1 if ty == T.size else -6) if lo is None else lo
        hi_ = 9 if hi is None else hi
        if lo is not None and hi is None:
            hi_ = lo + 12
        if hi is not None and lo is None:
            lo_ = hi - 12
        doms.append(range(lo_, hi_ + 1))
    n = 0
    for vals in itertools.product(*doms):
        try:
            if not all(f({}, *vals) for f in fcs):
                continue
            vb = fb({}, *vals)
        except ZeroDivisionError:
            continue
        n += 1
        try:
            va = fa({}, *vals)
        except ZeroDivisionError:
            va = "ZeroDivisionError"
        if va != vb:
            bs, as_ = first_line(before), first_line(after)
            return {"valuations": n, "violation": {
                "key": "simplify:%s:%s -> %s" % (classify(bs, as_), bs, as_),
                "what": "`%s` evaluates to %r but its replacement `%s` to %r" % (bs, vb, as_, va),
                "replay": {"before": bs, "after": as_, "guards": [first_line(x) for x in conds],
                           "env": {repr(k): v for k, v in envmap.items()},
                           "valuation": {repr(sy): v for (sy, _), v in zip(b.syms.values(), vals)},
                           "before_value": vb, "after_value": va}}}
    return {"valuations": n}


# ============================================================================================ malformed stream
MALFORMED = [
    "sink2(k / 0, 0)", "sink2(k % 0, 0)", "sink2(k / (-2), 0)", "sink2(k % (-4), 0)", "sink2(k / n, 0)",
    "sink2(k % n, 0)", "sink2(k * k, 0)", "sink2(n * k, 0)", "sink2(k / (1 + 1), 0)", "sink2((k + 1) * (n - 1), 0)",
    "sink2(k / 2.0, 0)", "sink2(4 / k, 0)",
]


def malformed_cases(rng, n, out_recs):
    for _ in range(n):
        s = rng.choice(MALFORMED)
        src = progen.HEADER + "@proc\ndef sink2(a: index, b: index):\n    pass\n\n" \
              "@proc\ndef p(n: size, k: index):\n    for i in seq(0, n):\n        %s\n" % s
        mod, err = progen.load_module(src, "c12m")
        out_recs.append({"stream": "malformed", "nojob": True, "sample": s, "rejected": mod is None, "err": (err or "")[:120],
                         "tags": ["rejected" if mod is None else "ACCEPTED"]})


# ============================================================================================ main
def main():
    ap = argparse.ArgumentParser()
    ap.add_argument("--seed", type=int, required=True)
    ap.add_argument("--worker", type=int, default=0)
    ap.add_argument("--out", required=True)
    ap.add_argument("--nsrc", type=int, default=50)
    ap.add_argument("--ninline", type=int, default=20)
    ap.add_argument("--nir", type=int, default=50)
    ap.add_argument("--nunit", type=int, default=200)
    ap.add_argument("--nmal", type=int, default=5)
    ap.add_argument("--cap", type=int, default=1500)
    ap.add_argument("--budget", type=float, default=1e9, help="seconds; generation stops gracefully afterwards")
    a = ap.parse_args()
    T0 = time.time()

    def late(frac=1.0):
        return time.time() - T0 > a.budget * frac
    rng = random.Random(a.seed * 1000003 + a.worker)
    os.makedirs(a.out, exist_ok=True)
    jf = open(os.path.join(a.out, "jobs_%d.sexp" % a.worker), "w")
    cf = open(os.path.join(a.out, "cases_%d.jsonl" % a.worker), "w")

    class Sink(list):
        """records are written as soon as they exist, so that a worker stopped by the time budget still counts"""

        def append(self, rec):
            cf.write(json.dumps(rec, default=str) + "\n")
            cf.flush()

    class JobSink(list):
        def append(self, job):
            jf.write(job + "\n")
            jf.flush()

    jobs, recs = JobSink(), Sink()

    def add(rec, job):
        calls = rec.pop("range_calls", None)
        if calls:
            try:
                _add(rec, job)
            finally:
                range_tap_cases(calls, _add)
        else:
            _add(rec, job)

    def _add(rec, job):
        if job is None:
            rec["nojob"] = True
            recs.append(rec)
            return
        jobs.append(job)      # the job line is written before its record: #records-with-job <= #jobs
        recs.append(rec)

    # ---- corpus first (worker 0 only)
    if a.worker == 0:
        for c in c12_corpus.CORPUS:
            mod, err = progen.load_module(progen.HEADER + c["src"], "c12c")
            if mod is None:
                recs.append({"stream": "corpus", "nojob": True, "corpus_error": True, "err": err[:300],
                             "sample": c["name"], "tags": ["front-end-reject"]})
                continue
            p = mod.p
            rec, job = run_proc_case("corpus", p._loopir_proc, lambda p=p: p, {"corpus": c["name"], "src": c["src"]},
                                     a.out, a.cap)
            rec["sample"] = c["name"] + "\n" + c["src"][-300:]
            add(rec, job)
    # ---- malformed (cheap, first)
    malformed_cases(rng, a.nmal, recs)

    # ---- the generated streams, interleaved (so that a time budget thins all of them evenly)
    ig = G.IrGen(rng)

    def do_src(kind, k):
        g = G.SrcGen(rng, "w%d_%d" % (a.worker, k))
        c = g.gen(inline=(kind == "inline"))
        try:
            mod, err = progen.load_module(progen.HEADER + c["src"], "c12")
        except BaseException as e:  # noqa
            mod, err = None, "%s: %s" % (type(e).__name__, e)
        if mod is None:
            recs.append({"stream": kind, "nojob": True, "rejected": True, "err": err[:160], "tags": ["front-end-reject"]})
            return
        p = mod.p
        rec, job = run_proc_case(kind, p._loopir_proc, lambda p=p: p, {"src": c["src"]}, a.out, a.cap)
        rec["sample"] = c["src"][-400:]
        add(rec, job)

    def do_ir():
        desc = ig.gen()
        try:
            ir = build_ir_proc(desc)
        except Exception as e:
            recs.append({"stream": "ir", "nojob": True, "err": "build: %s" % e, "tags": ["build-error"]})
            return
        rec, job = run_proc_case("ir", ir, lambda ir=ir: Procedure(ir), {"desc": desc}, a.out, a.cap)
        rec["sample"] = str(ir)[-400:]
        add(rec, job)

    UNIT_BATCH = 40
    schedule = ["src"] * a.nsrc + ["inline"] * a.ninline + ["ir"] * a.nir + ["unit"] * (a.nunit // UNIT_BATCH)
    rng.shuffle(schedule)
    # a guaranteed minimum of every stream comes first
    head = ["src"] * min(a.nsrc, 4) + ["ir"] * min(a.nir, 4) + ["unit"] * 2 + ["inline"] * min(a.ninline, 2)
    for x in head:
        schedule.remove(x)
    schedule = head + schedule
    done = 0
    for k, x in enumerate(schedule):
        if late():
            recs.append({"stream": "all", "nojob": True, "skip": "time-budget", "tags": ["time-budget"],
                         "err": "%d of %d scheduled items run" % (done, len(schedule))})
            break
        if x in ("src", "inline"):
            do_src(x, k)
        elif x == "ir":
            do_ir()
        else:
            unit_cases(rng, UNIT_BATCH, jobs, recs)
        done += 1

    jf.close()
    cf.close()


if __name__ == "__main__":
    try:
        main()
    except Exception:
        traceback.print_exc()
        sys.exit(3)
