"""C06 part (b): API-level search with the identity oracle, recording of the edit scripts that real
scheduling primitives issue (monkey-patched internal_cursors), replay of the scripts in the Coq model.

Everything here talks to the REAL exo (imported from common.REPO/src by check.py)."""
from __future__ import annotations

import random
import textwrap
import traceback

import c06_impl as I
import common

from exo import proc as exo_proc  # noqa: F401  (used by exec'd source)
from exo import SchedulingError
from exo.API import Procedure
from exo.core import internal_cursors as ic
from exo.core.LoopIR import LoopIR
from exo.API_cursors import lift_cursor, InvalidCursorError as APIInvalid
import exo.API_scheduling as S
import exo.API_cursors as PC

assert APIInvalid is ic.InvalidCursorError or issubclass(APIInvalid, Exception)


# ====================================================================================================
# procedure generator (real @proc source text through the real front end)
class Gen:
    def __init__(self, rng, max_stmts=12, max_depth=3):
        self.rng = rng
        self.budget = max_stmts
        self.max_depth = max_depth
        self.ntmp = 0
        self.nloop = 0

    def idx(self, loops):
        r = self.rng.random()
        if loops and r < 0.65:
            v = self.rng.choice(loops)
            return v if self.rng.random() < 0.7 else "%s + %d" % (v, self.rng.randrange(1, 4))
        return str(self.rng.randrange(0, 8))

    def rhs(self, loops, tmps):
        r = self.rng.random()
        bufs = ["x", "y", "z"]
        if r < 0.35:
            return "%d.0" % self.rng.randrange(0, 5)
        if r < 0.7:
            return "%s[%s]" % (self.rng.choice(bufs), self.idx(loops))
        if r < 0.8 and tmps:
            return self.rng.choice(tmps)
        return "%s[%s] + %s[%s]" % (self.rng.choice(bufs), self.idx(loops), self.rng.choice(bufs), self.idx(loops))

    def stmt(self, depth, loops, tmps, ind):
        """returns list of source lines"""
        self.budget -= 1
        r = self.rng.random()
        pad = "    " * ind
        if depth < self.max_depth and self.budget > 1 and r < 0.30:
            v = "i%d" % self.nloop
            self.nloop += 1
            hi = self.rng.choice(["4", "4", "8", "2", "n"])
            return [pad + "for %s in seq(0, %s):" % (v, hi)] + self.block(depth + 1, loops + [v], list(tmps), ind + 1, 1)
        if depth < self.max_depth and self.budget > 1 and r < 0.48:
            if loops and self.rng.random() < 0.5:
                cond = "%s < %d" % (self.rng.choice(loops), self.rng.randrange(1, 4))
            else:
                cond = self.rng.choice(["n > 2", "m > 1", "n < 3", "n > 2"])
            out = [pad + "if %s:" % cond] + self.block(depth + 1, loops, list(tmps), ind + 1, 1)
            if self.rng.random() < 0.55 and self.budget > 0:
                out += [pad + "else:"] + self.block(depth + 1, loops, list(tmps), ind + 1, 1)
            return out
        if r < 0.56:
            return [pad + "pass"]
        if r < 0.70:
            t = "t%d" % self.ntmp
            self.ntmp += 1
            tmps.append(t)
            self.budget -= 1
            return [pad + "%s: f32" % t, pad + "%s = %s" % (t, self.rhs(loops, [x for x in tmps if x != t]))]
        if r < 0.78 and tmps:
            return [pad + "%s = %s" % (self.rng.choice(tmps), self.rhs(loops, tmps))]
        op = "=" if self.rng.random() < 0.7 else "+="
        return [pad + "%s[%s] %s %s" % (self.rng.choice(["x", "y", "z"]), self.idx(loops), op, self.rhs(loops, tmps))]

    def block(self, depth, loops, tmps, ind, minlen):
        n = self.rng.choice([1, 2, 2, 3, 4])
        out = []
        for k in range(n):
            if self.budget <= 0 and k >= minlen:
                break
            out += self.stmt(depth, loops, tmps, ind)
        return out

    def source(self, name):
        body = self.block(1, [], [], 1, 2)
        hdr = ["@proc", "def %s(n: size, m: size, x: f32[16], y: f32[16], z: f32[16]):" % name, "    assert n <= 8"]
        return "\n".join(hdr + body) + "\n"


_counter = [0]


def make_proc(src):
    """exec the source through the real front end; returns a Procedure"""
    import linecache
    _counter[0] += 1
    fname = "<c06gen%d>" % _counter[0]
    full = "from __future__ import annotations\nfrom exo import proc\n" + src
    linecache.cache[fname] = (len(full), None, full.splitlines(True), fname)
    g = {}
    exec(compile(full, fname, "exec"), g)
    for v in g.values():
        if isinstance(v, Procedure):
            return v
    raise RuntimeError("no proc")


def gen_proc(rng):
    for _ in range(50):
        src = Gen(rng, max_stmts=rng.choice([5, 8, 10, 12])).source("p%d" % rng.randrange(10 ** 6))
        try:
            return make_proc(src), src
        except Exception:
            continue
    raise RuntimeError("generator cannot produce an accepted procedure")


# ====================================================================================================
# statement structure of real procedures, canonical cursors
def kind_of(n):
    if isinstance(n, LoopIR.proc):
        return "proc"
    if isinstance(n, LoopIR.For):
        return "for"
    if isinstance(n, LoopIR.If):
        return "if"
    return "leaf"


class Labeler:
    def __init__(self):
        self.by_id = {}
        self.keep = []
        self.next = 0
        self.fillers = set()

    def fresh(self):
        self.next += 1
        return self.next - 1

    def of(self, node):
        k = id(node)
        if k not in self.by_id:
            self.by_id[k] = self.fresh()
            self.keep.append(node)
        return self.by_id[k]

    def known(self, node):
        return id(node) in self.by_id

    def export(self, n):
        k = kind_of(n)
        body = [self.export(c) for c in n.body] if k in ("for", "if", "proc") else []
        orelse = [self.export(c) for c in n.orelse] if k == "if" else []
        return (self.of(n), k, body, orelse)


def struct_only(n):
    """spec without labels: (kind, body, orelse)"""
    k = kind_of(n)
    return (k, [struct_only(c) for c in n.body] if k in ("for", "if", "proc") else [],
            [struct_only(c) for c in n.orelse] if k == "if" else [])


def stmt_objects(n, out=None):
    out = {} if out is None else out
    k = kind_of(n)
    if k != "proc":
        out[id(n)] = n
    if k in ("for", "if", "proc"):
        for c in n.body:
            stmt_objects(c, out)
    if k == "if":
        for c in n.orelse:
            stmt_objects(c, out)
    return out


def count_obj(n, o):
    k = kind_of(n)
    c = 1 if n is o else 0
    if k in ("for", "if", "proc"):
        c += sum(count_obj(x, o) for x in n.body)
    if k == "if":
        c += sum(count_obj(x, o) for x in n.orelse)
    return c


def is_stmt_path(path):
    return all(a in ("body", "orelse") and isinstance(i, int) for a, i in path)


# ====================================================================================================
# recording the edit scripts primitives issue
class Recorder:
    """monkey-patches the five mutation entry points of internal_cursors; only outermost calls are recorded"""

    def __init__(self):
        self.events = []
        self.depth = 0
        self._orig = {}

    def __enter__(self):
        rec = self
        o = self._orig
        o["Block._replace"] = ic.Block._replace
        o["Block._wrap"] = ic.Block._wrap
        o["Block._move"] = ic.Block._move
        o["Gap._insert"] = ic.Gap._insert
        o["Node._replace"] = ic.Node._replace

        def outer(fn):
            def w(self, *a, **kw):
                top = rec.depth == 0
                rec.depth += 1
                try:
                    res = fn(self, *a, **kw)
                finally:
                    rec.depth -= 1
                return top, res
            return w

        r_replace = outer(o["Block._replace"])
        r_wrap = outer(o["Block._wrap"])
        r_move = outer(o["Block._move"])
        r_insert = outer(o["Gap._insert"])
        r_nrepl = outer(o["Node._replace"])

        def block_replace(self, nodes, *, empty_default=None):
            top, res = r_replace(self, nodes, empty_default=empty_default)
            if top:
                rec.events.append(dict(kind="delete" if empty_default is not None else "replace", cur=self,
                                       nodes=list(nodes), res=res))
            return res

        def block_wrap(self, ctor, wrap_attr):
            top, res = r_wrap(self, ctor, wrap_attr)
            if top:
                rec.events.append(dict(kind="wrap", cur=self, wrap_attr=wrap_attr, res=res))
            return res

        def block_move(self, target):
            top, res = r_move(self, target)
            if top:
                rec.events.append(dict(kind="move", cur=self, target=target, res=res))
            return res

        def gap_insert(self, stmts):
            top, res = r_insert(self, stmts)
            if top:
                rec.events.append(dict(kind="insert", cur=self, nodes=list(stmts), res=res))
            return res

        def node_replace(self, ast):
            attr, idx = self._path[-1]
            if idx is not None and isinstance(ast, list):
                return o["Node._replace"](self, ast)  # delegates to Block._replace, recorded there
            top, res = r_nrepl(self, ast)
            if top:
                rec.events.append(dict(kind="nodereplace", cur=self, res=res))
            return res

        ic.Block._replace = block_replace
        ic.Block._wrap = block_wrap
        ic.Block._move = block_move
        ic.Gap._insert = gap_insert
        ic.Node._replace = node_replace
        return self

    def __exit__(self, *exc):
        o = self._orig
        ic.Block._replace = o["Block._replace"]
        ic.Block._wrap = o["Block._wrap"]
        ic.Block._move = o["Block._move"]
        ic.Gap._insert = o["Gap._insert"]
        ic.Node._replace = o["Node._replace"]
        return False


def pp(path):
    return tuple((I.ATTR[a], i) for a, i in path)


def events_to_script(events, lab):
    """recorded events -> model edits (c06_impl tuple format).  Returns (edits, note)"""
    edits = []
    for ev in events:
        k = ev["kind"]
        cur = ev["cur"]
        if k == "nodereplace":
            edits.append(("nop",))
            continue
        if k in ("replace", "delete", "wrap", "move"):
            path, attr, rng = cur._anchor._path, cur._attr, cur._range
            if attr not in I.ATTR or not is_stmt_path(path):
                edits.append(("nop",))  # expression-level / args / preds block
                continue
            lo, hi = rng.start, rng.stop
            if k == "replace":
                edits.append(("replace", pp(path), I.ATTR[attr], lo, hi, [lab.export(n) for n in ev["nodes"]]))
            elif k == "delete":
                pl = lab.fresh()
                lab.fillers.add(pl)
                edits.append(("delete", pp(path), I.ATTR[attr], lo, hi, pl))
            elif k == "wrap":
                ir = ev["res"][0]
                wnode = ic.Node(ir, list(path) + [(attr, lo)])._node
                wa = ev["wrap_attr"]
                inner = getattr(wnode, wa, None)
                wrapped = getattr(ic.Node(cur._root, list(path))._node, attr)[lo:hi]
                if not (isinstance(inner, list) and len(inner) == len(wrapped)
                        and all(x is y for x, y in zip(inner, wrapped))):
                    return None, "wrap-ctor-contract"
                wl = lab.of(wnode)
                oth_attr = "orelse" if wa == "body" else "body"
                other = [lab.export(c) for c in getattr(wnode, oth_attr, [])] if isinstance(wnode, LoopIR.If) else []
                edits.append(("wrap", pp(path), I.ATTR[attr], lo, hi, wl, I.ATTR[wa], other))
            else:
                tgt = ev["target"]
                if not is_stmt_path(tgt._anchor._path):
                    return None, "move target is not a statement gap"
                pl = lab.fresh()
                lab.fillers.add(pl)
                edits.append(("move", pp(path), I.ATTR[attr], lo, hi, pp(tgt._anchor._path),
                              "before" if tgt._type == ic.GapType.Before else "after", pl))
        elif k == "insert":
            path = cur._anchor._path
            if not is_stmt_path(path):
                edits.append(("nop",))
                continue
            edits.append(("insert", pp(path), "before" if cur._type == ic.GapType.Before else "after",
                          [lab.export(n) for n in ev["nodes"]]))
    return edits, ""


def match_trees(mtree, node, lab, problems, path=()):
    """walk the model's final tree and the real final tree together; known objects must carry the model's
    label, unknown objects (rebuilt by update, fillers, ...) take it"""
    k = kind_of(node)
    mlab, mbody, morelse = mtree
    if lab.known(node):
        if lab.by_id[id(node)] != mlab:
            problems.append("label mismatch at %s: impl %d model %d" % (path, lab.by_id[id(node)], mlab))
    else:
        if mlab in lab.fillers and not isinstance(node, LoopIR.Pass):
            problems.append("filler label on a non-Pass node at %s" % (path,))
        lab.by_id[id(node)] = mlab
        lab.keep.append(node)
    body = list(node.body) if k in ("for", "if", "proc") else []
    orelse = list(node.orelse) if k == "if" else []
    if len(body) != len(mbody) or len(orelse) != len(morelse):
        problems.append("shape mismatch at %s: impl %d/%d model %d/%d" % (path, len(body), len(orelse), len(mbody), len(morelse)))
        return
    for i, (m, c) in enumerate(zip(mbody, body)):
        match_trees(m, c, lab, problems, path + (("b", i),))
    for i, (m, c) in enumerate(zip(morelse, orelse)):
        match_trees(m, c, lab, problems, path + (("o", i),))


# ====================================================================================================
# primitive drivers: every candidate is (name, thunk) with thunk(p) -> new Procedure
def public_stmts(p):
    """all (internal-node-cursor, LoopIR stmt) of a procedure, pre-order"""
    out = []

    def go(c):
        n = c._node
        k = kind_of(n)
        for attr in (["body"] if k in ("for", "proc") else ["body", "orelse"] if k == "if" else []):
            for ch in c._child_block(attr):
                out.append(ch)
                go(ch)

    go(p._root())
    return out


def candidates(p, rng):
    """list of (primitive name, argument description, thunk)"""
    out = []
    stmts = public_stmts(p)

    def L(c):
        return lift_cursor(c, p)

    for c in stmts:
        n = c._node
        attr, i = c._path[-1]
        sibs = getattr(c.parent()._node, attr)
        pc = L(c)
        d = "%s" % (pp(c._path),)
        # gaps
        out.append(("insert_pass", d + ":before", lambda pc=pc: S.insert_pass(p, pc.before())))
        out.append(("insert_pass", d + ":after", lambda pc=pc: S.insert_pass(p, pc.after())))
        if i + 1 < len(sibs):
            out.append(("reorder_stmts", d, lambda pc=pc: S.reorder_stmts(p, pc.expand(0, 1))))
            nx = sibs[i + 1]
            if isinstance(n, (LoopIR.For, LoopIR.If)) and type(nx) is type(n):
                out.append(("fuse", d, lambda pc=pc: S.fuse(p, pc, pc.next(), unsafe_disable_check=False)))
                out.append(("fuse!", d, lambda pc=pc: S.fuse(p, pc, pc.next(), unsafe_disable_check=True)))
            if isinstance(n, LoopIR.For) and isinstance(nx, LoopIR.For):
                out.append(("join_loops", d, lambda pc=pc: S.join_loops(p, pc, pc.next())))
            if isinstance(n, (LoopIR.Assign, LoopIR.Reduce)) and isinstance(nx, (LoopIR.Assign, LoopIR.Reduce)):
                out.append(("merge_writes", d, lambda pc=pc: S.merge_writes(p, pc.expand(0, 1))))
        if len(c._path) >= 2:
            for nl in (1, 2):
                out.append(("fission", d + ":%d" % nl, lambda pc=pc, nl=nl: S.fission(p, pc.after(), n_lifts=nl)))
            out.append(("fission!", d, lambda pc=pc: S.fission(p, pc.after(), n_lifts=1, unsafe_disable_checks=True)))
            out.append(("fission!", d + ":before", lambda pc=pc: S.fission(p, pc.before(), n_lifts=1, unsafe_disable_checks=True)))
            if isinstance(n, (LoopIR.For, LoopIR.If)):
                out.append(("lift_scope", d, lambda pc=pc: S.lift_scope(p, pc)))
        if isinstance(n, LoopIR.For):
            out.append(("cut_loop", d, lambda pc=pc: S.cut_loop(p, pc, 1)))
            out.append(("shift_loop", d, lambda pc=pc: S.shift_loop(p, pc, 1)))
            out.append(("unroll_loop", d, lambda pc=pc: S.unroll_loop(p, pc)))
            out.append(("remove_loop", d, lambda pc=pc: S.remove_loop(p, pc)))
            out.append(("remove_loop!", d, lambda pc=pc: S.remove_loop(p, pc, unsafe_disable_check=True)))
            out.append(("parallelize_loop", d, lambda pc=pc: S.parallelize_loop(p, pc)))
            for tail in ("cut", "guard", "cut_and_guard"):
                out.append(("divide_loop:" + tail, d,
                            lambda pc=pc, tail=tail: S.divide_loop(p, pc, 2, ["%so" % pc.name(), "%si" % pc.name()], tail=tail)))
            out.append(("divide_loop:perfect", d,
                        lambda pc=pc: S.divide_loop(p, pc, 2, ["%so" % pc.name(), "%si" % pc.name()], perfect=True)))
            out.append(("divide_with_recompute", d,
                        lambda pc=pc: S.divide_with_recompute(p, pc, "2", 2, ["%so" % pc.name(), "%si" % pc.name()])))
            if len(n.body) == 1 and isinstance(n.body[0], LoopIR.For):
                out.append(("reorder_loops", d, lambda pc=pc: S.reorder_loops(p, pc)))
                out.append(("mult_loops", d, lambda pc=pc: S.mult_loops(p, pc, "%sm" % pc.name())))
            out.append(("eliminate_dead_code", d, lambda pc=pc: S.eliminate_dead_code(p, pc)))
        if isinstance(n, LoopIR.If):
            out.append(("eliminate_dead_code", d, lambda pc=pc: S.eliminate_dead_code(p, pc)))
        if isinstance(n, LoopIR.Alloc):
            out.append(("lift_alloc", d, lambda pc=pc: S.lift_alloc(p, pc, 1)))
            out.append(("sink_alloc", d, lambda pc=pc: S.sink_alloc(p, pc)))
            out.append(("expand_dim", d, lambda pc=pc: S.expand_dim(p, pc, "4", "0")))
            out.append(("delete_buffer", d, lambda pc=pc: S.delete_buffer(p, pc)))
            out.append(("set_memory", d, lambda pc=pc: S.set_memory(p, pc, _dram_static())))
            out.append(("set_precision", d, lambda pc=pc: S.set_precision(p, pc, "f64")))
        if isinstance(n, LoopIR.Assign):
            out.append(("inline_assign", d, lambda pc=pc: S.inline_assign(p, pc)))
            out.append(("fold_into_reduce", d, lambda pc=pc: S.fold_into_reduce(p, pc)))
        if isinstance(n, (LoopIR.Assign, LoopIR.Reduce)):
            out.append(("bind_expr", d, lambda pc=pc: S.bind_expr(p, [pc.rhs()], "bnd")))
            out.append(("split_write", d, lambda pc=pc: S.split_write(p, pc)))
            out.append(("commute_expr", d, lambda pc=pc: S.commute_expr(p, [pc.rhs()])))
            out.append(("stage_mem", d, lambda pc=pc, n=n: S.stage_mem(p, pc, "%s[0:16]" % n.name.name(), "stg")))
        out.append(("add_loop:guard", d, lambda pc=pc: S.add_loop(p, pc, "al", 2, guard=True)))
        out.append(("add_loop:noguard", d, lambda pc=pc: S.add_loop(p, pc, "al", 2, guard=False)))
        out.append(("specialize", d, lambda pc=pc: S.specialize(p, pc, ["n > 4"])))
        if i + 1 < len(sibs):
            out.append(("specialize:2", d, lambda pc=pc: S.specialize(p, pc.expand(0, 1), ["m > 2", "m > 1"])))
            out.append(("extract_subproc", d, lambda pc=pc: S.extract_subproc(p, pc.expand(0, 1), "sub%d" % rng.randrange(10 ** 6))))
        out.append(("add_unsafe_guard", d, lambda pc=pc: S.add_unsafe_guard(p, pc, "n > 1")))
    out.append(("delete_pass", "", lambda: S.delete_pass(p)))
    out.append(("simplify", "", lambda: S.simplify(p)))
    return out


def _dram_static():
    from exo.libs.memories import DRAM_STATIC
    return DRAM_STATIC


# primitives whose Procedure is built without a forwarding function (old-style rewrite passes)
UNDEFINED_OK = {"add_unsafe_guard", "autofission", "autolift_alloc"}

ACCEPTABLE = (SchedulingError, TypeError, ValueError, NotImplementedError, KeyError, ic.InvalidCursorError)


def apply_candidate(thunk):
    """returns (new_proc or None, recorder events, error-name)"""
    with Recorder() as rec:
        try:
            r = thunk()
        except ACCEPTABLE as ex:
            return None, rec.events, type(ex).__name__
        except AssertionError as ex:  # internal asserts of primitives on unsupported shapes
            return None, rec.events, "AssertionError"
        except Exception as ex:  # the primitive itself fell over (not a forwarding matter): count, do not report
            return None, rec.events, "!" + type(ex).__name__
    if isinstance(r, tuple):
        r = r[0]
    return r, rec.events, ""


def internal_forward(src_proc, dst_proc, icur):
    """what Procedure.forward does (API.py:194-205), without lift_cursor"""
    p = dst_proc
    fw = []
    while p is not None and p is not src_proc:
        fw.append(p._forward)
        p = p._provenance_eq_Procedure
    for fn in reversed(fw):
        icur = fn(icur)
    return icur


def inserted_ids(events):
    """ids of all statement objects (recursively) that a replace/insert of the script put into the tree"""
    out = {}
    for ev in events:
        for n in ev.get("nodes", []):
            if isinstance(n, LoopIR.stmt):
                stmt_objects(n, out)
                out[id(n)] = n
    return out


# ====================================================================================================
# the identity oracle
def denote(root_spec_objs, impl_cursor):
    """objects a real internal cursor denotes: ('n', obj) / ('b', [objs]) / ('g', obj, type); raises if dangling"""
    if isinstance(impl_cursor, ic.Node):
        return ("n", impl_cursor._node)
    if isinstance(impl_cursor, ic.Gap):
        return ("g", impl_cursor._anchor._node, impl_cursor._type)
    return ("b", [c._node for c in impl_cursor])


def check_forward(ck, src_proc, dst_proc, chain_desc, replay, stats, cursors=None, events=()):
    """forward EVERY statement / block / gap cursor of src_proc to dst_proc; identity oracle"""
    root = src_proc._loopir_proc
    old = stmt_objects(root)
    new = stmt_objects(dst_proc._loopir_proc)
    ins = inserted_ids(events)
    spec = struct_spec(root)
    cs = cursors or I.enum_cursors(spec)
    for c in cs:
        if c[0] == "n" and not c[1]:
            continue  # the root is not a statement
        icur = I.mk_cursor(root, c)
        pub = lift_cursor(icur, src_proc)
        stats["fwd"] = stats.get("fwd", 0) + 1
        kind = {"n": "stmt", "b": "block", "g": "gap"}[c[0]]
        key = None
        what = None
        try:
            f = dst_proc.forward(pub)
        except ic.InvalidCursorError:
            stats["invalid"] = stats.get("invalid", 0) + 1
            continue
        except NotImplementedError as ex:
            if "forwarding function has not been implemented" in str(ex) and \
                    any(x in UNDEFINED_OK for x in chain_desc.split("+")):
                stats["undefined"] = stats.get("undefined", 0) + 1
                stats.setdefault("undefined_prims", set()).update(x for x in chain_desc.split("+") if x in UNDEFINED_OK)
                continue
            key, what = "api:%s:NotImplementedError:%s" % (kind, chain_desc), str(ex)
        except Exception as ex:
            empty = ""
            if isinstance(ex, AssertionError) and c[0] == "b":
                # distinguish the "exactly deleted block -> empty block -> lift_cursor assert" case
                try:
                    ir = internal_forward(src_proc, dst_proc, icur)
                    if isinstance(ir, ic.Block) and len(ir) == 0:
                        empty = "empty-"
                except Exception:
                    pass
            key, what = "api:%s:%s%s@%s:%s" % (kind, empty, type(ex).__name__, raise_site(ex), chain_desc), \
                "forward raised %s at %s: %s" % (type(ex).__name__, raise_site(ex, True), str(ex)[:200])
        if key is None:
            stats["ok"] = stats.get("ok", 0) + 1
            fi = f._impl
            src_den = denote(None, icur)
            try:
                den = denote(None, fi)
            except Exception as ex:
                key, what = "api:%s:dangling-%s:%s" % (kind, type(ex).__name__, chain_desc), \
                    "forwarded cursor %r does not resolve in the new procedure" % (I.canon_cursor(fi),)
                den = None
            if den is not None:
                if c[0] == "n":
                    o, o2 = src_den[1], den[1]
                    if o2 is o:
                        stats["same_obj"] = stats.get("same_obj", 0) + 1
                    elif id(o2) in old:
                        key, what = "api:stmt:different-stmt:%s" % chain_desc, \
                            "forwarded to the carried-over statement `%s`, not `%s`" % (_s(o2), _s(o))
                    else:
                        stats["rebuilt"] = stats.get("rebuilt", 0) + 1
                        if ("+" not in chain_desc and id(o) in new and count_obj(root, o) == 1
                                and count_obj(dst_proc._loopir_proc, o) == 1):
                            # (single primitive only: in a chain one primitive may duplicate a statement
                            #  object and a later one rebuild one of the copies)
                            # the very object is carried over (exactly once) but the cursor went to a new node
                            key, what = "api:stmt:missed-carried-over:%s" % chain_desc, \
                                "`%s` is carried over unchanged but its cursor forwards to the new statement `%s`" % (_s(o), _s(o2))
                elif c[0] == "g":
                    o, o2 = src_den[1], den[1]
                    if den[2] != src_den[2]:
                        key, what = "api:gap:side-changed:%s" % chain_desc, "gap side changed"
                    elif o2 is o:
                        stats["same_obj"] = stats.get("same_obj", 0) + 1
                    elif id(o2) in old:
                        key, what = "api:gap:different-stmt:%s" % chain_desc, \
                            "gap anchor forwarded to the carried-over statement `%s`, not `%s`" % (_s(o2), _s(o))
                    else:
                        stats["rebuilt"] = stats.get("rebuilt", 0) + 1
                else:
                    src_ids = {id(o) for o in src_den[1]}
                    # carried-over statements that were not in the block and that the script did not
                    # (re)insert through a replace/insert list, i.e. that arrived by a _move
                    foreign = [o2 for o2 in den[1] if id(o2) in old and id(o2) not in src_ids and id(o2) not in ins]
                    if foreign:
                        key, what = "api:block:foreign-stmt:%s" % chain_desc, \
                            "forwarded block contains the carried-over statement `%s` that was not in the block" % _s(foreign[0])
                    elif all(any(o2 is o for o in src_den[1]) for o2 in den[1]):
                        stats["same_obj"] = stats.get("same_obj", 0) + 1
                    else:
                        stats["rebuilt"] = stats.get("rebuilt", 0) + 1
        if key is not None:
            stats["violations"] = stats.get("violations", 0) + 1
            rp = dict(replay)
            rp["cursor"] = common.sexp(I.cursor_sexp(c))
            ck.violation(key, rp, what)


def raise_site(ex, full=False):
    """function (and line) of the innermost frame that raised: distinguishes e.g. the asserts of
    Block._forward_move (``forward``) from lift_cursor's ``assert len(impl) > 0``"""
    tb = ex.__traceback__
    last = None
    while tb is not None:
        last = tb
        tb = tb.tb_next
    if last is None:
        return "?"
    co = last.tb_frame.f_code
    if full:
        return "%s:%d (%s)" % (co.co_filename.split("/")[-1], last.tb_lineno, co.co_name)
    return co.co_name


def _s(o):
    try:
        return str(o).splitlines()[0][:60]
    except Exception:
        return type(o).__name__


def struct_spec(root):
    """label-less spec usable by c06_impl.enum_cursors"""
    def go(n):
        k = kind_of(n)
        return (0, k, [go(c) for c in n.body] if k in ("for", "if", "proc") else [],
                [go(c) for c in n.orelse] if k == "if" else [])
    return go(root)


# ====================================================================================================
# implicit forwarding == explicit forwarding
def check_implicit(ck, src_proc, dst_proc, chain_desc, replay, stats, rng, limit=6):
    """passing an old cursor directly to a primitive on the new proc gives the same result as forwarding first"""
    root = src_proc._loopir_proc
    spec = struct_spec(root)
    cs = [c for c in I.enum_cursors(spec) if not (c[0] == "n" and not c[1])]
    rng.shuffle(cs)
    done = 0
    for c in cs:
        if done >= limit:
            break
        pub = lift_cursor(I.mk_cursor(root, c), src_proc)

        def run(arg_of):
            try:
                arg = arg_of()
                if c[0] == "g":
                    r = S.insert_pass(dst_proc, arg)
                elif c[0] == "b":
                    r = S.specialize(dst_proc, arg, ["n > 3"])
                elif isinstance(pub, PC.ForCursor):
                    r = S.cut_loop(dst_proc, arg, 1)
                else:
                    r = S.insert_pass(dst_proc, arg.before())
                return ("ok", str(r))
            except Exception as ex:
                return ("exc", type(ex).__name__)

        a = run(lambda: pub)
        b = run(lambda: dst_proc.forward(pub))
        done += 1
        stats["implicit"] = stats.get("implicit", 0) + 1
        if a[0] == "ok":
            stats["implicit_ok"] = stats.get("implicit_ok", 0) + 1
        if a != b:
            rp = dict(replay)
            rp["cursor"] = common.sexp(I.cursor_sexp(c))
            ck.violation("api:implicit-vs-explicit:%s:%s" % ({"n": "stmt", "b": "block", "g": "gap"}[c[0]], chain_desc), rp,
                         "implicit forwarding gave %r, explicit forwarding gave %r" % (a[:2], b[:2]))


# ====================================================================================================
# replay of the recorded script in the model
def replay_in_model(ck, src_proc, dst_proc, events, chain_desc, replay, stats, stream="api-replay"):
    """model final tree == implementation final tree; model forwarding == dst_proc._forward; move_pre holds"""
    lab = Labeler()
    root = src_proc._loopir_proc
    spec0 = lab.export(root)
    edits, note = events_to_script(events, lab)
    if edits is None:
        stats["replay_skipped"] = stats.get("replay_skipped", 0) + 1
        if note == "wrap-ctor-contract":
            ck.violation("api:wrap-ctor-contract:%s" % chain_desc, dict(replay),
                         "the primitive calls Block._wrap(ctor, attr) with a ctor whose result does not hold the "
                         "wrapped statements directly in `attr` (extra nesting level): _forward_wrap forwards every "
                         "cursor into the wrapped statements one level too high")
        return
    cursors = [c for c in I.enum_cursors(spec0)]
    m = I.run_model([(spec0, edits, cursors)])[0]
    key = (I.spec_sexp(spec0), [I.edit_sexp(e) for e in edits])
    tag = chain_desc.split("(")[0]
    ck.case(stream, key, nontrivial=any(e[0] != "nop" for e in edits), tag=tag,
            sample={"prim": chain_desc, "edits": [common.sexp(I.edit_sexp(e)) for e in edits][:8]})
    if m and m[0] == "error":
        ck.corr_diverge(stream, {"what": "driver error", "msg": m, "prim": chain_desc})
        return
    valids = [v == "1" for v in m[1]]
    mpre = [v == "1" for v in m[2]]
    detail = dict(replay)
    detail["edits"] = [common.sexp(I.edit_sexp(e)) for e in edits]
    for e, ok in zip(edits, mpre):
        if e[0] == "move":
            stats["moves"] = stats.get("moves", 0) + 1
            if not ok:
                ck.violation("api:move_pre:%s" % chain_desc, detail,
                             "a scheduling primitive issued a _move outside move_pre (later gap in a subtree "
                             "diverging above the block's level): _forward_move mis-forwards the moved statements")
    if not all(valids):
        ck.corr_diverge(stream, {"what": "recorded edit is invalid in the model", "valids": valids, **detail})
        return
    mtree = I.model_tree_to_plain(m[0])
    problems = []
    if mtree is None:
        problems.append("model could not apply the script")
    else:
        match_trees(mtree, dst_proc._loopir_proc, lab, problems)
    if problems:
        ck.corr_diverge(stream, {"what": "final trees differ: " + "; ".join(problems[:3]), **detail})
        return
    # forwarding: the composed function the primitive returned vs the model's fold over the script
    bad = None
    for c, msteps in zip(cursors, m[3]):
        if c[0] == "n" and not c[1]:
            continue
        try:
            ir = I.canon_cursor(internal_forward(src_proc, dst_proc, I.mk_cursor(root, c)))
        except ic.InvalidCursorError:
            ir = "invalid"
        except (AssertionError, IndexError, TypeError, AttributeError):
            ir = "crash"
        if len(msteps) < len(edits):
            last = I.model_cursor(msteps[-1]) if msteps else None
            if last in ("invalid", "crash"):
                if ir != last:
                    bad = bad or {"cursor": c, "model": last, "impl": ir}
            else:
                stats["garbage_after_defect"] = stats.get("garbage_after_defect", 0) + 1
            continue
        mc = I.model_cursor(msteps[-1]) if msteps else c
        if not edits:
            mc = c
        if mc != ir:
            bad = bad or {"cursor": c, "model": mc, "impl": ir}
        stats["replay_fwd"] = stats.get("replay_fwd", 0) + 1
    if bad:
        ck.corr_diverge(stream, {"what": "forwarding of the composed function differs from the fold over the script",
                                 **bad, **detail})
    else:
        ck.corr_agree(stream)
