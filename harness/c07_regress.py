"""C07 regression cases (run in a subprocess with common.exo_env()): minimal reproducers of purity defects that were
found and repaired in /repo.  Each prints one JSON line {"case", "key", "ok", "detail"}; all must be ok."""
from __future__ import annotations

import json
import os
import sys

sys.path.insert(0, os.path.dirname(os.path.abspath(__file__)))
import progen  # noqa: E402

SRC = progen.HEADER + '''
@proc
def foo(x: R[4], y: R[4]):
    a: R[4, 2]
    for i in seq(0, 4):
        for j in seq(0, 2):
            a[i, j] = x[i] + 1.0 + 0.0
    for i in seq(0, 4):
        y[i] = a[i, 0] + a[i, 1]
'''


def main():
    mod, err = progen.load_module(SRC, tag="c07r")
    assert mod is not None, err
    import exo.stdlib.scheduling as S

    p0 = mod.foo
    out = []

    # 1. mult_dim rewrote the index lists of its source procedure (DoMultiplyDim.remap_idx, fixed by idx.copy())
    before = str(p0)
    ids = [id(e) for e in p0._loopir_proc.body[1].body[0].body[0].idx]
    S.mult_dim(p0, p0.find("a: _"), 0, 1)
    ok = str(p0) == before and [id(e) for e in p0._loopir_proc.body[1].body[0].body[0].idx] == ids
    out.append({"case": "mult_dim keeps the source procedure", "key": "purity:mult_dim:Assign.idx:list-contents", "ok": ok,
                "detail": "" if ok else "str(p0) changed:\n" + str(p0)})

    # 2. primitives taking a list of cursors overwrote the caller's list (CursorArgumentProcessor.__call__)
    for op in ("commute_expr", "bind_expr"):
        cs = [p0.find("x[_] + 1.0")]
        ident = [id(c) for c in cs]
        p1 = S.insert_pass(p0, p0.find("for i in _:_").before())
        if op == "commute_expr":
            S.commute_expr(p1, cs)
        else:
            S.bind_expr(p1, cs, "t")
        ok = [id(c) for c in cs] == ident and cs[0].proc() is p0
        out.append({"case": "%s keeps the caller's list of cursors" % op, "key": "purity:%s:argument-list" % op, "ok": ok,
                    "detail": "" if ok else "cs[0] is now a cursor into the procedure the primitive was applied to"})
    for r in out:
        print(json.dumps(r))


if __name__ == "__main__":
    main()
