"""C02 correspondence: the model pieces of coq/Backend (translated and hand-written) against the REAL functions of
exo.backend.LoopIR_compiler on the same generated inputs.

Real side: the functions are called directly (CIR ADT values are built here; Compiler methods are invoked on an instance
created without running the constructor, with env / envtyp / mems / range_env / _known_strides filled in by hand; the
range-analysis oracle is a table, part of the input).  Model side: `Cases_<k>.v` shards of <= 450 cases, each
`chk_* input expected_from_real`, evaluated by one `Eval vm_compute` per shard.
The `value` stream additionally compiles the REAL emitted text with gcc and compares the value with floor arithmetic
(brute force) — a concrete disagreement there is a failing input of the implementation (ck.violation)."""
from __future__ import annotations

import os
import re
import subprocess
from collections import ChainMap
from concurrent.futures import ThreadPoolExecutor

import common

import exo.backend.LoopIR_compiler as LC
from exo.core.LoopIR import LoopIR, T, CIR
from exo.core.memory import DRAM
from exo.core.prelude import Sym, null_srcinfo

OPS = ["+", "-", "*", "/", "%"]
COP = {"+": "CAdd", "-": "CSub", "*": "CMul", "/": "CDiv", "%": "CMod"}
REAL_ERRORS = (AssertionError, ZeroDivisionError, KeyError, AttributeError, IndexError, TypeError, ValueError)
SI = null_srcinfo()
NVARS, WINS = 4, (5, 6)

_syms: dict[int, Sym] = {}


def sym(i: int) -> Sym:
    if i not in _syms:
        _syms[i] = Sym("v%d" % i)
    return _syms[i]


def sym_id(s: Sym) -> int:
    return int(s.name()[1:])


ENV = None


def env():
    global ENV
    if ENV is None:
        ENV = {sym(i): "v%d" % i for i in range(1, 7)}
    return ENV


# ---------------------------------------------------------------------------------------------- CIR trees (tuples)
def gen_cir(rng, depth, valid=True, strides=True):
    r = rng.random()
    if depth == 0 or r < 0.3:
        k = rng.random()
        if k < 0.45:
            return ("read", rng.randint(1, NVARS), rng.random() < 0.6)
        if k < 0.9 or not strides:
            return ("const", rng.choice([0, 0, 1, 1, 2, 3, 4, 7, 8, -1, -2, -3, 9, 16]))
        return ("stride", rng.choice(WINS), rng.randint(0, 2))
    if r < 0.38:
        return ("usub", gen_cir(rng, depth - 1, valid, strides), rng.random() < 0.3)
    op = rng.choice(["+", "+", "-", "*", "*", "/", "%", "/", "%"])
    a = gen_cir(rng, depth - 1, valid, strides)
    if op in ("/", "%"):
        if valid:
            b = ("const", rng.choice([1, 1, 2, 2, 3, 4, 8]))
        else:
            b = rng.choice([("const", 0), ("const", -2), gen_cir(rng, depth - 1, valid, strides), ("const", 2)])
    else:
        b = gen_cir(rng, depth - 1, valid, strides)
    return ("bin", op, a, b, rng.random() < 0.5)


def to_real(t):
    k = t[0]
    if k == "read":
        return CIR.Read(sym(t[1]), t[2])
    if k == "stride":
        return CIR.Stride(sym(t[1]), t[2])
    if k == "const":
        return CIR.Const(t[1])
    if k == "usub":
        return CIR.USub(to_real(t[1]), t[2])
    return CIR.BinOp(t[1], to_real(t[2]), to_real(t[3]), t[4])


def from_real(e):
    if isinstance(e, CIR.Read):
        return ("read", sym_id(e.name), bool(e.is_non_neg))
    if isinstance(e, CIR.Stride):
        return ("stride", sym_id(e.name), int(e.dim))
    if isinstance(e, CIR.Const):
        if type(e.val) is not int:
            raise ValueError("non-integer constant %r in a CIR tree" % (e.val,))
        return ("const", e.val)
    if isinstance(e, CIR.USub):
        return ("usub", from_real(e.arg), bool(e.is_non_neg))
    if isinstance(e, CIR.BinOp):
        return ("bin", str(e.op), from_real(e.lhs), from_real(e.rhs), bool(e.is_non_neg))
    raise ValueError("not a CIR node: %r" % (e,))


def cb(b):
    return "true" if b else "false"


def cz(v):
    return "(%d)" % v


def to_coq(t):
    k = t[0]
    if k == "read":
        return "(CRead %d %s)" % (t[1], cb(t[2]))
    if k == "stride":
        return "(CStride %d %d)" % (t[1], t[2])
    if k == "const":
        return "(CConst %s)" % cz(t[1])
    if k == "usub":
        return "(CUSub %s %s)" % (to_coq(t[1]), cb(t[2]))
    return "(CBin %s %s %s %s)" % (COP[t[1]], to_coq(t[2]), to_coq(t[3]), cb(t[4]))


def coq_opt(x, f):
    return "None" if x is None else "(Some %s)" % f(x)


def coq_list(xs, f):
    return "[" + "; ".join(f(x) for x in xs) + "]"


def coq_str(s):
    return '"%s"%%string' % s.replace('"', '""')


def size(t):
    if t[0] in ("read", "stride", "const"):
        return 1
    if t[0] == "usub":
        return 1 + size(t[1])
    return 1 + size(t[2]) + size(t[3])


def shape_sig(t):
    """coarse signature for the distribution"""
    if t[0] in ("read", "stride", "const"):
        return t[0][0]
    if t[0] == "usub":
        return "~"
    return t[1]


def feval(t, rho, sg):
    """floor (Exo / Python) value; None if a divisor is not positive"""
    k = t[0]
    if k == "read":
        return rho[t[1]]
    if k == "stride":
        return sg[(t[1], t[2])]
    if k == "const":
        return t[1]
    if k == "usub":
        v = feval(t[1], rho, sg)
        return None if v is None else -v
    a, b = feval(t[2], rho, sg), feval(t[3], rho, sg)
    if a is None or b is None:
        return None
    op = t[1]
    if op == "+":
        return a + b
    if op == "-":
        return a - b
    if op == "*":
        return a * b
    if b <= 0:
        return None
    return a // b if op == "/" else a % b


def sound_flags(t, rho, sg, rng):
    """re-annotate: a node is flagged non-negative only if it is (under rho), as range analysis guarantees"""
    k = t[0]
    if k == "read":
        return ("read", t[1], rho[t[1]] >= 0 and rng.random() < 0.8)
    if k in ("stride", "const"):
        return t
    if k == "usub":
        a = sound_flags(t[1], rho, sg, rng)
        return ("usub", a, feval(t, rho, sg) >= 0 and rng.random() < 0.5)
    a, b = sound_flags(t[2], rho, sg, rng), sound_flags(t[3], rho, sg, rng)
    return ("bin", t[1], a, b, feval(t, rho, sg) >= 0 and rng.random() < 0.8)


# ---------------------------------------------------------------------------------------------- LoopIR index expressions
class FakeRangeEnv:
    """the range-analysis oracle as a table: check_expr_bound(0, leq, e) -> table[id(e)]"""

    def __init__(self):
        self.table = {}
        self.keep = []

    def check_expr_bound(self, lo, op, e):
        return self.table.get(id(e), False)


def gen_iexp(rng, depth, valid=True):
    r = rng.random()
    if depth == 0 or r < 0.35:
        if not valid and rng.random() < 0.15:
            return ("other",)
        if rng.random() < 0.55:
            return ("read", rng.randint(1, NVARS), rng.random() < 0.6)
        return ("const", rng.choice([0, 1, 2, 3, 4, 8, -1, -3]))
    if r < 0.42:
        return ("usub", gen_iexp(rng, depth - 1, valid), rng.random() < 0.3)
    op = rng.choice(OPS)
    a = gen_iexp(rng, depth - 1, valid)
    b = ("const", rng.choice([1, 2, 3, 4])) if op in ("/", "%") else gen_iexp(rng, depth - 1, valid)
    return ("bin", op, a, b, rng.random() < 0.5)


def iexp_to_loopir(t, renv: FakeRangeEnv):
    k = t[0]
    if k == "read":
        e = LoopIR.Read(sym(t[1]), [], T.index, SI)
        flag = t[2]
    elif k == "const":
        e = LoopIR.Const(t[1], T.int, SI)
        flag = False
    elif k == "usub":
        e = LoopIR.USub(iexp_to_loopir(t[1], renv), T.index, SI)
        flag = t[2]
    elif k == "other":
        e = LoopIR.StrideExpr(sym(5), 0, T.stride, SI)
        flag = False
    else:
        e = LoopIR.BinOp(t[1], iexp_to_loopir(t[2], renv), iexp_to_loopir(t[3], renv), T.index, SI)
        flag = t[4]
    renv.table[id(e)] = flag
    renv.keep.append(e)
    return e


def iexp_to_coq(t):
    k = t[0]
    if k == "read":
        return "(IRead %d %s)" % (t[1], cb(t[2]))
    if k == "const":
        return "(IConst %s)" % cz(t[1])
    if k == "usub":
        return "(IUSub %s %s)" % (iexp_to_coq(t[1]), cb(t[2]))
    if k == "other":
        return "IOther"
    return "(IBin %s %s %s %s)" % (COP[t[1]], iexp_to_coq(t[2]), iexp_to_coq(t[3]), cb(t[4]))


def iexp_lift(t):
    """what lift_to_cir must produce (tuple form), used to hand already-lifted trees to the model"""
    k = t[0]
    if k == "read":
        return ("read", t[1], t[2])
    if k == "const":
        return ("const", t[1])
    if k == "usub":
        return ("usub", iexp_lift(t[1]), t[2])
    if k == "other":
        raise ValueError("other")
    return ("bin", t[1], iexp_lift(t[2]), iexp_lift(t[3]), t[4])


def dummy_compiler(renv, known=None):
    d = object.__new__(LC.Compiler)
    d.env = ChainMap(dict(env()))
    d.envtyp = {}
    d.mems = {}
    d.range_env = renv
    d._known_strides = known or {}
    d._needed_helpers = set()
    return d


def real_call(f, *a):
    try:
        return ("ok", f(*a))
    except REAL_ERRORS as e:
        return ("err", type(e).__name__)


# ---------------------------------------------------------------------------------------------- case builders
class Cases:
    def __init__(self, ck, rng):
        self.ck, self.rng = ck, rng
        self.lines = []   # (stream, coq term, description for a divergence report)
        self.values = []  # value-stream cases: dict

    def add(self, stream, term, descr, key, tag, sample=None):
        self.lines.append((stream, term, descr))
        self.ck.case(stream, key, True, sample, tag)

    # -- simplify_cir
    def simplify(self, n):
        rng = self.rng
        for k in range(n):
            valid = rng.random() < 0.8
            t = gen_cir(rng, rng.randint(1, 4), valid)
            r = real_call(LC.simplify_cir, to_real(t))
            try:
                exp = from_real(r[1]) if r[0] == "ok" else None
                conv_err = None
            except ValueError as e:
                exp, conv_err = None, str(e)
            term = "chk_simplify %s %s" % (to_coq(t), coq_opt(exp, to_coq))
            tag = ("valid" if valid else "malformed") + ":" + ("changed" if exp is not None and exp != t else "same" if exp is not None else "error")
            self.add("simplify_cir", term, {"input": to_coq(t), "real": repr(r[1])[:300] if r[0] == "ok" else r[1], "note": conv_err},
                     to_coq(t), tag, sample={"in": to_coq(t)[:200], "real": coq_opt(exp, to_coq)[:200]})

    # -- comp_cir text
    def comp(self, n):
        rng = self.rng
        d = dummy_compiler(FakeRangeEnv())
        for k in range(n):
            t = gen_cir(rng, rng.randint(1, 4), True)
            prec = rng.choice([0, 0, 50, 51, 60, 61, 70, 100])
            r = real_call(LC.Compiler.comp_cir, d, to_real(t), env(), prec)
            if r[0] != "ok":
                self.ck.corr_diverge("comp_cir", {"input": to_coq(t), "real raised": r[1]})
                continue
            term = "chk_comp %s %d %s" % (to_coq(t), prec, coq_str(r[1]))
            tag = "helper" if "exo_floor" in r[1] else ("rawdivmod" if re.search(r" [/%] ", r[1]) else "plain")
            self.add("comp_cir", term, {"input": to_coq(t), "prec": prec, "real": r[1]}, (to_coq(t), prec), tag,
                     sample={"in": to_coq(t)[:200], "prec": prec, "text": r[1][:200]})

    # -- lift_to_cir
    def lift(self, n):
        rng = self.rng
        for k in range(n):
            valid = rng.random() < 0.85
            t = gen_iexp(rng, rng.randint(0, 3), valid)
            renv = FakeRangeEnv()
            e = iexp_to_loopir(t, renv)
            r = real_call(LC.lift_to_cir, e, renv)
            exp = from_real(r[1]) if r[0] == "ok" else None
            term = "chk_lift %s %s" % (iexp_to_coq(t), coq_opt(exp, to_coq))
            self.add("lift_to_cir", term, {"input": iexp_to_coq(t), "real": str(r[1])[:300]}, iexp_to_coq(t),
                     "ok" if exp is not None else "error")

    # -- buffers: (type object, model type, n dims)
    def gen_buffer(self, renv, d, allow_empty=False):
        rng = self.rng
        if rng.random() < 0.5:
            nd = rng.choice([0] if allow_empty and rng.random() < 0.1 else [1, 2, 2, 3])
            shape_t = []
            for _ in range(nd):
                r = rng.random()
                if r < 0.5:
                    shape_t.append(("const", rng.choice([1, 2, 3, 4, 8, 16])))
                elif r < 0.9:
                    shape_t.append(("read", rng.randint(1, NVARS), True))
                else:
                    shape_t.append(("bin", "*", ("read", rng.randint(1, NVARS), True), ("const", rng.choice([2, 4])), True))
            hi = [iexp_to_loopir(s, renv) for s in shape_t]
            typ = T.Tensor(hi, False, T.f32)
            nm = sym(rng.choice(WINS))
            model = "(TyTensor %s)" % coq_list([iexp_lift(s) for s in shape_t], to_coq)
            return nm, typ, model, nd
        nd = rng.choice([1, 2, 2, 3])
        w = rng.choice(WINS)
        hi = [LoopIR.Const(4, T.int, SI) for _ in range(nd)]
        typ = T.Tensor(hi, True, T.f32)
        known = []
        for i in range(nd):
            if rng.random() < 0.3:
                c = rng.choice([1, 1, 2, 0])
                known.append((i, c))
                d._known_strides[(sym(w), i)] = CIR.Const(c)
        model = "(TyWindow %d %d %s)" % (w, nd, coq_list(known, lambda kc: "(%d%%nat, %s)" % (kc[0], cz(kc[1]))))
        return sym(w), typ, model, nd

    def gen_index(self, renv):
        t = gen_iexp(self.rng, self.rng.randint(0, 2), True)
        return t, iexp_to_loopir(t, renv)

    # -- tensor_strides / get_idx_offset trees, access_str text
    def access(self, n):
        rng = self.rng
        for k in range(n):
            renv = FakeRangeEnv()
            d = dummy_compiler(renv)
            nm, typ, model, nd = self.gen_buffer(renv, d, allow_empty=True)
            d.envtyp[nm] = typ
            d.mems[nm] = DRAM
            ni = nd if rng.random() < 0.9 else max(0, nd + rng.choice([-1, 1]))
            idx = [self.gen_index(renv) for _ in range(ni)]
            idx_c = coq_list([iexp_lift(t) for t, _ in idx], to_coq)
            cirs = [LC.lift_to_cir(e, renv) for _, e in idx]
            r = real_call(LC.Compiler.get_idx_offset, d, nm, typ, cirs)
            exp = from_real(r[1]) if r[0] == "ok" else None
            self.add("get_idx_offset", "chk_offset_ty %s %s %s" % (model, idx_c, coq_opt(exp, to_coq)),
                     {"type": model, "idx": idx_c, "real": str(r[1])[:300]}, (model, idx_c),
                     ("tensor" if "TyTensor" in model else "window") + (":ok" if exp is not None else ":error"))
            if "TyTensor" in model:
                r2 = real_call(LC.Compiler.tensor_strides, d, typ.hi)
                exp2 = [from_real(x) for x in r2[1]] if r2[0] == "ok" else None
                shape_c = model[len("(TyTensor "):-1]
                self.add("tensor_strides", "chk_strides %s %s" % (shape_c, coq_opt(exp2, lambda l: coq_list(l, to_coq))),
                         {"shape": shape_c, "real": str(r2[1])[:300]}, shape_c, "ok" if exp2 is not None else "error")
            r3 = real_call(LC.Compiler.access_str, d, nm, [e for _, e in idx])
            if r3[0] == "ok":
                m = re.fullmatch(r"v\d+(?:\.data)?\[(.*)\]", r3[1])
                if not m or (".data[" in r3[1]) != ("TyWindow" in model):
                    self.ck.corr_diverge("access_str", {"type": model, "real": r3[1], "note": "unexpected shape of the access text"})
                    continue
                text = m.group(1)
            else:
                text = None
            self.add("access_str", "chk_access %s %s %s" % (model, idx_c, coq_opt(text, coq_str)),
                     {"type": model, "idx": idx_c, "real": r3[1]}, (model, idx_c),
                     ("tensor" if "TyTensor" in model else "window") + (":ok" if text is not None else ":error"),
                     sample={"type": model[:120], "idx": idx_c[:160], "text": r3[1]})

    # -- window_struct_fields
    def window(self, n):
        rng = self.rng
        for k in range(n):
            renv = FakeRangeEnv()
            d = dummy_compiler(renv)
            nm, typ, model, nd = self.gen_buffer(renv, d)
            d.envtyp[nm] = typ
            d.mems[nm] = DRAM
            acc, acc_c = [], []
            for _ in range(nd):
                t, e = self.gen_index(renv)
                if rng.random() < 0.4:
                    acc.append(LoopIR.Point(e, SI))
                    acc_c.append("(WPoint %s)" % to_coq(iexp_lift(t)))
                else:
                    t2, e2 = self.gen_index(renv)
                    acc.append(LoopIR.Interval(e, e2, SI))
                    acc_c.append("(WInterval %s %s)" % (to_coq(iexp_lift(t)), to_coq(iexp_lift(t2))))
            we = LoopIR.WindowExpr(nm, acc, T.err, SI)
            r = real_call(LC.Compiler.window_struct_fields, d, we)
            if r[0] == "ok":
                m = re.fullmatch(r"v\d+(?:\.data)?\[(.*)\]", r[1][0])
                if not m:
                    self.ck.corr_diverge("window_struct_fields", {"type": model, "real": r[1]})
                    continue
                exp = "(Some (%s, %s))" % (coq_str(m.group(1)), coq_str(r[1][1]))
            else:
                exp = "None"
            kinds = "".join("P" if "WPoint" in a else "I" for a in acc_c)
            self.add("window_struct_fields", "chk_window %s [%s] %s" % (model, "; ".join(acc_c), exp),
                     {"type": model, "acc": acc_c, "real": r[1]}, (model, tuple(acc_c)),
                     ("tensor" if "TyTensor" in model else "window") + ":" + ("mix" if "P" in kinds and "I" in kinds else kinds[:1]),
                     sample={"type": model[:120], "acc": "; ".join(acc_c)[:200], "real": r[1]})

    # -- new_varname / push / pop on the real Compiler (created without its constructor) vs ModelNames.v
    NAME_POOL = ["x", "x", "x_1", "x_1", "x_2", "x_1_1", "i", "i", "i_1", "i_2", "t", "t_1", "y", "x_01", "x_9", "x_09", "a_b", "w_1x"]

    def names(self, n):
        rng = self.rng
        for k in range(n):
            malformed = rng.random() < 0.1
            ops, depth, sid = [("decl", 1, "ctxt")], 1, 2
            for _ in range(rng.randint(3, 14)):
                r = rng.random()
                if r < 0.2 and depth < 5:
                    ops.append(("push", rng.random() < 0.5))
                    depth += 1
                elif r < 0.35 and depth > 1:
                    ops.append(("pop",))
                    depth -= 1
                else:
                    nm = rng.choice(self.NAME_POOL + (["x_", "x_"] if malformed else []))
                    ops.append(("decl", sid, nm))
                    sid += 1

            class _R:
                def enter_scope(self):
                    pass

                def exit_scope(self):
                    pass
            d = object.__new__(LC.Compiler)
            d.env, d.names, d.envtyp, d.mems, d._tab, d.range_env = ChainMap(), ChainMap(), {}, {}, "", _R()
            got = []
            for op in ops:
                if op[0] == "decl":
                    r = real_call(LC.Compiler.new_varname, d, Sym(op[2]), None)
                    if r[0] != "ok":  # int("") of the regular expression's empty digit group: the run stops here
                        got.append(None)
                        break
                    got.append(r[1])
                elif op[0] == "push":
                    if op[1]:
                        LC.Compiler.push(d)
                    else:
                        LC.Compiler.push(d, only="env")
                else:
                    LC.Compiler.pop(d)
            ops_c = coq_list(ops, lambda o: "(NDecl %d %s)" % (o[1], coq_str(o[2])) if o[0] == "decl" else "NPush" if o[0] == "push" else "NPop")
            exp_c = coq_list(got, lambda g: "None" if g is None else "(Some %s)" % coq_str(g))
            renamed = sum(1 for o, g in zip([o for o in ops if o[0] == "decl"], got) if g is not None and g != o[2])
            self.add("new_varname", "chk_names %s %s" % (ops_c, exp_c), {"ops": ops, "real": got}, tuple(ops),
                     "error" if None in got else "renamed%d" % min(renamed, 3),
                     sample={"ops": [" ".join(map(str, o)) for o in ops], "names": got})

    # -- values of emitted texts (gcc) against floor arithmetic and against the model
    def value(self, n):
        rng = self.rng
        d = dummy_compiler(FakeRangeEnv())
        for k in range(n):
            for _try in range(20):
                t = gen_cir(rng, rng.randint(2, 4), True)
                rho = {i: rng.choice([rng.randint(-9, -1), rng.randint(0, 9)]) for i in range(1, NVARS + 1)}
                sg = {(w, dd): rng.randint(0, 4) for w in WINS for dd in range(3)}
                v = feval(t, rho, sg)
                if v is not None and abs(v) < 10**6:
                    break
            else:
                continue
            t = sound_flags(t, rho, sg, rng)
            r = real_call(lambda e: LC.Compiler.comp_cir(d, LC.simplify_cir(e), env(), 0), to_real(t))
            if r[0] != "ok":
                self.ck.corr_diverge("emitted-value", {"input": to_coq(t), "real raised": r[1]})
                continue
            self.values.append({"tree": t, "rho": rho, "sg": sg, "expected": v, "text": r[1]})


# ---------------------------------------------------------------------------------------------- running the shards
HEADER = """From Coq Require Import ZArith List Bool String.
From Backend Require Import Model Gen_CIR ModelComp ModelCheck ModelNames.
Import ListNotations.
Local Open Scope Z_scope.
"""


def start_shards(lines, workdir, per=450, parallel=6):
    """write the shards and start evaluating them in the background (coqc processes); -> handle for finish_shards"""
    shards = [lines[i:i + per] for i in range(0, len(lines), per)]
    files = []
    for k, sh in enumerate(shards):
        body = HEADER + "Definition cases : list bool := [\n  " + ";\n  ".join(t for _, t, _ in sh) + "\n].\n" \
            "Eval vm_compute in (failures cases).\n"
        f = workdir / ("Cases_%d.v" % k)
        f.write_text(body)
        files.append(f)

    # one background shell running at most `parallel` coqc processes (no Python threads: the search forks workers)
    cmd = ("ls Cases_*.v | xargs -P %d -I{} sh -c 'timeout 900 coqc -Q %s Backend -Q %s Core {} > {}.out 2>&1; echo $? > {}.rc'"
           % (parallel, common.COQ / "Backend", common.COQ / "Core"))
    proc = subprocess.Popen(["bash", "-c", cmd], cwd=str(workdir), stdout=subprocess.DEVNULL, stderr=subprocess.DEVNULL)
    return {"proc": proc, "shards": shards, "files": files}


def _shard_result(out: str):
    m = re.search(r"=\s*\[(.*?)\]\s*:\s*list nat", out, flags=re.S)
    return None if not m else {int(x) for x in re.findall(r"\d+", m.group(1))}


def finish_shards(ck, h):
    """collect the shard results: agreement / divergence per stream.  A shard that was killed or timed out (machine
    load, a concurrent run) is retried once, sequentially; if it still yields no result it is counted as not evaluated.
    The correspondence is reported broken only when coqc ran and a case disagreed or coqc reported an error."""
    try:
        h["proc"].wait(timeout=3600)
    except subprocess.TimeoutExpired:
        h["proc"].kill()
    for sh, f in zip(h["shards"], h["files"]):
        outp = f.parent / (f.name + ".out")
        out = outp.read_text() if outp.exists() else ""
        bad = _shard_result(out)
        if bad is None and "Error" not in out:
            rc, out = common.sh(["coqc", "-Q", str(common.COQ / "Backend"), "Backend", "-Q", str(common.COQ / "Core"), "Core", str(f)],
                                timeout=1200, cwd=str(f.parent))
            bad = _shard_result(out)
        if bad is None:
            if "Error" in out:
                ck.broken_obligation("correspondence-shard:" + f.name, "coqc reports an error: " + out[-800:])
                ck.log("shard %s: coqc error: %s" % (f.name, out[-400:]))
            else:
                ck.cov["shards_not_evaluated"] = ck.cov.get("shards_not_evaluated", 0) + 1
                ck.log("shard %s was not evaluated (killed / timed out twice; not counted as a disagreement): %s"
                       % (f.name, out[-300:]))
            continue
        for i, (stream, term, descr) in enumerate(sh):
            if i in bad:
                ck.corr_diverge(stream, dict(descr, model_check=term[:600]))
            else:
                ck.corr_agree(stream)


def run_shards(ck, lines, workdir, per=450):
    finish_shards(ck, start_shards(lines, workdir, per))


def run_values(ck, cs: Cases, workdir):
    """compile the REAL emitted texts with gcc; compare with floor arithmetic (oracle) and with the model"""
    vals = cs.values
    if not vals:
        return []
    helpers = "\n".join(LC._static_helpers.values())
    src = ["#include <stdint.h>", "#include <stdio.h>", helpers, "struct win_ { int_fast32_t strides[3]; };",
           "int main(void) {"]
    for k, c in enumerate(vals):
        decl = " ".join("int_fast32_t v%d = %d;" % (i, v) for i, v in sorted(c["rho"].items()))
        wins = " ".join("struct win_ v%d = {{%s}};" % (w, ", ".join(str(c["sg"][(w, dd)]) for dd in range(3))) for w in WINS)
        src.append('  { %s %s printf("%%ld\\n", (long)(%s)); }' % (decl, wins, c["text"]))
    src += ["  return 0;", "}"]
    cfile = workdir / "values.c"
    cfile.write_text("\n".join(src) + "\n")
    exe = workdir / "values.exe"
    rc, out = common.sh(["gcc", "-O1", "-w", "-o", str(exe), str(cfile)], timeout=300)
    if rc != 0:
        ck.broken_obligation("emitted-value:gcc", out[-600:])
        return []
    rc, out = common.sh([str(exe)], timeout=60)
    got = out.split()
    if rc != 0 or len(got) != len(vals):
        ck.broken_obligation("emitted-value:run", "rc=%s, %d values for %d cases" % (rc, len(got), len(vals)))
        return []
    lines = []
    for c, g in zip(vals, got):
        g = int(g)
        t = c["tree"]
        helper = "exo_floor" in c["text"]
        rawdm = bool(re.search(r" [/%] ", c["text"]))
        neg = any(v < 0 for v in c["rho"].values())
        tag = ("helper" if helper else "rawdivmod" if rawdm else "nodiv") + (":negvars" if neg else "")
        ck.case("emitted-value", (to_coq(t), tuple(sorted(c["rho"].items()))), True,
                {"text": c["text"], "rho": c["rho"], "C": g, "floor": c["expected"]}, tag)
        if g != c["expected"]:
            ops = "".join(sorted(set(re.findall(r"exo_floor_div|exo_floor_mod| / | % ", c["text"])))).replace(" ", "")
            ck.violation("cirexec:%s:%s" % (ops or "arith", "negative" if neg else "nonneg"),
                         {"cir": to_coq(t), "emitted_text": c["text"], "rho": c["rho"], "strides": {"%d.%d" % k: v for k, v in c["sg"].items()},
                          "c_value": g, "floor_value": c["expected"], "helpers": helpers},
                         "the emitted index expression evaluates (gcc) to %d, Exo's floor arithmetic gives %d" % (g, c["expected"]))
        rho_c = coq_list(sorted(c["rho"].items()), lambda kv: "(%d%%positive, %s)" % (kv[0], cz(kv[1])))
        sg_c = coq_list(sorted(c["sg"].items()), lambda kv: "(%d%%positive, %d%%nat, %s)" % (kv[0][0], kv[0][1], cz(kv[1])))
        lines.append(("emitted-value", "chk_value %s %s %s %s" % (to_coq(t), rho_c, sg_c, cz(g)),
                      {"cir": to_coq(t), "text": c["text"], "rho": c["rho"], "c_value": g}))
    return lines
