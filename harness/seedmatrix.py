#!/venv/bin/python
"""seedmatrix.py [names...]: for every /verif/seeded/<name>/ (patch.diff + meta.json naming the property) apply the patch
to a fresh scratch worktree of /repo HEAD (outside /repo and /verif), run the property's quick check against it with
EXO_REPO=<worktree>, record the outcome in seeded/<name>/check_result.json, and remove the worktree.  /repo itself is never
modified.  (`git -C /repo apply` + `git -C /repo checkout -- .` is the equivalent manual procedure.)"""
import json, os, re, subprocess, sys, time

names = [a for a in sys.argv[1:] if not a.startswith("--")] or sorted(os.listdir("/verif/seeded"))
head = subprocess.run("git -C /repo rev-parse --short HEAD", shell=True, capture_output=True, text=True).stdout.strip()
for name in names:
    d = "/verif/seeded/" + name
    if not os.path.exists(d + "/patch.diff"):
        continue
    pid = re.match(r"(C\d\d)", name).group(1)
    wt = "/tmp/sm_" + name
    subprocess.run("git -C /repo worktree remove --force %s; rm -rf %s" % (wt, wt), shell=True, capture_output=True)
    r = subprocess.run("git -C /repo worktree add --detach %s HEAD -f" % wt, shell=True, capture_output=True, text=True)
    res = {"name": name, "property": pid, "repo_head": head, "when": time.strftime("%Y-%m-%d %H:%M:%S"),
           "how": "fresh worktree of /repo HEAD + git apply patch.diff; EXO_REPO=<worktree> check.py %s --quick" % pid}
    a = subprocess.run("git -C %s apply %s/patch.diff" % (wt, d), shell=True, capture_output=True, text=True)
    res["patch_applies_to_head"] = a.returncode == 0
    if a.returncode == 0:
        t0 = time.time()
        env = dict(os.environ, EXO_REPO=wt)
        c = subprocess.run(["/venv/bin/python", "/verif/harness/check.py", pid, "--quick"], capture_output=True, text=True, env=env)
        lines = c.stdout.splitlines()
        viol = [l for l in lines if l.startswith("VIOLATION")]
        keys = [l.strip() for l in lines if "violation key:" in l or "no longer checks:" in l]
        res.update({"check_exit": c.returncode, "wall_s": round(time.time() - t0), "violation_lines": viol[:6],
                    "keys": [k[:300] for k in keys[:6]], "caught": c.returncode == 1 and bool(viol),
                    "concrete_replay": any("no-failing-input-found" not in l for l in viol)})
    else:
        res["apply_error"] = a.stderr[-500:]
    json.dump(res, open(d + "/check_result.json", "w"), indent=1)
    print(name, json.dumps({k: res.get(k) for k in ("patch_applies_to_head", "check_exit", "caught", "concrete_replay", "wall_s")}), flush=True)
    subprocess.run("git -C /repo worktree remove --force %s; rm -rf %s" % (wt, wt), shell=True, capture_output=True)
