#!/venv/bin/python
"""Regenerates /verif/MANIFEST.json from harness/manifest_table.json (one entry per claimed property)."""
import json, os, sys
V = os.path.dirname(os.path.dirname(os.path.abspath(__file__)))
tab = json.load(open(os.path.join(V, "harness", "manifest_table.json")))
props = [json.loads(l) for l in open(os.path.join(V, "properties.jsonl"))]
baseline = json.load(open("/root/.vp/BASELINE.json"))["cmd"].replace("--junitxml=<file>", "").strip()
checks, na = [], []
for p in props:
    pid = p["id"]
    t = tab["checks"].get(pid)
    if t is None:
        na.append({"property_id": pid, "reason": tab["not_applicable"].get(pid, "engine not built yet; nothing is claimed for this property at this commit")})
        continue
    checks.append({
        "property_id": pid,
        "quick_cmd": "/venv/bin/python /verif/harness/check.py %s --quick" % pid,
        "thorough_cmd": "/venv/bin/python /verif/harness/check.py %s --thorough" % pid,
        "evidence_file": "/verif/evidence/%s.json" % pid,
        "replay_cmd_template": "/venv/bin/python /verif/harness/replay.py {path}",
        "engine": t["engine"],
        "level_claimed": {"category": "proof", "text": t["text"], "design_ref": t.get("design_ref", "DESIGN.md section 3, " + pid)},
        "level_note": t["note"],
        "technique": t["technique"],
    })
m = {
    "version": 1,
    "setup_cmd": tab["setup_cmd"],
    "hooks": {"guard": "EXO_VERIF", "enable": "EXO_VERIF=1 PYTHONPATH=/repo/src (pure Python: no build step; hooks are read at import time)",
              "baseline_off_cmd": baseline, "source_commits": tab.get("hook_commits", []), "add_only": True},
    "engines": tab.get("engines", []),
    "checks": checks,
    "notes": tab.get("notes", ""),
    "not_applicable": na,
}
json.dump(m, open(os.path.join(V, "MANIFEST.json"), "w"), indent=1)
print("MANIFEST.json: %d checks, %d not claimed" % (len(checks), len(na)))
