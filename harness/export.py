"""LoopIR (exo.core.LoopIR) -> s-expression of coq/Core/Syntax.v, plus the client of the extracted
reference interpreter (coq/Core/_build/interp) and input generation.

The exporter is part of the trusted base: it is a 1:1 structural dump.  Symbols become integers
(first-occurrence numbering per Exporter, shared between the procedures that are compared),
configuration fields become integers through one table per Exporter."""
from __future__ import annotations

import itertools
import os
import random
import subprocess
from fractions import Fraction

import common

from exo.core.LoopIR import LoopIR, T
from exo.core.prelude import Sym

INTERP = str(common.COQ / "Core" / "_build" / "interp")


class Unsupported(Exception):
    pass


class Exporter:
    def __init__(self):
        self.syms: dict[Sym, int] = {}
        self.cfgs: dict[tuple[str, str], int] = {}
        self.cfg_types: dict[int, str] = {}
        self.cfg_syms: dict = {}  # the Sym proc_eqv uses as key for (config, field) -> id
        self.procs: dict[int, tuple[str, str]] = {}  # id(loopir proc) -> (name, sexp)
        self.defs: list[str] = []
        self._keep = []
        self.erase_flags = False  # print is_window / par as false (fields Core.Sem never reads)

    # ------------------------------------------------------------ names
    def sym(self, s: Sym) -> str:
        if s not in self.syms:
            self.syms[s] = len(self.syms) + 1
        return str(self.syms[s])

    def cfg(self, config, field: str) -> str:
        k = (config.name(), field)
        if k not in self.cfgs:
            self.cfgs[k] = len(self.cfgs) + 1
            self.cfg_syms[config._INTERNAL_sym(field)] = self.cfgs[k]
            t = config.lookup_type(field)
            self.cfg_types[self.cfgs[k]] = (
                "bool" if isinstance(t, T.Bool) else "data" if t.is_real_scalar() else "int"
            )
        return str(self.cfgs[k])

    # ------------------------------------------------------------ expressions
    def const(self, e) -> str:
        t = e.type
        if isinstance(t, T.Bool):
            return "(bool %s)" % ("true" if e.val else "false")
        if t.is_real_scalar():
            q = Fraction(e.val).limit_denominator(10**6)
            return "(real %d %d)" % (q.numerator, q.denominator)
        return "(int %d)" % int(e.val)

    def expr(self, e) -> str:
        if isinstance(e, LoopIR.Read):
            if e.type.is_numeric():
                return "(read %s (%s))" % (self.sym(e.name), " ".join(self.expr(i) for i in e.idx))
            assert not e.idx
            return "(var %s)" % self.sym(e.name)
        if isinstance(e, LoopIR.Const):
            return self.const(e)
        if isinstance(e, LoopIR.USub):
            return "(neg %s)" % self.expr(e.arg)
        if isinstance(e, LoopIR.BinOp):
            return "(bin %s %s %s)" % (e.op, self.expr(e.lhs), self.expr(e.rhs))
        if isinstance(e, LoopIR.Extern):
            return "(ext %s (%s))" % (e.f.name(), " ".join(self.expr(a) for a in e.args))
        if isinstance(e, LoopIR.WindowExpr):
            return "(win %s (%s))" % (self.sym(e.name), " ".join(self.wacc(w) for w in e.idx))
        if isinstance(e, LoopIR.StrideExpr):
            return "(stride %s %d)" % (self.sym(e.name), e.dim)
        if isinstance(e, LoopIR.ReadConfig):
            return "(cfg %s)" % self.cfg(e.config, e.field)
        raise Unsupported("expr %s" % type(e).__name__)

    def wacc(self, w) -> str:
        if isinstance(w, LoopIR.Point):
            return "(pt %s)" % self.expr(w.pt)
        return "(iv %s %s)" % (self.expr(w.lo), self.expr(w.hi))

    # ------------------------------------------------------------ statements
    def stmts(self, ss) -> str:
        return "(" + " ".join(self.stmt(s) for s in ss) + ")"

    def stmt(self, s) -> str:
        if isinstance(s, LoopIR.Assign):
            return "(assign %s (%s) %s)" % (self.sym(s.name), " ".join(self.expr(i) for i in s.idx), self.expr(s.rhs))
        if isinstance(s, LoopIR.Reduce):
            return "(reduce %s (%s) %s)" % (self.sym(s.name), " ".join(self.expr(i) for i in s.idx), self.expr(s.rhs))
        if isinstance(s, LoopIR.WriteConfig):
            return "(wcfg %s %s)" % (self.cfg(s.config, s.field), self.expr(s.rhs))
        if isinstance(s, LoopIR.Pass):
            return "(pass)"
        if isinstance(s, LoopIR.If):
            return "(if %s %s %s)" % (self.expr(s.cond), self.stmts(s.body), self.stmts(s.orelse))
        if isinstance(s, LoopIR.For):
            par = "true" if isinstance(s.loop_mode, LoopIR.Par) and not self.erase_flags else "false"
            return "(for %s %s %s %s %s)" % (self.sym(s.iter), self.expr(s.lo), self.expr(s.hi), self.stmts(s.body), par)
        if isinstance(s, LoopIR.Alloc):
            shape = s.type.shape() if s.type.is_tensor_or_window() else []
            return "(alloc %s (%s))" % (self.sym(s.name), " ".join(self.expr(d) for d in shape))
        if isinstance(s, LoopIR.Free):
            return "(pass)"
        if isinstance(s, LoopIR.Call):
            return "(call %s (%s))" % (self.proc_ref(s.f), " ".join(self.expr(a) for a in s.args))
        if isinstance(s, LoopIR.WindowStmt):
            return "(wins %s %s)" % (self.sym(s.name), self.expr(s.rhs))
        raise Unsupported("stmt %s" % type(s).__name__)

    def kind(self, a) -> str:
        t = a.type
        if isinstance(t, T.Size):
            return "size"
        if isinstance(t, T.Index):
            return "index"
        if isinstance(t, T.Bool):
            return "bool"
        if isinstance(t, T.Stride):
            return "stride"
        if t.is_real_scalar():
            return "scalar"
        if isinstance(t, T.Tensor):
            return "(tensor (%s) %s)" % (" ".join(self.expr(d) for d in t.hi), "true" if t.is_window and not self.erase_flags else "false")
        raise Unsupported("argument type %s" % t)

    def proc_sexp(self, p) -> str:
        args = " ".join("(%s %s)" % (self.sym(a.name), self.kind(a)) for a in p.args)
        preds = " ".join(self.expr(e) for e in p.preds)
        return "(proc (%s) (%s) %s)" % (args, preds, self.stmts(p.body))

    def proc_ref(self, p) -> str:
        """Name under which the (LoopIR) procedure is known to the interpreter; emits a def line once."""
        if id(p) not in self.procs:
            sx = self.proc_sexp(p)  # defines callees first
            name = "p%d" % (len(self.procs) + 1)
            self.procs[id(p)] = (name, sx)
            self._keep.append(p)
            self.defs.append("(def %s %s)" % (name, sx))
        return self.procs[id(p)][0]


# ---------------------------------------------------------------------- interpreter client
class Interp:
    def __init__(self):
        src = common.COQ / "Core" / "ocaml" / "interp.ml"
        stale = os.path.exists(INTERP) and src.exists() and src.stat().st_mtime > os.path.getmtime(INTERP)
        if not os.path.exists(INTERP) or stale:
            rc, out = common.sh(["bash", "extract.sh"], cwd=common.COQ / "Core", timeout=600)
            if rc != 0:
                raise RuntimeError("cannot build the extracted interpreter: " + out[-500:])
        import time
        for attempt in range(20):
            try:
                self.p = subprocess.Popen([INTERP], stdin=subprocess.PIPE, stdout=subprocess.PIPE, text=True, bufsize=1)
                break
            except OSError:  # ETXTBSY while another check replaces the binary
                time.sleep(0.5)
        else:
            raise RuntimeError("cannot start the extracted interpreter")
        self.sent = 0

    def _start(self):
        import time
        for attempt in range(20):
            try:
                self.p = subprocess.Popen([INTERP], stdin=subprocess.PIPE, stdout=subprocess.PIPE, text=True, bufsize=1)
                return
            except OSError:  # ETXTBSY while another check replaces the binary
                time.sleep(0.5)
        raise RuntimeError("cannot start the extracted interpreter")

    def ask(self, line: str, timeout: float = None) -> str:
        """one job, one answer line.  The reference semantics computes over exact rationals, which can explode (a
        squaring loop doubles the size of a numerator in every iteration); a job that does not answer within
        `timeout` seconds is abandoned: the interpreter is restarted (definitions are re-sent on the next use) and
        the answer is 'error timeout', which every comparison treats as 'no information'."""
        import select
        timeout = timeout or float(os.environ.get("VERIF_INTERP_TIMEOUT_S", "60"))
        self.p.stdin.write(line + "\n")
        self.p.stdin.flush()
        ready, _, _ = select.select([self.p.stdout], [], [], timeout)
        if not ready:
            self.timeouts = getattr(self, "timeouts", 0) + 1
            try:
                self.p.kill()
                self.p.wait(timeout=5)
            except Exception:
                pass
            self._start()
            self.sent = 0
            return "error timeout"
        out = self.p.stdout.readline()
        if not out:
            raise RuntimeError("interpreter died on: " + line[:300])
        return out.strip()

    def define(self, ex: Exporter):
        for d in ex.defs[self.sent:]:
            r = self.ask(d)
            assert r == "ok", r
        self.sent = len(ex.defs)

    def run(self, name: str, inp: str) -> str:
        return self.ask("(run %s %s)" % (name, inp))

    def wf(self, name: str) -> bool:
        return self.ask("(wf %s)" % name) == "wf"

    def close(self):
        try:
            self.p.stdin.close()
            self.p.wait(timeout=5)
        except Exception:
            self.p.kill()


def parse_outcome(s: str):
    """-> ('invalid'|'fails', err) or ('done', [[cell,...],...], {cfg:int -> str})"""
    if s.startswith("invalid ") or s.startswith("fails ") or s.startswith("error "):
        k, e = s.split(" ", 1)
        return (k, e)
    assert s.startswith("done "), s
    sx = common.parse_sexp("(" + s[5:] + ")")
    bufs = [list(b) for b in sx[0]]
    cfg = {int(k): v for k, v in sx[1]}
    return ("done", bufs, cfg)


# ---------------------------------------------------------------------- inputs
def eval_index(e, env):
    """Evaluate an index-typed LoopIR expression over {Sym: int}; None if not evaluable."""
    if isinstance(e, LoopIR.Const):
        return int(e.val)
    if isinstance(e, LoopIR.Read):
        return env.get(e.name)
    if isinstance(e, LoopIR.USub):
        v = eval_index(e.arg, env)
        return None if v is None else -v
    if isinstance(e, LoopIR.BinOp):
        a, b = eval_index(e.lhs, env), eval_index(e.rhs, env)
        if a is None or b is None:
            return None
        if e.op == "+":
            return a + b
        if e.op == "-":
            return a - b
        if e.op == "*":
            return a * b
        if e.op == "/":
            return a // b if b > 0 else None
        if e.op == "%":
            return a % b if b > 0 else None
    return None


def eval_pred(e, env):
    """Three-valued evaluation of a bool-typed LoopIR expression over {Sym: int|bool}: True, False or None (unknown)."""
    if isinstance(e, LoopIR.Const):
        return bool(e.val) if isinstance(e.val, bool) else None
    if isinstance(e, LoopIR.Read):
        v = env.get(e.name)
        return v if isinstance(v, bool) else None
    if isinstance(e, LoopIR.BinOp):
        if e.op in ("and", "or"):
            a, b = eval_pred(e.lhs, env), eval_pred(e.rhs, env)
            if e.op == "and":
                return False if (a is False or b is False) else (True if (a and b) else None)
            return True if (a or b) else (False if (a is False and b is False) else None)
        if e.op in ("<", ">", "<=", ">=", "=="):
            a, b = eval_index(e.lhs, env), eval_index(e.rhs, env)
            if a is None or b is None or isinstance(a, bool) or isinstance(b, bool):
                return None
            return {"<": a < b, ">": a > b, "<=": a <= b, ">=": a >= b, "==": a == b}[e.op]
    return None


def fmt_cell(v) -> str:
    if v is None:
        return "none"
    q = Fraction(v)
    return "(q %d %d)" % (q.numerator, q.denominator)


class InputGen:
    """Random inputs for a LoopIR procedure.  One description (python dict) per input so that it can be
    transformed (partial_eval, transpose) and replayed; `render` turns it into the interpreter's syntax."""

    def __init__(self, rng: random.Random, size_range=(1, 4), index_range=(-2, 5), strides=(1, 2)):
        self.rng = rng
        self.size_range = size_range
        self.index_range = index_range
        self.strides = strides

    def controls(self, p):
        """control-argument values; re-drawn (over widening ranges) while an assertion of p is definitely false,
        so that procedures with preconditions such as `n > 4` or `n % 8 == 0` still get valid inputs"""
        rng = self.rng
        env = {}
        for attempt in range(60):
            widen = 0 if attempt < 8 else (attempt // 8) * 4
            env = {}
            for a in p.args:
                t = a.type
                if isinstance(t, T.Size):
                    env[a.name] = rng.randint(self.size_range[0], self.size_range[1] + widen)
                elif isinstance(t, T.Index):
                    env[a.name] = rng.randint(self.index_range[0], self.index_range[1] + widen)
                elif isinstance(t, T.Stride):
                    env[a.name] = rng.choice(self.strides)
                elif isinstance(t, T.Bool):
                    env[a.name] = rng.random() < 0.5
            if not any(eval_pred(q, env) is False for q in p.preds):
                break
        return env

    def gen(self, p, cfg_types: dict[int, str]):
        rng = self.rng
        env, args = self.controls(p), []
        counter = itertools.count(2)
        for a in p.args:
            t = a.type
            if isinstance(t, (T.Size, T.Index, T.Stride)):
                args.append({"kind": "val", "v": ("i", env[a.name])})
            elif isinstance(t, T.Bool):
                args.append({"kind": "val", "v": ("b", env[a.name])})
            elif t.is_real_scalar():
                args.append({"kind": "buf", "off": 0, "shape": [], "strides": [], "cells": [self.cellval(counter)]})
            elif isinstance(t, T.Tensor):
                shape = [eval_index(d, env) for d in t.hi]
                if any(s is None or s < 1 for s in shape):
                    return None
                if t.is_window and rng.random() < 0.6:
                    # non-dense layout: random permutation-free strides with gaps and an offset
                    strides, acc = [], 1
                    for n in reversed(shape):
                        k = rng.choice(self.strides)
                        strides.insert(0, acc * k)
                        acc = acc * k * n
                    off = rng.randint(0, 2)
                    total = off + sum((n - 1) * s for n, s in zip(shape, strides)) + 1 + rng.randint(0, 1)
                else:
                    strides, acc = [], 1
                    for n in reversed(shape):
                        strides.insert(0, acc)
                        acc *= n
                    off, total = 0, acc
                args.append({"kind": "buf", "off": off, "shape": shape, "strides": strides,
                             "cells": [self.cellval(counter) for _ in range(total)]})
            else:
                return None
        cfg = {}
        for k, ty in sorted(cfg_types.items()):
            if ty == "bool":
                cfg[k] = ("b", rng.random() < 0.5)
            elif ty == "data":
                cfg[k] = ("d", rng.randint(0, 3))
            else:
                cfg[k] = ("i", rng.randint(0, 2))
        return {"args": args, "cfg": cfg}

    def cellval(self, counter):
        # distinct small integers so that a wrong index shows
        return next(counter)


def render_value(v) -> str:
    k, x = v
    if k == "i":
        return "(i %d)" % x
    if k == "b":
        return "(b %s)" % ("true" if x else "false")
    return "(d %s)" % fmt_cell(x)


def render_input(desc) -> str:
    parts = []
    for a in desc["args"]:
        if a["kind"] == "val":
            parts.append("(val %s)" % render_value(a["v"]))
        else:
            dims = " ".join("(%d %d)" % (n, s) for n, s in zip(a["shape"], a["strides"]))
            parts.append("(buf %d (%s) (%s))" % (a["off"], dims, " ".join(fmt_cell(c) for c in a["cells"])))
    cfg = " ".join("(%d %s)" % (k, render_value(v)) for k, v in sorted(desc["cfg"].items()))
    return "(input (%s) (%s))" % (" ".join(parts), cfg)


def refines(o1, o2, ignore_cfg=()):
    """o2 (derived procedure) must reproduce every defined cell of o1 and every cfg field not in ignore_cfg.
    Returns None if fine, else a description."""
    if o1[0] != "done":
        return None  # the original is not safe on this input (or the input is invalid): nothing to compare
    if o2[0] != "done":
        return "derived procedure %s %s where the original succeeds" % (o2[0], o2[1])
    b1, b2 = o1[1], o2[1]
    if len(b1) != len(b2):
        return "different number of argument buffers"
    for k, (x, y) in enumerate(zip(b1, b2)):
        if len(x) != len(y):
            return "buffer %d: different size" % k
        for j, (u, v) in enumerate(zip(x, y)):
            if u != "none" and u != v:
                return "buffer %d cell %d: %s vs %s" % (k, j, u, v)
    c1, c2 = o1[2], o2[2]
    for k in c1:
        if k in ignore_cfg:
            continue
        if c1[k] != c2.get(k):
            return "config field %d: %s vs %s" % (k, c1[k], c2.get(k))
    return None
