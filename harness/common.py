"""Shared machinery of every property check in /verif.

A property module (harness/props/<ID>.py) defines ``run(ck)`` where ``ck`` is a
:class:`Check`.  The flow every module follows (DESIGN.md section 2.4):

  1. regenerate Gen_*.v (translators) and ``make`` the Coq engine(s)    -> ck.coq_build(...)
  2. correspondence model <-> implementation                             -> ck.corr_ok / ck.corr_diverge
  3. replay known-finding witnesses                                       -> ck.known_finding(...)
  4. failing-input search                                                 -> ck.violation(...)
  5. verdict + evidence                                                   -> ck.finish()

Outcome lines are exactly those of the brief:
  VIOLATION property=<id> replay=<path>
  VIOLATION property=<id> replay=<path> no-failing-input-found
  KNOWN-FINDING: property=<id> <what fails>
"""
from __future__ import annotations

import hashlib
import json
import os
import random
import re
import shutil
import subprocess
import sys
import time
from pathlib import Path

VERIF = Path(__file__).resolve().parent.parent

# exo's effect checks call z3 through its C API, which neither the per-operation SIGALRM of the searches nor a Python
# deadline can interrupt (one Check_ReorderStmts query was observed to run for an hour).  A global per-query timeout
# turns such a query into "unknown", which exo reports as an error and the searches count as a refusal.
try:  # pragma: no cover
    import z3 as _z3
    _z3.set_param("timeout", int(os.environ.get("VERIF_Z3_TIMEOUT_MS", "20000")))
except Exception:
    pass
REPO = Path(os.environ.get("EXO_REPO", "/repo"))
COQ = VERIF / "coq"
SCRATCH = VERIF / ".scratch"
# evidence of runs against a tree other than /repo (seeded changes, mutation testing) never overwrites the real evidence
EVID = VERIF / "evidence" if "EXO_REPO" not in os.environ else SCRATCH / "evidence_other_tree"
REPLAYS = VERIF / "replays"
KNOWN = VERIF / "known_findings.json"
PY = "/venv/bin/python"
GUARD = "EXO_VERIF"

def safe_str(x) -> str:
    """str(procedure) can itself fail (the printer hands an empty body to yapf: known finding of C17)"""
    try:
        return str(x)
    except Exception as e:  # pragma: no cover
        return "<unprintable: %s: %s>" % (type(e).__name__, str(e)[:120])


FORBIDDEN = re.compile(
    r"\b(Admitted|admit|Axiom|Axioms|Parameter|Parameters|Conjecture|Conjectures|Admit Obligations|"
    r"Unset Guard Checking|Unset Positivity Checking|Unset Universe Checking|bypass_check|"
    r"type-in-type|impredicative-set)\b"
)


def exo_env(hashseed: str | None = "0", hooks: bool = True, extra: dict | None = None) -> dict:
    """Environment in which the implementation under /repo is imported."""
    env = dict(os.environ)
    env["PYTHONPATH"] = str(REPO / "src") + os.pathsep + str(VERIF / "harness")
    if hashseed is not None:
        env["PYTHONHASHSEED"] = hashseed
    else:
        env.pop("PYTHONHASHSEED", None)
    if hooks:
        env[GUARD] = "1"
    else:
        env.pop(GUARD, None)
    env["PIP_NO_INDEX"] = "1"
    if extra:
        env.update(extra)
    return env


def sh(cmd, timeout=600, cwd=None, env=None, input=None):
    """Run a command; returns (rc, stdout+stderr).  rc=124 on timeout."""
    try:
        p = subprocess.run(
            cmd,
            shell=isinstance(cmd, str),
            cwd=cwd,
            env=env,
            input=input,
            stdout=subprocess.PIPE,
            stderr=subprocess.STDOUT,
            timeout=timeout,
            text=True,
        )
        return p.returncode, p.stdout
    except subprocess.TimeoutExpired as e:
        out = e.stdout or ""
        if isinstance(out, bytes):
            out = out.decode("utf-8", "replace")
        return 124, out + "\n[timeout after %ss]" % timeout


def scratch_dir(name: str) -> Path:
    d = SCRATCH / name
    if d.exists():
        shutil.rmtree(d, ignore_errors=True)
    d.mkdir(parents=True, exist_ok=True)
    return d


def load_known() -> dict:
    if KNOWN.exists():
        return json.loads(KNOWN.read_text())
    return {"findings": []}


class Check:
    def __init__(self, pid: str, tier: str, seed: int):
        self.pid = pid
        self.tier = tier
        self.seed = seed
        self.rng = random.Random(seed)
        self.t0 = time.time()
        self.obligations: list[dict] = []  # {name, ok, detail}
        self.broken: list[dict] = []  # broken proof obligations / correspondence streams
        self.violations: list[dict] = []  # {replay: dict, key}
        self.known_seen: list[str] = []
        self.cov: dict = {
            "evaluations": 0,
            "distinct_nontrivial": 0,
            "rule": "",
            "samples": [],
            "trusted_base": [],
            "checker_cmd": "",
        }
        self.assumptions: list[str] = []
        self.print_assumptions: dict[str, str] = {}
        self._distinct: set[str] = set()
        self.streams: dict[str, dict] = {}
        self.known = [f for f in load_known().get("findings", []) if f.get("property") == pid]
        self.log_lines: list[str] = []
        for old in REPLAYS.glob("%s-*.json" % pid):  # replays belong to one run
            try:
                old.unlink()
            except OSError:
                pass

    # ------------------------------------------------------------------ logging
    def log(self, *a):
        s = " ".join(str(x) for x in a)
        self.log_lines.append(s)
        print("[%s] %s" % (self.pid, s), flush=True)

    @property
    def thorough(self):
        return self.tier == "thorough"

    def n(self, quick: int, thorough: int) -> int:
        return thorough if self.thorough else quick

    # ------------------------------------------------------------------ Coq
    def forbid_scan(self, engine: str) -> bool:
        """Fail closed if any forbidden vernacular appears in the engine's sources."""
        bad = []
        for f in sorted((COQ / engine).glob("**/*.v")):
            txt = f.read_text()
            # strip comments (non-nested is enough: we forbid the words in comments of Props too)
            code = re.sub(r"\(\*.*?\*\)", " ", txt, flags=re.S)
            for m in FORBIDDEN.finditer(code):
                bad.append("%s: %s" % (f.relative_to(VERIF), m.group(0)))
        ok = not bad
        self.obligation("no-axioms-no-admits:" + engine, ok, "; ".join(bad[:5]))
        return ok

    def gen(self, engine: str, timeout: int = 300) -> bool:
        """Run the engine's translator(s) (coq/<engine>/gen.py) against /repo's current source; fail closed."""
        d = COQ / engine
        rc, out = sh([PY, "gen.py"], timeout=timeout, cwd=d, env=exo_env(hooks=False))
        ok = rc == 0
        self.obligation("translator:" + engine, ok, "" if ok else out[-600:])
        if not ok:
            self.log("translator of %s failed: %s" % (engine, out[-400:]))
        return ok

    def extract(self, engine: str, timeout: int = 600) -> bool:
        d = COQ / engine
        rc, out = sh(["bash", "extract.sh"], timeout=timeout, cwd=d)
        if rc != 0:
            self.broken_obligation("extraction-build:" + engine, out[-600:])
            self.log("extraction build of %s failed: %s" % (engine, out[-400:]))
        return rc == 0

    def coq_build(self, engine: str, timeout: int = 1500, jobs: int = 16, props=None) -> bool:
        """Full .vo build of /verif/coq/<engine> (coq_makefile project).  Records one obligation per
        theorem in Props*.v and the Print Assumptions output found in the build log."""
        d = COQ / engine
        self.forbid_scan(engine)
        import fcntl
        lockf = open(d / ".build.lock", "w")
        fcntl.flock(lockf, fcntl.LOCK_EX)  # concurrent checks sharing an engine must not interleave their makes
        try:
            return self._coq_build_locked(engine, d, timeout, jobs, props)
        finally:
            fcntl.flock(lockf, fcntl.LOCK_UN)
            lockf.close()

    def _coq_build_locked(self, engine, d, timeout, jobs, props):
        cmd = "coq_makefile -f _CoqProject -o Makefile.coq >/dev/null && make -f Makefile.coq -j%d" % jobs
        self.cov["checker_cmd"] = (self.cov["checker_cmd"] + " ; " if self.cov["checker_cmd"] else "") + (
            "cd coq/%s && %s" % (engine, cmd)
        )
        if props is not None:  # explicit list of Props file stems this property relies on
            props = [d / (stem + ".v") for stem in props]
        else:
            props = [pf for pf in sorted(d.glob("Props*.v")) if self._props_for_me(pf)]
        for pf in props:  # force the property theorems to be re-checked on every run
            for suf in (".vo", ".glob", ".vok", ".vos"):
                q = pf.with_suffix(suf)
                if q.exists():
                    q.unlink()
        rc, out = sh(cmd.replace("make -f", "make -k -f"), timeout=timeout, cwd=d)
        SCRATCH.mkdir(exist_ok=True)
        (SCRATCH / ("build_%s_%s.log" % (self.pid, engine))).write_text(out)
        for pf in props:
            names = re.findall(r"^\s*(?:Theorem|Corollary)\s+([A-Za-z0-9_']+)", pf.read_text(), flags=re.M)
            built = pf.with_suffix(".vo").exists()
            for nm in names:
                self.obligation("%s.%s" % (pf.stem, nm), built, "" if built else "does not compile: " + self._first_error(out))
        if rc != 0:
            err = self._first_error(out)
            self.log("coq build of %s FAILED: %s" % (engine, err))
            self.broken_obligation("coq-build:%s" % engine, err)
        self._collect_assumptions(out)
        return rc == 0

    def _props_for_me(self, pf: Path) -> bool:
        # Props_C13.v, Props_C13_extra.v belong to C13; Props.v belongs to everyone using the engine
        m = re.match(r"Props_?(C\d+)?", pf.stem)
        return not (m and m.group(1)) or m.group(1) == self.pid

    @staticmethod
    def _first_error(out: str) -> str:
        lines = out.splitlines()
        for i, l in enumerate(lines):
            if l.startswith("Error") or "Error:" in l:
                return " | ".join(lines[max(0, i - 2) : i + 4])[:600]
        return "\n".join(lines[-5:])[:600]

    def _collect_assumptions(self, out: str):
        # coqc prints either "Closed under the global context" or "Axioms:" followed by indented lines.
        closed = out.count("Closed under the global context")
        ax = re.findall(r"^Axioms:\n((?:.+\n?)+?)(?=^\S|\Z)", out, flags=re.M)
        self.print_assumptions["closed_count"] = str(closed)
        if ax:
            self.print_assumptions["axioms"] = "\n".join(a.strip() for a in ax)[:4000]

    def assumptions_from_vo(self, engine: str, props_stem: str, timeout=300):
        """Re-run Print Assumptions for every theorem of a Props file (cheap: uses compiled .vo)."""
        d = COQ / engine
        pf = d / (props_stem + ".v")
        names = re.findall(r"^\s*(?:Theorem|Corollary)\s+([A-Za-z0-9_']+)", pf.read_text(), flags=re.M)
        proj = (d / "_CoqProject").read_text()
        qargs = " ".join(l.strip() for l in proj.splitlines() if l.strip().startswith(("-Q", "-R")))
        lib = re.search(r"-Q\s+\.\s+(\S+)", proj).group(1)
        script = "Require Import %s.%s.\n" % (lib, props_stem) + "".join(
            "Print Assumptions %s.\n" % n for n in names
        )
        tmp = scratch_dir("pa_%s" % self.pid) / "PA.v"
        tmp.write_text(script)
        rc, out = sh("coqc %s %s" % (qargs, tmp), timeout=timeout, cwd=d)
        self._collect_assumptions(out)
        return rc == 0

    # ------------------------------------------------------------------ bookkeeping
    def obligation(self, name: str, ok: bool, detail: str = ""):
        self.obligations.append({"name": name, "ok": bool(ok), "detail": detail})
        if not ok:
            self.broken_obligation(name, detail)

    def broken_obligation(self, name: str, detail: str = ""):
        if not any(b["name"] == name for b in self.broken):
            self.broken.append({"name": name, "detail": detail})

    def stream(self, name: str) -> dict:
        return self.streams.setdefault(name, {"cases": 0, "agree": 0, "diverge": 0, "distribution": {}})

    def case(self, stream: str, key, nontrivial: bool = True, sample=None, tag: str | None = None):
        """Count one explored case.  ``key`` identifies distinctness."""
        st = self.stream(stream)
        st["cases"] += 1
        if tag:
            st["distribution"][tag] = st["distribution"].get(tag, 0) + 1
        self.cov["evaluations"] += 1
        h = hashlib.sha1((stream + "|" + repr(key)).encode()).hexdigest()
        if nontrivial and h not in self._distinct:
            self._distinct.add(h)
            self.cov["distinct_nontrivial"] += 1
        if sample is not None and len(self.cov["samples"]) < 12 and st["cases"] <= 3:
            self.cov["samples"].append({"stream": stream, "case": sample})

    def corr_agree(self, stream: str):
        self.stream(stream)["agree"] += 1

    def corr_diverge(self, stream: str, detail):
        """Model and implementation disagree on a case: the correspondence is broken."""
        st = self.stream(stream)
        st["diverge"] += 1
        st.setdefault("first_divergences", [])
        if len(st["first_divergences"]) < 5:
            st["first_divergences"].append(detail)
        self.broken_obligation("correspondence:" + stream, json.dumps(detail, default=str)[:800])

    # ------------------------------------------------------------------ findings
    def match_known(self, key: str):
        for f in self.known:
            if f.get("status", "open") != "open":
                continue
            pat = f.get("match_key")
            if pat and re.search(pat, key):
                return f
        return None

    def violation(self, key: str, replay: dict, what: str = ""):
        """A concrete failing input against the real implementation.  ``key`` is a stable identifier
        of the *specific* failing input / call site; it is matched against known_findings.json."""
        f = self.match_known(key)
        if f is not None:
            if f["id"] not in self.known_seen:
                self.known_seen.append(f["id"])
                print("KNOWN-FINDING: property=%s %s" % (self.pid, f["what"]), flush=True)
            return False
        if any(v["key"] == key for v in self.violations):
            return True
        self.violations.append({"key": key, "replay": replay, "what": what})
        return True

    # ------------------------------------------------------------------ verdict
    def finish(self):
        EVID.mkdir(parents=True, exist_ok=True)
        REPLAYS.mkdir(exist_ok=True)
        rc = 0
        nviol = 0
        for i, v in enumerate(self.violations):
            path = REPLAYS / ("%s-%d.json" % (self.pid, i))
            path.write_text(json.dumps({"property": self.pid, "key": v["key"], "what": v["what"], "seed": self.seed,
                                        "replay": v["replay"]}, indent=1, default=str))
            print("VIOLATION property=%s replay=%s" % (self.pid, path), flush=True)
            self.log("  violation key: %s | %s" % (v["key"], str(v["what"])[:300]))
            nviol += 1
            rc = 1
        if self.broken and not self.violations:
            path = REPLAYS / ("%s-broken.json" % self.pid)
            path.write_text(json.dumps({"property": self.pid, "seed": self.seed,
                                        "no_longer_checks": self.broken,
                                        "note": "a proof obligation or the model/implementation correspondence no longer "
                                                "checks and the failing-input search found no concrete input"},
                                       indent=1, default=str))
            print("VIOLATION property=%s replay=%s no-failing-input-found" % (self.pid, path), flush=True)
            for b in self.broken[:5]:
                self.log("  no longer checks: %s | %s" % (b["name"], str(b["detail"])[:300]))
            nviol += 1
            rc = 1
        elif self.broken:
            self.log("broken obligations (a concrete failing input was found, reported above): %s"
                     % [b["name"] for b in self.broken])
        obl = [o for o in self.obligations]
        self.cov["obligations"] = len(obl)
        self.cov["discharged"] = sum(1 for o in obl if o["ok"])
        self.cov["obligation_list"] = obl
        self.cov["correspondence"] = self.streams
        self.cov["print_assumptions"] = self.print_assumptions
        self.cov["known_findings_seen"] = self.known_seen
        self.cov["broken"] = self.broken
        if not self.cov["rule"]:
            self.cov["rule"] = "see correspondence streams"
        ev = {
            "property_id": self.pid,
            "tier": self.tier,
            "seed": self.seed,
            "level": "proof",
            "coverage": self.cov,
            "assumptions": self.assumptions,
            "wall_s": round(time.time() - self.t0, 2),
            "violations": nviol,
        }
        (EVID / ("%s.json" % self.pid)).write_text(json.dumps(ev, indent=1, default=str))
        self.log("done: obligations %d/%d, evaluations %d (distinct non-trivial %d), violations %d, %.1fs"
                 % (self.cov["discharged"], self.cov["obligations"], self.cov["evaluations"],
                    self.cov["distinct_nontrivial"], nviol, ev["wall_s"]))
        return rc


# ---------------------------------------------------------------------- s-expressions
def sexp(x) -> str:
    """Python nested lists/tuples -> s-expression text (atoms: str w/o spaces, int, bool)."""
    if isinstance(x, (list, tuple)):
        return "(" + " ".join(sexp(y) for y in x) + ")"
    if isinstance(x, bool):
        return "true" if x else "false"
    if isinstance(x, int):
        return str(x)
    if isinstance(x, str):
        assert x and not re.search(r"[\s()]", x), repr(x)
        return x
    raise TypeError(type(x))


def parse_sexp(s: str):
    toks = re.findall(r"\(|\)|[^\s()]+", s)
    pos = 0

    def rd():
        nonlocal pos
        t = toks[pos]
        pos += 1
        if t == "(":
            out = []
            while toks[pos] != ")":
                out.append(rd())
            pos += 1
            return out
        return t

    return rd()
