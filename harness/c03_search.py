"""C03 search: every procedure the real front end accepts is executed by the extracted Coq reference
semantics (coq/Core/_build/interp = Core.Sem.run) on a bounded input family satisfying its assertions.

Also: the static call-aliasing check on the accepted LoopIR (the reference semantics does not model aliasing
as an error)."""
from __future__ import annotations

import itertools
import random
import time

import common
import export
from exo.core.LoopIR import LoopIR, T

SIZES = [1, 2, 3, 4, 5]
INDEXES = list(range(-3, 7))
STRIDES = [1, 2, 3]
CFG_INT = [-1, 0, 2, 4]


# ---------------------------------------------------------------------------------------------- input family
def _pred_consts(p):
    out = set()

    def walk(e):
        if isinstance(e, LoopIR.Const) and isinstance(e.val, int) and not isinstance(e.val, bool):
            out.add(int(e.val))
        elif isinstance(e, LoopIR.BinOp):
            walk(e.lhs)
            walk(e.rhs)
        elif isinstance(e, LoopIR.USub):
            walk(e.arg)

    for q in p.preds:
        walk(q)
    return out


def control_domains(p, cfg_types):
    """[(key, [values])] for every control argument and configuration field"""
    consts = _pred_consts(p)
    near = {c + d for c in consts for d in (-1, 0, 1)}
    doms = []
    for k, a in enumerate(p.args):
        t = a.type
        if isinstance(t, T.Size):
            doms.append((("arg", k), sorted(set(SIZES) | {v for v in near if 1 <= v <= 9})))
        elif isinstance(t, T.Index):
            doms.append((("arg", k), sorted(set(INDEXES) | {v for v in near if -5 <= v <= 9})))
        elif isinstance(t, T.Stride):
            doms.append((("arg", k), STRIDES))
        elif isinstance(t, T.Bool):
            doms.append((("arg", k), [False, True]))
    for c, ty in sorted(cfg_types.items()):
        if ty == "bool":
            doms.append((("cfg", c), [False, True]))
        elif ty == "int":
            doms.append((("cfg", c), CFG_INT))
        else:
            doms.append((("cfg", c), [1]))
    return doms


def valuations(doms, rng, cap):
    total = 1
    for _, d in doms:
        total *= len(d)
    if total <= cap:
        for combo in itertools.product(*[d for _, d in doms]):
            yield dict(zip([k for k, _ in doms], combo))
        return
    seen = set()
    corners = [tuple(d[0] for _, d in doms), tuple(d[-1] for _, d in doms)]
    for c in corners:
        seen.add(c)
        yield dict(zip([k for k, _ in doms], c))
    tries = 0
    while len(seen) < cap and tries < cap * 4:
        tries += 1
        c = tuple(rng.choice(d) for _, d in doms)
        if c in seen:
            continue
        seen.add(c)
        yield dict(zip([k for k, _ in doms], c))


def cell(counter):
    """contents of an input cell.  Data never reaches control in LoopIR (indices, bounds, guards and sizes are
    control-typed), so the outcome kind does not depend on it; small integers would make exact rational arithmetic
    explode under repeated products (x = x * x + 1 in a loop), hence: a few small values, mostly poison"""
    k = next(counter)
    return None if k % 3 else (k // 3) % 3


def build_input(p, val, cfg_types, rng):
    """input description (export.render_input format) for one control valuation, or None if a buffer extent
    is not positive / not evaluable (such an input cannot satisfy the signature)"""
    env, args = {}, []
    counter = itertools.count(2)
    for k, a in enumerate(p.args):
        t = a.type
        if isinstance(t, (T.Size, T.Index, T.Stride)):
            v = val[("arg", k)]
            env[a.name] = v
            args.append({"kind": "val", "v": ("i", v)})
        elif isinstance(t, T.Bool):
            args.append({"kind": "val", "v": ("b", val[("arg", k)])})
        elif t.is_real_scalar():
            args.append({"kind": "buf", "off": 0, "shape": [], "strides": [], "cells": [cell(counter)]})
        elif isinstance(t, T.Tensor):
            shape = [export.eval_index(d, env) for d in t.hi]
            if any(s is None or s < 1 for s in shape):
                return None
            if t.is_window and rng.random() < 0.6:
                strides, acc = [], 1
                for n in reversed(shape):
                    m = rng.choice(STRIDES)
                    strides.insert(0, acc * m)
                    acc = acc * m * n
                off = rng.randint(0, 2)
                total = off + sum((n - 1) * s for n, s in zip(shape, strides)) + 1 + rng.randint(0, 1)
            else:
                strides, acc = [], 1
                for n in reversed(shape):
                    strides.insert(0, acc)
                    acc *= n
                off, total = 0, acc
            args.append({"kind": "buf", "off": off, "shape": shape, "strides": strides,
                         "cells": [cell(counter) for _ in range(total)]})
        else:
            return None
    cfg = {}
    for c, ty in sorted(cfg_types.items()):
        v = val[("cfg", c)]
        cfg[c] = ("b", v) if ty == "bool" else ("i", v) if ty == "int" else ("d", v)
    return {"args": args, "cfg": cfg}


# ---------------------------------------------------------------------------------------------- static aliasing
def alias_sites(p):
    """call sites of the LoopIR procedure p (not of its callees: they were checked when they were defined) at
    which one root buffer reaches two numeric arguments.  Independent of new_eff.Check_Aliasing."""
    found = []

    def root(name, al):
        while name in al:
            name = al[name]
        return name

    def block(ss, al):
        al = dict(al)
        for s in ss:
            if isinstance(s, LoopIR.WindowStmt):
                al[s.name] = s.rhs.name
            elif isinstance(s, LoopIR.If):
                block(s.body, al)
                block(s.orelse, al)
            elif isinstance(s, LoopIR.For):
                block(s.body, al)
            elif isinstance(s, LoopIR.Call):
                seen = {}
                for fa, a in zip(s.f.args, s.args):
                    if fa.type.is_numeric() and isinstance(a, (LoopIR.Read, LoopIR.WindowExpr)):
                        r = root(a.name, al)
                        if r in seen:
                            found.append("%s(%s, %s)" % (s.f.name, seen[r], fa.name))
                        else:
                            seen[r] = fa.name

    block(p.body, {})
    return found


# ---------------------------------------------------------------------------------------------- features / tags
def features(p):
    """constructs occurring in p and (transitively) its callees"""
    f = set()

    def stmts(ss, depth):
        for s in ss:
            if isinstance(s, LoopIR.WindowStmt):
                f.add("window")
            elif isinstance(s, LoopIR.If):
                f.add("if")
                stmts(s.body, depth)
                stmts(s.orelse, depth)
            elif isinstance(s, LoopIR.For):
                f.add("for")
                stmts(s.body, depth)
            elif isinstance(s, LoopIR.Alloc):
                f.add("alloc")
            elif isinstance(s, LoopIR.Call):
                f.add("call")
                if depth < 4:
                    stmts(s.f.body, depth + 1)
            elif isinstance(s, (LoopIR.WriteConfig,)):
                f.add("config")

    stmts(p.body, 0)
    return f


# ---------------------------------------------------------------------------------------------- runner
class Runner:
    """one extracted interpreter + one exporter per program"""

    def __init__(self, rng: random.Random, cap: int):
        self.rng = rng
        self.cap = cap
        self.interp = None
        for attempt in range(6):  # another check may be re-linking coq/Core/_build/interp right now
            try:
                self.interp = export.Interp()
                break
            except OSError:
                if attempt == 5:
                    raise
                time.sleep(4)
        self.uid = 0
        self.stats = {"programs": 0, "runs": 0, "done": 0, "invalid": 0, "fails": 0, "unbuildable_inputs": 0,
                      "unsupported": 0, "interp_errors": 0, "programs_with_valid_input": 0,
                      "exhaustive_families": 0, "sampled_families": 0, "errkinds": {}}

    def close(self):
        self.interp.close()

    def export(self, ir):
        """-> (exporter, interpreter name of ir, proc s-expression text)"""
        ex = export.Exporter()
        self.interp.sent = 0
        name0 = ex.proc_ref(ir)  # emits callee defs first
        # names are per Exporter ("p1", ...): re-define under unique names is unnecessary because the
        # interpreter table is overwritten in order and callees are inlined by name at definition time
        for d in ex.defs:
            r = self.interp.ask(d)
            assert r == "ok", (r, d[:200])
        return ex, name0, ex.procs[id(ir)][1]

    def search(self, ir, stop_after=1):
        """run the input family; -> list of (err, input description, rendered input) for failing valid inputs"""
        st = self.stats
        st["programs"] += 1
        try:
            ex, name, sx = self.export(ir)
        except export.Unsupported:
            st["unsupported"] += 1
            return None, None, []
        doms = control_domains(ir, ex.cfg_types)
        total = 1
        for _, d in doms:
            total *= len(d)
        st["exhaustive_families" if total <= self.cap else "sampled_families"] += 1
        fails, seen_err, had_valid = [], set(), False
        self.done_inputs = []
        for val in valuations(doms, self.rng, self.cap):
            desc = build_input(ir, val, ex.cfg_types, self.rng)
            if desc is None:
                st["unbuildable_inputs"] += 1
                continue
            txt = export.render_input(desc)
            out = self.interp.run(name, txt)
            st["runs"] += 1
            if out.startswith("done"):
                st["done"] += 1
                had_valid = True
                if len(self.done_inputs) < 3:
                    self.done_inputs.append(txt)
            elif out.startswith("invalid"):
                st["invalid"] += 1
            elif out.startswith("fails"):
                had_valid = True
                err = out.split()[1]
                st["fails"] += 1
                st["errkinds"][err] = st["errkinds"].get(err, 0) + 1
                if err not in seen_err:
                    seen_err.add(err)
                    fails.append((err, desc, txt))
                    if len(fails) >= stop_after:
                        break
            else:
                st["interp_errors"] += 1
                fails.append(("INTERP:" + out[:80], desc, txt))
                break
        if had_valid:
            st["programs_with_valid_input"] += 1
        return (ex, name, sx), doms, fails

