"""Enumeration and application of scheduling operations on a real exo Procedure.

`candidates(p, rng)` asks the public cursor API for every statement, block, gap and expression position
of `p` and pairs it with every primitive whose argument processors accept that kind of cursor, sampling
the remaining arguments around boundary values (0, 1, extent, extent±1, divisors and non-divisors).
Each candidate is (opname, description, thunk); the thunk applies the REAL primitive and returns the new
Procedure or raises.  The description is enough to replay the application on a freshly built procedure
(cursor positions are given as internal paths)."""
from __future__ import annotations

import random

import exo.API_cursors as PC
from exo.API import Procedure
from exo.core.LoopIR import LoopIR, T
from exo.core.memory import DRAM
from exo.libs.memories import DRAM_STACK, DRAM_STATIC
import exo.stdlib.scheduling as S

# exceptions that mean "the operation refused" (allowed by every property); anything else is a crash
from exo.rewrite.new_eff import SchedulingError
from exo.core.internal_cursors import InvalidCursorError

REFUSALS = (SchedulingError, InvalidCursorError, TypeError, ValueError, KeyError, NotImplementedError)


def path_of(c) -> str:
    im = c._impl
    if hasattr(im, "_path"):
        return "N" + repr(im._path)
    if hasattr(im, "_anchor"):  # block or gap
        if hasattr(im, "_range"):
            return "B%r:%s:%r" % (im._anchor._path, im._attr, (im._range.start, im._range.stop))
        return "G%r:%s" % (im._anchor._path, im._type)
    return repr(im)


class Sites:
    def __init__(self, p: Procedure):
        self.p = p
        self.stmts, self.loops, self.ifs, self.allocs, self.assigns, self.reduces = [], [], [], [], [], []
        self.calls, self.wins, self.passes, self.cfgw, self.blocks, self.pairs, self.gaps = [], [], [], [], [], [], []
        self.exprs, self.binops, self.reads, self.cfgreads = [], [], [], []
        self.walk_block(p.body())

    def walk_block(self, blk):
        items = list(blk)
        self.blocks.append(blk)
        for k, c in enumerate(items):
            self.stmts.append(c)
            self.gaps.append(c.before())
            if k == len(items) - 1:
                self.gaps.append(c.after())
            if k + 1 < len(items):
                self.pairs.append(blk[k : k + 2])
            if len(items) > 2 and k + 2 < len(items):
                self.blocks.append(blk[k : k + 3])
            self.blocks.append(blk[k : k + 1])
            if isinstance(c, PC.ForCursor):
                self.loops.append(c)
                self.expr(c.lo())
                self.expr(c.hi())
                self.walk_block(c.body())
            elif isinstance(c, PC.IfCursor):
                self.ifs.append(c)
                self.expr(c.cond())
                self.walk_block(c.body())
                if not isinstance(c.orelse(), PC.InvalidCursor):
                    self.walk_block(c.orelse())
            elif isinstance(c, PC.AllocCursor):
                self.allocs.append(c)
            elif isinstance(c, PC.AssignCursor):
                self.assigns.append(c)
                for i in c.idx():
                    self.expr(i)
                self.expr(c.rhs())
            elif isinstance(c, PC.ReduceCursor):
                self.reduces.append(c)
                for i in c.idx():
                    self.expr(i)
                self.expr(c.rhs())
            elif isinstance(c, PC.CallCursor):
                self.calls.append(c)
            elif isinstance(c, PC.WindowStmtCursor):
                self.wins.append(c)
            elif isinstance(c, PC.PassCursor):
                self.passes.append(c)
            elif isinstance(c, PC.AssignConfigCursor):
                self.cfgw.append(c)
                self.expr(c.rhs())

    def expr(self, e):
        self.exprs.append(e)
        if isinstance(e, PC.BinaryOpCursor):
            self.binops.append(e)
            self.expr(e.lhs())
            self.expr(e.rhs())
        elif isinstance(e, PC.UnaryMinusCursor):
            self.expr(e.arg())
        elif isinstance(e, PC.ReadCursor):
            self.reads.append(e)
            for i in e.idx():
                self.expr(i)
        elif isinstance(e, PC.ReadConfigCursor):
            self.cfgreads.append(e)
        elif isinstance(e, PC.ExternFunctionCursor):
            for a in e.args():
                self.expr(a)


def _const_of(ecur):
    n = ecur._impl._node
    return n.val if isinstance(n, LoopIR.Const) else None


def candidates(p: Procedure, rng: random.Random, configs=(), other_procs=(), limit_per_op=3):
    """list of (opname, descr, thunk)"""
    st = Sites(p)
    out = []

    def add(op, descr, thunk):
        out.append((op, descr, thunk))

    def pick(lst, k=limit_per_op):
        lst = list(lst)
        rng.shuffle(lst)
        return lst[:k]

    fresh = [0]

    def nm(b):
        fresh[0] += 1
        return "%s_%d" % (b, fresh[0])

    # integer constants that occur in guards, assertions and bounds: operations whose side conditions depend on
    # the context are sampled AT and AROUND these values (the boundary cases of the enclosing conditions)
    consts = set()

    def _collect(e):
        if isinstance(e, LoopIR.Const) and isinstance(e.val, int) and not isinstance(e.val, bool):
            consts.add(e.val)
        for f in ("lhs", "rhs", "arg"):
            if hasattr(e, f):
                _collect(getattr(e, f))

    for e in list(p._loopir_proc.preds) + [c.cond()._impl._node for c in st.ifs]:
        _collect(e)
    ctx_consts = sorted(c for k in consts for c in (k - 1, k, k + 1) if -1 <= c <= 9)

    add("simplify", "", lambda: S.simplify(p))
    if st.passes:
        add("delete_pass", "", lambda: S.delete_pass(p))
    for g in pick(st.gaps):
        add("insert_pass", path_of(g), lambda g=g: S.insert_pass(p, g))
    for b in pick(st.pairs, 4):
        add("reorder_stmts", path_of(b), lambda b=b: S.reorder_stmts(p, b))
        add("merge_writes", path_of(b), lambda b=b: S.merge_writes(p, b))
        add("lift_reduce_constant", path_of(b), lambda b=b: S.lift_reduce_constant(p, b))
    for e in pick(st.binops, 4):
        add("commute_expr", path_of(e), lambda e=e: S.commute_expr(p, [e]))
        add("left_reassociate_expr", path_of(e), lambda e=e: S.left_reassociate_expr(p, e))
    for e in pick([e for e in st.exprs if not isinstance(e, PC.LiteralCursor)], 3):
        add("bind_expr", path_of(e), lambda e=e: S.bind_expr(p, [e], nm("bnd")))
    for c in pick(st.assigns + st.reduces):
        add("split_write", path_of(c), lambda c=c: S.split_write(p, c))
    for c in pick(st.assigns):
        add("fold_into_reduce", path_of(c), lambda c=c: S.fold_into_reduce(p, c))
        add("inline_assign", path_of(c), lambda c=c: S.inline_assign(p, c))
    for l in pick(st.loops, 4):
        lo, hi = _const_of(l.lo()), _const_of(l.hi())
        cuts = [0, 1, 2, 3]
        if hi is not None:
            cuts += [hi, hi - 1, hi + 1]
        if lo is not None:
            cuts += [lo, lo + 1]
        for c in pick(set(cuts), 2) + pick(ctx_consts, 2):
            add("cut_loop", "%s cut=%s" % (path_of(l), c), lambda l=l, c=c: S.cut_loop(p, l, c))
        if hi is None:
            add("cut_loop", "%s cut=hi-1" % path_of(l), lambda l=l: S.cut_loop(p, l, "%s - 1" % str(l.hi()._impl._node)))
        for s in pick([0, 1, 2, 5, -1], 2) + pick(ctx_consts, 1):
            add("shift_loop", "%s lo=%s" % (path_of(l), s), lambda l=l, s=s: S.shift_loop(p, l, s))
        for d in pick([1, 2, 3, 4], 2) + pick([c for c in ctx_consts if c >= 2], 1):
            for tail in pick(["guard", "cut", "cut_and_guard"], 1):
                add("divide_loop", "%s by=%d tail=%s" % (path_of(l), d, tail),
                    lambda l=l, d=d, tail=tail: S.divide_loop(p, l, d, [nm("io"), nm("ii")], tail=tail))
            add("divide_loop", "%s by=%d perfect" % (path_of(l), d),
                lambda l=l, d=d: S.divide_loop(p, l, d, [nm("io"), nm("ii")], perfect=True))
        add("unroll_loop", path_of(l), lambda l=l: S.unroll_loop(p, l))
        add("remove_loop", path_of(l), lambda l=l: S.remove_loop(p, l))
        add("reorder_loops", path_of(l), lambda l=l: S.reorder_loops(p, l))
        add("mult_loops", path_of(l), lambda l=l: S.mult_loops(p, l, nm("ij")))
        add("parallelize_loop", path_of(l), lambda l=l: S.parallelize_loop(p, l))
        add("divide_with_recompute", path_of(l),
            lambda l=l: S.divide_with_recompute(p, l, rng.choice([1, 2]), rng.choice([1, 2]), [nm("io"), nm("ii")]))
        nxt = l.next()
        if isinstance(nxt, PC.ForCursor):
            add("join_loops", path_of(l), lambda l=l, nxt=nxt: S.join_loops(p, l, nxt))
            add("fuse", path_of(l), lambda l=l, nxt=nxt: S.fuse(p, l, nxt))
    for c in pick(st.ifs, 3):
        nxt = c.next()
        if isinstance(nxt, PC.IfCursor):
            add("fuse", path_of(c), lambda c=c, nxt=nxt: S.fuse(p, c, nxt))
    for c in pick(st.loops + st.ifs, 5):
        add("lift_scope", path_of(c), lambda c=c: S.lift_scope(p, c))
        add("eliminate_dead_code", path_of(c), lambda c=c: S.eliminate_dead_code(p, c))
    for g in pick(st.gaps, 4):
        for n in pick([1, 2], 1):
            add("fission", "%s n=%d" % (path_of(g), n), lambda g=g, n=n: S.fission(p, g, n_lifts=n))
    for b in pick(st.blocks, 4):
        hi = rng.choice([1, 2, 3])
        guard = rng.random() < 0.5
        add("add_loop", "%s hi=%d guard=%s" % (path_of(b), hi, guard),
            lambda b=b, hi=hi, guard=guard: S.add_loop(p, b, nm("al"), hi, guard=guard))
        conds = []
        for l in st.loops[:2]:
            conds.append("%s < %d" % (l.name(), rng.randint(0, 3)))
        for a in p.args():
            if isinstance(a._impl._node.type, (T.Size, T.Index)):
                conds.append("%s == %d" % (a.name(), rng.randint(0, 2)))
        if conds:
            cd = rng.choice(conds)
            add("specialize", "%s cond=%s" % (path_of(b), cd), lambda b=b, cd=cd: S.specialize(p, b, [cd]))
        add("extract_subproc", path_of(b), lambda b=b: S.extract_subproc(p, b, nm("sub_x"))[0])
    for a in pick(st.allocs, 4):
        add("lift_alloc", path_of(a), lambda a=a: S.lift_alloc(p, a, n_lifts=rng.choice([1, 2])))
        add("sink_alloc", path_of(a), lambda a=a: S.sink_alloc(p, a))
        add("delete_buffer", path_of(a), lambda a=a: S.delete_buffer(p, a))
        add("unroll_buffer", path_of(a), lambda a=a: S.unroll_buffer(p, a, 0))
        nd = len(a._impl._node.type.shape()) if a.is_tensor() else 0
        loops = [l.name() for l in st.loops]
        ix = rng.choice(loops) if loops else "0"
        ext = rng.choice([1, 2, 4, 8])
        add("expand_dim", "%s ext=%s ix=%s" % (path_of(a), ext, ix), lambda a=a, ext=ext, ix=ix: S.expand_dim(p, a, ext, ix))
        if nd:
            d = rng.randrange(nd)
            for dd in range(nd):
                for q in pick([2, 3, 4, 8], 2):
                    add("divide_dim", "%s d=%d q=%d" % (path_of(a), dd, q), lambda a=a, dd=dd, q=q: S.divide_dim(p, a, dd, q))
            add("resize_dim", "%s d=%d" % (path_of(a), d),
                lambda a=a, d=d: S.resize_dim(p, a, d, rng.choice([1, 2, 4, 6, 8, 9]), rng.choice([0, 0, 1])))
            add("resize_dim_fold", "%s d=%d" % (path_of(a), d),
                lambda a=a, d=d: S.resize_dim(p, a, d, rng.choice([1, 2, 3]), 0, fold=True))
        if nd >= 2:
            perm = list(range(nd))
            rng.shuffle(perm)
            add("rearrange_dim", "%s perm=%s" % (path_of(a), perm), lambda a=a, perm=perm: S.rearrange_dim(p, a, perm))
            add("mult_dim", path_of(a), lambda a=a: S.mult_dim(p, a, 0, 1))
        for a2 in pick([x for x in st.allocs if x is not a], 1):
            add("reuse_buffer", "%s %s" % (path_of(a), path_of(a2)), lambda a=a, a2=a2: S.reuse_buffer(p, a, a2))
        add("set_memory", path_of(a), lambda a=a: S.set_memory(p, a, rng.choice([DRAM_STACK, DRAM_STATIC, DRAM])))
        add("set_precision", path_of(a), lambda a=a: S.set_precision(p, a, rng.choice(["f32", "f64"])))
    for w in pick(st.wins):
        add("inline_window", path_of(w), lambda w=w: S.inline_window(p, w))
    for c in pick(st.calls):
        add("inline", path_of(c), lambda c=c: S.inline(p, c))
        for q in other_procs:
            add("call_eqv", path_of(c), lambda c=c, q=q: S.call_eqv(p, c, q))
    # stage_mem on argument / allocated buffers
    bufs = []
    for a in p.args():
        t = a._impl._node.type
        if isinstance(t, T.Tensor):
            bufs.append((a.name(), t.hi))
    for b in pick(st.blocks, 3):
        if bufs:
            bn, hi = rng.choice(bufs)
            acc = []
            for d in hi:
                if isinstance(d, LoopIR.Const):
                    lo_ = rng.randrange(d.val)
                    hi_ = rng.randint(lo_ + 1, d.val)
                    acc.append("%d:%d" % (lo_, hi_) if rng.random() < 0.8 else "0:%d" % d.val)
                else:
                    acc.append("0:%s" % d)
            w = "%s[%s]" % (bn, ", ".join(acc))
            add("stage_mem", "%s win=%s" % (path_of(b), w), lambda b=b, w=w: S.stage_mem(p, b, w, nm("stg")))
            # windows that move with an enclosing loop and overrun the source at either end (safety guards)
            try:
                par = b.parent()
                it = par.name() if isinstance(par._impl._node, LoopIR.For) else None
            except Exception:
                it = None
            if it and len(hi) == 1:
                for w2 in pick(["%s[%s-1:%s+1]" % (bn, it, it), "%s[%s:%s+2]" % (bn, it, it), "%s[%s-1:%s+2]" % (bn, it, it)], 2):
                    add("stage_mem", "%s win=%s" % (path_of(b), w2), lambda b=b, w2=w2: S.stage_mem(p, b, w2, nm("stg")))
    # configuration operations
    for cfg in configs:
        for e in pick([e for e in st.reads if not list(e.idx()) and e._impl._node.type.is_indexable()], 2):
            add("bind_config", path_of(e), lambda e=e, cfg=cfg: S.bind_config(p, e, cfg, "a"))
        for g in pick(st.gaps, 2):
            v = rng.choice(["0", "1", "2"])
            add("write_config", "%s a=%s" % (path_of(g), v), lambda g=g, cfg=cfg, v=v: S.write_config(p, g, cfg, "a", v))
    for c in pick(st.cfgw, 3):
        add("delete_config", path_of(c), lambda c=c: S.delete_config(p, c))
    # signature / annotation utilities (C19)
    for a in p.args():
        t = a._impl._node.type
        if isinstance(t, T.Tensor) and len(t.hi) == 2:
            add("transpose", a.name(), lambda a=a: p.transpose(a))
        if isinstance(t, T.Tensor):
            if not t.is_window:
                add("set_window", a.name(), lambda a=a: S.set_window(p, a, True))
            add("set_precision_arg", a.name(), lambda a=a: S.set_precision(p, a, rng.choice(["f32", "f64"])))
    ctl = [a for a in p.args() if isinstance(a._impl._node.type, (T.Size, T.Index, T.Bool))]
    for a in ctl:
        t = a._impl._node.type
        v = (rng.random() < 0.5) if isinstance(t, T.Bool) else rng.randint(1, 4) if isinstance(t, T.Size) else rng.randint(0, 3)
        add("partial_eval", "%s=%s" % (a.name(), v), lambda a=a, v=v: p.partial_eval(**{a.name(): v}))
        if not isinstance(t, T.Bool):
            pr = "%s %s %d" % (a.name(), rng.choice([">=", "<=", "=="]), rng.randint(1, 4))
            add("add_assertion", pr, lambda pr=pr: p.add_assertion(pr))
    add("rename", "", lambda: S.rename(p, nm("renamed")))
    return out
