"""OPEN genuine defects of /repo found by the C13 engine (each proved as a *_refuted theorem in
coq/Range/Props_C13.v and re-found by the search on every run).  They belong in /verif/known_findings.json;
props/C13.py appends an entry to ck.known only while that file has no entry with the same id."""

FINDINGS = [
    {
        "property": "C13",
        "id": "C13-join-name-only",
        "status": "open",
        "what": "IndexRange.__or__ decides that two bases are equal with LoopIR_Compare.match_e, which compares "
                "Sym NAMES only: ranges over two different Syms called n are merged and the second base is lost. "
                "Reachable: p(n: size, x) with `for i in seq(0,4): for s in seq(0,1): x[i]=..; x[n]=..`, "
                "simplify(unroll_loop(divide_loop(p,'i',4,['o','n'],perfect=True),'o')), then "
                "bounds_inference(q.find_loop('s'),'x',0) reports (n,0,0) = the loop variable only",
        "match_key": "^join:name-only-base-match:",
    },
    {
        "property": "C13",
        "id": "C13-user-shadowed-name",
        "status": "open",
        "what": "stdlib infer_range / bounds_inference key their environment by the loop variable's NAME string and "
                "visit ancestors innermost first: for `for k: for i in seq(0,4): for i in seq(0,8): x[i]` "
                "infer_range(idx, loop_k) reports [0,3] although the inner i reaches 7",
        "match_key": "^(infer_range|bounds_inference):shadowed-name:",
    },
]
