"""Genuine defects of /repo found by the C13 engine (proved as *_refuted theorems in coq/Range/Props_C13.v and
re-found by the search on every run).  Proposed entries for /verif/known_findings.json; until the lead moves them
there, props/C13.py appends them to ck.known so that the unchanged tree reports KNOWN-FINDING lines.
`match_key` is matched against the violation key produced by the search (props/C13.py)."""

FINDINGS = [
    {
        "id": "C13-join-none",
        "property": "C13",
        "status": "open",
        "match_key": r"^(join:none-or-name|bounds_inference:join):",
        "what": "IndexRange.__or__ (the join used by stdlib bounds_inference and by fold-buffer's "
                "merge_index_ranges/update_access_window) replaces a missing bound (None = unbounded) by the other "
                "operand's bound, and matches bases by NAME: (0,0,None) | (0,3,3) = (0,0,3); "
                "(n,0,0) | (0,3,3) | (0,5,5) = (0,5,5); bounds_inference over `for i in seq(0,n): x[i]=..` "
                "followed by `x[3]=..` reports [0,3]",
        "theorems": ["C13_join_refuted", "C13_join_chain_refuted", "C13_bounds_inference_refuted"],
    },
    {
        "id": "C13-partial-eval-drops-offsets",
        "property": "C13",
        "status": "open",
        "match_key": r"^partial_eval_with_range:offsets-dropped:",
        "what": "IndexRange.partial_eval_with_range discards self.lo/self.hi whenever the stride is non-zero: the "
                "window (i, 0, 3) with i in [0,7] becomes (0, 0, 7) instead of (0, 0, 10); resize_dim(.., fold=True) "
                "therefore accepts `for i in seq(0,8): x[i]=1.0; x[i+3]=2.0` followed by `y[0]=x[4]` with size 4 "
                "and changes the value read (1.0 -> 2.0)",
        "theorems": ["C13_partial_eval_refuted"],
    },
    {
        "id": "C13-user-shadowed-name",
        "property": "C13",
        "status": "open",
        "match_key": r"^(infer_range|bounds_inference):shadowed-name:",
        "what": "stdlib infer_range keys its environment by the loop variable's NAME and visits ancestors innermost "
                "first: for `for i in seq(0,4): for i in seq(0,8): x[i]` it reports [0,3] for the inner i",
        "theorems": ["C13_user_level_shadow_refuted"],
    },
]
