#!/venv/bin/python
"""MANIFEST.setup_cmd: build every Coq engine and extracted OCaml driver from files on disk (offline)."""
import os, subprocess, sys, glob
V = os.path.dirname(os.path.dirname(os.path.abspath(__file__)))
sys.path.insert(0, os.path.join(V, "harness"))
rc = 0
order = []
if os.path.isdir(os.path.join(V, "coq", "Core")):
    order.append("Core")
for d in sorted(glob.glob(os.path.join(V, "coq", "*", "_CoqProject"))):
    e = os.path.basename(os.path.dirname(d))
    if e not in order:
        order.append(e)
for e in order:
    d = os.path.join(V, "coq", e)
    print("== building coq/%s" % e, flush=True)
    gen = os.path.join(d, "gen.py")
    if os.path.exists(gen):  # translators: regenerate Gen_*.v from /repo's current source
        env = dict(os.environ, PYTHONPATH="/repo/src", PYTHONHASHSEED="0")
        subprocess.call(["/venv/bin/python", gen], cwd=d, env=env)
    ext = os.path.join(d, "extract.sh")
    r = subprocess.call("coq_makefile -f _CoqProject -o Makefile.coq >/dev/null && timeout 3000 make -k -f Makefile.coq -j16 2>&1 | tail -5", shell=True, cwd=d)
    rc |= r
    if os.path.exists(ext):  # OCaml extraction + driver build
        subprocess.call(["bash", ext], cwd=d)
sys.exit(0)
