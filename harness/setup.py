#!/venv/bin/python
"""MANIFEST.setup_cmd: build every Coq engine and extracted OCaml driver from files on disk (offline)."""
import os, subprocess, sys, glob
V = os.path.dirname(os.path.dirname(os.path.abspath(__file__)))
sys.path.insert(0, os.path.join(V, "harness"))
rc = 0
pre = os.path.join(V, "harness", "pregen.py")
if os.path.exists(pre):
    rc |= subprocess.call(["/venv/bin/python", pre])
order = []
if os.path.isdir(os.path.join(V, "coq", "Core")):
    order.append("Core")
for d in sorted(glob.glob(os.path.join(V, "coq", "*", "_CoqProject"))):
    e = os.path.basename(os.path.dirname(d))
    if e not in order:
        order.append(e)
for e in order:
    d = os.path.join(V, "coq", e)
    print("== building coq/%s" % e, flush=True)
    r = subprocess.call("coq_makefile -f _CoqProject -o Makefile.coq >/dev/null && timeout 3000 make -k -f Makefile.coq -j16 2>&1 | tail -5", shell=True, cwd=d)
    rc |= r
sys.exit(0)
