(** * Expressions: typed data expressions with valid access VCs evaluate (property C03) *)
From Coq Require Import ZArith List Bool Lia.
From Core Require Import Syntax Sem Equiv.
From Bounds Require Import VC VCGen ProofsBase ProofsMem ProofsInv.
Import ListNotations.
Local Open Scope Z_scope.

(** induction over expressions with an hypothesis for the arguments of externs *)
Section ExprInd.
  Variable P : expr -> Prop.
  Hypothesis HVar : forall x, P (Var x).
  Hypothesis HInt : forall z, P (Int z).
  Hypothesis HBool : forall b, P (BoolC b).
  Hypothesis HReal : forall q, P (Real q).
  Hypothesis HRead : forall x idx, P (Read x idx).
  Hypothesis HUSub : forall e, P e -> P (USub e).
  Hypothesis HBin : forall op a b, P a -> P b -> P (BinOp op a b).
  Hypothesis HExt : forall f args, Forall P args -> P (Extern f args).
  Hypothesis HWin : forall x acc, P (WindowE x acc).
  Hypothesis HStride : forall x d, P (Stride x d).
  Hypothesis HCfg : forall c, P (ReadCfg c).

  Fixpoint expr_ind2 (e : expr) : P e :=
    match e with
    | Var x => HVar x
    | Int z => HInt z
    | BoolC b => HBool b
    | Real q => HReal q
    | Read x idx => HRead x idx
    | USub a => HUSub a (expr_ind2 a)
    | BinOp op a b => HBin op a b (expr_ind2 a) (expr_ind2 b)
    | Extern f args =>
        HExt f args ((fix go (l : list expr) : Forall P l :=
                        match l with
                        | [] => Forall_nil P
                        | a :: r => Forall_cons a (expr_ind2 a) (go r)
                        end) args)
    | WindowE x acc => HWin x acc
    | Stride x d => HStride x d
    | ReadCfg c => HCfg c
    end.
End ExprInd.

(** ** unfolding [eval] on reads and externs *)
Lemma eval_Read : forall st x idx,
  eval st (Read x idx) =
  (do w <- get_view st x; do is <- eval_ints st idx; do d <- cell_read (s_heap st) w is; Ok (VData d)).
Proof.
  intros. cbn [eval]. destruct (get_view st x) as [w|]; cbn [bind]; [|reflexivity].
  match goal with |- bind (?F idx) _ = _ => assert (E : forall l, F l = eval_ints st l) end.
  { induction l as [|a r IH]; [reflexivity|]. cbn [eval_ints].
    destruct (eval st a) as [v|]; cbn [bind]; [|reflexivity].
    destruct (as_int v) as [z|]; cbn [bind]; [|reflexivity]. rewrite IH. reflexivity. }
  rewrite E. reflexivity.
Qed.

Fixpoint eval_list (st : state) (l : list expr) : result (list value) :=
  match l with
  | [] => Ok []
  | a :: r => do v <- eval st a; do vs <- eval_list st r; Ok (v :: vs)
  end.

Lemma eval_Extern : forall st f args,
  eval st (Extern f args) = (do vs <- eval_list st args; eval_extern f vs).
Proof.
  intros. cbn [eval].
  match goal with |- bind (?F args) _ = _ => assert (E : forall l, F l = eval_list st l) end.
  { induction l as [|a r IH]; [reflexivity|]. cbn [eval_list].
    destruct (eval st a) as [v|]; cbn [bind]; [|reflexivity]. rewrite IH. reflexivity. }
  rewrite E. reflexivity.
Qed.

(** ** accesses: valid bound VCs put the index tuple in range *)
Lemma access_in_range : forall D G rho idx dims is (vd : list (Z * Z)),
  sat D G rho ->
  (forall vc, In vc (access_vcs D G idx dims) -> valid vc) ->
  length idx = length dims ->
  ceval_list rho idx = Some is -> ceval_list rho dims = Some (map fst vd) ->
  in_range vd is.
Proof.
  intros D G rho idx. induction idx as [|e ir IH]; intros dims is vd HS HV HL Hi Hd.
  - destruct dims; [|discriminate HL]. cbn [ceval_list] in Hi, Hd. inversion Hi. subst.
    destruct vd; [constructor|discriminate Hd].
  - destruct dims as [|d dr]; [discriminate HL|]. cbn [ceval_list] in Hi, Hd.
    destruct (ceval rho e) as [[i| |]|] eqn:Ee; try discriminate Hi.
    destruct (ceval_list rho ir) as [is'|] eqn:Eir; [|discriminate Hi]. inversion Hi. subst is. clear Hi.
    destruct (ceval rho d) as [[n| |]|] eqn:Ed; try discriminate Hd.
    destruct (ceval_list rho dr) as [ns|] eqn:Edr; [|discriminate Hd].
    destruct vd as [|[n' s] vr]; [discriminate Hd|]. cbn [map fst] in Hd. inversion Hd. subst n' ns. clear Hd.
    constructor.
    + eapply holds_in_bounds; [exact Ee|exact Ed|]. eapply mk_valid_holds; [|exact HS]. apply HV. left. reflexivity.
    + apply (IH dr is' vr); [exact HS| |cbn [length] in HL; congruence|reflexivity|exact Edr].
      intros vc Hvc. apply HV. right. exact Hvc.
Qed.

(** ** data expressions *)
Lemma dty_eval : forall D G st, ctx_wf D G -> inv D G st ->
  forall e, dty D e = true -> (forall vc, In vc (read_vcs D G e) -> valid vc) ->
  exists d, eval st e = Ok (VData d).
Proof.
  intros D G st W I. pose proof (inv_sat _ _ _ W I) as HS. pose proof (env_ok_ctl _ _ (inv_env _ _ _ I)) as HC.
  induction e using expr_ind2; cbn [dty]; intros HT HV; try discriminate HT.
  - (* Real *) eexists. reflexivity.
  - (* Read *)
    destruct (buf_dims D x) as [dims|] eqn:Eb; [|discriminate HT].
    apply andb_true_iff in HT as [HL HI]. apply Nat.eqb_eq in HL.
    destruct (buf_dims_view _ _ _ _ _ I Eb) as [w [Hw [Hok Hdims]]].
    destruct (ity_eval_list _ _ _ HC HI) as [is [E1 [E2 _]]].
    cbn [read_vcs] in HV. rewrite Eb in HV.
    pose proof (access_in_range _ _ _ _ _ _ _ HS HV HL E2 Hdims) as HR.
    destruct (cell_read_ok _ _ _ Hok HR) as [d Hd]. exists d.
    rewrite eval_Read, Hw. cbn [bind]. rewrite E1. cbn [bind]. rewrite Hd. reflexivity.
  - (* USub *)
    destruct (IHe HT HV) as [d Hd]. exists (dneg d). cbn [eval]. rewrite Hd. reflexivity.
  - (* BinOp *)
    cbn [read_vcs] in HV.
    assert (H2 : dty D e1 && dty D e2 = true ->
                 exists d1 d2, eval st e1 = Ok (VData d1) /\ eval st e2 = Ok (VData d2)).
    { intro H. apply andb_true_iff in H as [Ha Hb].
      destruct (IHe1 Ha) as [d1 H1]; [intros vc Hvc; apply HV, in_or_app; left; exact Hvc|].
      destruct (IHe2 Hb) as [d2 H2]; [intros vc Hvc; apply HV, in_or_app; right; exact Hvc|]. eauto. }
    destruct op; try discriminate HT; destruct (H2 HT) as [d1 [d2 [E1 E2]]]; cbn [eval]; rewrite E1, E2; cbn [bind eval_binop]; eauto.
  - (* Extern *)
    cbn [read_vcs] in HV. rewrite eval_Extern.
    assert (Harg : forall a, In a args -> dty D a = true -> exists d, eval st a = Ok (VData d)).
    { intros a Ha Hta. rewrite Forall_forall in H. apply (H a Ha Hta).
      intros vc Hvc. apply HV. apply in_flat_map. exists a. auto. }
    destruct f; try discriminate HT.
    + destruct args as [|a [|]]; try discriminate HT.
      destruct (Harg a (or_introl eq_refl) HT) as [d Hd]. cbn [eval_list]. rewrite Hd. cbn [bind eval_extern]. eauto.
    + destruct args as [|a [|b [|c [|d [|]]]]]; try discriminate HT.
      apply andb_true_iff in HT as [HT Hd4]. apply andb_true_iff in HT as [HT Hc3]. apply andb_true_iff in HT as [Ha1 Hb2].
      destruct (Harg a) as [da Ea]; [cbn; auto|exact Ha1|].
      destruct (Harg b) as [db Eb]; [cbn; auto|exact Hb2|].
      destruct (Harg c) as [dc Ec]; [cbn; auto|exact Hc3|].
      destruct (Harg d) as [dd Ed]; [cbn; auto|exact Hd4|].
      cbn [eval_list]. rewrite Ea, Eb, Ec, Ed. cbn [bind eval_extern].
      destruct da, db; eauto.
    + destruct args as [|a [|b [|]]]; try discriminate HT.
      apply andb_true_iff in HT as [Ha1 Hb2].
      destruct (Harg a) as [da Ea]; [cbn; auto|exact Ha1|].
      destruct (Harg b) as [db Eb]; [cbn; auto|exact Hb2|].
      cbn [eval_list]. rewrite Ea, Eb. cbn [bind eval_extern]. eauto.
Qed.
