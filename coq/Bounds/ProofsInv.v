(** * The invariant relating the static context of [vcgen] to the runtime state (property C03) *)
From Coq Require Import ZArith List Bool Lia.
From Core Require Import Syntax Sem Equiv.
From Bounds Require Import VC VCGen ProofsBase ProofsMem.
Import ListNotations.
Local Open Scope Z_scope.

Definition binding_ok (st : state) (t : sty) (b : binding) : Prop :=
  match t, b with
  | TInt, BVal (VInt _) => True
  | TBool, BVal (VBool _) => True
  | TBuf dims, BView w =>
      view_ok (s_heap st) w /\ ceval_list (rho_of st) dims = Some (map fst (vdims w))
  | _, _ => False
  end.

Definition env_ok (D : tenv) (st : state) : Prop :=
  forall x t, lookup x D = Some t -> exists b, lookup x (s_env st) = Some b /\ binding_ok st t b.

(** static well-formedness of a context: unique binders, extents and hypotheses typed in it *)
Record ctx_wf (D : tenv) (G : list expr) : Prop := {
  wf_nodup : NoDup (map fst D);
  wf_dims : forall x dims, lookup x D = Some (TBuf dims) -> forallb (ity D) dims = true;
  wf_hyps : forall h, In h G -> bty D h = true
}.

Record inv (D : tenv) (G : list expr) (st : state) : Prop := {
  inv_env : env_ok D st;
  inv_hyps : forall h, In h G -> holds (rho_of st) h;
  inv_fresh : heap_fresh (s_heap st) (s_next st)
}.

Definition sat (D : tenv) (G : list expr) (rho : valuation) : Prop :=
  respects rho (ctl_vars D) /\ forall h, In h G -> holds rho h.

Lemma mk_valid_holds : forall D G g rho, valid (mk D G g) -> sat D G rho -> holds rho g.
Proof. intros D G g rho HV [H1 H2]. apply (HV rho); assumption. Qed.

Lemma env_ok_ctl : forall D st, env_ok D st -> ctl_ok D st.
Proof.
  intros D st H x. destruct (lookup x D) as [[| |]|] eqn:E; auto.
  - destruct (H _ _ E) as [b [L B]]. destruct b as [[z|b|d]|w]; cbn in B; try contradiction. eauto.
  - destruct (H _ _ E) as [b [L B]]. destruct b as [[z|b|d]|w]; cbn in B; try contradiction. eauto.
Qed.

Lemma in_lookup_nodup : forall {A} (l : list (positive * A)) x a,
  NoDup (map fst l) -> In (x, a) l -> lookup x l = Some a.
Proof.
  induction l as [|[k b] r IH]; intros x a ND HI; [contradiction|].
  cbn [map fst] in ND. inversion ND as [|? ? Hn ND']. subst. destruct HI as [E|HI].
  - inversion E. subst. apply lookup_cons_eq.
  - rewrite lookup_cons_neq; [apply IH; assumption|]. intro E. subst. apply Hn. apply (in_map fst) in HI. exact HI.
Qed.

Lemma ctl_vars_in : forall D x b, In (x, b) (ctl_vars D) -> In (x, if b then TBool else TInt) D.
Proof.
  induction D as [|[y t] r IH]; intros x b; cbn [ctl_vars]; [contradiction|].
  destruct t; cbn [In]; intro H.
  - destruct H as [E|H]; [inversion E; subst; left; reflexivity|right; apply IH, H].
  - destruct H as [E|H]; [inversion E; subst; left; reflexivity|right; apply IH, H].
  - right. apply IH, H.
Qed.

Lemma inv_sat : forall D G st, ctx_wf D G -> inv D G st -> sat D G (rho_of st).
Proof.
  intros D G st W I. split; [|apply (inv_hyps _ _ _ I)].
  intros x b HI. apply ctl_vars_in in HI. apply (in_lookup_nodup _ _ _ (wf_nodup _ _ W)) in HI.
  destruct (inv_env _ _ _ I _ _ HI) as [bd [L B]]. unfold rho_of, rho_of_env. rewrite L.
  destruct b; destruct bd as [[z|b'|d]|w]; cbn in B; try contradiction; eauto.
Qed.

Lemma vc_use : forall D G g st, ctx_wf D G -> inv D G st -> valid (mk D G g) -> holds (rho_of st) g.
Proof. intros. eapply mk_valid_holds; [eassumption|apply inv_sat; assumption]. Qed.

(** ** the invariant survives heap growth (same environment) *)
Lemma inv_heap : forall D G st h' nx' cfg',
  inv D G st -> heap_le (s_heap st) h' -> heap_fresh h' nx' -> inv D G (mkState (s_env st) h' nx' cfg').
Proof.
  intros D G st h' nx' cfg' I HL HF. constructor.
  - intros x t Hx. destruct (inv_env _ _ _ I _ _ Hx) as [b [L B]]. exists b. split; [exact L|].
    destruct t, b as [[z|bb|d]|w]; cbn in *; auto. destruct B as [B1 B2]. split; [eapply view_ok_mono; eassumption|exact B2].
  - apply (inv_hyps _ _ _ I).
  - exact HF.
Qed.

(** ** ... and the binding of a fresh variable *)
Lemma rho_bind_agree : forall D x b st, lookup x D = None -> agree_on D (rho_of (bind_var x b st)) (rho_of st).
Proof.
  intros D x b st Hx y Hy. unfold rho_of, rho_of_env, bind_var. cbn [s_env].
  rewrite lookup_cons_neq; [reflexivity|]. intro E. subst. rewrite Hx in Hy. discriminate Hy.
Qed.

Lemma nodup_cons_fresh : forall (D : tenv) x t, lookup x D = None -> NoDup (map fst D) -> NoDup (map fst ((x, t) :: D)).
Proof.
  intros D x t Hx ND. cbn [map fst]. constructor; [|exact ND].
  intro HI. apply in_map_iff in HI as [[y ty] [E HI]]. cbn in E. subst.
  rewrite (in_lookup_nodup _ _ _ ND HI) in Hx. discriminate.
Qed.

Lemma ctx_wf_cons : forall D G x t, ctx_wf D G -> lookup x D = None ->
  (forall dims, t = TBuf dims -> forallb (ity D) dims = true) -> ctx_wf ((x, t) :: D) G.
Proof.
  intros D G x t W Hx Ht. pose proof (extends_cons D x t Hx) as HE. constructor.
  - apply nodup_cons_fresh; [exact Hx|apply (wf_nodup _ _ W)].
  - intros y dims Hy. destruct (Pos.eq_dec y x) as [->|Hn].
    + rewrite lookup_cons_eq in Hy. inversion Hy. subst. eapply forallb_ity_weaken; [exact HE|auto].
    + rewrite lookup_cons_neq in Hy by exact Hn. eapply forallb_ity_weaken; [exact HE|apply (wf_dims _ _ W _ _ Hy)].
  - intros h Hh. eapply bty_weaken; [exact HE|apply (wf_hyps _ _ W _ Hh)].
Qed.

Lemma ctx_wf_hyp : forall D G h, ctx_wf D G -> bty D h = true -> ctx_wf D (h :: G).
Proof.
  intros D G h W Hh. constructor; [apply (wf_nodup _ _ W)|apply (wf_dims _ _ W)|].
  intros h' [E|HI]; [subst; exact Hh|apply (wf_hyps _ _ W _ HI)].
Qed.

Lemma inv_bind : forall D G st x t b,
  ctx_wf D G -> inv D G st -> lookup x D = None ->
  binding_ok (bind_var x b st) t b -> inv ((x, t) :: D) G (bind_var x b st).
Proof.
  intros D G st x t b W I Hx Hb. pose proof (rho_bind_agree D x b st Hx) as HA. constructor.
  - intros y ty Hy. destruct (Pos.eq_dec y x) as [->|Hn].
    + rewrite lookup_cons_eq in Hy. inversion Hy. subst. exists b. split; [apply lookup_cons_eq|exact Hb].
    + rewrite lookup_cons_neq in Hy by exact Hn. destruct (inv_env _ _ _ I _ _ Hy) as [bd [L B]].
      exists bd. split; [unfold bind_var; cbn [s_env]; rewrite lookup_cons_neq by exact Hn; exact L|].
      destruct ty, bd as [[z|bb|d]|w]; cbn in *; auto. destruct B as [B1 B2]. split; [exact B1|].
      rewrite <- B2. apply (ity_ceval_list_ext D); [exact HA|apply (wf_dims _ _ W _ _ Hy)].
  - intros h Hh. unfold holds. rewrite (bty_ceval_ext D _ _ h HA (wf_hyps _ _ W _ Hh)). apply (inv_hyps _ _ _ I _ Hh).
  - exact (inv_fresh _ _ _ I).
Qed.

Lemma inv_hyp : forall D G st h, inv D G st -> holds (rho_of st) h -> inv D (h :: G) st.
Proof.
  intros D G st h I Hh. constructor; [apply (inv_env _ _ _ I)| |apply (inv_fresh _ _ _ I)].
  intros h' [E|HI]; [subst; exact Hh|apply (inv_hyps _ _ _ I _ HI)].
Qed.

Lemma inv_drop_hyps : forall D G G' st, inv D G st -> (forall h, In h G' -> In h G) -> inv D G' st.
Proof.
  intros D G G' st I HS. constructor; [apply (inv_env _ _ _ I)| |apply (inv_fresh _ _ _ I)].
  intros h Hh. apply (inv_hyps _ _ _ I _ (HS _ Hh)).
Qed.

(** looking up a buffer *)
Lemma buf_dims_view : forall D G st x dims, inv D G st -> buf_dims D x = Some dims ->
  exists w, get_view st x = Ok w /\ view_ok (s_heap st) w /\ ceval_list (rho_of st) dims = Some (map fst (vdims w)).
Proof.
  intros D G st x dims I H. unfold buf_dims in H. destruct (lookup x D) as [[| |d]|] eqn:E; try discriminate H.
  inversion H. subst. destruct (inv_env _ _ _ I _ _ E) as [b [L B]].
  destruct b as [v|w]; cbn in B; [destruct v; contradiction|]. exists w. unfold get_view. rewrite L. tauto.
Qed.

Lemma buf_dims_typed : forall D G x dims, ctx_wf D G -> buf_dims D x = Some dims -> forallb (ity D) dims = true.
Proof.
  intros D G x dims W H. unfold buf_dims in H. destruct (lookup x D) as [[| |d]|] eqn:E; try discriminate H.
  inversion H. subst. apply (wf_dims _ _ W _ _ E).
Qed.
