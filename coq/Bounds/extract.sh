#!/bin/bash
# builds the extracted C03 tool: coq/Bounds/_build/bounds  (VC generator + failure locator)
set -e
cd "$(dirname "$0")"
mkdir -p _build
cp driver.ml _build/
cd _build
ocamlfind ocamlopt -O2 -w -a bounds.mli bounds.ml driver.ml -o bounds 2>/dev/null || ocamlfind ocamlopt -w -a bounds.mli bounds.ml driver.ml -o bounds
