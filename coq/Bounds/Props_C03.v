(** * Property C03 — accepted procedures are memory-safe and call-safe: theorems about the VC generator.

    Fragment covered (Bounds.VCGen.typed p = true): statements Assign, Reduce, Pass, If, For (seq/par), Alloc,
    WindowS of a window expression, Call (callee embedded, checked under its own signature and assertions);
    index expressions + - * unary minus, / and % by positive literals; guards built from comparisons, and, or,
    ==, boolean variables; data expressions with reads, + - * /, relu, fmaxf, select.  Outside: configuration
    reads/writes, stride expressions, other externs.  Aliasing of call arguments is not an error of Core.Sem
    and is therefore not part of these statements (it is checked by the harness).

    "All VCs valid" is what z3 is asked in the harness; here it is a hypothesis. *)
From Coq Require Import ZArith List.
From Core Require Import Syntax Sem.
From Bounds Require Import VC VCGen ProofsMain.

(** If every verification condition of a well-typed procedure is valid then every run on an input that satisfies
    the signature and the assertions (run does not answer Invalid) terminates normally: no OOB, BadTrip,
    BadSize, AssertFail, ShapeMismatch (nor any other error) can occur, in the procedure or in its callees. *)
Theorem C03_vcgen_sound : forall p,
  typed p = true ->
  (forall vc, In vc (vcgen p) -> valid vc) ->
  forall inp, (forall e, run p inp <> Invalid e) ->
  exists bufs cfg, run p inp = Done bufs cfg.
Proof. exact vcgen_sound. Qed.
Print Assumptions C03_vcgen_sound.

(** The typing premise is implied by validity: outside the fragment [vcgen] returns an invalid VC. *)
Theorem C03_vcgen_sound_untyped : forall p,
  (forall vc, In vc (vcgen p) -> valid vc) ->
  forall inp, (forall e, run p inp <> Invalid e) ->
  exists bufs cfg, run p inp = Done bufs cfg.
Proof. exact vcgen_sound'. Qed.
Print Assumptions C03_vcgen_sound_untyped.

(** In the terms of the property: no input makes the body go wrong. *)
Theorem C03_no_runtime_error : forall p,
  typed p = true ->
  (forall vc, In vc (vcgen p) -> valid vc) ->
  forall inp e, run p inp <> Fails e.
Proof. exact vcgen_no_error. Qed.
Print Assumptions C03_no_runtime_error.

(** Non-vacuity: a procedure with a loop, an offset access, a window alias, an allocation and a call whose VCs
    are all valid, with a valid input (ProofsMain.vcgen_sound_nonvacuous). *)
Theorem C03_hypotheses_satisfiable :
  typed ex_foo = true /\ (forall vc, In vc (vcgen ex_foo) -> valid vc) /\
  (forall e, run ex_foo ex_input <> Invalid e) /\ exists bufs cfg, run ex_foo ex_input = Done bufs cfg.
Proof. exact vcgen_sound_nonvacuous. Qed.
Print Assumptions C03_hypotheses_satisfiable.

(** The generator is not trivially satisfied: an off-by-one access and a window beyond its source each yield an
    invalid VC, and both procedures do fail in the reference semantics. *)
Theorem C03_unsafe_has_invalid_vc :
  (exists vc, In vc (vcgen ex_bad) /\ ~ valid vc) /\ (exists vc, In vc (vcgen ex_window) /\ ~ valid vc).
Proof. exact (conj ex_bad_invalid_vc ex_window_invalid_vc). Qed.
Print Assumptions C03_unsafe_has_invalid_vc.

(** Witnesses of the findings of the search (programs the real front end accepts, as exported): an access
    beyond a window's own extent, a read inside an extern argument, a window alias passed by name whose callee
    writes past the buffer, (and [ex_window] above: a window beyond its source).  Each fails in the reference
    semantics on a valid input and each has an invalid VC, i.e. [vcgen] rejects what exo accepts. *)
Theorem C03_findings_witnesses :
  (run ex_own (mkInput (buf8 :: buf8 :: nil) nil) = Fails OOB /\
   run ex_extern (mkInput (buf8 :: buf8 :: nil) nil) = Fails OOB /\
   run ex_byname (mkInput (buf8 :: nil) nil) = Fails OOB) /\
  ((exists vc, In vc (vcgen ex_own) /\ ~ valid vc) /\
   (exists vc, In vc (vcgen ex_extern) /\ ~ valid vc) /\
   (exists vc, In vc (vcgen ex_byname) /\ ~ valid vc)).
Proof. exact (conj findings_fail findings_invalid_vcs). Qed.
Print Assumptions C03_findings_witnesses.
