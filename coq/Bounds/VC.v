(** * Verification conditions over LoopIR control expressions (property C03).

    A VC is a first-order sequent  vars ; hyps |- goal  whose formulas are LoopIR boolean expressions
    over integer / boolean variables (Core.Syntax.expr restricted to Var, Int, BoolC, USub, BinOp).
    [valid] quantifies over all valuations of the declared variables.  The SMT-LIB rendering of a VC
    (harness/c03_vc.py) declares one Int/Bool constant per variable, asserts the hypotheses and the
    negated goal; z3 answering `unsat` is the oracle for [valid] (never a proof).

    Executable Gallina only (model file). *)
From Coq Require Import ZArith List Bool.
From Core Require Import Syntax Sem.
Import ListNotations.
Local Open Scope Z_scope.

(** static types of variables: control values and buffers (with symbolic extents) *)
Inductive sty :=
| TInt                          (* size / index / stride *)
| TBool
| TBuf (dims : list expr).      (* tensor, window or scalar (dims = []) with symbolic extents *)

Definition tenv := list (sym * sty).

(** ** valuations and evaluation of control expressions *)
Definition valuation := sym -> value.

Fixpoint ceval (rho : valuation) (e : expr) : option value :=
  match e with
  | Var x => Some (rho x)
  | Int z => Some (VInt z)
  | BoolC b => Some (VBool b)
  | USub a => match ceval rho a with Some (VInt z) => Some (VInt (- z)) | _ => None end
  | BinOp op a b =>
      match ceval rho a, ceval rho b with
      | Some x, Some y => match eval_binop op x y with Ok v => Some v | Err _ => None end
      | _, _ => None
      end
  | _ => None
  end.

Fixpoint ceval_list (rho : valuation) (l : list expr) : option (list Z) :=
  match l with
  | [] => Some []
  | e :: r =>
      match ceval rho e, ceval_list rho r with
      | Some (VInt z), Some zs => Some (z :: zs)
      | _, _ => None
      end
  end.

(** ** verification conditions *)
Record vc := mkVC {
  vc_vars : list (sym * bool);     (* declared variables: (x, true) boolean, (x, false) integer *)
  vc_hyps : list expr;
  vc_goal : expr
}.

Definition respects (rho : valuation) (vars : list (sym * bool)) : Prop :=
  forall x b, In (x, b) vars ->
    if b then exists v, rho x = VBool v else exists z, rho x = VInt z.

Definition holds (rho : valuation) (e : expr) : Prop := ceval rho e = Some (VBool true).

Definition valid (c : vc) : Prop :=
  forall rho, respects rho (vc_vars c) ->
    (forall h, In h (vc_hyps c) -> holds rho h) -> holds rho (vc_goal c).

(** the VC that is never valid: marks programs outside the supported fragment *)
Definition vc_false : vc := mkVC [] [] (BoolC false).

(** ** formula builders *)
Definition e_le (a b : expr) := BinOp OLe a b.
Definition e_lt (a b : expr) := BinOp OLt a b.
Definition e_eq (a b : expr) := BinOp OEq a b.
Definition e_and (a b : expr) := BinOp OAnd a b.
Definition e_not (c : expr) := BinOp OEq c (BoolC false).
Definition in_bounds (e d : expr) : expr := e_and (e_le (Int 0) e) (e_lt e d).
Definition in_interval (lo hi d : expr) : expr := e_and (e_le (Int 0) lo) (e_and (e_le lo hi) (e_le hi d)).

(** ** static typing of the three expression classes *)
Definition is_int (t : option sty) : bool := match t with Some TInt => true | _ => false end.
Definition is_bool (t : option sty) : bool := match t with Some TBool => true | _ => false end.

(** integer (index / size) expressions: + - * unary minus, / and % by a positive literal *)
Fixpoint ity (D : tenv) (e : expr) : bool :=
  match e with
  | Var x => is_int (lookup x D)
  | Int _ => true
  | USub a => ity D a
  | BinOp OAdd a b | BinOp OSub a b | BinOp OMul a b => ity D a && ity D b
  | BinOp ODiv a (Int c) | BinOp OMod a (Int c) => ity D a && (0 <? c)
  | _ => false
  end.

(** boolean expressions: comparisons of integer expressions, and/or, boolean variables and constants *)
Fixpoint bty (D : tenv) (e : expr) : bool :=
  match e with
  | Var x => is_bool (lookup x D)
  | BoolC _ => true
  | BinOp OLt a b | BinOp OGt a b | BinOp OLe a b | BinOp OGe a b => ity D a && ity D b
  | BinOp OEq a b => (ity D a && ity D b) || (bty D a && bty D b)
  | BinOp OAnd a b | BinOp OOr a b => bty D a && bty D b
  | _ => false
  end.

Definition buf_dims (D : tenv) (x : sym) : option (list expr) :=
  match lookup x D with Some (TBuf dims) => Some dims | _ => None end.

(** data expressions: constants, reads with integer indices of the right arity, arithmetic, the
    externs Core.Sem interprets *)
Fixpoint dty (D : tenv) (e : expr) {struct e} : bool :=
  match e with
  | Real _ => true
  | Read x idx =>
      match buf_dims D x with
      | Some dims => Nat.eqb (length idx) (length dims) && forallb (ity D) idx
      | None => false
      end
  | USub a => dty D a
  | BinOp OAdd a b | BinOp OSub a b | BinOp OMul a b | BinOp ODiv a b => dty D a && dty D b
  | Extern XRelu [a] => dty D a
  | Extern XFmaxf [a; b] => dty D a && dty D b
  | Extern XSelect [a; b; c; d] => dty D a && dty D b && dty D c && dty D d
  | _ => false
  end.

(** the control variables of a typing context, as VC declarations *)
Fixpoint ctl_vars (D : tenv) : list (sym * bool) :=
  match D with
  | [] => []
  | (x, TInt) :: r => (x, false) :: ctl_vars r
  | (x, TBool) :: r => (x, true) :: ctl_vars r
  | (_, TBuf _) :: r => ctl_vars r
  end.
