(** * Signatures: binding the formal parameters establishes the invariant (property C03) *)
From Coq Require Import ZArith List Bool Lia.
From Core Require Import Syntax Sem Equiv.
From Bounds Require Import VC VCGen ProofsBase ProofsMem ProofsInv ProofsExpr ProofsStmt.
Import ListNotations.
Local Open Scope Z_scope.

Definition act_view_ok (h : heap) (b : binding) : Prop :=
  match b with BView w => view_ok h w | BVal _ => True end.

Lemma ctx_wf_sub : forall D G G', ctx_wf D G -> (forall h, In h G' -> In h G) -> ctx_wf D G'.
Proof.
  intros D G G' W HS. constructor; [apply (wf_nodup _ _ W)|apply (wf_dims _ _ W)|].
  intros h Hh. apply (wf_hyps _ _ W _ (HS _ Hh)).
Qed.

Lemma in_mid : forall {A} (a : A) l1 l2 x, In x ((a :: l1) ++ l2) <-> In x (l1 ++ a :: l2).
Proof.
  intros. cbn [app In]. rewrite !in_app_iff. cbn [In]. tauto.
Qed.

Lemma size_hyp_typed : forall D x, lookup x D = Some TInt -> bty D (e_lt (Int 0) (Var x)) = true.
Proof. intros D x H. unfold e_lt. cbn [bty ity]. rewrite H. reflexivity. Qed.

Lemma size_hyp_holds : forall rho x z, rho x = VInt z -> 0 < z -> holds rho (e_lt (Int 0) (Var x)).
Proof.
  intros rho x z H Hz. unfold holds, e_lt. cbn [ceval]. rewrite H. cbn [eval_binop].
  replace (0 <? z) with true by (symmetry; apply Z.ltb_lt; exact Hz). reflexivity.
Qed.

Lemma rho_bind_self : forall x v st, rho_of (bind_var x (BVal v) st) x = v.
Proof. intros. unfold rho_of, rho_of_env, bind_var. cbn [s_env]. rewrite lookup_cons_eq. reflexivity. Qed.

(** ** [bind_args]: success implies the invariant of the callee / of the run *)
Lemma bind_args_inv : forall fs acts Dk Gk c c' Dfin,
  formals_ctx fs Dk = Some Dfin -> ctx_wf Dk Gk -> inv Dk Gk c ->
  Forall (act_view_ok (s_heap c)) acts ->
  bind_args fs acts c = Ok c' ->
  inv Dfin (size_hyps fs ++ Gk) c' /\ ctx_wf Dfin (size_hyps fs ++ Gk) /\
  s_heap c' = s_heap c /\ s_next c' = s_next c /\ s_cfg c' = s_cfg c.
Proof.
  induction fs as [|[x k] r IH]; intros acts Dk Gk c c' Dfin HF W I HA HB.
  - destruct acts; [|discriminate HB]. cbn in HF, HB. inversion HF. inversion HB. subst. cbn [size_hyps app]. auto.
  - destruct acts as [|a ar]; [destruct k; discriminate HB|].
    inversion HA as [|? ? Ha Har]. subst.
    cbn [formals_ctx] in HF. destruct (fresh Dk x) eqn:Hfr; [|discriminate HF]. apply fresh_lookup in Hfr.
    assert (Hstep : forall t (G' : list expr),
              (forall dims, t = TBuf dims -> forallb (ity Dk) dims = true) ->
              binding_ok (bind_var x a c) t a ->
              (forall h, In h G' -> h = e_lt (Int 0) (Var x) /\ t = TInt /\ exists z, a = BVal (VInt z) /\ 0 < z) ->
              formals_ctx r ((x, t) :: Dk) = Some Dfin ->
              bind_args r ar (bind_var x a c) = Ok c' ->
              inv Dfin (size_hyps r ++ G' ++ Gk) c' /\ ctx_wf Dfin (size_hyps r ++ G' ++ Gk) /\
              s_heap c' = s_heap c /\ s_next c' = s_next c /\ s_cfg c' = s_cfg c).
    { intros t G' Ht Hb HG' HF' HB'.
      assert (W1 : ctx_wf ((x, t) :: Dk) (G' ++ Gk)).
      { pose proof (ctx_wf_cons _ _ x t W Hfr Ht) as W0. constructor; [apply (wf_nodup _ _ W0)|apply (wf_dims _ _ W0)|].
        intros h Hh. apply in_app_or in Hh as [Hh|Hh]; [|apply (wf_hyps _ _ W0 _ Hh)].
        destruct (HG' _ Hh) as [-> [-> _]]. apply size_hyp_typed. apply lookup_cons_eq. }
      assert (I1 : inv ((x, t) :: Dk) (G' ++ Gk) (bind_var x a c)).
      { pose proof (inv_bind _ _ _ x t a W I Hfr Hb) as I0. constructor; [apply (inv_env _ _ _ I0)| |apply (inv_fresh _ _ _ I0)].
        intros h Hh. apply in_app_or in Hh as [Hh|Hh]; [|apply (inv_hyps _ _ _ I0 _ Hh)].
        destruct (HG' _ Hh) as [-> [_ [z [-> Hz]]]]. eapply size_hyp_holds; [apply rho_bind_self|exact Hz]. }
      destruct (IH ar _ _ _ _ _ HF' W1 I1 Har HB') as [I2 [W2 [E1 [E2 E3]]]]. auto. }
    destruct k; destruct a as [[z|b|d]|w]; cbn [bind_args] in HB; try discriminate HB.
    + (* KSize *)
      destruct (0 <? z) eqn:Hz; [|discriminate HB]. apply Z.ltb_lt in Hz.
      destruct (Hstep TInt [e_lt (Int 0) (Var x)]) as [I2 [W2 E]]; [discriminate|exact Logic.I| |exact HF|exact HB|].
      { intros h [<-|[]]. split; [reflexivity|]. split; [reflexivity|]. exists z. auto. }
      split; [|split; [|exact E]].
      * eapply inv_drop_hyps; [exact I2|]. intros h Hh. cbn [size_hyps] in Hh. apply in_mid. exact Hh.
      * eapply ctx_wf_sub; [exact W2|]. intros h Hh. cbn [size_hyps] in Hh. apply in_mid. exact Hh.
    + (* KIndex *)
      destruct (Hstep TInt []) as [I2 [W2 E]]; [discriminate|exact Logic.I|intros h []|exact HF|exact HB|]. cbn [size_hyps]. auto.
    + (* KBool *)
      destruct (Hstep TBool []) as [I2 [W2 E]]; [discriminate|exact Logic.I|intros h []|exact HF|exact HB|]. cbn [size_hyps]. auto.
    + (* KStride *)
      destruct (Hstep TInt []) as [I2 [W2 E]]; [discriminate|exact Logic.I|intros h []|exact HF|exact HB|]. cbn [size_hyps]. auto.
    + (* KScalar *)
      destruct (vdims w) eqn:Ev; [|discriminate HB].
      destruct (Hstep (TBuf []) []) as [I2 [W2 E]]; [intros d E; inversion E; reflexivity| |intros h []|exact HF|exact HB|].
      { cbn [binding_ok]. split; [exact Ha|]. rewrite Ev. reflexivity. }
      cbn [size_hyps]. auto.
    + (* KTensor *)
      destruct (forallb (ity Dk) shape) eqn:Hsh; [|discriminate HF].
      destruct (eval_ints c shape) as [sh|] eqn:Es; cbn [bind] in HB; [|discriminate HB].
      destruct (all_pos sh) eqn:Hp; [|discriminate HB].
      destruct (list_eq_dec Z.eq_dec sh (map fst (vdims w))) as [Heq|]; [|discriminate HB].
      destruct (ity_eval_list _ _ _ (env_ok_ctl _ _ (inv_env _ _ _ I)) Hsh) as [zs [Z1 [Z2 _]]].
      rewrite Z1 in Es. inversion Es. subst zs.
      destruct (Hstep (TBuf shape) []) as [I2 [W2 E]]; [intros d E; inversion E; subst; exact Hsh| |intros h []|exact HF|exact HB|].
      { cbn [binding_ok]. split; [exact Ha|]. rewrite <- Heq, <- Z2.
        apply (ity_ceval_list_ext Dk); [apply rho_bind_agree; exact Hfr|exact Hsh]. }
      cbn [size_hyps]. auto.
Qed.

(** ** the assertions of a procedure hold after [check_preds] *)
Lemma check_preds_holds : forall D st preds, ctl_ok D st -> forallb (bty D) preds = true ->
  check_preds st preds = Ok tt -> forall p, In p preds -> holds (rho_of st) p.
Proof.
  intros D st preds HC. induction preds as [|q r IH]; cbn [forallb check_preds]; intros HT HP p Hp; [contradiction|].
  apply andb_true_iff in HT as [Hq Hr]. destruct (bty_eval _ _ _ HC Hq) as [b [E1 E2]].
  rewrite E1 in HP. cbn [bind as_bool] in HP. destruct b; [|discriminate HP].
  destruct Hp as [<-|Hp]; [exact E2|apply IH; assumption].
Qed.

Lemma check_preds_ok : forall D st preds, ctl_ok D st -> forallb (bty D) preds = true ->
  (forall p, In p preds -> holds (rho_of st) p) -> check_preds st preds = Ok tt.
Proof.
  intros D st preds HC. induction preds as [|q r IH]; cbn [forallb check_preds]; intros HT HP; [reflexivity|].
  apply andb_true_iff in HT as [Hq Hr]. destruct (bty_eval _ _ _ HC Hq) as [b [E1 E2]].
  rewrite E1. cbn [bind as_bool]. pose proof (HP q (or_introl eq_refl)) as Hh. unfold holds in Hh. rewrite E2 in Hh.
  inversion Hh. subst. apply IH; [exact Hr|]. intros p Hp. apply HP. right. exact Hp.
Qed.

Lemma inv_add_hyps : forall D G G' st, inv D G st -> (forall h, In h G' -> holds (rho_of st) h) -> inv D (G ++ G') st.
Proof.
  intros D G G' st I H. constructor; [apply (inv_env _ _ _ I)| |apply (inv_fresh _ _ _ I)].
  intros h Hh. apply in_app_or in Hh as [Hh|Hh]; [apply (inv_hyps _ _ _ I _ Hh)|apply H, Hh].
Qed.

Lemma ctx_wf_add_hyps : forall D G G', ctx_wf D G -> forallb (bty D) G' = true -> ctx_wf D (G ++ G').
Proof.
  intros D G G' W H. constructor; [apply (wf_nodup _ _ W)|apply (wf_dims _ _ W)|].
  intros h Hh. apply in_app_or in Hh as [Hh|Hh]; [apply (wf_hyps _ _ W _ Hh)|].
  rewrite forallb_forall in H. apply H, Hh.
Qed.

(** ** argument buffers of a run *)
Lemma load_inputs_ok : forall ins st bs st',
  load_inputs ins st = (bs, st') -> forallb inbuf_ok ins = true -> heap_fresh (s_heap st) (s_next st) ->
  heap_fresh (s_heap st') (s_next st') /\ heap_le (s_heap st) (s_heap st') /\
  Forall (act_view_ok (s_heap st')) bs /\ s_env st' = s_env st.
Proof.
  induction ins as [|a r IH]; intros st bs st' HL HO HF; cbn [load_inputs] in HL.
  - inversion HL. subst. split; [exact HF|]. split; [apply heap_le_refl|]. split; [constructor|reflexivity].
  - cbn [forallb] in HO. apply andb_true_iff in HO as [Ha Hr]. destruct a as [v|off dims cells].
    + destruct (load_inputs r st) as [bs0 st0] eqn:E. inversion HL. subst.
      destruct (IH _ _ _ E Hr HF) as [F1 [L1 [A1 E1]]]. split; [exact F1|]. split; [exact L1|]. split; [|exact E1].
      constructor; [exact Logic.I|exact A1].
    + set (loc := s_next st) in *.
      set (st1 := mkState (s_env st) ((loc, cells) :: s_heap st) (Pos.succ loc) (s_cfg st)) in *.
      destruct (load_inputs r st1) as [bs0 st0] eqn:E. inversion HL. subst bs st'. clear HL.
      assert (HF1 : heap_fresh (s_heap st1) (s_next st1)).
      { intros l c Hc. cbn [st1 s_heap s_next] in *. destruct (Pos.eq_dec l loc) as [->|Hn]; [lia|].
        rewrite lookup_cons_neq in Hc by exact Hn. pose proof (HF _ _ Hc). unfold loc. lia. }
      assert (HL1 : heap_le (s_heap st) (s_heap st1)).
      { intros l c Hc. exists c. split; [|reflexivity]. cbn [st1 s_heap]. rewrite lookup_cons_neq; [exact Hc|].
        pose proof (HF _ _ Hc). unfold loc. lia. }
      destruct (IH _ _ _ E Hr HF1) as [F2 [L2 [A2 E2]]].
      split; [exact F2|]. split; [eapply heap_le_trans; eassumption|]. split; [|rewrite E2; reflexivity].
      constructor; [|exact A2]. cbn [act_view_ok]. eapply view_ok_mono; [exact L2|].
      eapply inbuf_view_ok; [exact Ha|]. cbn [st1 s_heap]. apply lookup_cons_eq.
Qed.
