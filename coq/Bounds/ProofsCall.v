(** * Calls: valid call-site VCs make argument evaluation, parameter binding and the callee's assertions
    succeed, and establish the callee's invariant (property C03) *)
From Coq Require Import ZArith List Bool Lia.
From Core Require Import Syntax Sem Equiv.
From Bounds Require Import VC VCGen ProofsBase ProofsMem ProofsInv ProofsExpr ProofsStmt ProofsProc.
Import ListNotations.
Local Open Scope Z_scope.

(** ** per-argument facts *)
Definition act_ok (D : tenv) (G : list expr) (st : state) (k : argkind) (a : expr) (b : binding) : Prop :=
  match k with
  | KSize => exists z, b = BVal (VInt z) /\ ity D a = true /\ ceval (rho_of st) a = Some (VInt z) /\ 0 < z
  | KIndex | KStride => exists z, b = BVal (VInt z) /\ ity D a = true /\ ceval (rho_of st) a = Some (VInt z)
  | KBool => exists v, b = BVal (VBool v) /\ bty D a = true /\ ceval (rho_of st) a = Some (VBool v)
  | KScalar => exists w, b = BView w /\ view_ok (s_heap st) w /\ vdims w = []
  | KTensor sh _ =>
      exists w dims v, b = BView w /\ view_ok (s_heap st) w /\ arg_dims D G a = Some (dims, v) /\
        forallb (ity D) dims = true /\ ceval_list (rho_of st) dims = Some (map fst (vdims w)) /\
        all_pos (map fst (vdims w)) = true
  end.

Inductive acts_rel (P : sym -> argkind -> expr -> binding -> Prop)
  : list (sym * argkind) -> list expr -> list binding -> Prop :=
| AR_nil : acts_rel P [] [] []
| AR_cons : forall x k fr a ar b br,
    P x k a b -> acts_rel P fr ar br -> acts_rel P ((x, k) :: fr) (a :: ar) (b :: br).

Lemma acts_rel_mono : forall (P Q : sym -> argkind -> expr -> binding -> Prop) fs args acts,
  (forall x k a b, In x (map fst fs) -> P x k a b -> Q x k a b) -> acts_rel P fs args acts -> acts_rel Q fs args acts.
Proof.
  intros P Q fs args acts H R. induction R; constructor.
  - apply H; [left; reflexivity|assumption].
  - apply IHR. intros y k' a' b' Hy. apply H. right. exact Hy.
Qed.

Lemma acts_rel_in : forall P fs args acts x k, acts_rel P fs args acts -> In (x, k) fs -> exists a b, P x k a b.
Proof.
  intros P fs args acts x k R. induction R; intro HI; [contradiction|].
  destruct HI as [E|HI]; [inversion E; subst; eauto|auto].
Qed.

(** tensor-valued arguments *)
Lemma arg_dims_view : forall D G st a dims v,
  ctx_wf D G -> inv D G st -> arg_dims D G a = Some (dims, v) -> (forall vc, In vc v -> valid vc) ->
  exists w, eval_view st a = Ok w /\ view_ok (s_heap st) w /\
            ceval_list (rho_of st) dims = Some (map fst (vdims w)) /\ forallb (ity D) dims = true.
Proof.
  intros D G st a dims v W I HA HV. destruct a; cbn [arg_dims] in HA; try discriminate HA.
  - destruct idx; [|discriminate HA]. destruct (buf_dims D x) as [d|] eqn:Eb; [|discriminate HA]. inversion HA. subst.
    destruct (buf_dims_view _ _ _ _ _ I Eb) as [w [Hw [Hok Hd]]]. exists w. cbn [eval_view].
    split; [exact Hw|]. split; [exact Hok|]. split; [exact Hd|eapply buf_dims_typed; eassumption].
  - destruct (buf_dims D x) as [d|] eqn:Eb; [|discriminate HA].
    destruct (Nat.eqb (length acc) (length d) && wacc_ty D acc) eqn:Ec; [|discriminate HA]. inversion HA. subst.
    apply andb_true_iff in Ec as [HL HT].
    destruct (window_view _ _ _ _ _ _ W I Eb HL HT HV) as [w [Ew [Hok Hd]]]. exists w.
    split; [exact Ew|]. split; [exact Hok|]. split; [exact Hd|apply window_dims_typed; exact HT].
Qed.

Lemma eval_actuals_ok : forall D G DC E st, ctx_wf D G -> inv D G st ->
  forall fs args vs,
    call_vcs D G DC E fs args = Some vs -> (forall vc, In vc vs -> valid vc) ->
    exists acts, eval_actuals st fs args = Ok acts /\ acts_rel (fun _ => act_ok D G st) fs args acts.
Proof.
  intros D G DC E st W I. pose proof (env_ok_ctl _ _ (inv_env _ _ _ I)) as HC. pose proof (inv_sat _ _ _ W I) as HS.
  induction fs as [|[x k] fr IH]; intros args vs HV Hval; destruct args as [|a ar]; cbn [call_vcs] in HV; try discriminate HV.
  - exists []. split; [reflexivity|constructor].
  - destruct (call_vcs D G DC E fr ar) as [rest|] eqn:Er; [|discriminate HV].
    assert (Hrest : forall vs', (forall vc, In vc vs' -> valid vc) -> (forall vc, In vc rest -> In vc vs') ->
              exists acts, eval_actuals st fr ar = Ok acts /\ acts_rel (fun _ => act_ok D G st) fr ar acts).
    { intros vs' Hv' Hsub. apply (IH ar rest Er). intros vc Hvc. apply Hv', Hsub, Hvc. }
    destruct k; cbn [eval_actuals eval_actual].
    + (* KSize *)
      destruct (ity D a) eqn:Ha; [|discriminate HV]. inversion HV. subst vs. clear HV.
      destruct (Hrest _ Hval) as [acts [E1 R1]]; [intros vc Hvc; right; exact Hvc|].
      destruct (ity_eval _ _ _ HC Ha) as [z [Z1 Z2]].
      exists (BVal (VInt z) :: acts). rewrite Z1. cbn [bind]. rewrite E1. cbn [bind]. split; [reflexivity|].
      constructor; [|exact R1]. exists z. split; [reflexivity|]. split; [exact Ha|]. split; [exact Z2|].
      eapply (holds_lt (rho_of st) (Int 0) a); [reflexivity|exact Z2|].
      eapply mk_valid_holds; [|exact HS]. apply Hval. left. reflexivity.
    + (* KIndex *)
      destruct (ity D a) eqn:Ha; [|discriminate HV]. inversion HV. subst vs. clear HV.
      destruct (Hrest _ Hval) as [acts [E1 R1]]; [auto|].
      destruct (ity_eval _ _ _ HC Ha) as [z [Z1 Z2]].
      exists (BVal (VInt z) :: acts). rewrite Z1. cbn [bind]. rewrite E1. cbn [bind]. split; [reflexivity|].
      constructor; [|exact R1]. exists z. auto.
    + (* KBool *)
      destruct (bty D a) eqn:Ha; [|discriminate HV]. inversion HV. subst vs. clear HV.
      destruct (Hrest _ Hval) as [acts [E1 R1]]; [auto|].
      destruct (bty_eval _ _ _ HC Ha) as [z [Z1 Z2]].
      exists (BVal (VBool z) :: acts). rewrite Z1. cbn [bind]. rewrite E1. cbn [bind]. split; [reflexivity|].
      constructor; [|exact R1]. exists z. auto.
    + (* KStride *)
      destruct (ity D a) eqn:Ha; [|discriminate HV]. inversion HV. subst vs. clear HV.
      destruct (Hrest _ Hval) as [acts [E1 R1]]; [auto|].
      destruct (ity_eval _ _ _ HC Ha) as [z [Z1 Z2]].
      exists (BVal (VInt z) :: acts). rewrite Z1. cbn [bind]. rewrite E1. cbn [bind]. split; [reflexivity|].
      constructor; [|exact R1]. exists z. auto.
    + (* KScalar *)
      destruct (arg_dims D G a) as [[dims v]|] eqn:Ea; [|discriminate HV].
      destruct dims; [|discriminate HV]. inversion HV. subst vs. clear HV.
      destruct (Hrest _ Hval) as [acts [E1 R1]]; [intros vc Hvc; apply in_or_app; right; exact Hvc|].
      destruct (arg_dims_view _ _ _ _ _ _ W I Ea) as [w [Ew [Hok [Hd _]]]];
        [intros vc Hvc; apply Hval, in_or_app; left; exact Hvc|].
      exists (BView w :: acts). rewrite Ew. cbn [bind]. rewrite E1. cbn [bind]. split; [reflexivity|].
      constructor; [|exact R1]. exists w. split; [reflexivity|]. split; [exact Hok|].
      cbn [ceval_list] in Hd. inversion Hd as [Hm]. destruct (vdims w); [reflexivity|discriminate Hm].
    + (* KTensor *)
      destruct (arg_dims D G a) as [[dims v]|] eqn:Ea; [|discriminate HV].
      destruct (Nat.eqb (length shape) (length dims)) eqn:HL; [|discriminate HV]. inversion HV. subst vs. clear HV.
      destruct (Hrest _ Hval) as [acts [E1 R1]]; [intros vc Hvc; apply in_or_app; right; apply in_or_app; right; apply in_or_app; right; exact Hvc|].
      destruct (arg_dims_view _ _ _ _ _ _ W I Ea) as [w [Ew [Hok [Hd Hty]]]];
        [intros vc Hvc; apply Hval, in_or_app; left; exact Hvc|].
      exists (BView w :: acts). rewrite Ew. cbn [bind]. rewrite E1. cbn [bind]. split; [reflexivity|].
      constructor; [|exact R1]. exists w, dims, v. split; [reflexivity|]. split; [exact Hok|]. split; [exact Ea|].
      split; [exact Hty|]. split; [exact Hd|].
      eapply pos_vcs_all_pos; [exact HS| |exact Hd].
      intros vc Hvc. apply Hval, in_or_app. right. apply in_or_app. left. exact Hvc.
Qed.

(** ** the combined valuation: control parameters take the values of their arguments *)
Fixpoint rho_star (rho : valuation) (fs : list (sym * argkind)) (acts : list binding) : valuation :=
  match fs, acts with
  | (x, _) :: fr, BVal v :: br => fun y => if Pos.eqb y x then v else rho_star rho fr br y
  | _ :: fr, _ :: br => rho_star rho fr br
  | _, _ => rho
  end.

Lemma rho_star_other : forall rho fs acts y, ~ In y (map fst fs) -> rho_star rho fs acts y = rho y.
Proof.
  intros rho fs. induction fs as [|[x k] fr IH]; intros acts y Hy; [reflexivity|].
  cbn [map fst In] in Hy. destruct acts as [|[v|w] br]; cbn [rho_star]; [reflexivity| |].
  - destruct (Pos.eqb y x) eqn:E; [apply Pos.eqb_eq in E; subst; tauto|]. apply IH. tauto.
  - apply IH. tauto.
Qed.

Lemma rho_star_ctl : forall rho P fs args acts, NoDup (map fst fs) -> acts_rel P fs args acts ->
  acts_rel (fun x k a b => P x k a b /\ forall v, b = BVal v -> rho_star rho fs acts x = v) fs args acts.
Proof.
  intros rho P fs args acts ND R. induction R; [constructor|].
  cbn [map fst] in ND. inversion ND as [|? ? Hn ND']. subst. constructor.
  - split; [assumption|]. intros v ->. cbn [rho_star]. rewrite Pos.eqb_refl. reflexivity.
  - eapply acts_rel_mono; [|apply IHR; exact ND'].
    intros y k' a' b' Hy [HP Hv]. split; [exact HP|]. intros v ->. destruct b as [v0|w0]; cbn [rho_star].
    + destruct (Pos.eqb y x) eqn:E; [apply Pos.eqb_eq in E; subst; contradiction|]. apply Hv. reflexivity.
    + apply Hv. reflexivity.
Qed.

(** ** facts about signatures *)
Lemma formals_ctx_fresh : forall fs Dk Dfin, formals_ctx fs Dk = Some Dfin ->
  NoDup (map fst fs) /\ forall x, In x (map fst fs) -> lookup x Dk = None.
Proof.
  induction fs as [|[x k] r IH]; intros Dk Dfin H; cbn [map fst]; [split; [constructor|intros x []]|].
  cbn [formals_ctx] in H. destruct (fresh Dk x) eqn:Hf; [|discriminate H]. apply fresh_lookup in Hf.
  assert (Hr : exists t, formals_ctx r ((x, t) :: Dk) = Some Dfin).
  { destruct k; eauto. destruct (forallb (ity Dk) shape); [eauto|discriminate H]. }
  destruct Hr as [t Hr]. destruct (IH _ _ Hr) as [ND HF]. split.
  - constructor; [|exact ND]. intro HI. specialize (HF _ HI). rewrite lookup_cons_eq in HF. discriminate HF.
  - intros y [<-|Hy]; [exact Hf|]. specialize (HF _ Hy).
    destruct (Pos.eq_dec y x) as [->|Hn]; [rewrite lookup_cons_eq in HF; discriminate HF|].
    rewrite lookup_cons_neq in HF by exact Hn. exact HF.
Qed.

Definition kind_ctl (k : argkind) (b : bool) : Prop :=
  match k with
  | KSize | KIndex | KStride => b = false
  | KBool => b = true
  | _ => False
  end.

Lemma formals_ctx_ctl : forall fs Dk Dfin x b, formals_ctx fs Dk = Some Dfin ->
  In (x, b) (ctl_vars Dfin) -> In (x, b) (ctl_vars Dk) \/ exists k, In (x, k) fs /\ kind_ctl k b.
Proof.
  induction fs as [|[y k] r IH]; intros Dk Dfin x b H HI; cbn [formals_ctx] in H.
  - inversion H. subst. left. exact HI.
  - destruct (fresh Dk y); [|discriminate H].
    assert (Hr : exists t, formals_ctx r ((y, t) :: Dk) = Some Dfin /\
                           (In (x, b) (ctl_vars ((y, t) :: Dk)) -> In (x, b) (ctl_vars Dk) \/ (x = y /\ kind_ctl k b))).
    { destruct k; try (eexists; split; [exact H|]; cbn [ctl_vars In]; intros [E|E]; [inversion E; subst; right; split; reflexivity|left; exact E]).
      - eexists. split; [exact H|]. cbn [ctl_vars]. auto.
      - destruct (forallb (ity Dk) shape); [|discriminate H]. eexists. split; [exact H|]. cbn [ctl_vars]. auto. }
    destruct Hr as [t [Hr Hhead]]. destruct (IH _ _ _ _ Hr HI) as [Hc|[k' [Hk1 Hk2]]].
    + destruct (Hhead Hc) as [Hd|[-> Hk]]; [left; exact Hd|right]. exists k. split; [left; reflexivity|exact Hk].
    + right. exists k'. split; [right; exact Hk1|exact Hk2].
Qed.

Lemma ctl_vars_app : forall A B, ctl_vars (A ++ B) = ctl_vars A ++ ctl_vars B.
Proof.
  induction A as [|[x t] r IH]; intro B; cbn [app ctl_vars]; [reflexivity|].
  destruct t; cbn [app]; rewrite IH; reflexivity.
Qed.

(** ** the combined valuation satisfies the hypotheses of the call-site VCs *)
Lemma call_eqs_hold : forall D G st rs fs args acts,
  agree_on D rs (rho_of st) ->
  acts_rel (fun x k a b => act_ok D G st k a b /\ forall v, b = BVal v -> rs x = v) fs args acts ->
  forall h, In h (call_eqs fs args) -> holds rs h.
Proof.
  intros D G st rs fs args acts HA R. induction R; intros h Hh; cbn [call_eqs] in Hh; [contradiction|].
  destruct H as [HK Hv].
  assert (Hint : forall z, b = BVal (VInt z) -> ity D a = true -> ceval (rho_of st) a = Some (VInt z) -> holds rs (e_eq (Var x) a)).
  { intros z -> Ht Hc. unfold holds, e_eq. cbn [ceval]. rewrite (Hv _ eq_refl), (ity_ceval_ext D _ _ a HA Ht), Hc.
    cbn [eval_binop]. rewrite Z.eqb_refl. reflexivity. }
  destruct k; cbn [act_ok] in HK.
  - destruct HK as [z [Hb [Ht [Hc _]]]]. destruct Hh as [<-|Hh]; [eapply Hint; eassumption|auto].
  - destruct HK as [z [Hb [Ht Hc]]]. destruct Hh as [<-|Hh]; [eapply Hint; eassumption|auto].
  - destruct HK as [z [-> [Ht Hc]]]. destruct Hh as [<-|Hh]; [|auto].
    unfold holds, e_eq. cbn [ceval]. rewrite (Hv _ eq_refl), (bty_ceval_ext D _ _ a HA Ht), Hc.
    cbn [eval_binop]. rewrite eqb_reflx. reflexivity.
  - destruct HK as [z [Hb [Ht Hc]]]. destruct Hh as [<-|Hh]; [eapply Hint; eassumption|auto].
  - auto.
  - auto.
Qed.

Lemma rho_star_sat : forall D G DC st fs args acts,
  ctx_wf D G -> inv D G st -> formals_ctx fs [] = Some DC -> formals_fresh D fs = true ->
  acts_rel (fun _ => act_ok D G st) fs args acts ->
  let rs := rho_star (rho_of st) fs acts in
  agree_on D rs (rho_of st) /\
  acts_rel (fun x k a b => act_ok D G st k a b /\ forall v, b = BVal v -> rs x = v) fs args acts /\
  sat (DC ++ D) (call_eqs fs args ++ G) rs.
Proof.
  intros D G DC st fs args acts W I HF Hfr R rs.
  destruct (formals_ctx_fresh _ _ _ HF) as [ND _].
  assert (Hnot : forall x, lookup x D <> None -> ~ In x (map fst fs)).
  { intros x Hx HI. apply in_map_iff in HI as [[y k] [E HI]]. cbn in E. subst y.
    unfold formals_fresh in Hfr. rewrite forallb_forall in Hfr. specialize (Hfr _ HI). cbn in Hfr.
    apply fresh_lookup in Hfr. contradiction. }
  assert (HA : agree_on D rs (rho_of st)).
  { intros x Hx. apply rho_star_other. apply Hnot. destruct (lookup x D); [discriminate|discriminate Hx]. }
  pose proof (rho_star_ctl (rho_of st) _ _ _ _ ND R) as R2. cbv beta in R2. fold rs in R2.
  split; [exact HA|]. split; [exact R2|]. split.
  - intros x b HI. rewrite ctl_vars_app in HI. apply in_app_or in HI as [HI|HI].
    + destruct (formals_ctx_ctl _ _ _ _ _ HF HI) as [[]|[k [Hk1 Hk2]]].
      destruct (acts_rel_in _ _ _ _ _ _ R2 Hk1) as [a [bd [HK Hv]]].
      destruct k; cbn [kind_ctl] in Hk2; try contradiction; subst b; cbn [act_ok] in HK.
      * destruct HK as [z [-> _]]. exists z. apply Hv. reflexivity.
      * destruct HK as [z [-> _]]. exists z. apply Hv. reflexivity.
      * destruct HK as [z [-> _]]. exists z. apply Hv. reflexivity.
      * destruct HK as [z [-> _]]. exists z. apply Hv. reflexivity.
    + pose proof (ctl_vars_in _ _ _ HI) as HI'. apply (in_lookup_nodup _ _ _ (wf_nodup _ _ W)) in HI'.
      unfold rs. rewrite (rho_star_other (rho_of st) fs acts x); [|apply Hnot; rewrite HI'; discriminate].
      destruct (inv_sat _ _ _ W I) as [Hresp _]. apply (Hresp _ _ HI).
  - intros h Hh. apply in_app_or in Hh as [Hh|Hh].
    + apply (call_eqs_hold D G st rs fs args acts HA R2 h Hh).
    + unfold holds. rewrite (bty_ceval_ext D _ _ h HA (wf_hyps _ _ W _ Hh)). apply (inv_hyps _ _ _ I _ Hh).
Qed.

(** ** binding succeeds *)
Lemma shape_eq_lists : forall Dx Gx rs sh dims ms ns,
  sat Dx Gx rs -> (forall vc, In vc (shape_eq_vcs Dx Gx sh dims) -> valid vc) ->
  length sh = length dims -> ceval_list rs sh = Some ms -> ceval_list rs dims = Some ns -> ms = ns.
Proof.
  intros Dx Gx rs sh. induction sh as [|s sr IH]; intros dims ms ns HS HV HL Hs Hd.
  - destruct dims; [|discriminate HL]. cbn in Hs, Hd. congruence.
  - destruct dims as [|d dr]; [discriminate HL|]. cbn [ceval_list] in Hs, Hd.
    destruct (ceval rs s) as [[m| |]|] eqn:Es; try discriminate Hs.
    destruct (ceval_list rs sr) as [ms'|] eqn:Esr; [|discriminate Hs].
    destruct (ceval rs d) as [[n| |]|] eqn:Ed; try discriminate Hd.
    destruct (ceval_list rs dr) as [ns'|] eqn:Edr; [|discriminate Hd].
    inversion Hs. inversion Hd. subst. f_equal.
    + eapply holds_eq_int; [exact Es|exact Ed|]. eapply mk_valid_holds; [|exact HS]. apply HV. left. reflexivity.
    + apply (IH dr); [exact HS| |cbn [length] in HL; congruence|reflexivity|exact Edr].
      intros vc Hvc. apply HV. right. exact Hvc.
Qed.

Lemma ctl_ok_bind : forall D c x t b, ctl_ok D c -> lookup x D = None ->
  match t, b with TInt, BVal (VInt _) | TBool, BVal (VBool _) | TBuf _, _ => True | _, _ => False end ->
  ctl_ok ((x, t) :: D) (bind_var x b c).
Proof.
  intros D c x t b HC Hx Hb y. destruct (Pos.eq_dec y x) as [->|Hn].
  - rewrite lookup_cons_eq. unfold bind_var. cbn [s_env]. rewrite lookup_cons_eq.
    destruct t; auto; destruct b as [[z|bb|d]|w]; try contradiction; eauto.
  - rewrite lookup_cons_neq by exact Hn. unfold bind_var. cbn [s_env]. rewrite lookup_cons_neq by exact Hn. apply HC.
Qed.

Lemma agree_bind : forall D c rs x t b, agree_on D (rho_of c) rs -> lookup x D = None ->
  (is_ctl (Some t) = true -> exists v, b = BVal v /\ rs x = v) ->
  agree_on ((x, t) :: D) (rho_of (bind_var x b c)) rs.
Proof.
  intros D c rs x t b HA Hx Hb y Hy. destruct (Pos.eq_dec y x) as [->|Hn].
  - rewrite lookup_cons_eq in Hy. destruct (Hb Hy) as [v [-> Hv]]. rewrite rho_bind_self. symmetry. exact Hv.
  - rewrite lookup_cons_neq in Hy by exact Hn. rewrite <- (HA y Hy).
    unfold rho_of, rho_of_env, bind_var. cbn [s_env]. rewrite lookup_cons_neq by exact Hn. reflexivity.
Qed.

Lemma bind_call_ok : forall D G DC E st rs,
  sat (DC ++ D) (E ++ G) rs -> agree_on D rs (rho_of st) ->
  forall fs args acts vs Dk c Dfin,
    formals_ctx fs Dk = Some Dfin ->
    call_vcs D G DC E fs args = Some vs -> (forall vc, In vc vs -> valid vc) ->
    acts_rel (fun x k a b => act_ok D G st k a b /\ forall v, b = BVal v -> rs x = v) fs args acts ->
    ctl_ok Dk c -> agree_on Dk (rho_of c) rs ->
    exists c', bind_args fs acts c = Ok c' /\ ctl_ok Dfin c' /\ agree_on Dfin (rho_of c') rs.
Proof.
  intros D G DC E st rs HS HAD fs args acts vs Dk c Dfin HF HV Hval R. revert vs Dk c HF HV Hval.
  induction R as [|x k fr a ar b br [HK Hv] R IH]; intros vs Dk c HF HV Hval HC HA.
  - cbn in HF. inversion HF. subst. exists c. cbn [bind_args]. auto.
  - cbn [formals_ctx] in HF. destruct (fresh Dk x) eqn:Hfr; [|discriminate HF]. apply fresh_lookup in Hfr.
    cbn [call_vcs] in HV. destruct (call_vcs D G DC E fr ar) as [rest|] eqn:Er; [|discriminate HV].
    assert (Hstep : forall t, formals_ctx fr ((x, t) :: Dk) = Some Dfin ->
              (forall vc, In vc rest -> In vc vs) ->
              match t, b with TInt, BVal (VInt _) | TBool, BVal (VBool _) | TBuf _, _ => True | _, _ => False end ->
              (is_ctl (Some t) = true -> exists v, b = BVal v /\ rs x = v) ->
              exists c', bind_args fr br (bind_var x b c) = Ok c' /\ ctl_ok Dfin c' /\ agree_on Dfin (rho_of c') rs).
    { intros t HF' Hsub Hb1 Hb2. apply (IH rest ((x, t) :: Dk)); [exact HF'|reflexivity| | |].
      - intros vc Hvc. apply Hval, Hsub, Hvc.
      - apply ctl_ok_bind; assumption.
      - apply agree_bind; assumption. }
    destruct k; cbn [act_ok] in HK; cbn [bind_args].
    + destruct HK as [z [-> [Ht [Hc Hz]]]]. destruct (ity D a); [|discriminate HV]. inversion HV. subst vs.
      replace (0 <? z) with true by (symmetry; apply Z.ltb_lt; exact Hz).
      apply (Hstep TInt HF); [intros vc Hvc; right; exact Hvc|exact Logic.I|]. intros _. exists (VInt z). split; [reflexivity|apply Hv; reflexivity].
    + destruct HK as [z [-> [Ht Hc]]]. destruct (ity D a); [|discriminate HV]. inversion HV. subst vs.
      apply (Hstep TInt HF); [auto|exact Logic.I|]. intros _. exists (VInt z). split; [reflexivity|apply Hv; reflexivity].
    + destruct HK as [z [-> [Ht Hc]]]. destruct (bty D a); [|discriminate HV]. inversion HV. subst vs.
      apply (Hstep TBool HF); [auto|exact Logic.I|]. intros _. exists (VBool z). split; [reflexivity|apply Hv; reflexivity].
    + destruct HK as [z [-> [Ht Hc]]]. destruct (ity D a); [|discriminate HV]. inversion HV. subst vs.
      apply (Hstep TInt HF); [auto|exact Logic.I|]. intros _. exists (VInt z). split; [reflexivity|apply Hv; reflexivity].
    + destruct HK as [w [-> [Hok Hd]]]. rewrite Hd.
      destruct (arg_dims D G a) as [[dims v]|]; [|discriminate HV]. destruct dims; [|discriminate HV]. inversion HV. subst vs.
      apply (Hstep (TBuf []) HF); [intros vc Hvc; apply in_or_app; right; exact Hvc|exact Logic.I|discriminate].
    + destruct HK as [w [dims [v [-> [Hok [Ea [Hty [Hd Hp]]]]]]]]. rewrite Ea in HV.
      destruct (Nat.eqb (length shape) (length dims)) eqn:HL; [|discriminate HV]. inversion HV. subst vs. apply Nat.eqb_eq in HL.
      destruct (forallb (ity Dk) shape) eqn:Hsh; [|discriminate HF].
      destruct (ity_eval_list _ _ _ HC Hsh) as [ms [M1 [M2 _]]].
      assert (Hms : ms = map fst (vdims w)).
      { eapply (shape_eq_lists (DC ++ D) (E ++ G) rs shape dims); [exact HS| |exact HL| |].
        - intros vc Hvc. apply Hval, in_or_app. right. apply in_or_app. right. apply in_or_app. left. exact Hvc.
        - rewrite <- M2. symmetry. apply (ity_ceval_list_ext Dk); [exact HA|exact Hsh].
        - rewrite <- Hd. apply (ity_ceval_list_ext D); [exact HAD|exact Hty]. }
      rewrite M1. cbn [bind]. rewrite Hms, Hp.
      destruct (list_eq_dec Z.eq_dec (map fst (vdims w)) (map fst (vdims w))) as [_|Hne]; [|contradiction].
      apply (Hstep (TBuf shape) HF); [|exact Logic.I|discriminate].
      intros vc Hvc. apply in_or_app. right. apply in_or_app. right. apply in_or_app. right. exact Hvc.
Qed.

(** ** the call statement *)
Lemma sound_Call : forall fs ps body args, Forall sound_s body -> sound_s (Call (Proc fs ps body) args).
Proof.
  intros fs ps body args Hbody D G vcs D' Hg W HV. rewrite gen_s_Call in Hg.
  destruct (formals_ctx fs []) as [DC|] eqn:HF; [|discriminate Hg].
  destruct (forallb (bty DC) ps && formals_fresh D fs) eqn:Ec; [|discriminate Hg].
  destruct (call_vcs D G DC (call_eqs fs args) fs args) as [vsite|] eqn:Es; [|discriminate Hg].
  destruct (gen_list DC (size_hyps fs ++ ps) body) as [[vbody Db]|] eqn:Eb; [|discriminate Hg].
  injection Hg as Hv HD. subst vcs D'. split; [exact W|]. intros st I.
  apply andb_true_iff in Ec as [Hps Hfr].
  (* arguments *)
  destruct (eval_actuals_ok D G DC (call_eqs fs args) st W I fs args vsite Es) as [acts [Eacts R]];
    [intros vc Hvc; apply HV, in_or_app; left; exact Hvc|].
  destruct (rho_star_sat D G DC st fs args acts W I HF Hfr R) as [HAD [R2 HS]].
  set (rs := rho_star (rho_of st) fs acts) in *.
  (* binding *)
  set (c0 := with_env [] st).
  assert (HC0 : ctl_ok [] c0) by (intro x; cbn; exact Logic.I).
  assert (HA0 : agree_on [] (rho_of c0) rs) by (intros x Hx; cbn in Hx; discriminate Hx).
  destruct (bind_call_ok D G DC (call_eqs fs args) st rs HS HAD fs args acts vsite [] c0 DC HF Es) as [callee [Ebind [HCc HAc]]];
    [intros vc Hvc; apply HV, in_or_app; left; exact Hvc|exact R2|exact HC0|exact HA0|].
  assert (W0 : ctx_wf [] []) by (constructor; [constructor|intros x d H; discriminate H|intros h []]).
  assert (I0 : inv [] [] c0).
  { constructor; [intros x t H; discriminate H|intros h []|exact (inv_fresh _ _ _ I)]. }
  assert (Hviews : Forall (act_view_ok (s_heap c0)) acts).
  { clear - R. induction R; constructor; [|assumption]. destruct k; cbn [act_ok] in H.
    - destruct H as [z [-> _]]. exact Logic.I.
    - destruct H as [z [-> _]]. exact Logic.I.
    - destruct H as [z [-> _]]. exact Logic.I.
    - destruct H as [z [-> _]]. exact Logic.I.
    - destruct H as [w [-> [Hok _]]]. exact Hok.
    - destruct H as [w [dims [v [-> [Hok _]]]]]. exact Hok. }
  destruct (bind_args_inv fs acts [] [] c0 callee DC HF W0 I0 Hviews Ebind) as [Ic [Wc [Eh [En _]]]].
  (* assertions of the callee *)
  assert (Hpreds : forall p, In p ps -> holds (rho_of callee) p).
  { intros p Hp. rewrite forallb_forall in Hps. unfold holds. rewrite (bty_ceval_ext DC _ _ p HAc (Hps _ Hp)).
    eapply mk_valid_holds; [|exact HS]. apply HV, in_or_app. right. apply in_or_app. left.
    apply in_map_iff. exists p. split; [reflexivity|exact Hp]. }
  pose proof (check_preds_ok DC callee ps HCc Hps Hpreds) as Echeck.
  (* body *)
  assert (Ic2 : inv DC (size_hyps fs ++ ps) callee).
  { eapply inv_drop_hyps; [apply (inv_add_hyps _ _ ps _ Ic Hpreds)|].
    intros h Hh. rewrite app_nil_r. exact Hh. }
  assert (Wc2 : ctx_wf DC (size_hyps fs ++ ps)).
  { eapply ctx_wf_sub; [apply (ctx_wf_add_hyps _ _ ps Wc Hps)|]. intros h Hh. rewrite app_nil_r. exact Hh. }
  destruct (sound_list _ Hbody _ _ _ _ Eb Wc2) as [_ X];
    [intros vc Hvc; apply HV, in_or_app; right; apply in_or_app; right; apply in_or_app; right; exact Hvc|].
  destruct (X callee Ic2) as [st' [Ex [I' L']]].
  rewrite exec_Call. rewrite Eacts. cbn [bind]. fold c0. rewrite Ebind. cbn [bind]. rewrite Echeck. cbn [bind]. rewrite Ex. cbn [bind].
  eexists. split; [reflexivity|].
  assert (L2 : heap_le (s_heap st) (s_heap st')) by (rewrite Eh in L'; exact L').
  split; [eapply inv_leave; eassumption|exact L2].
Qed.
