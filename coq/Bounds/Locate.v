(** * Instrumented execution: where does a run go wrong?  (property C03, search diagnostics)

    [locate p inp] re-traverses the procedure with Core.Sem's own [exec] on leaf statements and its own
    recursion on compound ones, and reports the innermost failing site (statement kind, culprit buffer,
    call depth).  It additionally reports the one call-safety clause Core.Sem does not treat as an
    error: two tensor/scalar arguments of one call that live in the same block (aliasing).

    [locate_mem] is the same traversal over a RELAXED, memory-level reading of accesses: window
    expressions are not checked against their source and an access only has to land inside the block
    (the argument's / allocation's cells), the way the generated C behaves.  It separates failures
    that only break the declared-extent discipline (window beyond its source but never used there,
    index beyond the window's own extent but inside the buffer) from accesses that leave the memory
    of the buffer.

    The harness uses both only to TAG failures found by the reference interpreter [Core.Sem.run] and to
    detect aliasing; [locate] agrees with [run] (ProofsLocate.locate_agrees), and the harness re-checks the
    agreement of the error kind on every failure.

    Executable Gallina only (model file). *)
From Coq Require Import ZArith List Bool.
From Core Require Import Syntax Sem.
Import ListNotations.
Local Open Scope Z_scope.

Inductive sitekind :=
| KAssign | KReduce | KRead | KReadExtern   (* failing cell write / reduce / read in a rhs / read inside extern arguments *)
| KIndexExpr                                 (* an index expression itself fails to evaluate *)
| KGuard | KLoopBounds | KTrip
| KAlloc | KWindow | KWriteCfg
| KCallArgs | KCallBind | KCallPreds | KCallAlias.

Record failure := mkFail { f_err : option err; f_kind : sitekind; f_sym : sym; f_depth : nat }.

(** ** relaxed (memory-level) accesses *)
Fixpoint rflat (dims : list (Z * Z)) (idx : list Z) (acc : Z) : result Z :=
  match dims, idx with
  | [], [] => Ok acc
  | (_, s) :: dr, i :: ir => rflat dr ir (acc + i * s)
  | _, _ => Err BadArity
  end.

Definition block_get (h : heap) (w : view) (off : Z) : result dval :=
  match lookup (vloc w) h with
  | None => Err Unbound
  | Some cells =>
      if (0 <=? off) && (off <? Z.of_nat (length cells))
      then Ok (nth (Z.to_nat off) cells None) else Err OOB
  end.

Definition block_set (h : heap) (w : view) (off : Z) (d : dval) : result heap :=
  match lookup (vloc w) h with
  | None => Err Unbound
  | Some cells =>
      if (0 <=? off) && (off <? Z.of_nat (length cells))
      then Ok (update (vloc w) (set_nth (Z.to_nat off) d cells) h) else Err OOB
  end.

Fixpoint rapply_window (dims : list (Z * Z)) (acc : list wacc_v) (off : Z) : result (Z * list (Z * Z)) :=
  match dims, acc with
  | [], [] => Ok (off, [])
  | (_, s) :: dr, PointV i :: ar => rapply_window dr ar (off + i * s)
  | (_, s) :: dr, IntervalV lo hi :: ar =>
      do r <- rapply_window dr ar (off + lo * s);
      let (off', dims') := r in Ok (off', (hi - lo, s) :: dims')
  | _, _ => Err BadArity
  end.

Section RelaxedEval.
  Variable st : state.

  Fixpoint reval (e : expr) {struct e} : result value :=
    match e with
    | Read x idx =>
        do w <- get_view st x;
        do is <- (fix evs (l : list expr) : result (list Z) :=
                    match l with
                    | [] => Ok []
                    | a :: r => do v <- reval a; do z <- as_int v; do zs <- evs r; Ok (z :: zs)
                    end) idx;
        do off <- rflat (vdims w) is (voff w);
        do d <- block_get (s_heap st) w off;
        Ok (VData d)
    | USub a =>
        do v <- reval a;
        match v with
        | VInt z => Ok (VInt (- z))
        | VData d => Ok (VData (dneg d))
        | VBool _ => Err TypeErr
        end
    | BinOp op a b => do x <- reval a; do y <- reval b; eval_binop op x y
    | Extern f args =>
        do vs <- (fix evs (l : list expr) : result (list value) :=
                    match l with
                    | [] => Ok []
                    | a :: r => do v <- reval a; do vs <- evs r; Ok (v :: vs)
                    end) args;
        eval_extern f vs
    | _ => eval st e
    end.

  Definition reval_view (e : expr) : result view :=
    match e with
    | Read x [] => get_view st x
    | Read x idx =>
        do w <- get_view st x;
        do is <- eval_ints st idx;
        do off <- rflat (vdims w) is (voff w);
        Ok (mkView (vloc w) off [])
    | WindowE x acc =>
        do w <- get_view st x;
        do av <- eval_waccs st acc;
        do r <- rapply_window (vdims w) av (voff w);
        let (off, dims) := r in Ok (mkView (vloc w) off dims)
    | _ => Err TypeErr
    end.
End RelaxedEval.

Definition reval_actual (st : state) (k : argkind) (e : expr) : result binding :=
  match k with
  | KSize | KIndex | KBool | KStride => do v <- eval st e; Ok (BVal v)
  | KScalar | KTensor _ _ => do w <- reval_view st e; Ok (BView w)
  end.

Fixpoint reval_actuals (st : state) (formals : list (sym * argkind)) (es : list expr) : result (list binding) :=
  match formals, es with
  | [], [] => Ok []
  | (_, k) :: fr, e :: er => do b <- reval_actual st k e; do bs <- reval_actuals st fr er; Ok (b :: bs)
  | _, _ => Err BadArity
  end.

(** leaf statements, memory-level *)
Definition rexec_leaf (s : stmt) (st : state) : result state :=
  match s with
  | Assign x idx rhs =>
      do w <- get_view st x;
      do is <- eval_ints st idx;
      do v <- reval st rhs;
      do d <- as_data v;
      do off <- rflat (vdims w) is (voff w);
      do h <- block_set (s_heap st) w off d;
      Ok (with_heap h st)
  | Reduce x idx rhs =>
      do w <- get_view st x;
      do is <- eval_ints st idx;
      do v <- reval st rhs;
      do d <- as_data v;
      do off <- rflat (vdims w) is (voff w);
      do old <- block_get (s_heap st) w off;
      do h <- block_set (s_heap st) w off (dadd old d);
      Ok (with_heap h st)
  | WriteCfg c rhs =>
      do v <- reval st rhs;
      Ok (mkState (s_env st) (s_heap st) (s_next st) (update c v (s_cfg st)))
  | WindowS x rhs =>
      do w <- reval_view st rhs;
      Ok (bind_var x (BView w) st)
  | _ => exec s st
  end.

(** ** the traversal, parameterised by the reading of leaf statements, data expressions and call arguments *)
Section Locate.
  Variable ev : state -> expr -> result value.
  Variable leaf_exec : stmt -> state -> result state.
  Variable actuals : state -> list (sym * argkind) -> list expr -> result (list binding).

  (** first failing read of a data expression: (buffer, inside extern arguments?) *)
  Fixpoint bad_read (st : state) (inext : bool) (e : expr) {struct e} : option (sym * bool) :=
    match e with
    | Read y _ => match ev st e with Err _ => Some (y, inext) | Ok _ => None end
    | USub a => bad_read st inext a
    | BinOp _ a b => match bad_read st inext a with Some y => Some y | None => bad_read st inext b end
    | Extern _ args =>
        (fix go (l : list expr) : option (sym * bool) :=
           match l with
           | [] => None
           | a :: r => match bad_read st true a with Some y => Some y | None => go r end
           end) args
    | _ => None
    end.

  Definition is_err {A} (r : result A) : bool := match r with Err _ => true | Ok _ => false end.

  (** classify a failing Assign / Reduce *)
  Definition access_site (st : state) (k : sitekind) (x : sym) (idx : list expr) (rhs : expr) : sitekind * sym :=
    if is_err (get_view st x) then (k, x)
    else if is_err (eval_ints st idx) then (KIndexExpr, x)
    else match bad_read st false rhs with
         | Some (y, true) => (KReadExtern, y)
         | Some (y, false) => (KRead, y)
         | None => if is_err (ev st rhs) then (KIndexExpr, x) else (k, x)
         end.

  Fixpoint view_locs (bs : list binding) : list positive :=
    match bs with
    | [] => []
    | BView w :: r => vloc w :: view_locs r
    | BVal _ :: r => view_locs r
    end.

  Fixpoint has_dup (l : list positive) : bool :=
    match l with
    | [] => false
    | x :: r => existsb (Pos.eqb x) r || has_dup r
    end.

  Definition aliased (bs : list binding) : bool := has_dup (view_locs bs).

  Fixpoint iter_sum (n : nat) (k : Z) (body : Z -> state -> state + failure) (st : state) : state + failure :=
    match n with
    | O => inl st
    | S n' => match body k st with inl st' => iter_sum n' (k + 1) body st' | inr f => inr f end
    end.

  Definition leaf (d : nat) (k : sitekind) (x : sym) (s : stmt) (st : state) : state + failure :=
    match leaf_exec s st with
    | Ok st' => inl st'
    | Err e => inr (mkFail (Some e) k x d)
    end.

  Fixpoint loc_s (d : nat) (s : stmt) (st : state) {struct s} : state + failure :=
    match s with
    | Assign x idx rhs =>
        match leaf_exec s st with
        | Ok st' => inl st'
        | Err e => let (k, y) := access_site st KAssign x idx rhs in inr (mkFail (Some e) k y d)
        end
    | Reduce x idx rhs =>
        match leaf_exec s st with
        | Ok st' => inl st'
        | Err e => let (k, y) := access_site st KReduce x idx rhs in inr (mkFail (Some e) k y d)
        end
    | WriteCfg c _ => leaf d KWriteCfg c s st
    | Pass => inl st
    | Alloc x _ => leaf d KAlloc x s st
    | WindowS x _ => leaf d KWindow x s st
    | If c body orelse =>
        match (do v <- eval st c; as_bool v) with
        | Err e => inr (mkFail (Some e) KGuard 1%positive d)
        | Ok b =>
            match (fix go (l : list stmt) (st : state) : state + failure :=
                     match l with
                     | [] => inl st
                     | s' :: r => match loc_s d s' st with inl st1 => go r st1 | inr f => inr f end
                     end) (if b then body else orelse) st with
            | inl st' => inl (with_env (s_env st) st')
            | inr f => inr f
            end
        end
    | For i lo hi body _ =>
        match (do vl <- eval st lo; do l <- as_int vl; do vh <- eval st hi; do h <- as_int vh; Ok (l, h)) with
        | Err e => inr (mkFail (Some e) KLoopBounds i d)
        | Ok (l, h) =>
            if h <? l then inr (mkFail (Some BadTrip) KTrip i d) else
            iter_sum (Z.to_nat (h - l)) l
              (fun k st0 =>
                 match (fix go (l : list stmt) (st : state) : state + failure :=
                          match l with
                          | [] => inl st
                          | s' :: r => match loc_s d s' st with inl st1 => go r st1 | inr f => inr f end
                          end) body (bind_var i (BVal (VInt k)) st0) with
                 | inl st' => inl (with_env (s_env st0) st')
                 | inr f => inr f
                 end) st
        end
    | Call f args =>
        match f with
        | Proc formals preds body =>
            match actuals st formals args with
            | Err e => inr (mkFail (Some e) KCallArgs 1%positive d)
            | Ok acts =>
                if aliased acts then inr (mkFail None KCallAlias 1%positive d) else
                match bind_args formals acts (with_env [] st) with
                | Err e => inr (mkFail (Some e) KCallBind 1%positive d)
                | Ok callee =>
                    match check_preds callee preds with
                    | Err e => inr (mkFail (Some e) KCallPreds 1%positive d)
                    | Ok _ =>
                        match (fix go (l : list stmt) (st : state) : state + failure :=
                                 match l with
                                 | [] => inl st
                                 | s' :: r => match loc_s (S d) s' st with inl st1 => go r st1 | inr f => inr f end
                                 end) body callee with
                        | inl st' => inl (with_env (s_env st) st')
                        | inr f => inr f
                        end
                    end
                end
            end
        end
    end.

  Fixpoint loc_list (d : nat) (l : list stmt) (st : state) : state + failure :=
    match l with
    | [] => inl st
    | s :: r => match loc_s d s st with inl st1 => loc_list d r st1 | inr f => inr f end
    end.
End Locate.

Inductive located :=
| LInvalid (e : err)
| LFails (f : failure)
| LDone.

Definition locate_with (mem : bool) (p : proc) (inp : input) : located :=
  match p with
  | Proc formals preds body =>
      if forallb inbuf_ok (in_args inp) then
        let st0 := mkState [] [] 1%positive (in_cfg inp) in
        let (bs, st1) := load_inputs (in_args inp) st0 in
        match bind_args formals bs st1 with
        | Err e => LInvalid e
        | Ok st2 =>
            match check_preds st2 preds with
            | Err e => LInvalid e
            | Ok _ =>
                match (if mem then loc_list reval rexec_leaf reval_actuals 0 body st2
                       else loc_list eval exec eval_actuals 0 body st2) with
                | inr f => LFails f
                | inl _ => LDone
                end
            end
        end
      else LInvalid OOB
  end.

Definition locate := locate_with false.
Definition locate_mem := locate_with true.
