(** Extraction of the C03 tools: VC generator, failure locator and (for cross-checking) Core.Sem.run.
    Directives: ExtrOcamlBasic only; Z, positive, Q stay the extracted inductives. *)
From Coq Require Import ZArith List QArith Qcanon.
From Core Require Import Syntax Sem.
From Bounds Require Import VC VCGen Locate.
Require Extraction.
Require Import ExtrOcamlBasic.
Extraction Language OCaml.

Definition mk_qc (n : Z) (d : positive) : Qc := Q2Qc (Qmake n d).
Definition qc_num (q : Qc) : Z := Qnum (this q).
Definition qc_den (q : Qc) : positive := Qden (this q).
Extraction "_build/bounds.ml" vcgen_opt vcgen typed locate locate_mem run mk_qc qc_num qc_den.
