(** * [Bounds.Locate.locate] agrees with [Core.Sem.run]: same outcome, and the reported error is the one
    [run] returns (the aliasing report, which Core.Sem does not have, is the only extra answer) *)
From Coq Require Import ZArith List Bool Lia.
From Core Require Import Syntax Sem Equiv.
From Bounds Require Import Locate ProofsStmt.
Import ListNotations.
Local Open Scope Z_scope.

Definition agrees (r : state + failure) (x : result state) : Prop :=
  match r with
  | inl st' => x = Ok st'
  | inr f => match f_err f with Some e => x = Err e | None => True end
  end.

Notation sloc_s := (loc_s eval exec eval_actuals).
Notation sloc_list := (loc_list eval exec eval_actuals).

Lemma loc_go : forall d l st,
  (fix go (l : list stmt) (st : state) : state + failure :=
     match l with
     | [] => inl st
     | s' :: r => match sloc_s d s' st with inl st1 => go r st1 | inr f => inr f end
     end) l st = sloc_list d l st.
Proof.
  intros d l. induction l as [|s r IH]; intro st; [reflexivity|]. cbn [loc_list].
  destruct (sloc_s d s st); [apply IH|reflexivity].
Qed.

Definition agree_s (s : stmt) : Prop := forall d st, agrees (sloc_s d s st) (exec s st).

Lemma agree_list : forall l, Forall agree_s l -> forall d st, agrees (sloc_list d l st) (exec_list l st).
Proof.
  intros l H. induction H as [|s r Hs Hr IH]; intros d st; cbn [loc_list exec_list]; [reflexivity|].
  specialize (Hs d st). unfold agrees in Hs. destruct (sloc_s d s st) as [st1|f].
  - rewrite Hs. cbn [bind]. apply IH.
  - cbn [agrees]. destruct (f_err f); [rewrite Hs; reflexivity|exact I].
Qed.

Lemma agrees_scoped : forall r x env,
  agrees r x ->
  agrees (match r with inl st' => inl (with_env env st') | inr f => inr f end)
         (do st' <- x; Ok (with_env env st')).
Proof.
  intros r x env H. destruct r as [st'|f]; cbn [agrees] in *.
  - rewrite H. reflexivity.
  - destruct (f_err f); [rewrite H; reflexivity|exact I].
Qed.

Lemma agree_leaf : forall d k x s st, agrees (leaf exec d k x s st) (exec s st).
Proof. intros. unfold leaf. destruct (exec s st); cbn [agrees f_err]; reflexivity. Qed.

Theorem loc_s_agrees : forall s, agree_s s.
Proof.
  apply stmt_ind2; unfold agree_s.
  - intros x idx rhs d st. cbn [loc_s]. destruct (exec (Assign x idx rhs) st) eqn:E; [reflexivity|].
    destruct (access_site eval st KAssign x idx rhs). reflexivity.
  - intros x idx rhs d st. cbn [loc_s]. destruct (exec (Reduce x idx rhs) st) eqn:E; [reflexivity|].
    destruct (access_site eval st KReduce x idx rhs). reflexivity.
  - intros c rhs d st. cbn [loc_s]. apply agree_leaf.
  - intros d st. reflexivity.
  - intros c b o Hb Ho d st. cbn [loc_s]. rewrite exec_If.
    destruct (eval st c) as [v|e]; cbn [bind]; [|reflexivity].
    destruct (as_bool v) as [bv|e]; cbn [bind]; [|reflexivity].
    rewrite loc_go. unfold scoped. apply agrees_scoped. destruct bv; apply agree_list; assumption.
  - intros i lo hi b par Hb d st. cbn [loc_s]. rewrite exec_For.
    destruct (eval st lo) as [vl|e]; cbn [bind]; [|reflexivity].
    destruct (as_int vl) as [l|e]; cbn [bind]; [|reflexivity].
    destruct (eval st hi) as [vh|e]; cbn [bind]; [|reflexivity].
    destruct (as_int vh) as [h|e]; cbn [bind]; [|reflexivity].
    destruct (h <? l); [reflexivity|].
    generalize (Z.to_nat (h - l)) as n. intro n. generalize l as k. revert st.
    induction n as [|n IH]; intros st k; cbn [iter_sum iter_loop]; [reflexivity|].
    rewrite loc_go. unfold loop_body at 1.
    pose proof (agree_list _ Hb d (bind_var i (BVal (VInt k)) st)) as Hl. unfold agrees in Hl.
    destruct (sloc_list d b (bind_var i (BVal (VInt k)) st)) as [st'|f].
    + rewrite Hl. cbn [bind]. apply IH.
    + cbn [agrees]. destruct (f_err f); [rewrite Hl; reflexivity|exact I].
  - intros x sh d st. cbn [loc_s]. apply agree_leaf.
  - intros fs ps body args Hbody d st. cbn [loc_s]. rewrite exec_Call.
    destruct (eval_actuals st fs args) as [acts|e]; cbn [bind]; [|reflexivity].
    destruct (aliased acts); [exact I|].
    destruct (bind_args fs acts (with_env [] st)) as [callee|e]; cbn [bind]; [|reflexivity].
    destruct (check_preds callee ps) as [u|e]; cbn [bind]; [|reflexivity].
    rewrite loc_go. apply agrees_scoped. apply agree_list. exact Hbody.
  - intros x rhs d st. cbn [loc_s]. apply agree_leaf.
Qed.

Theorem locate_agrees : forall p inp,
  match locate p inp with
  | LInvalid e => run p inp = Invalid e
  | LDone => exists bufs cfg, run p inp = Done bufs cfg
  | LFails f => match f_err f with Some e => run p inp = Fails e | None => True end
  end.
Proof.
  intros [fs ps body] inp. unfold locate, locate_with, run.
  destruct (forallb inbuf_ok (in_args inp)); [|reflexivity].
  destruct (load_inputs (in_args inp) _) as [bs st1].
  destruct (bind_args fs bs st1) as [st2|e]; [|reflexivity].
  destruct (check_preds st2 ps) as [u|e]; [|reflexivity].
  pose proof (agree_list body (proj2 (Forall_forall _ _) (fun s _ => loc_s_agrees s)) 0%nat st2) as H.
  unfold agrees in H. destruct (sloc_list 0 body st2) as [st3|f].
  - rewrite H. eauto.
  - destruct (f_err f); [rewrite H; reflexivity|exact I].
Qed.
Print Assumptions locate_agrees.
