(** * Soundness of the VC generator, statement by statement (property C03) *)
From Coq Require Import ZArith List Bool Lia.
From Core Require Import Syntax Sem Equiv.
From Bounds Require Import VC VCGen ProofsBase ProofsMem ProofsInv ProofsExpr.
Import ListNotations.
Local Open Scope Z_scope.

(** ** induction over statements (bodies of compound statements and of callees) *)
Section StmtInd.
  Variable P : stmt -> Prop.
  Hypothesis HAssign : forall x idx rhs, P (Assign x idx rhs).
  Hypothesis HReduce : forall x idx rhs, P (Reduce x idx rhs).
  Hypothesis HWriteCfg : forall c rhs, P (WriteCfg c rhs).
  Hypothesis HPass : P Pass.
  Hypothesis HIf : forall c b o, Forall P b -> Forall P o -> P (If c b o).
  Hypothesis HFor : forall i lo hi b par, Forall P b -> P (For i lo hi b par).
  Hypothesis HAlloc : forall x sh, P (Alloc x sh).
  Hypothesis HCall : forall fs ps body args, Forall P body -> P (Call (Proc fs ps body) args).
  Hypothesis HWindowS : forall x rhs, P (WindowS x rhs).

  Fixpoint stmt_ind2 (s : stmt) : P s :=
    match s with
    | Assign x idx rhs => HAssign x idx rhs
    | Reduce x idx rhs => HReduce x idx rhs
    | WriteCfg c rhs => HWriteCfg c rhs
    | Pass => HPass
    | If c b o =>
        HIf c b o
          ((fix go (l : list stmt) : Forall P l :=
              match l with [] => Forall_nil P | a :: r => Forall_cons a (stmt_ind2 a) (go r) end) b)
          ((fix go (l : list stmt) : Forall P l :=
              match l with [] => Forall_nil P | a :: r => Forall_cons a (stmt_ind2 a) (go r) end) o)
    | For i lo hi b par =>
        HFor i lo hi b par
          ((fix go (l : list stmt) : Forall P l :=
              match l with [] => Forall_nil P | a :: r => Forall_cons a (stmt_ind2 a) (go r) end) b)
    | Alloc x sh => HAlloc x sh
    | Call f args =>
        match f with
        | Proc fs ps body =>
            HCall fs ps body args
              ((fix go (l : list stmt) : Forall P l :=
                  match l with [] => Forall_nil P | a :: r => Forall_cons a (stmt_ind2 a) (go r) end) body)
        end
    | WindowS x rhs => HWindowS x rhs
    end.
End StmtInd.

(** ** unfolding [gen_s]: the nested fixpoints are [gen_list] *)
Lemma gen_go : forall G D l,
  (fix go (D : tenv) (l : list stmt) : option (list vc * tenv) :=
     match l with
     | [] => Some ([], D)
     | s' :: r => match gen_s D G s' with
                  | Some (v1, D1) => match go D1 r with Some (v2, D2) => Some (v1 ++ v2, D2) | None => None end
                  | None => None
                  end
     end) D l = gen_list D G l.
Proof.
  intros G D l. revert D. induction l as [|s r IH]; intro D; [reflexivity|]. cbn [gen_list].
  destruct (gen_s D G s) as [[v1 D1]|]; [|reflexivity]. rewrite IH. reflexivity.
Qed.

Lemma gen_s_If : forall D G c b o,
  gen_s D G (If c b o) =
  if bty D c then
    match gen_list D (c :: G) b, gen_list D (e_not c :: G) o with
    | Some (v1, _), Some (v2, _) => Some (v1 ++ v2, D)
    | _, _ => None
    end
  else None.
Proof. intros. cbn [gen_s]. rewrite !gen_go. reflexivity. Qed.

Lemma gen_s_For : forall D G i lo hi b par,
  gen_s D G (For i lo hi b par) =
  if ity D lo && ity D hi && fresh D i then
    match gen_list ((i, TInt) :: D) (e_le lo (Var i) :: e_lt (Var i) hi :: G) b with
    | Some (v, _) => Some (mk D G (e_le lo hi) :: v, D)
    | None => None
    end
  else None.
Proof. intros. cbn [gen_s]. rewrite (gen_go (e_le lo (Var i) :: e_lt (Var i) hi :: G)). reflexivity. Qed.

Lemma gen_s_Call : forall D G formals preds body args,
  gen_s D G (Call (Proc formals preds body) args) =
  match formals_ctx formals [] with
  | Some DC =>
      if forallb (bty DC) preds && formals_fresh D formals then
        match call_vcs D G DC (call_eqs formals args) formals args with
        | Some vsite =>
            match gen_list DC (size_hyps formals ++ preds) body with
            | Some (vbody, _) =>
                Some (vsite ++ map (fun p => mk (DC ++ D) (call_eqs formals args ++ G) p) preds
                            ++ formal_shape_vcs DC (size_hyps formals ++ preds) formals ++ vbody, D)
            | None => None
            end
        | None => None
        end
      else None
  | None => None
  end.
Proof.
  intros. cbn [gen_s]. destruct (formals_ctx formals []) as [DC|]; [|reflexivity].
  rewrite (gen_go (size_hyps formals ++ preds)). reflexivity.
Qed.

(** ** what is proved of every statement *)
Definition sound_s (s : stmt) : Prop :=
  forall D G vcs D', gen_s D G s = Some (vcs, D') -> ctx_wf D G -> (forall vc, In vc vcs -> valid vc) ->
    ctx_wf D' G /\
    forall st, inv D G st ->
      exists st', exec s st = Ok st' /\ inv D' G st' /\ heap_le (s_heap st) (s_heap st').

Definition sound_l (l : list stmt) : Prop :=
  forall D G vcs D', gen_list D G l = Some (vcs, D') -> ctx_wf D G -> (forall vc, In vc vcs -> valid vc) ->
    ctx_wf D' G /\
    forall st, inv D G st ->
      exists st', exec_list l st = Ok st' /\ inv D' G st' /\ heap_le (s_heap st) (s_heap st').

Lemma sound_list : forall l, Forall sound_s l -> sound_l l.
Proof.
  intros l H. induction H as [|s r Hs Hr IH]; intros D G vcs D' Hg W HV.
  - cbn [gen_list] in Hg. inversion Hg. subst. split; [exact W|]. intros st I. exists st. cbn [exec_list].
    split; [reflexivity|]. split; [exact I|apply heap_le_refl].
  - cbn [gen_list] in Hg. destruct (gen_s D G s) as [[v1 D1]|] eqn:E1; [|discriminate Hg].
    destruct (gen_list D1 G r) as [[v2 D2]|] eqn:E2; [|discriminate Hg]. inversion Hg. subst. clear Hg.
    destruct (Hs _ _ _ _ E1 W) as [W1 X1]; [intros vc Hvc; apply HV, in_or_app; left; exact Hvc|].
    destruct (IH _ _ _ _ E2 W1) as [W2 X2]; [intros vc Hvc; apply HV, in_or_app; right; exact Hvc|].
    split; [exact W2|]. intros st I. destruct (X1 st I) as [st1 [Ex1 [I1 L1]]]. destruct (X2 st1 I1) as [st2 [Ex2 [I2 L2]]].
    exists st2. cbn [exec_list]. rewrite Ex1. cbn [bind]. split; [exact Ex2|]. split; [exact I2|eapply heap_le_trans; eassumption].
Qed.

(** leaving a scope: the environment is restored, the heap has grown *)
Lemma inv_leave : forall D G D1 G1 st st',
  inv D G st -> inv D1 G1 st' -> heap_le (s_heap st) (s_heap st') -> inv D G (with_env (s_env st) st').
Proof.
  intros D G D1 G1 st st' I I' HL. unfold with_env. apply inv_heap; [exact I|exact HL|apply (inv_fresh _ _ _ I')].
Qed.

(** ** positivity of extents *)
Lemma pos_vcs_all_pos : forall D G rho dims ns,
  sat D G rho -> (forall vc, In vc (pos_vcs D G dims) -> valid vc) -> ceval_list rho dims = Some ns -> all_pos ns = true.
Proof.
  intros D G rho dims. induction dims as [|d r IH]; intros ns HS HV He; cbn [ceval_list] in He.
  - inversion He. reflexivity.
  - destruct (ceval rho d) as [[n| |]|] eqn:Ed; try discriminate He.
    destruct (ceval_list rho r) as [ns'|] eqn:Er; [|discriminate He]. inversion He. subst. cbn [all_pos].
    apply andb_true_iff. split.
    + apply Z.ltb_lt. eapply (holds_lt rho (Int 0) d); [reflexivity|exact Ed|].
      eapply mk_valid_holds; [|exact HS]. apply HV. left. reflexivity.
    + apply (IH ns' HS); [|reflexivity]. intros vc Hvc. apply HV. right. exact Hvc.
Qed.

(** ** window access lists *)
Lemma window_dims_typed : forall D acc, wacc_ty D acc = true -> forallb (ity D) (window_dims acc) = true.
Proof.
  induction acc as [|[e|lo hi] r IH]; cbn [wacc_ty window_dims forallb]; intro H; [reflexivity| |].
  - apply andb_true_iff in H as [_ H]. auto.
  - apply andb_true_iff in H as [H Hr]. apply andb_true_iff in H as [Hlo Hhi]. cbn [ity]. rewrite Hhi, Hlo, (IH Hr). reflexivity.
Qed.

Lemma wacc_eval : forall D G st acc dims (vd : list (Z * Z)),
  ctl_ok D st -> sat D G (rho_of st) -> wacc_ty D acc = true -> length acc = length dims ->
  (forall vc, In vc (window_vcs D G acc dims) -> valid vc) ->
  ceval_list (rho_of st) dims = Some (map fst vd) ->
  exists av, eval_waccs st acc = Ok av /\ wacc_in vd av /\
             ceval_list (rho_of st) (window_dims acc) = Some (wdims_v av).
Proof.
  intros D G st acc. induction acc as [|a r IH]; intros dims vd HC HS HT HL HV Hd.
  - destruct dims; [|discriminate HL]. cbn [ceval_list] in Hd. destruct vd; [|discriminate Hd].
    exists []. cbn. split; [reflexivity|]. split; [constructor|reflexivity].
  - destruct dims as [|d dr]; [discriminate HL|]. cbn [ceval_list] in Hd.
    destruct (ceval (rho_of st) d) as [[n| |]|] eqn:Ed; try discriminate Hd.
    destruct (ceval_list (rho_of st) dr) as [ns|] eqn:Edr; [|discriminate Hd].
    destruct vd as [|[n' s] vr]; [discriminate Hd|]. cbn [map fst] in Hd. inversion Hd. subst n' ns. clear Hd.
    cbn [length] in HL. assert (HL' : length r = length dr) by congruence.
    destruct a as [e|lo hi]; cbn [wacc_ty] in HT; cbn [window_vcs] in HV.
    + apply andb_true_iff in HT as [He Hr].
      destruct (ity_eval _ _ _ HC He) as [i [E1 E2]].
      destruct (IH dr vr HC HS Hr HL') as [av [A1 [A2 A3]]]; [intros vc Hvc; apply HV; right; exact Hvc|exact Edr|].
      exists (PointV i :: av). cbn [eval_waccs window_dims wdims_v]. rewrite E1. cbn [bind as_int]. rewrite A1. cbn [bind].
      split; [reflexivity|]. split; [|exact A3]. constructor; [|exact A2].
      eapply holds_in_bounds; [exact E2|exact Ed|]. eapply mk_valid_holds; [|exact HS]. apply HV. left. reflexivity.
    + apply andb_true_iff in HT as [HT Hr]. apply andb_true_iff in HT as [Hlo Hhi].
      destruct (ity_eval _ _ _ HC Hlo) as [l [L1 L2]]. destruct (ity_eval _ _ _ HC Hhi) as [h [H1 H2]].
      destruct (IH dr vr HC HS Hr HL') as [av [A1 [A2 A3]]]; [intros vc Hvc; apply HV; right; exact Hvc|exact Edr|].
      exists (IntervalV l h :: av). cbn [eval_waccs window_dims wdims_v ceval_list ceval]. rewrite L1, H1. cbn [bind as_int].
      rewrite A1. cbn [bind]. rewrite L2, H2, A3. cbn [eval_binop].
      split; [reflexivity|]. split; [|reflexivity].
      assert (0 <= l /\ l <= h /\ h <= n) as [B1 [B2 B3]].
      { eapply holds_in_interval; [exact L2|exact H2|exact Ed|]. eapply mk_valid_holds; [|exact HS]. apply HV. left. reflexivity. }
      constructor; assumption.
Qed.

(** a typed window expression with valid VCs evaluates to a well-formed sub-view *)
Lemma window_view : forall D G st y acc dims,
  ctx_wf D G -> inv D G st -> buf_dims D y = Some dims ->
  Nat.eqb (length acc) (length dims) = true -> wacc_ty D acc = true ->
  (forall vc, In vc (window_vcs D G acc dims) -> valid vc) ->
  exists w, eval_view st (WindowE y acc) = Ok w /\ view_ok (s_heap st) w /\
            ceval_list (rho_of st) (window_dims acc) = Some (map fst (vdims w)).
Proof.
  intros D G st y acc dims W I Eb HL HT HV. apply Nat.eqb_eq in HL.
  destruct (buf_dims_view _ _ _ _ _ I Eb) as [w [Hw [Hok Hdims]]].
  destruct (wacc_eval D G st acc dims (vdims w) (env_ok_ctl _ _ (inv_env _ _ _ I)) (inv_sat _ _ _ W I) HT HL HV Hdims)
    as [av [A1 [A2 A3]]].
  destruct (apply_window_ok _ _ (voff w) A2) as [off' [dims' [P1 P2]]].
  exists (mkView (vloc w) off' dims'). cbn [eval_view]. rewrite Hw. cbn [bind]. rewrite A1. cbn [bind]. rewrite P1. cbn [bind].
  split; [reflexivity|]. split; [eapply view_ok_window; eassumption|]. cbn [vdims]. rewrite P2. exact A3.
Qed.

(** ** the simple statements *)
Lemma sound_Assign : forall x idx rhs, sound_s (Assign x idx rhs).
Proof.
  intros x idx rhs D G vcs D' Hg W HV. cbn [gen_s] in Hg.
  destruct (buf_dims D x) as [dims|] eqn:Eb; [|discriminate Hg].
  destruct (Nat.eqb (length idx) (length dims) && forallb (ity D) idx && dty D rhs) eqn:Ec; [|discriminate Hg].
  inversion Hg. subst. clear Hg. split; [exact W|]. intros st I.
  apply andb_true_iff in Ec as [Ec Hrhs]. apply andb_true_iff in Ec as [HL HI]. apply Nat.eqb_eq in HL.
  destruct (buf_dims_view _ _ _ _ _ I Eb) as [w [Hw [Hok Hdims]]].
  destruct (ity_eval_list _ _ _ (env_ok_ctl _ _ (inv_env _ _ _ I)) HI) as [is [E1 [E2 _]]].
  assert (HR : in_range (vdims w) is).
  { eapply access_in_range; [apply (inv_sat _ _ _ W I)| |exact HL|exact E2|exact Hdims].
    intros vc Hvc. apply HV, in_or_app. left. exact Hvc. }
  destruct (dty_eval _ _ _ W I rhs Hrhs) as [d Hd]; [intros vc Hvc; apply HV, in_or_app; right; exact Hvc|].
  destruct (cell_write_ok _ _ _ _ d Hok HR (inv_fresh _ _ _ I)) as [h' [Hwr [HLe HFr]]].
  exists (with_heap h' st). cbn [exec]. rewrite Hw. cbn [bind]. rewrite E1. cbn [bind]. rewrite Hd. cbn [bind as_data]. rewrite Hwr. cbn [bind].
  split; [reflexivity|]. split; [|exact HLe]. unfold with_heap. apply inv_heap; assumption.
Qed.

Lemma sound_Reduce : forall x idx rhs, sound_s (Reduce x idx rhs).
Proof.
  intros x idx rhs D G vcs D' Hg W HV. cbn [gen_s] in Hg.
  destruct (buf_dims D x) as [dims|] eqn:Eb; [|discriminate Hg].
  destruct (Nat.eqb (length idx) (length dims) && forallb (ity D) idx && dty D rhs) eqn:Ec; [|discriminate Hg].
  inversion Hg. subst. clear Hg. split; [exact W|]. intros st I.
  apply andb_true_iff in Ec as [Ec Hrhs]. apply andb_true_iff in Ec as [HL HI]. apply Nat.eqb_eq in HL.
  destruct (buf_dims_view _ _ _ _ _ I Eb) as [w [Hw [Hok Hdims]]].
  destruct (ity_eval_list _ _ _ (env_ok_ctl _ _ (inv_env _ _ _ I)) HI) as [is [E1 [E2 _]]].
  assert (HR : in_range (vdims w) is).
  { eapply access_in_range; [apply (inv_sat _ _ _ W I)| |exact HL|exact E2|exact Hdims].
    intros vc Hvc. apply HV, in_or_app. left. exact Hvc. }
  destruct (dty_eval _ _ _ W I rhs Hrhs) as [d Hd]; [intros vc Hvc; apply HV, in_or_app; right; exact Hvc|].
  destruct (cell_read_ok _ _ _ Hok HR) as [old Hold].
  destruct (cell_write_ok _ _ _ _ (dadd old d) Hok HR (inv_fresh _ _ _ I)) as [h' [Hwr [HLe HFr]]].
  exists (with_heap h' st). cbn [exec]. rewrite Hw. cbn [bind]. rewrite E1. cbn [bind]. rewrite Hd. cbn [bind as_data].
  rewrite Hold. cbn [bind]. rewrite Hwr. cbn [bind].
  split; [reflexivity|]. split; [|exact HLe]. unfold with_heap. apply inv_heap; assumption.
Qed.

Lemma sound_Pass : sound_s Pass.
Proof.
  intros D G vcs D' Hg W HV. cbn [gen_s] in Hg. inversion Hg. subst. split; [exact W|]. intros st I.
  exists st. cbn [exec]. split; [reflexivity|]. split; [exact I|apply heap_le_refl].
Qed.

Lemma sound_Alloc : forall x sh, sound_s (Alloc x sh).
Proof.
  intros x shape D G vcs D' Hg W HV. cbn [gen_s] in Hg.
  destruct (forallb (ity D) shape && fresh D x) eqn:Ec; [|discriminate Hg]. inversion Hg. subst. clear Hg.
  apply andb_true_iff in Ec as [HT HF]. apply fresh_lookup in HF.
  split; [apply ctx_wf_cons; [exact W|exact HF|]; intros dims E; inversion E; subst; exact HT|].
  intros st I.
  destruct (ity_eval_list _ _ _ (env_ok_ctl _ _ (inv_env _ _ _ I)) HT) as [sh [E1 [E2 _]]].
  assert (HP : all_pos sh = true) by (eapply pos_vcs_all_pos; [apply (inv_sat _ _ _ W I)|exact HV|exact E2]).
  cbn [exec]. rewrite E1. cbn [bind]. rewrite HP. unfold alloc_block.
  set (n := Z.to_nat (fold_right Z.mul 1 sh)). set (loc := s_next st).
  set (st1 := mkState (s_env st) ((loc, repeat None n) :: s_heap st) (Pos.succ loc) (s_cfg st)).
  exists (bind_var x (BView (mkView loc 0 (dense_dims sh))) st1). split; [reflexivity|].
  assert (HL : heap_le (s_heap st) (s_heap st1)).
  { intros l c Hc. exists c. split; [|reflexivity]. cbn [st1 s_heap]. rewrite lookup_cons_neq; [exact Hc|].
    pose proof (inv_fresh _ _ _ I _ _ Hc). unfold loc. lia. }
  assert (HFr : heap_fresh (s_heap st1) (s_next st1)).
  { intros l c Hc. cbn [st1 s_heap s_next] in *. destruct (Pos.eq_dec l loc) as [->|Hn]; [lia|].
    rewrite lookup_cons_neq in Hc by exact Hn. pose proof (inv_fresh _ _ _ I _ _ Hc). unfold loc. lia. }
  assert (I1 : inv D G st1) by (apply inv_heap; assumption).
  split; [|exact HL].
  apply (inv_bind D G st1); [exact W|exact I1|exact HF|]. cbn [binding_ok]. split.
  - intros is off Hf. cbn [vdims voff vloc] in *. apply dense_flat_bound in Hf.
    exists (repeat None n). cbn [bind_var s_heap st1]. split; [apply lookup_cons_eq|].
    rewrite repeat_length. unfold n. pose proof (all_pos_prod _ HP). lia.
  - cbn [vdims]. rewrite dense_dims_fst. rewrite <- E2.
    apply (ity_ceval_list_ext D); [|exact HT]. change (rho_of st) with (rho_of st1). apply rho_bind_agree. exact HF.
Qed.

Lemma sound_WindowS : forall x rhs, sound_s (WindowS x rhs).
Proof.
  intros x rhs D G vcs D' Hg W HV. cbn [gen_s] in Hg. destruct rhs; try discriminate Hg.
  rename x0 into y.
  destruct (buf_dims D y) as [dims|] eqn:Eb; [|discriminate Hg].
  destruct (Nat.eqb (length acc) (length dims) && wacc_ty D acc && fresh D x) eqn:Ec; [|discriminate Hg].
  inversion Hg. subst. clear Hg.
  apply andb_true_iff in Ec as [Ec HF]. apply andb_true_iff in Ec as [HL HT]. apply fresh_lookup in HF.
  split; [apply ctx_wf_cons; [exact W|exact HF|]; intros d E; inversion E; subst; apply window_dims_typed; exact HT|].
  intros st I.
  destruct (window_view _ _ _ _ _ _ W I Eb HL HT HV) as [w [Ew [Hok Hd]]].
  exists (bind_var x (BView w) st). cbn [exec]. rewrite Ew. cbn [bind].
  split; [reflexivity|]. split; [|apply heap_le_refl].
  apply inv_bind; [exact W|exact I|exact HF|]. cbn [binding_ok]. split; [exact Hok|].
  rewrite <- Hd. apply (ity_ceval_list_ext D); [apply rho_bind_agree; exact HF|apply window_dims_typed; exact HT].
Qed.

(** ** guards *)
Lemma sound_If : forall c b o, Forall sound_s b -> Forall sound_s o -> sound_s (If c b o).
Proof.
  intros c b o Hb Ho D G vcs D' Hg W HV. rewrite gen_s_If in Hg.
  destruct (bty D c) eqn:Hc; [|discriminate Hg].
  destruct (gen_list D (c :: G) b) as [[v1 D1]|] eqn:E1; [|discriminate Hg].
  destruct (gen_list D (e_not c :: G) o) as [[v2 D2]|] eqn:E2; [|discriminate Hg].
  injection Hg as Hv HD. subst vcs D'. split; [exact W|]. intros st I.
  destruct (bty_eval _ _ _ (env_ok_ctl _ _ (inv_env _ _ _ I)) Hc) as [bv [Ev Cv]].
  rewrite exec_If, Ev. cbn [bind as_bool]. unfold scoped.
  assert (Hnot : bty D (e_not c) = true) by (unfold e_not; cbn [bty]; rewrite Hc; apply orb_true_r).
  destruct bv.
  - destruct (sound_list _ Hb _ _ _ _ E1 (ctx_wf_hyp _ _ _ W Hc)) as [_ X];
      [intros vc Hvc; apply HV, in_or_app; left; exact Hvc|].
    destruct (X st (inv_hyp _ _ _ _ I Cv)) as [st' [Ex [I' L']]]. rewrite Ex. cbn [bind].
    eexists. split; [reflexivity|]. split; [eapply inv_leave; eassumption|exact L'].
  - destruct (sound_list _ Ho _ _ _ _ E2 (ctx_wf_hyp _ _ _ W Hnot)) as [_ X];
      [intros vc Hvc; apply HV, in_or_app; right; exact Hvc|].
    assert (Cn : holds (rho_of st) (e_not c)) by (unfold holds, e_not; cbn [ceval]; rewrite Cv; reflexivity).
    destruct (X st (inv_hyp _ _ _ _ I Cn)) as [st' [Ex [I' L']]]. rewrite Ex. cbn [bind].
    eexists. split; [reflexivity|]. split; [eapply inv_leave; eassumption|exact L'].
Qed.

(** ** loops *)
Lemma sound_For : forall i lo hi b par, Forall sound_s b -> sound_s (For i lo hi b par).
Proof.
  intros i lo hi b par Hb D G vcs D' Hg W HV. rewrite gen_s_For in Hg.
  destruct (ity D lo && ity D hi && fresh D i) eqn:Ec; [|discriminate Hg].
  destruct (gen_list ((i, TInt) :: D) (e_le lo (Var i) :: e_lt (Var i) hi :: G) b) as [[v D1]|] eqn:E1; [|discriminate Hg].
  injection Hg as Hv HD. subst vcs D'. split; [exact W|].
  apply andb_true_iff in Ec as [Ec HF]. apply andb_true_iff in Ec as [Hlo Hhi]. apply fresh_lookup in HF.
  pose proof (extends_cons D i TInt HF) as HE.
  assert (Hi : ity ((i, TInt) :: D) (Var i) = true) by (cbn [ity]; rewrite lookup_cons_eq; reflexivity).
  assert (W1 : ctx_wf ((i, TInt) :: D) (e_le lo (Var i) :: e_lt (Var i) hi :: G)).
  { apply ctx_wf_hyp; [apply ctx_wf_hyp; [apply ctx_wf_cons; [exact W|exact HF|discriminate]|]|].
    - unfold e_lt, e_le. cbn [bty]. apply andb_true_iff. split; first [exact Hi | apply (ity_weaken _ _ _ HE); assumption].
    - unfold e_lt, e_le. cbn [bty]. apply andb_true_iff. split; first [exact Hi | apply (ity_weaken _ _ _ HE); assumption]. }
  destruct (sound_list _ Hb _ _ _ _ E1 W1) as [_ X]; [intros vc Hvc; apply HV; right; exact Hvc|].
  intros st I.
  pose proof (env_ok_ctl _ _ (inv_env _ _ _ I)) as HC.
  destruct (ity_eval _ _ _ HC Hlo) as [l [L1 L2]]. destruct (ity_eval _ _ _ HC Hhi) as [h [H1 H2]].
  assert (Hlh : l <= h).
  { eapply holds_le; [exact L2|exact H2|]. eapply vc_use; [exact W|exact I|]. apply HV. left. reflexivity. }
  rewrite exec_For, L1. cbn [bind as_int]. rewrite H1. cbn [bind as_int].
  replace (h <? l) with false by (symmetry; apply Z.ltb_ge; lia).
  assert (Hloop : forall n k stk, l <= k -> k + Z.of_nat n <= h -> inv D G stk -> s_env stk = s_env st ->
            exists st', iter_loop n k (loop_body i b) stk = Ok st' /\ inv D G st' /\ heap_le (s_heap stk) (s_heap st')).
  { induction n as [|n IH]; intros k stk Hk Hn Ik Henv; cbn [iter_loop].
    - exists stk. split; [reflexivity|]. split; [exact Ik|apply heap_le_refl].
    - set (stb := bind_var i (BVal (VInt k)) stk).
      assert (HA : agree_on D (rho_of stb) (rho_of st)).
      { intros y Hy. unfold stb. rewrite (rho_bind_agree D i _ stk HF y Hy). unfold rho_of. rewrite Henv. reflexivity. }
      assert (Ib0 : inv ((i, TInt) :: D) G stb) by (apply inv_bind; [exact W|exact Ik|exact HF|exact Logic.I]).
      assert (Rk : rho_of stb i = VInt k) by (unfold rho_of, rho_of_env, stb, bind_var; cbn [s_env]; rewrite lookup_cons_eq; reflexivity).
      assert (Ib : inv ((i, TInt) :: D) (e_le lo (Var i) :: e_lt (Var i) hi :: G) stb).
      { apply inv_hyp; [apply inv_hyp; [exact Ib0|]|].
        - unfold holds, e_lt. cbn [ceval]. rewrite Rk, (ity_ceval_ext D _ _ hi HA Hhi), H2. cbn [eval_binop].
          replace (k <? h) with true by (symmetry; apply Z.ltb_lt; lia). reflexivity.
        - unfold holds, e_le. cbn [ceval]. rewrite Rk, (ity_ceval_ext D _ _ lo HA Hlo), L2. cbn [eval_binop].
          replace (l <=? k) with true by (symmetry; apply Z.leb_le; lia). reflexivity. }
      destruct (X stb Ib) as [st' [Ex [I' L']]].
      unfold loop_body at 1. fold stb. rewrite Ex. cbn [bind].
      assert (Ik' : inv D G (with_env (s_env stk) st')) by (eapply inv_leave; [exact Ik|exact I'|exact L']).
      destruct (IH (k + 1) (with_env (s_env stk) st')) as [st2 [Ex2 [I2 L2']]]; [lia|lia|exact Ik'|exact Henv|].
      exists st2. split; [exact Ex2|]. split; [exact I2|]. eapply heap_le_trans; [exact L'|exact L2']. }
  destruct (Hloop (Z.to_nat (h - l)) l st) as [st' [Ex [I' L']]]; [lia|lia|exact I|reflexivity|].
  exists st'. auto.
Qed.
