(** * Views, blocks and heaps: the memory part of the safety invariant (property C03) *)
From Coq Require Import ZArith List Bool Lia.
From Core Require Import Syntax Sem Equiv.
From Bounds Require Import VC VCGen ProofsBase.
Import ListNotations.
Local Open Scope Z_scope.

(** every index tuple the view admits addresses a cell of its block *)
Definition view_ok (h : heap) (w : view) : Prop :=
  forall is off, flat_index (vdims w) is (voff w) = Ok off ->
    exists cells, lookup (vloc w) h = Some cells /\ 0 <= off < Z.of_nat (length cells).

Definition heap_le (h h' : heap) : Prop :=
  forall loc cells, lookup loc h = Some cells ->
    exists cells', lookup loc h' = Some cells' /\ length cells' = length cells.

Definition heap_fresh (h : heap) (nx : positive) : Prop :=
  forall loc cells, lookup loc h = Some cells -> (loc < nx)%positive.

Lemma heap_le_refl : forall h, heap_le h h.
Proof. intros h loc cells H. exists cells. auto. Qed.

Lemma heap_le_trans : forall a b c, heap_le a b -> heap_le b c -> heap_le a c.
Proof.
  intros a b c H1 H2 loc cells H. destruct (H1 _ _ H) as [c1 [L1 E1]]. destruct (H2 _ _ L1) as [c2 [L2 E2]].
  exists c2. split; [exact L2|congruence].
Qed.

Lemma view_ok_mono : forall h h' w, heap_le h h' -> view_ok h w -> view_ok h' w.
Proof.
  intros h h' w HL HV is off Hf. destruct (HV _ _ Hf) as [cells [L B]]. destruct (HL _ _ L) as [c' [L' E']].
  exists c'. rewrite E'. auto.
Qed.

(** ** index tuples in range *)
Inductive in_range : list (Z * Z) -> list Z -> Prop :=
| IR_nil : in_range [] []
| IR_cons : forall n s dr i ir, 0 <= i < n -> in_range dr ir -> in_range ((n, s) :: dr) (i :: ir).

Lemma flat_index_in_range : forall dims is acc, in_range dims is -> exists off, flat_index dims is acc = Ok off.
Proof.
  intros dims is acc H. revert acc. induction H; intro acc; cbn [flat_index].
  - eauto.
  - replace ((0 <=? i) && (i <? n)) with true by (symmetry; apply andb_true_iff; split; [apply Z.leb_le|apply Z.ltb_lt]; lia).
    apply IHin_range.
Qed.

Lemma in_range_of_bounds : forall (dims : list (Z * Z)) (is : list Z),
  length is = length dims ->
  (forall k i n, nth_error is k = Some i -> nth_error (map fst dims) k = Some n -> 0 <= i < n) ->
  in_range dims is.
Proof.
  induction dims as [|[n s] dr IH]; intros [|i ir] HL HB; cbn [length] in HL; try discriminate HL.
  - constructor.
  - constructor.
    + apply (HB O i n); reflexivity.
    + apply IH; [congruence|]. intros k i' n' H1 H2. apply (HB (S k)); assumption.
Qed.

(** ** association-list updates *)
Lemma lookup_update_eq : forall {A} k (a : A) l, lookup k (update k a l) = Some a.
Proof.
  induction l as [|[k' a'] r IH]; cbn [update lookup].
  - rewrite Pos.eqb_refl. reflexivity.
  - destruct (Pos.eqb k k') eqn:E; cbn [lookup]; [rewrite Pos.eqb_refl; reflexivity|rewrite E; exact IH].
Qed.

Lemma lookup_update_neq : forall {A} k k' (a : A) l, k' <> k -> lookup k' (update k a l) = lookup k' l.
Proof.
  induction l as [|[k0 a0] r IH]; intro Hn; cbn [update lookup].
  - destruct (Pos.eqb k' k) eqn:E; [apply Pos.eqb_eq in E; contradiction|reflexivity].
  - destruct (Pos.eqb k k0) eqn:E; cbn [lookup].
    + apply Pos.eqb_eq in E. subst k0.
      destruct (Pos.eqb k' k) eqn:E'; [apply Pos.eqb_eq in E'; contradiction|reflexivity].
    + destruct (Pos.eqb k' k0); [reflexivity|apply IH; exact Hn].
Qed.

Lemma set_nth_length : forall {A} n (a : A) l, length (set_nth n a l) = length l.
Proof. intros A n a l. revert n. induction l as [|x r IH]; intros [|n]; cbn [set_nth length]; auto. Qed.

(** ** cell accesses *)
Lemma cell_read_ok : forall h w is, view_ok h w -> in_range (vdims w) is -> exists d, cell_read h w is = Ok d.
Proof.
  intros h w is HV HR. destruct (flat_index_in_range _ _ (voff w) HR) as [off Hoff].
  destruct (HV _ _ Hoff) as [cells [L B]]. unfold cell_read. rewrite Hoff. cbn [bind]. rewrite L.
  replace ((0 <=? off) && (off <? Z.of_nat (length cells))) with true
    by (symmetry; apply andb_true_iff; split; [apply Z.leb_le|apply Z.ltb_lt]; lia).
  eauto.
Qed.

Lemma cell_write_ok : forall h nx w is d, view_ok h w -> in_range (vdims w) is -> heap_fresh h nx ->
  exists h', cell_write h w is d = Ok h' /\ heap_le h h' /\ heap_fresh h' nx.
Proof.
  intros h nx w is d HV HR HF. destruct (flat_index_in_range _ _ (voff w) HR) as [off Hoff].
  destruct (HV _ _ Hoff) as [cells [L B]]. unfold cell_write. rewrite Hoff. cbn [bind]. rewrite L.
  replace ((0 <=? off) && (off <? Z.of_nat (length cells))) with true
    by (symmetry; apply andb_true_iff; split; [apply Z.leb_le|apply Z.ltb_lt]; lia).
  eexists. split; [reflexivity|]. split.
  - intros loc c Hc. destruct (Pos.eq_dec loc (vloc w)) as [->|Hn].
    + rewrite lookup_update_eq. eexists. split; [reflexivity|]. rewrite set_nth_length. congruence.
    + rewrite (lookup_update_neq _ _ _ _ Hn). eauto.
  - intros loc c Hc. destruct (Pos.eq_dec loc (vloc w)) as [->|Hn].
    + apply (HF _ _ L).
    + rewrite (lookup_update_neq _ _ _ _ Hn) in Hc. apply (HF _ _ Hc).
Qed.

(** ** dense allocations *)
Lemma dense_flat_bound : forall sh is acc off,
  flat_index (dense_dims sh) is acc = Ok off -> acc <= off < acc + fold_right Z.mul 1 sh.
Proof.
  induction sh as [|n r IH]; intros is acc off; cbn [dense_dims flat_index fold_right].
  - destruct is; [|discriminate]. intro H. inversion H. lia.
  - destruct is as [|i ir]; [discriminate|].
    destruct ((0 <=? i) && (i <? n)) eqn:E; [|discriminate]. intro H. apply IH in H.
    apply andb_true_iff in E as [E1 E2]. apply Z.leb_le in E1. apply Z.ltb_lt in E2.
    set (P := fold_right Z.mul 1 r) in *. nia.
Qed.

Lemma dense_dims_fst : forall sh, map fst (dense_dims sh) = sh.
Proof. induction sh as [|n r IH]; cbn [dense_dims map fst]; [reflexivity|rewrite IH; reflexivity]. Qed.

Lemma all_pos_prod : forall sh, all_pos sh = true -> 0 < fold_right Z.mul 1 sh.
Proof.
  induction sh as [|n r IH]; cbn [all_pos fold_right]; intro H; [lia|].
  apply andb_true_iff in H as [A B]. apply Z.ltb_lt in A. specialize (IH B). nia.
Qed.

(** ** windows *)
Lemma apply_window_sub : forall dims av off off' dims',
  apply_window dims av off = Ok (off', dims') ->
  forall is' o c, flat_index dims' is' (off' + c) = Ok o -> exists is, flat_index dims is (off + c) = Ok o.
Proof.
  induction dims as [|[n s] dr IH]; intros av off off' dims'; cbn [apply_window].
  - destruct av; [|discriminate]. intro H. inversion H. subst. intros is' o c Hf. exists is'. exact Hf.
  - destruct av as [|[i|lo hi] ar]; [discriminate| |].
    + destruct ((0 <=? i) && (i <? n)) eqn:E; [|discriminate]. intro H. intros is' o c Hf.
      destruct (IH _ _ _ _ H is' o c Hf) as [is Hi]. exists (i :: is). cbn [flat_index]. rewrite E.
      replace (off + c + i * s) with (off + i * s + c) by lia. exact Hi.
    + destruct ((0 <=? lo) && (lo <=? hi) && (hi <=? n)) eqn:E; [|discriminate].
      destruct (apply_window dr ar (off + lo * s)) as [[off1 d1]|] eqn:Hr; cbn [bind]; [|discriminate].
      intro H. inversion H. subst off' dims'. clear H. intros is' o c Hf.
      destruct is' as [|j ir]; cbn [flat_index] in Hf; [discriminate|].
      destruct ((0 <=? j) && (j <? hi - lo)) eqn:Ej; [|discriminate].
      replace (off1 + c + j * s) with (off1 + (c + j * s)) in Hf by lia.
      destruct (IH _ _ _ _ Hr ir o (c + j * s) Hf) as [is Hi]. exists ((lo + j) :: is). cbn [flat_index].
      apply andb_true_iff in E as [E E3]. apply andb_true_iff in E as [E1 E2].
      apply andb_true_iff in Ej as [J1 J2].
      apply Z.leb_le in E1, E2, E3, J1. apply Z.ltb_lt in J2.
      replace ((0 <=? lo + j) && (lo + j <? n)) with true
        by (symmetry; apply andb_true_iff; split; [apply Z.leb_le|apply Z.ltb_lt]; lia).
      replace (off + c + (lo + j) * s) with (off + lo * s + (c + j * s)) by lia. exact Hi.
Qed.

Lemma view_ok_window : forall h w av off' dims',
  view_ok h w -> apply_window (vdims w) av (voff w) = Ok (off', dims') -> view_ok h (mkView (vloc w) off' dims').
Proof.
  intros h w av off' dims' HV HA is off Hf. cbn [vdims voff vloc] in *.
  replace off' with (off' + 0) in Hf by lia.
  destruct (apply_window_sub _ _ _ _ _ HA is off 0 Hf) as [is0 Hi]. replace (voff w + 0) with (voff w) in Hi by lia.
  exact (HV _ _ Hi).
Qed.

(** extents selected by a window access list *)
Fixpoint wdims_v (av : list wacc_v) : list Z :=
  match av with
  | [] => []
  | PointV _ :: r => wdims_v r
  | IntervalV lo hi :: r => (hi - lo) :: wdims_v r
  end.

Inductive wacc_in : list (Z * Z) -> list wacc_v -> Prop :=
| WI_nil : wacc_in [] []
| WI_pt : forall n s dr i ar, 0 <= i < n -> wacc_in dr ar -> wacc_in ((n, s) :: dr) (PointV i :: ar)
| WI_iv : forall n s dr lo hi ar, 0 <= lo -> lo <= hi -> hi <= n -> wacc_in dr ar ->
          wacc_in ((n, s) :: dr) (IntervalV lo hi :: ar).

Lemma apply_window_ok : forall dims av off, wacc_in dims av ->
  exists off' dims', apply_window dims av off = Ok (off', dims') /\ map fst dims' = wdims_v av.
Proof.
  intros dims av off H. revert off. induction H; intro off; cbn [apply_window wdims_v].
  - exists off, []. auto.
  - replace ((0 <=? i) && (i <? n)) with true by (symmetry; apply andb_true_iff; split; [apply Z.leb_le|apply Z.ltb_lt]; lia).
    apply IHwacc_in.
  - replace ((0 <=? lo) && (lo <=? hi) && (hi <=? n)) with true
      by (symmetry; rewrite !andb_true_iff; repeat split; apply Z.leb_le; lia).
    destruct (IHwacc_in (off + lo * s)) as [o1 [d1 [E1 E2]]]. rewrite E1. cbn [bind].
    exists o1, ((hi - lo, s) :: d1). cbn [map fst]. rewrite E2. auto.
Qed.

(** ** argument buffers of a run: [inbuf_ok] gives [view_ok] *)
Lemma view_span_bound : forall dims lo hi is acc off,
  view_span dims = Some (lo, hi) -> flat_index dims is acc = Ok off -> acc + lo <= off <= acc + hi.
Proof.
  induction dims as [|[n s] dr IH]; intros lo hi is acc off; cbn [view_span flat_index].
  - intro H. inversion H. subst. destruct is; [|discriminate]. intro H1. inversion H1. lia.
  - destruct (0 <? n) eqn:En; [|discriminate].
    destruct (view_span dr) as [[l1 h1]|] eqn:Hs; [|discriminate]. intro H. inversion H. subst lo hi. clear H.
    destruct is as [|i ir]; [discriminate|].
    destruct ((0 <=? i) && (i <? n)) eqn:E; [|discriminate]. intro Hf.
    specialize (IH _ _ _ _ _ eq_refl Hf).
    apply andb_true_iff in E as [E1 E2]. apply Z.leb_le in E1. apply Z.ltb_lt in E2.
    assert (Z.min 0 ((n - 1) * s) <= i * s <= Z.max 0 ((n - 1) * s)).
    { destruct (Z.le_gt_cases 0 s) as [Hs0|Hs0].
      - assert (0 <= (n - 1) * s) by nia. rewrite Z.min_l, Z.max_r by lia. nia.
      - assert ((n - 1) * s <= 0) by nia. rewrite Z.min_r, Z.max_l by lia. nia. }
    lia.
Qed.

Lemma inbuf_view_ok : forall off dims cells loc h,
  inbuf_ok (InBuf off dims cells) = true -> lookup loc h = Some cells -> view_ok h (mkView loc off dims).
Proof.
  intros off dims cells loc h H L is o Hf. cbn [vdims voff vloc] in *. cbn [inbuf_ok] in H.
  destruct (view_span dims) as [[lo hi]|] eqn:Hs; [|discriminate].
  apply andb_true_iff in H as [A B]. apply Z.leb_le in A. apply Z.ltb_lt in B.
  pose proof (view_span_bound _ _ _ _ _ _ Hs Hf). exists cells. split; [exact L|lia].
Qed.
