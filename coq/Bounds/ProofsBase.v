(** * Basic facts: valuations vs. runtime environments, typing implies evaluation (property C03) *)
From Coq Require Import ZArith List Bool Lia.
From Core Require Import Syntax Sem Equiv.
From Bounds Require Import VC VCGen.
Import ListNotations.
Local Open Scope Z_scope.

(** ** association lists *)
Lemma lookup_cons_eq : forall {A} x (a : A) l, lookup x ((x, a) :: l) = Some a.
Proof. intros. cbn [lookup]. rewrite Pos.eqb_refl. reflexivity. Qed.

Lemma lookup_cons_neq : forall {A} x y (a : A) l, x <> y -> lookup x ((y, a) :: l) = lookup x l.
Proof. intros. cbn [lookup]. destruct (Pos.eqb x y) eqn:E; [apply Pos.eqb_eq in E; contradiction|reflexivity]. Qed.

Lemma lookup_app : forall {A} x (l1 l2 : list (positive * A)),
  lookup x (l1 ++ l2) = match lookup x l1 with Some a => Some a | None => lookup x l2 end.
Proof.
  induction l1 as [|[k a] r IH]; intros; cbn [app lookup]; [reflexivity|].
  destruct (Pos.eqb x k); [reflexivity|apply IH].
Qed.

(** ** the valuation read off a runtime environment *)
Definition rho_of_env (e : env) : valuation :=
  fun x => match lookup x e with Some (BVal v) => v | _ => VInt 0 end.
Definition rho_of (st : state) : valuation := rho_of_env (s_env st).

(** ** typing implies evaluation, and agreement of [ceval] with [Core.Sem.eval] *)
Definition ctl_ok (D : tenv) (st : state) : Prop :=
  forall x, match lookup x D with
            | Some TInt => exists z, lookup x (s_env st) = Some (BVal (VInt z))
            | Some TBool => exists b, lookup x (s_env st) = Some (BVal (VBool b))
            | _ => True
            end.

Lemma ity_eval : forall D st e, ctl_ok D st -> ity D e = true ->
  exists z, eval st e = Ok (VInt z) /\ ceval (rho_of st) e = Some (VInt z).
Proof.
  intros D st e HD. induction e; cbn [ity]; intro H; try discriminate H.
  - (* Var *) specialize (HD x). destruct (lookup x D) as [[| |]|]; try discriminate H.
    destruct HD as [z Hz]. exists z. cbn [eval ceval]. unfold rho_of, rho_of_env. rewrite Hz. auto.
  - (* Int *) exists z. auto.
  - (* USub *) destruct (IHe H) as [z [E1 E2]]. exists (- z). cbn [eval ceval]. rewrite E1, E2. auto.
  - (* BinOp *)
    destruct op; try discriminate H.
    + apply andb_true_iff in H as [Ha Hb]. destruct (IHe1 Ha) as [x [A1 A2]]. destruct (IHe2 Hb) as [y [B1 B2]].
      exists (x + y). cbn [eval ceval]. rewrite A1, A2, B1, B2. auto.
    + apply andb_true_iff in H as [Ha Hb]. destruct (IHe1 Ha) as [x [A1 A2]]. destruct (IHe2 Hb) as [y [B1 B2]].
      exists (x - y). cbn [eval ceval]. rewrite A1, A2, B1, B2. auto.
    + apply andb_true_iff in H as [Ha Hb]. destruct (IHe1 Ha) as [x [A1 A2]]. destruct (IHe2 Hb) as [y [B1 B2]].
      exists (x * y). cbn [eval ceval]. rewrite A1, A2, B1, B2. auto.
    + destruct e2; try discriminate H. apply andb_true_iff in H as [Ha Hc].
      destruct (IHe1 Ha) as [x [A1 A2]]. exists (x / z). cbn [eval ceval]. rewrite A1, A2. cbn [bind eval_binop]. rewrite Hc. auto.
    + destruct e2; try discriminate H. apply andb_true_iff in H as [Ha Hc].
      destruct (IHe1 Ha) as [x [A1 A2]]. exists (x mod z). cbn [eval ceval]. rewrite A1, A2. cbn [bind eval_binop]. rewrite Hc. auto.
Qed.

Lemma bty_eval : forall D st e, ctl_ok D st -> bty D e = true ->
  exists b, eval st e = Ok (VBool b) /\ ceval (rho_of st) e = Some (VBool b).
Proof.
  intros D st e HD. induction e; cbn [bty]; intro H; try discriminate H.
  - specialize (HD x). destruct (lookup x D) as [[| |]|]; try discriminate H.
    destruct HD as [b Hb]. exists b. cbn [eval ceval]. unfold rho_of, rho_of_env. rewrite Hb. auto.
  - exists b. auto.
  - assert (Hint : ity D e1 && ity D e2 = true ->
             exists x y, eval st e1 = Ok (VInt x) /\ ceval (rho_of st) e1 = Some (VInt x) /\
                         eval st e2 = Ok (VInt y) /\ ceval (rho_of st) e2 = Some (VInt y)).
    { intros Hf. apply andb_true_iff in Hf as [Ha Hb].
      destruct (ity_eval D st e1 HD Ha) as [x [A1 A2]]. destruct (ity_eval D st e2 HD Hb) as [y [B1 B2]].
      exists x, y. auto. }
    assert (Hbool : bty D e1 && bty D e2 = true ->
             exists x y, eval st e1 = Ok (VBool x) /\ ceval (rho_of st) e1 = Some (VBool x) /\
                         eval st e2 = Ok (VBool y) /\ ceval (rho_of st) e2 = Some (VBool y)).
    { intros Hf. apply andb_true_iff in Hf as [Ha Hb].
      destruct (IHe1 Ha) as [x [A1 A2]]. destruct (IHe2 Hb) as [y [B1 B2]]. exists x, y. auto. }
    destruct op; try discriminate H.
    + destruct (Hbool H) as [x [y [A1 [A2 [B1 B2]]]]]. exists (x && y). cbn [eval ceval]. rewrite A1, A2, B1, B2. auto.
    + destruct (Hbool H) as [x [y [A1 [A2 [B1 B2]]]]]. exists (x || y). cbn [eval ceval]. rewrite A1, A2, B1, B2. auto.
    + destruct (Hint H) as [x [y [A1 [A2 [B1 B2]]]]]. exists (x <? y). cbn [eval ceval]. rewrite A1, A2, B1, B2. auto.
    + destruct (Hint H) as [x [y [A1 [A2 [B1 B2]]]]]. exists (y <? x). cbn [eval ceval]. rewrite A1, A2, B1, B2. auto.
    + destruct (Hint H) as [x [y [A1 [A2 [B1 B2]]]]]. exists (x <=? y). cbn [eval ceval]. rewrite A1, A2, B1, B2. auto.
    + destruct (Hint H) as [x [y [A1 [A2 [B1 B2]]]]]. exists (y <=? x). cbn [eval ceval]. rewrite A1, A2, B1, B2. auto.
    + apply orb_true_iff in H as [H|H].
      * destruct (Hint H) as [x [y [A1 [A2 [B1 B2]]]]]. exists (x =? y). cbn [eval ceval]. rewrite A1, A2, B1, B2. auto.
      * destruct (Hbool H) as [x [y [A1 [A2 [B1 B2]]]]]. exists (Bool.eqb x y). cbn [eval ceval]. rewrite A1, A2, B1, B2. auto.
Qed.

(** evaluation of integer expression lists *)
Lemma ity_eval_list : forall D st l, ctl_ok D st -> forallb (ity D) l = true ->
  exists zs, eval_ints st l = Ok zs /\ ceval_list (rho_of st) l = Some zs /\ length zs = length l.
Proof.
  intros D st l HD. induction l as [|e r IH]; cbn [forallb]; intro H.
  - exists []. auto.
  - apply andb_true_iff in H as [He Hr]. destruct (ity_eval D st e HD He) as [z [E1 E2]].
    destruct (IH Hr) as [zs [R1 [R2 R3]]]. exists (z :: zs). cbn [eval_ints ceval_list length].
    rewrite E1, E2, R1, R2. cbn [bind as_int]. auto.
Qed.

(** ** [ceval] only looks at the variables of the typing context *)
Definition is_ctl (t : option sty) : bool :=
  match t with Some TInt | Some TBool => true | _ => false end.

Definition agree_on (D : tenv) (r1 r2 : valuation) : Prop :=
  forall x, is_ctl (lookup x D) = true -> r1 x = r2 x.

Lemma ity_ceval_ext : forall D r1 r2 e, agree_on D r1 r2 -> ity D e = true -> ceval r1 e = ceval r2 e.
Proof.
  intros D r1 r2 e HA. induction e; cbn [ity]; intro H; try discriminate H; cbn [ceval].
  - rewrite (HA x); [reflexivity|]. destruct (lookup x D) as [[| |]|]; try discriminate H; reflexivity.
  - reflexivity.
  - rewrite (IHe H). reflexivity.
  - destruct op; try discriminate H;
      try (apply andb_true_iff in H as [Ha Hb]; rewrite (IHe1 Ha), (IHe2 Hb); reflexivity);
      (destruct e2; try discriminate H; apply andb_true_iff in H as [Ha _]; rewrite (IHe1 Ha); reflexivity).
Qed.

Lemma bty_ceval_ext : forall D r1 r2 e, agree_on D r1 r2 -> bty D e = true -> ceval r1 e = ceval r2 e.
Proof.
  intros D r1 r2 e HA. induction e; cbn [bty]; intro H; try discriminate H; cbn [ceval].
  - rewrite (HA x); [reflexivity|]. destruct (lookup x D) as [[| |]|]; try discriminate H; reflexivity.
  - reflexivity.
  - assert (Hint : ity D e1 && ity D e2 = true -> ceval r1 e1 = ceval r2 e1 /\ ceval r1 e2 = ceval r2 e2).
    { intro Hf. apply andb_true_iff in Hf as [Ha Hb]. split; apply (ity_ceval_ext D); assumption. }
    assert (Hbool : bty D e1 && bty D e2 = true -> ceval r1 e1 = ceval r2 e1 /\ ceval r1 e2 = ceval r2 e2).
    { intro Hf. apply andb_true_iff in Hf as [Ha Hb]. split; [apply IHe1|apply IHe2]; assumption. }
    destruct op; try discriminate H;
      try (destruct (Hint H) as [E1 E2]; rewrite E1, E2; reflexivity);
      try (destruct (Hbool H) as [E1 E2]; rewrite E1, E2; reflexivity).
    apply orb_true_iff in H as [H|H]; [destruct (Hint H) as [E1 E2]|destruct (Hbool H) as [E1 E2]]; rewrite E1, E2; reflexivity.
Qed.

Lemma ity_ceval_list_ext : forall D r1 r2 l, agree_on D r1 r2 -> forallb (ity D) l = true ->
  ceval_list r1 l = ceval_list r2 l.
Proof.
  intros D r1 r2 l HA. induction l as [|e r IH]; cbn [forallb ceval_list]; intro H; [reflexivity|].
  apply andb_true_iff in H as [He Hr]. rewrite (ity_ceval_ext D r1 r2 e HA He), (IH Hr). reflexivity.
Qed.

(** ** weakening of typing under fresh extension *)
Lemma fresh_lookup : forall D x, fresh D x = true -> lookup x D = None.
Proof. unfold fresh. intros D x. destruct (lookup x D); [discriminate|reflexivity]. Qed.

Definition extends (D D' : tenv) : Prop := forall x t, lookup x D = Some t -> lookup x D' = Some t.

Lemma extends_refl : forall D, extends D D.
Proof. intros D x t H. exact H. Qed.

Lemma extends_trans : forall A B C, extends A B -> extends B C -> extends A C.
Proof. intros A B C H1 H2 x t H. apply H2, H1, H. Qed.

Lemma extends_cons : forall D x t, lookup x D = None -> extends D ((x, t) :: D).
Proof.
  intros D x t Hx y ty Hy. rewrite lookup_cons_neq; [exact Hy|]. intro E. subst. rewrite Hx in Hy. discriminate.
Qed.

Lemma ity_weaken : forall D D' e, extends D D' -> ity D e = true -> ity D' e = true.
Proof.
  intros D D' e HE. induction e; cbn [ity]; intro H; try discriminate H; try reflexivity.
  - destruct (lookup x D) as [[| |]|] eqn:E; try discriminate H. rewrite (HE _ _ E). reflexivity.
  - auto.
  - destruct op; try discriminate H;
      try (apply andb_true_iff in H as [Ha Hb]; rewrite (IHe1 Ha), (IHe2 Hb); reflexivity);
      (destruct e2; try discriminate H; apply andb_true_iff in H as [Ha Hc]; rewrite (IHe1 Ha), Hc; reflexivity).
Qed.

Lemma bty_weaken : forall D D' e, extends D D' -> bty D e = true -> bty D' e = true.
Proof.
  intros D D' e HE. induction e; cbn [bty]; intro H; try discriminate H; try reflexivity.
  - destruct (lookup x D) as [[| |]|] eqn:E; try discriminate H. rewrite (HE _ _ E). reflexivity.
  - assert (Hint : ity D e1 && ity D e2 = true -> ity D' e1 && ity D' e2 = true).
    { intro Hf. apply andb_true_iff in Hf as [Ha Hb]. rewrite (ity_weaken D D' e1 HE Ha), (ity_weaken D D' e2 HE Hb). reflexivity. }
    assert (Hbool : bty D e1 && bty D e2 = true -> bty D' e1 && bty D' e2 = true).
    { intro Hf. apply andb_true_iff in Hf as [Ha Hb]. rewrite (IHe1 Ha), (IHe2 Hb). reflexivity. }
    destruct op; try discriminate H; auto.
    apply orb_true_iff in H as [H|H]; apply orb_true_iff; [left|right]; auto.
Qed.

Lemma forallb_ity_weaken : forall D D' l, extends D D' -> forallb (ity D) l = true -> forallb (ity D') l = true.
Proof.
  intros D D' l HE. induction l as [|e r IH]; cbn [forallb]; intro H; [reflexivity|].
  apply andb_true_iff in H as [He Hr]. rewrite (ity_weaken D D' e HE He), (IH Hr). reflexivity.
Qed.

(** ** decoding goals *)
Lemma holds_in_bounds : forall rho e d i n,
  ceval rho e = Some (VInt i) -> ceval rho d = Some (VInt n) -> holds rho (in_bounds e d) -> 0 <= i < n.
Proof.
  unfold holds, in_bounds, e_and, e_le, e_lt. intros rho e d i n He Hd. cbn [ceval]. rewrite He, Hd. cbn [eval_binop].
  intro H. inversion H as [H1]. apply andb_true_iff in H1 as [A B]. lia.
Qed.

Lemma holds_in_interval : forall rho lo hi d l h n,
  ceval rho lo = Some (VInt l) -> ceval rho hi = Some (VInt h) -> ceval rho d = Some (VInt n) ->
  holds rho (in_interval lo hi d) -> 0 <= l /\ l <= h /\ h <= n.
Proof.
  unfold holds, in_interval, e_and, e_le. intros rho lo hi d l h n Hl Hh Hd. cbn [ceval]. rewrite Hl, Hh, Hd. cbn [eval_binop].
  intro H. inversion H as [H1]. apply andb_true_iff in H1 as [A B]. apply andb_true_iff in B as [B C]. lia.
Qed.

Lemma holds_le : forall rho a b x y,
  ceval rho a = Some (VInt x) -> ceval rho b = Some (VInt y) -> holds rho (e_le a b) -> x <= y.
Proof.
  unfold holds, e_le. intros rho a b x y Ha Hb. cbn [ceval]. rewrite Ha, Hb. cbn [eval_binop]. intro H. inversion H. lia.
Qed.

Lemma holds_lt : forall rho a b x y,
  ceval rho a = Some (VInt x) -> ceval rho b = Some (VInt y) -> holds rho (e_lt a b) -> x < y.
Proof.
  unfold holds, e_lt. intros rho a b x y Ha Hb. cbn [ceval]. rewrite Ha, Hb. cbn [eval_binop]. intro H. inversion H. lia.
Qed.

Lemma holds_eq_int : forall rho a b x y,
  ceval rho a = Some (VInt x) -> ceval rho b = Some (VInt y) -> holds rho (e_eq a b) -> x = y.
Proof.
  unfold holds, e_eq. intros rho a b x y Ha Hb. cbn [ceval]. rewrite Ha, Hb. cbn [eval_binop]. intro H. inversion H. lia.
Qed.
