(** * Soundness of [vcgen] against [Core.Sem.run], and examples (property C03) *)
From Coq Require Import ZArith List Bool Lia ZifyBool QArith Qcanon.
From Core Require Import Syntax Sem Equiv.
From Bounds Require Import VC VCGen ProofsBase ProofsMem ProofsInv ProofsExpr ProofsStmt ProofsProc ProofsCall.
Import ListNotations.
Local Open Scope Z_scope.

(** statements the generator rejects are vacuously sound *)
Lemma sound_WriteCfg : forall c rhs, sound_s (WriteCfg c rhs).
Proof. intros c rhs D G vcs D' Hg. cbn [gen_s] in Hg. discriminate Hg. Qed.

Theorem all_sound : forall s, sound_s s.
Proof.
  apply stmt_ind2.
  - apply sound_Assign.
  - apply sound_Reduce.
  - apply sound_WriteCfg.
  - apply sound_Pass.
  - apply sound_If.
  - apply sound_For.
  - apply sound_Alloc.
  - apply sound_Call.
  - apply sound_WindowS.
Qed.

Lemma all_sound_list : forall l, sound_l l.
Proof. intro l. apply sound_list. apply Forall_forall. intros s _. apply all_sound. Qed.

(** the invalid VC *)
Lemma vc_false_invalid : ~ valid vc_false.
Proof.
  intro H. specialize (H (fun _ => VInt 0)). unfold vc_false, holds in H. cbn in H.
  assert (X : Some (VBool false) = Some (VBool true)) by (apply H; [intros x b []|intros h []]). discriminate X.
Qed.

(** a procedure all of whose VCs are valid is in the fragment *)
Lemma valid_typed : forall p, (forall vc, In vc (vcgen p) -> valid vc) -> typed p = true.
Proof.
  intros p H. unfold typed, vcgen in *. destruct (vcgen_opt p); [reflexivity|].
  exfalso. apply vc_false_invalid. apply H. left. reflexivity.
Qed.

(** ** main theorem *)
Theorem vcgen_sound : forall p,
  typed p = true ->
  (forall vc, In vc (vcgen p) -> valid vc) ->
  forall inp, (forall e, run p inp <> Invalid e) ->
  exists bufs cfg, run p inp = Done bufs cfg.
Proof.
  intros [fs preds body] HT HV inp Hni. unfold typed, vcgen in *.
  destruct (vcgen_opt (Proc fs preds body)) as [vcs|] eqn:Eg; [|discriminate HT]. clear HT.
  unfold vcgen_opt in Eg.
  destruct (formals_ctx fs []) as [D0|] eqn:HF; [|discriminate Eg].
  destruct (forallb (bty D0) preds) eqn:Hps; [|discriminate Eg].
  destruct (gen_list D0 (size_hyps fs ++ preds) body) as [[v Db]|] eqn:Eb; [|discriminate Eg].
  inversion Eg. subst vcs. clear Eg.
  unfold run in *.
  destruct (forallb inbuf_ok (in_args inp)) eqn:Hin; [|exfalso; apply (Hni OOB); reflexivity].
  set (st0 := mkState [] [] 1%positive (in_cfg inp)) in *.
  destruct (load_inputs (in_args inp) st0) as [bs st1] eqn:El.
  destruct (bind_args fs bs st1) as [st2|e] eqn:Ebind; [|exfalso; apply (Hni e); reflexivity].
  destruct (check_preds st2 preds) as [[]|e] eqn:Ecp; [|exfalso; apply (Hni e); reflexivity].
  assert (HF0 : heap_fresh (s_heap st0) (s_next st0)) by (intros l c H; discriminate H).
  destruct (load_inputs_ok _ _ _ _ El Hin HF0) as [F1 [_ [A1 Eenv]]].
  assert (W0 : ctx_wf [] []) by (constructor; [constructor|intros x d H; discriminate H|intros h []]).
  assert (I1 : inv [] [] st1).
  { constructor; [intros x t H; discriminate H|intros h []|exact F1]. }
  destruct (bind_args_inv fs bs [] [] st1 st2 D0 HF W0 I1 A1 Ebind) as [I2 [W2 _]].
  pose proof (check_preds_holds D0 st2 preds (env_ok_ctl _ _ (inv_env _ _ _ I2)) Hps Ecp) as Hpreds.
  assert (I3 : inv D0 (size_hyps fs ++ preds) st2).
  { eapply inv_drop_hyps; [apply (inv_add_hyps _ _ preds _ I2 Hpreds)|]. intros h Hh. rewrite app_nil_r. exact Hh. }
  assert (W3 : ctx_wf D0 (size_hyps fs ++ preds)).
  { eapply ctx_wf_sub; [apply (ctx_wf_add_hyps _ _ preds W2 Hps)|]. intros h Hh. rewrite app_nil_r. exact Hh. }
  destruct (all_sound_list body _ _ _ _ Eb W3) as [_ X];
    [intros vc Hvc; apply HV, in_or_app; right; exact Hvc|].
  destruct (X st2 I3) as [st3 [Ex _]]. rewrite Ex. eauto.
Qed.

(** the same without the typing premise: the generator marks ill-formed programs by an invalid VC *)
Corollary vcgen_sound' : forall p,
  (forall vc, In vc (vcgen p) -> valid vc) ->
  forall inp, (forall e, run p inp <> Invalid e) -> exists bufs cfg, run p inp = Done bufs cfg.
Proof. intros p HV. apply vcgen_sound; [apply valid_typed; exact HV|exact HV]. Qed.

(** no error kind of the property can occur *)
Corollary vcgen_no_error : forall p,
  typed p = true -> (forall vc, In vc (vcgen p) -> valid vc) ->
  forall inp e, run p inp <> Fails e.
Proof.
  intros p HT HV inp e HF.
  destruct (vcgen_sound p HT HV inp) as [b [c HD]]; [intros e' H'; rewrite H' in HF; discriminate HF|].
  rewrite HD in HF. discriminate HF.
Qed.

(** ** examples *)
Section Examples.
  (* sub(n: size, dst: [R][n]):  for i in seq(0, n): dst[i] = 0.0 *)
  Let n' : sym := 10%positive.
  Let dst : sym := 11%positive.
  Let i' : sym := 12%positive.
  Definition ex_sub : proc :=
    Proc [(n', KSize); (dst, KTensor [Var n'] true)] []
         [For i' (Int 0) (Var n') [Assign dst [Var i'] (Real (Q2Qc 0))] false].

  (* foo(n: size, x: R[n], y: R[n]):
       assert n >= 2
       for i in seq(0, n - 1):
           x[i + 1] = y[i] + 1.0
       w = x[1:n]
       w[0] += y[0]
       t: R[n - 1]
       sub(n - 1, x[0:n - 1]) *)
  Let n : sym := 1%positive.
  Let x : sym := 2%positive.
  Let y : sym := 3%positive.
  Let i : sym := 4%positive.
  Let w : sym := 5%positive.
  Let t : sym := 6%positive.
  Definition nm1 := BinOp OSub (Var n) (Int 1).
  Definition ex_foo : proc :=
    Proc [(n, KSize); (x, KTensor [Var n] false); (y, KTensor [Var n] false)]
         [BinOp OGe (Var n) (Int 2)]
         [For i (Int 0) nm1
              [Assign x [BinOp OAdd (Var i) (Int 1)] (BinOp OAdd (Read y [Var i]) (Real (Q2Qc 1)))] false;
          WindowS w (WindowE x [Interval (Int 1) (Var n)]);
          Reduce w [Int 0] (Read y [Int 0]);
          Alloc t [nm1];
          Call ex_sub [nm1; WindowE x [Interval (Int 0) nm1]]].

  Example ex_foo_typed : typed ex_foo = true.
  Proof. vm_compute. reflexivity. Qed.

  Example ex_foo_vc_count : length (vcgen ex_foo) = 16%nat.
  Proof. vm_compute. reflexivity. Qed.

  (** every VC of the example is valid (the role z3 plays in the harness, here by [lia]) *)
  Ltac get_vars rho HR l :=
    lazymatch l with
    | (?v, false) :: ?r =>
        let z := fresh "z" in let Hz := fresh "Hz" in
        (destruct (HR v false) as [z Hz]; [cbn; tauto|]); get_vars rho HR r
    | _ => idtac
    end.

  Ltac get_hyps rho HH l :=
    lazymatch l with
    | ?a :: ?r =>
        let Ha := fresh "Ha" in
        (assert (Ha : holds rho a) by (apply HH; cbn; tauto)); get_hyps rho HH r
    | _ => idtac
    end.

  Ltac solve_vc :=
    let rho := fresh "rho" in let HR := fresh "HR" in let HH := fresh "HH" in
    intros rho HR HH; unfold respects in HR; cbn [vc_vars vc_hyps vc_goal] in *;
    lazymatch type of HR with forall x b, In (x, b) ?l -> _ => get_vars rho HR l end;
    lazymatch type of HH with forall h, In h ?l -> _ => get_hyps rho HH l end;
    clear HR HH; unfold holds in *; cbn [ceval] in *;
    repeat match goal with H : rho ?v = VInt _ |- _ => rewrite H in *; clear H end;
    cbn [eval_binop] in *;
    repeat match goal with H : Some (VBool _) = Some (VBool true) |- _ => injection H as H end;
    f_equal; f_equal; lia.

  Example ex_foo_vcs_valid : forall vc, In vc (vcgen ex_foo) -> valid vc.
  Proof.
    intros vc H. vm_compute in H.
    repeat (destruct H as [<-|H]; [solve_vc|]). contradiction.
  Qed.

  (** a concrete valid input: n = 3 *)
  Definition ex_input : input :=
    mkInput [InVal (VInt 3);
             InBuf 0 [(3, 1)] [Some (Q2Qc 1); Some (Q2Qc 2); Some (Q2Qc 3)];
             InBuf 0 [(3, 1)] [Some (Q2Qc 4); Some (Q2Qc 5); Some (Q2Qc 6)]] [].

  Example ex_input_valid : forall e, run ex_foo ex_input <> Invalid e.
  Proof. intros e H. vm_compute in H. discriminate H. Qed.

  (** the hypotheses of [vcgen_sound] are jointly satisfiable, and its conclusion is observed *)
  Example vcgen_sound_nonvacuous :
    typed ex_foo = true /\ (forall vc, In vc (vcgen ex_foo) -> valid vc) /\
    (forall e, run ex_foo ex_input <> Invalid e) /\ exists bufs cfg, run ex_foo ex_input = Done bufs cfg.
  Proof.
    split; [exact ex_foo_typed|]. split; [exact ex_foo_vcs_valid|]. split; [exact ex_input_valid|].
    apply vcgen_sound; [exact ex_foo_typed|exact ex_foo_vcs_valid|exact ex_input_valid].
  Qed.

  (** an out-of-bounds procedure has an invalid VC:  for i in seq(0, n): x[i + 1] = 0.0  over x: R[n] *)
  Definition ex_bad : proc :=
    Proc [(n, KSize); (x, KTensor [Var n] false)] []
         [For i (Int 0) (Var n) [Assign x [BinOp OAdd (Var i) (Int 1)] (Real (Q2Qc 0))] false].

  Example ex_bad_invalid_vc : exists vc, In vc (vcgen ex_bad) /\ ~ valid vc.
  Proof.
    exists (mkVC [(i, false); (n, false)]
                 [e_le (Int 0) (Var i); e_lt (Var i) (Var n); e_lt (Int 0) (Var n)]
                 (in_bounds (BinOp OAdd (Var i) (Int 1)) (Var n))).
    split; [vm_compute; tauto|].
    intro HV. specialize (HV (fun v => if Pos.eqb v n then VInt 1 else VInt 0)).
    assert (X : holds (fun v => if Pos.eqb v n then VInt 1 else VInt 0) (in_bounds (BinOp OAdd (Var i) (Int 1)) (Var n))).
    { apply HV.
      - intros v b Hin. cbn in Hin. destruct Hin as [E|[E|[]]]; inversion E; subst; cbn; eauto.
      - intros h Hin. cbn in Hin. destruct Hin as [<-|[<-|[<-|[]]]]; vm_compute; reflexivity. }
    vm_compute in X. discriminate X.
  Qed.

  (** ... and indeed fails in the reference semantics (n = 1) *)
  Example ex_bad_fails :
    run ex_bad (mkInput [InVal (VInt 1); InBuf 0 [(1, 1)] [Some (Q2Qc 0)]] []) = Fails OOB.
  Proof. vm_compute. reflexivity. Qed.

  (** a window beyond its source (accepted by exo, finding C03-window-extent) has an invalid VC and fails *)
  Definition ex_window : proc :=
    Proc [(x, KTensor [Int 8] false)] [] [WindowS w (WindowE x [Interval (Int 4) (Int 12)])].

  Example ex_window_invalid_vc : exists vc, In vc (vcgen ex_window) /\ ~ valid vc.
  Proof.
    exists (mkVC [] [] (in_interval (Int 4) (Int 12) (Int 8))). split; [vm_compute; tauto|].
    intro HV. specialize (HV (fun _ => VInt 0)).
    assert (X : holds (fun _ => VInt 0) (in_interval (Int 4) (Int 12) (Int 8))) by (apply HV; [intros v b []|intros h []]).
    vm_compute in X. discriminate X.
  Qed.

  Example ex_window_fails :
    run ex_window (mkInput [InBuf 0 [(8, 1)] (repeat (Some (Q2Qc 0)) 8)] []) = Fails OOB.
  Proof. vm_compute. reflexivity. Qed.
  (** the other three findings of the search, as exported from the programs exo accepts:
      (ii) an access beyond the window's own extent:  w = x[0:4]; y[0] = w[5] *)
  Definition ex_own : proc :=
    Proc [(x, KTensor [Int 8] false); (y, KTensor [Int 8] false)] []
         [WindowS w (WindowE x [Interval (Int 0) (Int 4)]); Assign y [Int 0] (Read w [Int 5])].
  (** (iii) a read inside the argument of an extern:  x[0] = relu(y[8]) *)
  Definition ex_extern : proc :=
    Proc [(x, KTensor [Int 8] false); (y, KTensor [Int 8] false)] []
         [Assign x [Int 0] (Extern XRelu [Read y [Int 8]])].
  (** (iv) a window alias passed by name:  w = x[6:10]; sub(w)  with  sub(dst: [R][4]): dst[3] = 1.0 *)
  Definition ex_sub4 : proc :=
    Proc [(dst, KTensor [Int 4] true)] [] [Assign dst [Int 3] (Real (Q2Qc 1))].
  Definition ex_byname : proc :=
    Proc [(x, KTensor [Int 8] false)] []
         [WindowS w (WindowE x [Interval (Int 6) (Int 10)]); Call ex_sub4 [Read w []]].

  Definition buf8 : inarg := InBuf 0 [(8, 1)] (repeat (Some (Q2Qc 0)) 8).

  Example findings_fail :
    run ex_own (mkInput [buf8; buf8] []) = Fails OOB /\
    run ex_extern (mkInput [buf8; buf8] []) = Fails OOB /\
    run ex_byname (mkInput [buf8] []) = Fails OOB.
  Proof. vm_compute. auto. Qed.

  (** ... and each has an invalid VC *)
  Ltac refute_closed_vc :=
    let HV := fresh "HV" in let X := fresh "X" in
    intro HV; specialize (HV (fun _ => VInt 0));
    match type of HV with _ -> _ -> ?concl =>
      assert (X : concl) by (apply HV; [intros v b []|intros h []])
    end;
    vm_compute in X; discriminate X.

  Example findings_invalid_vcs :
    (exists vc, In vc (vcgen ex_own) /\ ~ valid vc) /\
    (exists vc, In vc (vcgen ex_extern) /\ ~ valid vc) /\
    (exists vc, In vc (vcgen ex_byname) /\ ~ valid vc).
  Proof.
    split; [|split].
    - exists (mkVC [] [] (in_bounds (Int 5) (BinOp OSub (Int 4) (Int 0)))). split; [vm_compute; tauto|]. refute_closed_vc.
    - exists (mkVC [] [] (in_bounds (Int 8) (Int 8))). split; [vm_compute; tauto|]. refute_closed_vc.
    - exists (mkVC [] [] (in_interval (Int 6) (Int 10) (Int 8))). split; [vm_compute; tauto|]. refute_closed_vc.
  Qed.
End Examples.
