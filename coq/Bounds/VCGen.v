(** * Verification-condition generator for LoopIR procedures (property C03).

    [vcgen p] lists, for the supported fragment, the conditions whose validity makes every run of [p]
    on an input satisfying its signature terminate without error in Core.Sem:
      - every index of every read / write / reduce lies in  0 <= idx < extent  of the accessed
        buffer OR WINDOW (a window is checked against its own extent),
      - every loop has  lo <= hi,  every allocation has positive extents,
      - every window expression stays inside its source:  0 <= lo <= hi <= extent,  0 <= pt < extent,
      - every call: size arguments positive, extents of tensor arguments positive and equal to the
        callee's declared shape, callee assertions true (under formal = actual), and recursively the
        conditions of the callee body under the callee's own signature and assertions,
    each under the path condition: enclosing loop bounds, guards / negated guards, procedure
    assertions, positivity of size arguments.

    Fragment (anything else makes [vcgen_opt] return None and [vcgen] return [vc_false]):
    statements Assign, Reduce, Pass, If, For (seq and par), Alloc, WindowS of a WindowE, Call;
    integer expressions Var/Int/USub/+/-/*, / and % by positive literals; boolean expressions
    comparisons, and/or, ==, boolean variables/constants; data expressions Real/Read/USub/+ - * //relu,
    fmaxf, select.  Excluded: configuration reads and writes, stride expressions, other externs;
    binders must be pairwise distinct along every scope (as Sym identity guarantees in exo).

    Executable Gallina only (model file). *)
From Coq Require Import ZArith List Bool.
From Core Require Import Syntax Sem.
From Bounds Require Import VC.
Import ListNotations.
Local Open Scope Z_scope.

Definition mk (D : tenv) (G : list expr) (g : expr) : vc := mkVC (ctl_vars D) G g.

Definition fresh (D : tenv) (x : sym) : bool :=
  match lookup x D with None => true | Some _ => false end.

(** ** accesses *)
Fixpoint access_vcs (D : tenv) (G : list expr) (idx dims : list expr) : list vc :=
  match idx, dims with
  | e :: ir, d :: dr => mk D G (in_bounds e d) :: access_vcs D G ir dr
  | _, _ => []
  end.

Fixpoint read_vcs (D : tenv) (G : list expr) (e : expr) {struct e} : list vc :=
  match e with
  | Read x idx => match buf_dims D x with Some dims => access_vcs D G idx dims | None => [] end
  | USub a => read_vcs D G a
  | BinOp _ a b => read_vcs D G a ++ read_vcs D G b
  | Extern _ args => flat_map (read_vcs D G) args
  | _ => []
  end.

(** ** windows *)
Fixpoint wacc_ty (D : tenv) (acc : list wacc) : bool :=
  match acc with
  | [] => true
  | Point e :: r => ity D e && wacc_ty D r
  | Interval lo hi :: r => ity D lo && ity D hi && wacc_ty D r
  end.

Fixpoint window_vcs (D : tenv) (G : list expr) (acc : list wacc) (dims : list expr) : list vc :=
  match acc, dims with
  | Point e :: ar, d :: dr => mk D G (in_bounds e d) :: window_vcs D G ar dr
  | Interval lo hi :: ar, d :: dr => mk D G (in_interval lo hi d) :: window_vcs D G ar dr
  | _, _ => []
  end.

Fixpoint window_dims (acc : list wacc) : list expr :=
  match acc with
  | [] => []
  | Point _ :: r => window_dims r
  | Interval lo hi :: r => BinOp OSub hi lo :: window_dims r
  end.

(** extents of a tensor-valued call argument, and the VCs that make the window expression legal *)
Definition arg_dims (D : tenv) (G : list expr) (a : expr) : option (list expr * list vc) :=
  match a with
  | Read y [] => match buf_dims D y with Some dims => Some (dims, []) | None => None end
  | WindowE y acc =>
      match buf_dims D y with
      | Some dims =>
          if Nat.eqb (length acc) (length dims) && wacc_ty D acc
          then Some (window_dims acc, window_vcs D G acc dims) else None
      | None => None
      end
  | _ => None
  end.

(** ** signatures *)
Fixpoint formals_ctx (fs : list (sym * argkind)) (D : tenv) : option tenv :=
  match fs with
  | [] => Some D
  | (x, k) :: r =>
      if fresh D x then
        match k with
        | KSize | KIndex | KStride => formals_ctx r ((x, TInt) :: D)
        | KBool => formals_ctx r ((x, TBool) :: D)
        | KScalar => formals_ctx r ((x, TBuf []) :: D)
        | KTensor sh _ => if forallb (ity D) sh then formals_ctx r ((x, TBuf sh) :: D) else None
        end
      else None
  end.

Fixpoint size_hyps (fs : list (sym * argkind)) : list expr :=
  match fs with
  | [] => []
  | (x, KSize) :: r => e_lt (Int 0) (Var x) :: size_hyps r
  | _ :: r => size_hyps r
  end.

Definition pos_vcs (D : tenv) (G : list expr) (dims : list expr) : list vc :=
  map (fun d => mk D G (e_lt (Int 0) d)) dims.

(** declared extents of tensor parameters are positive under the assertions (exo: check_pos_size) *)
Fixpoint formal_shape_vcs (D : tenv) (G : list expr) (fs : list (sym * argkind)) : list vc :=
  match fs with
  | [] => []
  | (_, KTensor sh _) :: r => pos_vcs D G sh ++ formal_shape_vcs D G r
  | _ :: r => formal_shape_vcs D G r
  end.

(** ** calls: formal = actual equations for control parameters *)
Fixpoint call_eqs (fs : list (sym * argkind)) (args : list expr) : list expr :=
  match fs, args with
  | (x, k) :: fr, a :: ar =>
      match k with
      | KSize | KIndex | KStride | KBool => e_eq (Var x) a :: call_eqs fr ar
      | _ => call_eqs fr ar
      end
  | _, _ => []
  end.

Fixpoint shape_eq_vcs (D : tenv) (G : list expr) (sh dims : list expr) : list vc :=
  match sh, dims with
  | s :: sr, d :: dr => mk D G (e_eq s d) :: shape_eq_vcs D G sr dr
  | _, _ => []
  end.

(** [D],[G]: caller context; [DC]: callee signature context; [E]: formal = actual equations *)
Fixpoint call_vcs (D : tenv) (G : list expr) (DC : tenv) (E : list expr)
         (fs : list (sym * argkind)) (args : list expr) : option (list vc) :=
  match fs, args with
  | [], [] => Some []
  | (x, k) :: fr, a :: ar =>
      match call_vcs D G DC E fr ar with
      | None => None
      | Some rest =>
          match k with
          | KSize => if ity D a then Some (mk D G (e_lt (Int 0) a) :: rest) else None
          | KIndex | KStride => if ity D a then Some rest else None
          | KBool => if bty D a then Some rest else None
          | KScalar =>
              match arg_dims D G a with
              | Some ([], v) => Some (v ++ rest)
              | _ => None
              end
          | KTensor sh _ =>
              match arg_dims D G a with
              | Some (dims, v) =>
                  if Nat.eqb (length sh) (length dims)
                  then Some (v ++ pos_vcs D G dims ++ shape_eq_vcs (DC ++ D) (E ++ G) sh dims ++ rest)
                  else None
              | None => None
              end
          end
      end
  | _, _ => None
  end.

Definition formals_fresh (D : tenv) (fs : list (sym * argkind)) : bool :=
  forallb (fun xa => fresh D (fst xa)) fs.

(** ** statements *)
Fixpoint gen_s (D : tenv) (G : list expr) (s : stmt) {struct s} : option (list vc * tenv) :=
  match s with
  | Assign x idx rhs | Reduce x idx rhs =>
      match buf_dims D x with
      | Some dims =>
          if Nat.eqb (length idx) (length dims) && forallb (ity D) idx && dty D rhs
          then Some (access_vcs D G idx dims ++ read_vcs D G rhs, D) else None
      | None => None
      end
  | Pass => Some ([], D)
  | If c body orelse =>
      if bty D c then
        match (fix go (D : tenv) (l : list stmt) : option (list vc * tenv) :=
                 match l with
                 | [] => Some ([], D)
                 | s' :: r => match gen_s D (c :: G) s' with
                              | Some (v1, D1) => match go D1 r with Some (v2, D2) => Some (v1 ++ v2, D2) | None => None end
                              | None => None
                              end
                 end) D body,
              (fix go (D : tenv) (l : list stmt) : option (list vc * tenv) :=
                 match l with
                 | [] => Some ([], D)
                 | s' :: r => match gen_s D (e_not c :: G) s' with
                              | Some (v1, D1) => match go D1 r with Some (v2, D2) => Some (v1 ++ v2, D2) | None => None end
                              | None => None
                              end
                 end) D orelse with
        | Some (v1, _), Some (v2, _) => Some (v1 ++ v2, D)
        | _, _ => None
        end
      else None
  | For i lo hi body _ =>
      if ity D lo && ity D hi && fresh D i then
        match (fix go (D : tenv) (l : list stmt) : option (list vc * tenv) :=
                 match l with
                 | [] => Some ([], D)
                 | s' :: r => match gen_s D (e_le lo (Var i) :: e_lt (Var i) hi :: G) s' with
                              | Some (v1, D1) => match go D1 r with Some (v2, D2) => Some (v1 ++ v2, D2) | None => None end
                              | None => None
                              end
                 end) ((i, TInt) :: D) body with
        | Some (v, _) => Some (mk D G (e_le lo hi) :: v, D)
        | None => None
        end
      else None
  | Alloc x shape =>
      if forallb (ity D) shape && fresh D x
      then Some (pos_vcs D G shape, (x, TBuf shape) :: D) else None
  | WindowS x (WindowE y acc) =>
      match buf_dims D y with
      | Some dims =>
          if Nat.eqb (length acc) (length dims) && wacc_ty D acc && fresh D x
          then Some (window_vcs D G acc dims, (x, TBuf (window_dims acc)) :: D) else None
      | None => None
      end
  | Call f args =>
      match f with
      | Proc formals preds body =>
          match formals_ctx formals [] with
          | Some DC =>
              if forallb (bty DC) preds && formals_fresh D formals then
                let E := call_eqs formals args in
                match call_vcs D G DC E formals args with
                | Some vsite =>
                    match (fix go (D : tenv) (l : list stmt) : option (list vc * tenv) :=
                             match l with
                             | [] => Some ([], D)
                             | s' :: r => match gen_s D (size_hyps formals ++ preds) s' with
                                          | Some (v1, D1) => match go D1 r with Some (v2, D2) => Some (v1 ++ v2, D2) | None => None end
                                          | None => None
                                          end
                             end) DC body with
                    | Some (vbody, _) =>
                        Some (vsite ++ map (fun p => mk (DC ++ D) (E ++ G) p) preds
                                    ++ formal_shape_vcs DC (size_hyps formals ++ preds) formals ++ vbody, D)
                    | None => None
                    end
                | None => None
                end
              else None
          | None => None
          end
      end
  | WriteCfg _ _ | WindowS _ _ => None
  end.

Fixpoint gen_list (D : tenv) (G : list expr) (l : list stmt) : option (list vc * tenv) :=
  match l with
  | [] => Some ([], D)
  | s :: r =>
      match gen_s D G s with
      | Some (v1, D1) => match gen_list D1 G r with Some (v2, D2) => Some (v1 ++ v2, D2) | None => None end
      | None => None
      end
  end.

(** ** procedures *)
Definition vcgen_opt (p : proc) : option (list vc) :=
  match p with
  | Proc formals preds body =>
      match formals_ctx formals [] with
      | Some D0 =>
          if forallb (bty D0) preds then
            match gen_list D0 (size_hyps formals ++ preds) body with
            | Some (v, _) => Some (formal_shape_vcs D0 (size_hyps formals ++ preds) formals ++ v)
            | None => None
            end
          else None
      | None => None
      end
  end.

(** the boolean "in the fragment, well-scoped and well-typed" premise of the soundness theorem *)
Definition typed (p : proc) : bool :=
  match vcgen_opt p with Some _ => true | None => false end.

Definition vcgen (p : proc) : list vc :=
  match vcgen_opt p with Some l => l | None => [vc_false] end.
