(* Driver of the extracted C03 tools (coq/Bounds): one s-expression job per line on stdin, one result
   line on stdout.  The reader below is the one of coq/Core/driver.ml (same grammar, harness/export.py).
     (def NAME PROC)       -> "ok"
     (vcgen NAME)          -> "outside"  (procedure outside the fragment of Bounds.VCGen)
                            | "vcs (VC ...)"  with VC = ((VAR ...) (HYP ...) GOAL), VAR = (int N) | (bool N),
                              formulas in the exporter's expression grammar
     (locate NAME INPUT)   -> "done" | "invalid ERR" | "fails ERR KIND SYM DEPTH"   (ERR = Alias for aliasing)
     (locate-mem NAME INPUT)  same, over the relaxed memory-level reading of accesses (Bounds.Locate.locate_mem)
     (run NAME INPUT)      -> "done" | "invalid ERR" | "fails ERR"                  (Core.Sem.run, cross-check) *)
open Bounds

type sx = A of string | L of sx list

let parse (s : string) : sx =
  let n = String.length s in
  let pos = ref 0 in
  let rec skip () = if !pos < n && (s.[!pos] = ' ' || s.[!pos] = '\t' || s.[!pos] = '\n') then (incr pos; skip ()) in
  let rec rd () =
    skip ();
    if !pos >= n then failwith "eof"
    else if s.[!pos] = '(' then begin
      incr pos;
      let items = ref [] in
      let rec loop () =
        skip ();
        if !pos >= n then failwith "unclosed"
        else if s.[!pos] = ')' then incr pos
        else (items := rd () :: !items; loop ()) in
      loop (); L (List.rev !items)
    end else begin
      let st = !pos in
      while !pos < n && not (s.[!pos] = ' ' || s.[!pos] = '(' || s.[!pos] = ')' || s.[!pos] = '\n' || s.[!pos] = '\t') do incr pos done;
      A (String.sub s st (!pos - st))
    end in
  rd ()

let rec pos_of_int (n : int) : positive =
  if n <= 1 then XH else if n land 1 = 0 then XO (pos_of_int (n lsr 1)) else XI (pos_of_int (n lsr 1))
let z_of_int (n : int) : z = if n = 0 then Z0 else if n > 0 then Zpos (pos_of_int n) else Zneg (pos_of_int (- n))
let rec int_of_pos (p : positive) : int = match p with XH -> 1 | XO q -> 2 * int_of_pos q | XI q -> 2 * int_of_pos q + 1
let rec bits (p : positive) : int = match p with XH -> 1 | XO q | XI q -> 1 + bits q
let str_of_pos p = if bits p > 61 then "BIG" else string_of_int (int_of_pos p)
let str_of_z (x : z) = match x with Z0 -> "0" | Zpos p -> str_of_pos p | Zneg p -> "-" ^ str_of_pos p
let rec nat_of_int n = if n <= 0 then O else S (nat_of_int (n - 1))

let atom = function A s -> s | L _ -> failwith "atom expected"
let lst = function L l -> l | A a -> failwith ("list expected, got " ^ a)
let ios x = int_of_string (atom x)
let sym x = pos_of_int (ios x)
let zz x = z_of_int (ios x)

let binop = function
  | "+" -> OAdd | "-" -> OSub | "*" -> OMul | "/" -> ODiv | "%" -> OMod | "and" -> OAnd | "or" -> OOr
  | "<" -> OLt | ">" -> OGt | "<=" -> OLe | ">=" -> OGe | "==" -> OEq | s -> failwith ("binop " ^ s)
let extfn = function
  | "sin" -> XSin | "relu" -> XRelu | "select" -> XSelect | "expf" -> XExpf | "fmaxf" -> XFmaxf
  | "sigmoid" -> XSigmoid | "sqrt" -> XSqrt | _ -> XOther

let rec expr (x : sx) : expr =
  match x with
  | L [A "var"; n] -> Var (sym n)
  | L [A "int"; z] -> Int (zz z)
  | L [A "bool"; A b] -> BoolC (b = "true")
  | L [A "real"; n; d] -> Real (mk_qc (zz n) (pos_of_int (ios d)))
  | L [A "read"; n; idx] -> Read (sym n, List.map expr (lst idx))
  | L [A "neg"; e] -> USub (expr e)
  | L [A "bin"; A op; a; b] -> BinOp (binop op, expr a, expr b)
  | L [A "ext"; A f; args] -> Extern (extfn f, List.map expr (lst args))
  | L [A "win"; n; acc] -> WindowE (sym n, List.map wacc (lst acc))
  | L [A "stride"; n; d] -> Stride (sym n, nat_of_int (ios d))
  | L [A "cfg"; n] -> ReadCfg (sym n)
  | _ -> failwith "expr"
and wacc = function
  | L [A "pt"; e] -> Point (expr e)
  | L [A "iv"; lo; hi] -> Interval (expr lo, expr hi)
  | _ -> failwith "wacc"

let kind = function
  | A "size" -> KSize | A "index" -> KIndex | A "bool" -> KBool | A "stride" -> KStride | A "scalar" -> KScalar
  | L [A "tensor"; sh; A w] -> KTensor (List.map expr (lst sh), w = "true")
  | _ -> failwith "kind"

let rec stmt (x : sx) : stmt =
  match x with
  | L [A "assign"; n; idx; rhs] -> Assign (sym n, List.map expr (lst idx), expr rhs)
  | L [A "reduce"; n; idx; rhs] -> Reduce (sym n, List.map expr (lst idx), expr rhs)
  | L [A "wcfg"; n; rhs] -> WriteCfg (sym n, expr rhs)
  | L [A "pass"] -> Pass
  | L [A "if"; c; b; o] -> If (expr c, List.map stmt (lst b), List.map stmt (lst o))
  | L [A "for"; n; lo; hi; b; A par] -> For (sym n, expr lo, expr hi, List.map stmt (lst b), par = "true")
  | L [A "alloc"; n; sh] -> Alloc (sym n, List.map expr (lst sh))
  | L [A "call"; p; args] -> Call (proc p, List.map expr (lst args))
  | L [A "wins"; n; rhs] -> WindowS (sym n, expr rhs)
  | _ -> failwith "stmt"
and proc (x : sx) : proc =
  match x with
  | L [A "proc"; args; preds; body] ->
      Proc (List.map (function L [n; k] -> (sym n, kind k) | _ -> failwith "fnarg") (lst args),
            List.map expr (lst preds), List.map stmt (lst body))
  | A name -> (try Hashtbl.find procs name with Not_found -> failwith ("unknown proc " ^ name))
  | _ -> failwith "proc"
and procs : (string, proc) Hashtbl.t = Hashtbl.create 16

let dval = function
  | A "none" -> None
  | L [A "q"; n; d] -> Some (mk_qc (zz n) (pos_of_int (ios d)))
  | _ -> failwith "dval"
let value = function
  | L [A "i"; z] -> VInt (zz z)
  | L [A "b"; A b] -> VBool (b = "true")
  | L [A "d"; d] -> VData (dval d)
  | _ -> failwith "value"
let inarg = function
  | L [A "val"; v] -> InVal (value v)
  | L [A "buf"; off; dims; cells] ->
      InBuf (zz off, List.map (function L [n; s] -> (zz n, zz s) | _ -> failwith "dim") (lst dims),
             List.map dval (lst cells))
  | _ -> failwith "inarg"
let input = function
  | L [A "input"; args; cfg] ->
      { in_args = List.map inarg (lst args);
        in_cfg = List.map (function L [k; v] -> (sym k, value v) | _ -> failwith "cfg") (lst cfg) }
  | _ -> failwith "input"


let str_err = function
  | OOB -> "OOB" | BadTrip -> "BadTrip" | BadSize -> "BadSize" | AssertFail -> "AssertFail"
  | ShapeMismatch -> "ShapeMismatch" | TypeErr -> "TypeErr" | Unbound -> "Unbound" | DivZero -> "DivZero"
  | Unsupported -> "Unsupported" | BadArity -> "BadArity"

let str_kind = function
  | KAssign -> "assign" | KReduce -> "reduce" | KRead -> "read" | KReadExtern -> "read-extern" | KIndexExpr -> "index-expr"
  | KGuard -> "guard" | KLoopBounds -> "loop-bounds" | KTrip -> "trip" | KAlloc -> "alloc" | KWindow -> "window"
  | KWriteCfg -> "wcfg" | KCallArgs -> "call-args" | KCallBind -> "call-bind" | KCallPreds -> "call-preds"
  | KCallAlias -> "call-alias"

let rec int_of_nat = function O -> 0 | S n -> 1 + int_of_nat n

let str_binop = function
  | OAdd -> "+" | OSub -> "-" | OMul -> "*" | ODiv -> "/" | OMod -> "%" | OAnd -> "and" | OOr -> "or"
  | OLt -> "<" | OGt -> ">" | OLe -> "<=" | OGe -> ">=" | OEq -> "=="

(* only control expressions occur in VCs *)
let rec str_expr (e : expr) : string =
  match e with
  | Var x -> "(var " ^ str_of_pos x ^ ")"
  | Int z -> "(int " ^ str_of_z z ^ ")"
  | BoolC b -> "(bool " ^ (if b then "true" else "false") ^ ")"
  | USub a -> "(neg " ^ str_expr a ^ ")"
  | BinOp (op, a, b) -> "(bin " ^ str_binop op ^ " " ^ str_expr a ^ " " ^ str_expr b ^ ")"
  | _ -> "(unsupported)"

let str_vc (c : vc) : string =
  let vars = String.concat " " (List.map (fun (x, b) -> "(" ^ (if b then "bool " else "int ") ^ str_of_pos x ^ ")") c.vc_vars) in
  let hyps = String.concat " " (List.map str_expr c.vc_hyps) in
  "((" ^ vars ^ ") (" ^ hyps ^ ") " ^ str_expr c.vc_goal ^ ")"

let () =
  try
    while true do
      let line = input_line stdin in
      if String.length line > 0 then begin
        (try
          match parse line with
          | L [A "def"; A name; p] -> Hashtbl.replace procs name (proc p); print_string "ok\n"
          | L [A "vcgen"; p] ->
              (match vcgen_opt (proc p) with
               | None -> print_string "outside\n"
               | Some l -> print_string ("vcs (" ^ String.concat " " (List.map str_vc l) ^ ")\n"))
          | L [A (("locate" | "locate-mem") as job); p; inp] ->
              (match (if job = "locate" then locate else locate_mem) (proc p) (input inp) with
               | LInvalid e -> print_string ("invalid " ^ str_err e ^ "\n")
               | LDone -> print_string "done\n"
               | LFails f ->
                   let e = (match f.f_err with Some e -> str_err e | None -> "Alias") in
                   print_string ("fails " ^ e ^ " " ^ str_kind f.f_kind ^ " " ^ str_of_pos f.f_sym ^ " "
                                 ^ string_of_int (int_of_nat f.f_depth) ^ "\n"))
          | L [A "run"; p; inp] ->
              (match run (proc p) (input inp) with
               | Invalid e -> print_string ("invalid " ^ str_err e ^ "\n")
               | Fails e -> print_string ("fails " ^ str_err e ^ "\n")
               | Done (_, _) -> print_string "done\n")
          | _ -> print_string "error bad-job\n"
        with Failure m -> print_string ("error " ^ m ^ "\n")
           | Stack_overflow -> print_string "error stack-overflow\n");
        flush stdout
      end
    done
  with End_of_file -> ()
