(* Driver for the extracted C16 model: one s-expression job per input line, one result per output line.
   Hand-written glue (trusted): s-expression reader, conversions OCaml <-> extracted datatypes, printers. *)
type ostr = string
type sx = A of string | L of sx list
open Find_model

let parse (s : ostr) : sx =
  let n = String.length s in
  let pos = ref 0 in
  let rec skip () = if !pos < n && (s.[!pos] = ' ' || s.[!pos] = '\t' || s.[!pos] = '\n' || s.[!pos] = '\r') then (incr pos; skip ()) in
  let rec rd () =
    skip ();
    if !pos >= n then failwith "eof"
    else if s.[!pos] = '(' then begin
      incr pos;
      let items = ref [] in
      let rec loop () =
        skip ();
        if !pos >= n then failwith "unclosed"
        else if s.[!pos] = ')' then incr pos
        else (items := rd () :: !items; loop ()) in
      loop ();
      L (List.rev !items)
    end else begin
      let st = !pos in
      while !pos < n && not (List.mem s.[!pos] [' '; '\t'; '\n'; '\r'; '('; ')']) do incr pos done;
      A (String.sub s st (!pos - st))
    end in
  rd ()

(* ---- conversions ---- *)
let rec nat_of_int (i : int) : nat = if i <= 0 then O else S (nat_of_int (i - 1))
let rec int_of_nat (n : nat) : int = match n with O -> 0 | S m -> 1 + int_of_nat m
let rec pos_of_int (i : int) : positive =
  if i <= 1 then XH else if i land 1 = 0 then XO (pos_of_int (i lsr 1)) else XI (pos_of_int (i lsr 1))
let rec int_of_pos (p : positive) : int = match p with XH -> 1 | XO q -> 2 * int_of_pos q | XI q -> 2 * int_of_pos q + 1
let z_of_int (i : int) : z = if i = 0 then Z0 else if i > 0 then Zpos (pos_of_int i) else Zneg (pos_of_int (- i))
let int_of_z (x : z) : int = match x with Z0 -> 0 | Zpos p -> int_of_pos p | Zneg p -> - (int_of_pos p)

(* arbitrary-size decimal -> positive / Z (constants such as 0.1 have 55-bit denominators: fits in 63 bits,
   but be safe and go through strings) *)
let pos_of_string (s : ostr) : positive =
  (* s is a decimal string of a positive integer; use OCaml ints when small, otherwise long division by 2 *)
  let digits = Array.init (String.length s) (fun i -> Char.code s.[i] - 48) in
  let is_zero d = Array.for_all (fun x -> x = 0) d in
  let divmod2 d = let r = ref 0 in let q = Array.map (fun x -> let v = !r * 10 + x in r := v mod 2; v / 2) d in (q, !r) in
  let rec bits d acc = if is_zero d then acc else let (q, r) = divmod2 d in bits q (r :: acc) in
  (* bits: most significant first *)
  match bits digits [] with
  | [] -> XH
  | _ :: rest -> List.fold_left (fun acc b -> if b = 1 then XI acc else XO acc) XH rest
let z_of_string (s : ostr) : z =
  if s = "0" || s = "-0" then Z0
  else if s.[0] = '-' then Zneg (pos_of_string (String.sub s 1 (String.length s - 1)))
  else Zpos (pos_of_string s)

let ascii_of_char (c : char) : ascii =
  let k = Char.code c in
  let b i = (k lsr i) land 1 = 1 in
  Ascii (b 0, b 1, b 2, b 3, b 4, b 5, b 6, b 7)
let char_of_ascii (a : ascii) : char =
  match a with Ascii (b0, b1, b2, b3, b4, b5, b6, b7) ->
    let v b i = if b then 1 lsl i else 0 in
    Char.chr (v b0 0 + v b1 1 + v b2 2 + v b3 3 + v b4 4 + v b5 5 + v b6 6 + v b7 7)
let cstring_of (s : ostr) : Find_model.string =
  let r = ref EmptyString in
  for i = String.length s - 1 downto 0 do r := String (ascii_of_char s.[i], !r) done; !r
let rec string_of_c (s : Find_model.string) : ostr =
  match s with EmptyString -> "" | String (a, t) -> String.make 1 (char_of_ascii a) ^ string_of_c t

let atom = function A s -> s | L _ -> failwith "atom expected"
let lst = function L l -> l | A a -> failwith ("list expected, got " ^ a)
let name x = cstring_of (atom x)
let int_of x = int_of_string (atom x)
(* (s c1 c2 ...) : a string given by character codes *)
let codes x = match x with
  | L (A "s" :: cs) -> cstring_of (String.concat "" (List.map (fun c -> String.make 1 (Char.chr (int_of c))) cs))
  | _ -> failwith "codes"

let rec expr_of (x : sx) : expr =
  match x with
  | L [A "Read"; n; idx] -> Read (name n, List.map expr_of (lst idx))
  | L [A "Const"; nu; de] -> Const (CV (z_of_string (atom nu), pos_of_string (atom de)))
  | L [A "USub"; a] -> USub (expr_of a)
  | L [A "BinOp"; op; l; r] -> BinOp (name op, expr_of l, expr_of r)
  | L [A "Extern"; f; args] -> Extern (name f, List.map expr_of (lst args))
  | L [A "WindowExpr"; n; idx] -> WindowExpr (name n, List.map wacc_of (lst idx))
  | L [A "StrideExpr"; n; d] -> StrideExpr (name n, nat_of_int (int_of d))
  | L [A "ReadConfig"; c; f] -> ReadConfig (name c, name f)
  | _ -> failwith "expr"
and wacc_of (x : sx) : expr wacc =
  match x with
  | L [A "Interval"; lo; hi] -> Interval (expr_of lo, expr_of hi)
  | L [A "Point"; pt] -> Point (expr_of pt)
  | _ -> failwith "wacc"

let rec stmt_of (x : sx) : stmt =
  match x with
  | L [A "Assign"; n; idx; rhs] -> Assign (name n, List.map expr_of (lst idx), expr_of rhs)
  | L [A "Reduce"; n; idx; rhs] -> Reduce (name n, List.map expr_of (lst idx), expr_of rhs)
  | L [A "WriteConfig"; c; f; rhs] -> WriteConfig (name c, name f, expr_of rhs)
  | L [A "Pass"] -> Pass
  | L [A "If"; c; b; o] -> If (expr_of c, List.map stmt_of (lst b), List.map stmt_of (lst o))
  | L [A "For"; i; lo; hi; b] -> For (name i, expr_of lo, expr_of hi, List.map stmt_of (lst b))
  | L [A "AllocS"; n] -> Alloc (name n, None)
  | L [A "AllocT"; n; his] -> Alloc (name n, Some (List.map expr_of (lst his)))
  | L [A "Call"; f; args] -> Call (name f, List.map expr_of (lst args))
  | L [A "WindowStmt"; n; rhs] -> WindowStmt (name n, expr_of rhs)
  | _ -> failwith "stmt"

let proc_of (x : sx) : node =
  match x with
  | L [A "proc"; args; body] -> NProc { p_args = List.map name (lst args); p_body = List.map stmt_of (lst body) }
  | _ -> failwith "proc"

let rec pexpr_of (x : sx) : pexpr =
  match x with
  | L [A "EHole"] -> PE_Hole
  | L [A "PRead"; n; idx] -> PRead (name n, List.map pexpr_of (lst idx))
  | L [A "PStride"; n; A "none"] -> PStride (name n, None)
  | L [A "PStride"; n; d] -> PStride (name n, Some (nat_of_int (int_of d)))
  | L [A "PConst"; nu; de] -> PConst (CV (z_of_string (atom nu), pos_of_string (atom de)))
  | L [A "PUSub"; a] -> PUSub (pexpr_of a)
  | L [A "PBinOp"; op; l; r] -> PBinOp (name op, pexpr_of l, pexpr_of r)
  | L [A "PExtern"; f; args] -> PExtern (name f, List.map pexpr_of (lst args))
  | L [A "PReadConfig"; c; f] -> PReadConfig (name c, name f)
  | _ -> failwith "pexpr"

let rec pstmt_of (x : sx) : pstmt =
  match x with
  | L [A "SHole"] -> PS_Hole
  | L [A "PAssign"; n; idx; rhs] -> PAssign (name n, List.map pexpr_of (lst idx), pexpr_of rhs)
  | L [A "PReduce"; n; idx; rhs] -> PReduce (name n, List.map pexpr_of (lst idx), pexpr_of rhs)
  | L [A "PPass"] -> PPass
  | L [A "PIf"; c; b; o] -> PIf (pexpr_of c, List.map pstmt_of (lst b), List.map pstmt_of (lst o))
  | L [A "PFor"; i; lo; hi; b] -> PFor (name i, pexpr_of lo, pexpr_of hi, List.map pstmt_of (lst b))
  | L [A "PAlloc"; n; sz] -> PAlloc (name n, List.map pexpr_of (lst sz))
  | L [A "PCall"; f; args] -> PCall (name f, List.map pexpr_of (lst args))
  | L [A "PWriteConfig"; c; f] -> PWriteConfig (name c, name f)
  | _ -> failwith "pstmt"

let pattern_of (x : sx) : pattern =
  match x with
  | L [A "E"; e] -> PatE (pexpr_of e)
  | L [A "S"; l] -> PatS (List.map pstmt_of (lst l))
  | _ -> failwith "pattern"

let attr_of (x : sx) : attr =
  match atom x with
  | "cond" -> Acond | "lo" -> Alo | "hi" -> Ahi | "idx" -> Aidx | "lhs" -> Alhs | "rhs" -> Arhs
  | "args" -> Aargs | "arg" -> Aarg | "pt" -> Apt | "body" -> Abody | "orelse" -> Aorelse
  | a -> failwith ("attr " ^ a)
let attr_str (a : attr) : ostr =
  match a with
  | Acond -> "cond" | Alo -> "lo" | Ahi -> "hi" | Aidx -> "idx" | Alhs -> "lhs" | Arhs -> "rhs"
  | Aargs -> "args" | Aarg -> "arg" | Apt -> "pt" | Abody -> "body" | Aorelse -> "orelse"

let optz_of (x : sx) : z option = match x with A "none" -> None | _ -> Some (z_of_int (int_of x))
let optnat_of (x : sx) : nat option = match x with A "none" -> None | _ -> Some (nat_of_int (int_of x))

let step_of (x : sx) : step =
  match x with L [a; i] -> (attr_of a, optnat_of i) | _ -> failwith "step"
let path_of (x : sx) : path = List.map step_of (lst x)

let cursor_of (x : sx) : cursor =
  match x with
  | L [A "N"; p] -> CNode (path_of p)
  | L [A "B"; p; a; lo; hi] -> CBlock (path_of p, attr_of a, z_of_int (int_of lo), z_of_int (int_of hi))
  | L [A "G"; p; t] -> CGap (path_of p, int_of t = 1)
  | _ -> failwith "cursor"

(* ---- printers ---- *)
let path_str (p : path) : ostr =
  "(" ^ String.concat " " (List.map (fun (a, i) ->
      "(" ^ attr_str a ^ " " ^ (match i with None -> "none" | Some k -> string_of_int (int_of_nat k)) ^ ")") p) ^ ")"
let cursor_str (c : cursor) : ostr =
  match c with
  | CNode p -> "(N " ^ path_str p ^ ")"
  | CBlock (p, a, lo, hi) -> "(B " ^ path_str p ^ " " ^ attr_str a ^ " " ^ string_of_int (int_of_z lo) ^ " " ^ string_of_int (int_of_z hi) ^ ")"
  | CGap (p, t) -> "(G " ^ path_str p ^ " " ^ (if t then "1" else "0") ^ ")"
let err_str (e : err) : ostr =
  match e with
  | InvalidCursorError -> "InvalidCursorError" | IndexError -> "IndexError" | ValueError -> "ValueError"
  | TypeError -> "TypeError" | AttributeError -> "AttributeError" | AssertionError -> "AssertionError"
  | PatternMatchError -> "PatternMatchError" | SchedulingError -> "SchedulingError"
let res_str (f : 'a -> ostr) (r : 'a res) : ostr =
  match r with Ok a -> "(ok " ^ f a ^ ")" | Err e -> "(err " ^ err_str e ^ ")"
let list_str (f : 'a -> ostr) (l : 'a list) : ostr = "(" ^ String.concat " " (List.map f l) ^ ")"
let bool_str b = if b then "true" else "false"
let optcur_str (o : cursor option) : ostr = match o with None -> "invalid" | Some c -> cursor_str c
let node_path_str p = cursor_str (CNode p)
let codes_str (s : Find_model.string) : ostr =
  let t = string_of_c s in
  "(s" ^ String.concat "" (List.init (String.length t) (fun i -> " " ^ string_of_int (Char.code t.[i]))) ^ ")"
let optnat_str (o : nat option) : ostr = match o with None -> "none" | Some k -> string_of_int (int_of_nat k)

let quirks_of (x : sx) : quirks =
  match atom x with
  | "impl" -> impl_quirks
  | "spec" -> spec_quirks
  | q when String.length q = 3 -> { q_stride0 = (q.[0] = '1'); q_callargs = (q.[1] = '1'); q_wcfg = (q.[2] = '1') }
  | q -> failwith ("quirks " ^ q)

let block_of (x : sx) = match cursor_of x with CBlock (p, a, lo, hi) -> (p, a, lo, hi) | _ -> failwith "block expected"
let nodep_of (x : sx) = match cursor_of x with CNode p -> p | _ -> failwith "node expected"

let nav (root : node) (q : sx) : ostr =
  match q with
  | L [A "parent"; c] ->
      (match cursor_of c with
       | CNode p -> res_str node_path_str (node_parent p)
       | CBlock (p, _, _, _) -> res_str node_path_str (Ok (block_parent p))
       | CGap (p, _) -> res_str node_path_str (gap_parent p))
  | L [A "child_node"; c; a; i] -> res_str node_path_str (child_node root (nodep_of c) (attr_of a) (optz_of i))
  | L [A "child_block"; c; a] -> res_str cursor_str (child_block root (nodep_of c) (attr_of a))
  | L [A "next"; c; d] -> res_str node_path_str (node_next root (nodep_of c) (z_of_int (int_of d)))
  | L [A "prev"; c; d] -> res_str node_path_str (node_prev root (nodep_of c) (z_of_int (int_of d)))
  | L [A "before"; c] -> res_str cursor_str (Ok (node_before (nodep_of c)))
  | L [A "after"; c] -> res_str cursor_str (Ok (node_after (nodep_of c)))
  | L [A "as_block"; c] -> res_str cursor_str (node_as_block (nodep_of c))
  | L [A "is_ancestor_of"; c; o] -> res_str bool_str (Ok (is_ancestor_of (nodep_of c) (cursor_of o)))
  | L [A "anchor"; c] ->
      (match cursor_of c with CGap (p, _) -> res_str node_path_str (Ok (gap_anchor p)) | _ -> failwith "gap expected")
  | L [A "bget"; b; i] -> let (p, a, lo, hi) = block_of b in res_str node_path_str (block_get root p a lo hi (z_of_int (int_of i)))
  | L [A "bslice"; b; s; e] -> let (p, a, lo, hi) = block_of b in res_str cursor_str (Ok (block_slice p a lo hi (optz_of s) (optz_of e)))
  | L [A "blen"; b] -> let (_, _, lo, hi) = block_of b in res_str (fun x -> string_of_int (int_of_z x)) (Ok (block_len lo hi))
  | L [A "bbefore"; b] -> let (p, a, lo, hi) = block_of b in res_str cursor_str (block_before root p a lo hi)
  | L [A "bafter"; b] -> let (p, a, lo, hi) = block_of b in res_str cursor_str (block_after root p a lo hi)
  | L [A "biter"; b] -> let (p, a, lo, hi) = block_of b in (let rs = block_iter root p a lo hi in
       match List.find_opt (fun r -> match r with Err _ -> true | Ok _ -> false) rs with
       | Some (Err e) -> "(err " ^ err_str e ^ ")"
       | _ -> "(ok " ^ list_str (fun r -> match r with Ok q -> node_path_str q | Err _ -> "?") rs ^ ")")
  | L [A "bexpand"; b; dl; dh] -> let (p, a, lo, hi) = block_of b in res_str cursor_str (block_expand root p a lo hi (optz_of dl) (optz_of dh))
  | L [A "bcontains"; b; c] -> let (p, a, lo, hi) = block_of b in res_str bool_str (block_contains p a lo hi (cursor_of c))
  | L [A "api_parent"; c] -> res_str optcur_str (api_parent root (cursor_of c))
  | L [A "api_next"; c; d] -> res_str optcur_str (api_next root (nodep_of c) (z_of_int (int_of d)))
  | L [A "api_prev"; c; d] -> res_str optcur_str (api_prev root (nodep_of c) (z_of_int (int_of d)))
  | L [A "api_expand"; b; dl; dh] -> let (p, a, lo, hi) = block_of b in res_str cursor_str (api_expand root p a lo hi (optz_of dl) (optz_of dh))
  | L [A "api_slice"; b; s; e] -> let (p, a, lo, hi) = block_of b in res_str cursor_str (api_slice p a lo hi (optz_of s) (optz_of e))
  | L [A "api_orelse"; c] -> res_str optcur_str (api_orelse root (nodep_of c))
  | L (A m :: _) -> failwith ("nav method " ^ m)
  | _ -> failwith "nav"

let job (x : sx) : ostr =
  match x with
  (* (find api|raw|all impl|spec proc ctx pattern mno) *)
  | L [A "find"; A mode; q; pr; ctx; pat; mno] ->
      let root = proc_of pr in
      let qk = quirks_of q in
      let ctxp = path_of ctx in
      let pt = pattern_of pat in
      let mn = optnat_of mno in
      let r = (match mode with
               | "api" -> api_find qk root ctxp pt mn
               | "raw" -> pm_find qk root ctxp pt mn
               | "all" -> (* independent enumeration: pre-order filter, then #n selection, then unwrapping *)
                   bind (pm_find_all qk root ctxp pt) (fun l ->
                     match select_nth l mn with [] -> Err SchedulingError | l' -> Ok (List.map unwrap1 l'))
               | m -> failwith ("find mode " ^ m)) in
      res_str (list_str cursor_str) r
  | L [A "quirks"] ->
      let b x = if x then "1" else "0" in
      b impl_quirks.q_stride0 ^ b impl_quirks.q_callargs ^ b impl_quirks.q_wcfg
  | L [A "wf"; pat] ->
      (match pattern_of pat with PatS l -> bool_str (wf_pats l) | PatE _ -> "true")
  (* (glue find|find_loop|find_alloc_or_arg (args) (s codes) many) *)
  | L [A "glue"; A fn; args; raw; many] ->
      let dflt = if atom many = "1" then None else Some O in
      let s = codes raw in
      let out (s' : Find_model.string) (d : nat option) =
        let (pt, mn) = split_pattern s' d in "(pat " ^ codes_str pt ^ " " ^ optnat_str mn ^ ")" in
      (match fn with
       | "find" -> out s dflt
       | "find_loop" -> out (find_loop_pattern s) dflt
       | "find_alloc_or_arg" ->
           (match find_alloc_or_arg_pattern (List.map name (lst args)) s with
            | Inl i -> "(arg " ^ string_of_int (int_of_nat i) ^ ")"
            | Inr s' -> out s' (Some O))
       | _ -> failwith "glue fn")
  (* (nav proc (query ...)) *)
  | L [A "nav"; pr; qs] ->
      let root = proc_of pr in
      "(" ^ String.concat " " (List.map (fun q -> try nav root q with Failure m -> "(driver-error " ^ m ^ ")") (lst qs)) ^ ")"
  | _ -> failwith "job"

let () =
  try
    while true do
      let line = input_line stdin in
      if String.trim line <> "" then begin
        (try print_string (job (parse line)) with
         | Failure m -> print_string ("(driver-error " ^ m ^ ")")
         | Not_found -> print_string "(driver-error not_found)"
         | Invalid_argument m -> print_string ("(driver-error " ^ m ^ ")"));
        print_newline ()
      end
    done
  with End_of_file -> ()
