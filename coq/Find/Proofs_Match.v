(* C16 -- the executable matcher decides the inductive match relation (spec quirks);
   on benign patterns the implementation's matcher (impl quirks) coincides with it. *)
From Coq Require Import List ZArith Bool String Arith Lia.
From Find Require Import Model Spec.
Import ListNotations.

(* ------------------------------------------------------------------ *)
(** * induction principles for the nested syntax *)

Lemma expr_ind' (P : expr -> Prop)
  (HRead : forall x idx, Forall P idx -> P (Read x idx))
  (HConst : forall v, P (Const v))
  (HUSub : forall a, P a -> P (USub a))
  (HBinOp : forall op l r, P l -> P r -> P (BinOp op l r))
  (HExtern : forall f args, Forall P args -> P (Extern f args))
  (HWin : forall x idx, P (WindowExpr x idx))
  (HStride : forall x d, P (StrideExpr x d))
  (HCfg : forall c f, P (ReadConfig c f)) :
  forall e, P e.
Proof.
  fix IH 1. intros e. destruct e.
  - apply HRead. induction idx as [|e idx IHl]; constructor; [apply IH | exact IHl].
  - apply HConst.
  - apply HUSub. apply IH.
  - apply HBinOp; apply IH.
  - apply HExtern. induction args as [|e args IHl]; constructor; [apply IH | exact IHl].
  - apply HWin.
  - apply HStride.
  - apply HCfg.
Qed.

Lemma stmt_ind' (P : stmt -> Prop)
  (HAssign : forall x idx rhs, P (Assign x idx rhs))
  (HReduce : forall x idx rhs, P (Reduce x idx rhs))
  (HWC : forall c f rhs, P (WriteConfig c f rhs))
  (HPass : P Pass)
  (HIf : forall c b o, Forall P b -> Forall P o -> P (If c b o))
  (HFor : forall i lo hi b, Forall P b -> P (For i lo hi b))
  (HAlloc : forall x sh, P (Alloc x sh))
  (HCall : forall f args, P (Call f args))
  (HWS : forall x rhs, P (WindowStmt x rhs)) :
  forall s, P s.
Proof.
  fix IH 1. intros s. destruct s.
  - apply HAssign.
  - apply HReduce.
  - apply HWC.
  - apply HPass.
  - apply HIf.
    + induction body as [|s body IHl]; constructor; [apply IH | exact IHl].
    + induction orelse as [|s orelse IHl]; constructor; [apply IH | exact IHl].
  - apply HFor. induction body as [|s body IHl]; constructor; [apply IH | exact IHl].
  - apply HAlloc.
  - apply HCall.
  - apply HWS.
Qed.

(* ------------------------------------------------------------------ *)
(** * names, constants *)

Lemma match_name_spec : forall p x, match_name p x = true <-> MatchName p x.
Proof.
  intros p x. unfold match_name. rewrite orb_true_iff, !String.eqb_eq. split.
  - intros [->| ->]; constructor.
  - intros H; inversion H; subst; auto.
Qed.

Lemma cval_eqb_eq : forall a b, cval_eqb a b = true <-> a = b.
Proof.
  intros [n1 d1] [n2 d2]. simpl. rewrite andb_true_iff, Z.eqb_eq, Pos.eqb_eq. split.
  - intros [-> ->]; reflexivity.
  - intros H; inversion H; auto.
Qed.

Lemma all_eholes_spec : forall l, all_eholes l = true <-> Forall (fun p => p = PE_Hole) l.
Proof.
  intros l. unfold all_eholes. rewrite forallb_forall, Forall_forall. split; intros H p Hp.
  - specialize (H p Hp). destruct p; try discriminate. reflexivity.
  - rewrite (H p Hp). reflexivity.
Qed.

Lemma rank_ok_spec : forall {A} pidx (idx : list A),
  rank_ok pidx idx = true <-> (List.length pidx = List.length idx \/ Forall (fun p => p = PE_Hole) pidx).
Proof. intros. unfold rank_ok. rewrite orb_true_iff, Nat.eqb_eq, all_eholes_spec. tauto. Qed.

Lemma match_e_hole : forall q e, match_e q e PE_Hole = true.
Proof. destruct e; reflexivity. Qed.

(* ------------------------------------------------------------------ *)
(** * expressions: match_e decides MatchE *)

Definition me (p : pexpr) (e : expr) : bool := match_e spec_quirks e p.

Lemma zip_all_sound : forall idx,
  Forall (fun e => forall p, me p e = true -> MatchE p e) idx ->
  forall pidx, zip_all me pidx idx = true -> MatchEs pidx idx.
Proof.
  induction 1 as [|e idx He Hidx IH]; intros pidx H.
  - constructor.
  - destruct pidx as [|p pidx]; [constructor|]. simpl in H. apply andb_true_iff in H. destruct H as [H1 H2].
    constructor; auto.
Qed.

Lemma match_e_sound : forall e p, me p e = true -> MatchE p e.
Proof.
  unfold me. induction e using expr_ind'; intros p Hm; destruct p; simpl in Hm; try discriminate;
    try (constructor; fail).
  - (* Read / PRead *)
    apply andb_true_iff in Hm. destruct Hm as [H12 H3]. apply andb_true_iff in H12. destruct H12 as [H1 H2].
    constructor.
    + apply match_name_spec; auto.
    + apply rank_ok_spec; auto.
    + apply zip_all_sound; auto.
  - (* Const / PConst *) apply cval_eqb_eq in Hm. subst. constructor.
  - (* Const / PUSub *)
    destruct p; try discriminate. apply cval_eqb_eq in Hm. subst. constructor.
  - (* USub *) constructor. apply IHe. exact Hm.
  - (* BinOp *)
    apply andb_true_iff in Hm. destruct Hm as [H12 H3]. apply andb_true_iff in H12. destruct H12 as [H1 H2].
    apply String.eqb_eq in H1. subst. constructor; auto.
  - (* Extern *)
    apply andb_true_iff in Hm. destruct Hm as [H1 H2]. constructor.
    + apply match_name_spec; auto.
    + apply zip_all_sound; auto.
  - (* WindowExpr / PRead *)
    apply andb_true_iff in Hm. destruct Hm as [H1 H2].
    destruct idx0 as [|[] [|]]; try discriminate. constructor. apply match_name_spec; auto.
  - (* StrideExpr *)
    apply andb_true_iff in Hm. destruct Hm as [H1 H2]. apply match_name_spec in H1.
    destruct dim as [dd|]; simpl in H2.
    + rewrite orb_false_r in H2. apply Nat.eqb_eq in H2. subst. constructor; auto.
    + constructor; auto.
  - (* ReadConfig *)
    apply andb_true_iff in Hm. destruct Hm as [H1 H2]. apply String.eqb_eq in H1, H2. subst. constructor.
Qed.

Lemma match_e_complete_mut :
  (forall p e, MatchE p e -> me p e = true) /\
  (forall ps es, MatchEs ps es -> zip_all me ps es = true).
Proof.
  apply MatchE_MatchEs_ind; unfold me; intros; simpl.
  - apply match_e_hole.
  - apply andb_true_iff. split; [|assumption].
    apply andb_true_iff. split; [apply match_name_spec; auto | apply rank_ok_spec; auto].
  - apply match_name_spec in m. rewrite m. reflexivity.
  - apply cval_eqb_eq. reflexivity.
  - apply cval_eqb_eq. reflexivity.
  - assumption.
  - rewrite String.eqb_refl. simpl. apply andb_true_iff. split; assumption.
  - apply andb_true_iff. split; [apply match_name_spec; auto | assumption].
  - rewrite !String.eqb_refl. reflexivity.
  - apply match_name_spec in m. rewrite m. reflexivity.
  - apply match_name_spec in m. rewrite m. simpl. rewrite Nat.eqb_refl. reflexivity.
  - destruct es; reflexivity.
  - destruct ps; reflexivity.
  - apply andb_true_iff. split; assumption.
Qed.

Theorem match_e_dec : forall p e, match_e spec_quirks e p = true <-> MatchE p e.
Proof. intros; split; [apply match_e_sound | apply (proj1 match_e_complete_mut)]. Qed.

Theorem match_es_dec : forall ps es, match_es spec_quirks ps es = true <-> MatchEs ps es.
Proof.
  intros; split.
  - unfold match_es. apply zip_all_sound. apply Forall_forall. intros e _ p. apply match_e_sound.
  - apply (proj2 match_e_complete_mut).
Qed.

(* ------------------------------------------------------------------ *)
(** * statements without sub-blocks *)

Definition ms (p : pstmt) (s : stmt) : bool := match_stmt spec_quirks s p.

Arguments match_es : simpl never.

Ltac split_andb :=
  repeat match goal with
         | H : _ && _ = true |- _ => apply andb_true_iff in H; destruct H
         end.
Ltac of_bool :=
  repeat match goal with
         | H : match_name _ _ = true |- _ => apply match_name_spec in H
         | H : match_es spec_quirks _ _ = true |- _ => apply match_es_dec in H
         | H : match_e spec_quirks _ _ = true |- _ => apply match_e_dec in H
         end.
Ltac to_bool :=
  repeat match goal with
         | H : MatchName _ _ |- _ => apply match_name_spec in H; rewrite H
         | H : MatchEs _ _ |- _ => apply match_es_dec in H; rewrite H
         | H : MatchE _ _ |- _ => apply match_e_dec in H; rewrite H
         end.

Lemma leaf_dec : forall s p, is_leaf s -> (ms p s = true <-> LeafMatch p s).
Proof.
  unfold ms. intros s p L. destruct s; simpl in L; try contradiction; split; intros H;
    try (destruct p; simpl in H; try discriminate;
         unfold match_writeconfig, match_call_args in H; simpl in H;
         try (destruct shape); try (destruct idx; [|discriminate H]);
         split_andb; of_bool; constructor; auto; fail);
    try (inversion H; subst; simpl; unfold match_writeconfig, match_call_args; simpl; to_bool; reflexivity).
  destruct p; simpl in H; try discriminate. split_andb.
  destruct idx; [|discriminate]. of_bool. constructor; auto.
Qed.

(* ------------------------------------------------------------------ *)
(** * statements and statement sequences *)

Definition mseq (ps : list pstmt) (blk : list stmt) : option nat := match_stmts spec_quirks ps blk.

Lemma ms_if : forall c b o p,
  ms p (If c b o) =
  match p with
  | PIf pc pb po => match_e spec_quirks c pc && is_some (mseq pb b) && is_some (mseq po o)
  | _ => false
  end.
Proof. intros. destruct p; reflexivity. Qed.

Lemma ms_for : forall i lo hi b p,
  ms p (For i lo hi b) =
  match p with
  | PFor pi plo phi pb =>
      match_name pi i && match_e spec_quirks lo plo && match_e spec_quirks hi phi && is_some (mseq pb b)
  | _ => false
  end.
Proof. intros. destruct p; reflexivity. Qed.

Lemma mseq_unfold : forall ps blk,
  mseq ps blk =
  match ps with
  | [] => Some 0
  | p :: ps' =>
      match blk with
      | [] => None
      | s :: blk' =>
          match p with
          | PS_Hole =>
              match ps' with
              | [] => Some (List.length blk)
              | p1 :: ps'' => option_map S (if ms p1 s then mseq ps'' blk' else mseq ps blk')
              end
          | _ => if ms p s then option_map S (mseq ps' blk') else None
          end
      end
  end.
Proof. intros. destruct ps as [|p ps']; destruct blk as [|s blk']; try reflexivity; destruct p; reflexivity. Qed.

(* totality / soundness: the value computed by the matcher is derivable *)
Lemma mseq_sound_list : forall blk,
  Forall (fun s => forall p, MatchS p s (ms p s)) blk ->
  forall ps, MatchSeq ps blk (mseq ps blk).
Proof.
  induction 1 as [|s blk Hs Hblk IH]; intros ps.
  - destruct ps; rewrite mseq_unfold; constructor.
  - rewrite mseq_unfold. destruct ps as [|p ps']; [constructor|].
    destruct p.
    + (* hole *)
      destruct ps' as [|p1 ps''].
      * simpl. constructor.
      * destruct (ms p1 s) eqn:E.
        -- apply MQ_hole_stop; [rewrite <- E; apply Hs | apply IH].
        -- apply MQ_hole_skip; [rewrite <- E; apply Hs | apply IH].
    + destruct (ms (PAssign x idx rhs) s) eqn:E;
        [apply MQ_cons; [simpl; tauto | rewrite <- E; apply Hs | apply IH]
        | apply MQ_fail; [simpl; tauto | rewrite <- E; apply Hs]].
    + destruct (ms (PReduce x idx rhs) s) eqn:E;
        [apply MQ_cons; [simpl; tauto | rewrite <- E; apply Hs | apply IH]
        | apply MQ_fail; [simpl; tauto | rewrite <- E; apply Hs]].
    + destruct (ms PPass s) eqn:E;
        [apply MQ_cons; [simpl; tauto | rewrite <- E; apply Hs | apply IH]
        | apply MQ_fail; [simpl; tauto | rewrite <- E; apply Hs]].
    + destruct (ms (PIf cond body orelse) s) eqn:E;
        [apply MQ_cons; [simpl; tauto | rewrite <- E; apply Hs | apply IH]
        | apply MQ_fail; [simpl; tauto | rewrite <- E; apply Hs]].
    + destruct (ms (PFor iter lo hi body) s) eqn:E;
        [apply MQ_cons; [simpl; tauto | rewrite <- E; apply Hs | apply IH]
        | apply MQ_fail; [simpl; tauto | rewrite <- E; apply Hs]].
    + destruct (ms (PAlloc x sizes) s) eqn:E;
        [apply MQ_cons; [simpl; tauto | rewrite <- E; apply Hs | apply IH]
        | apply MQ_fail; [simpl; tauto | rewrite <- E; apply Hs]].
    + destruct (ms (PCall f args) s) eqn:E;
        [apply MQ_cons; [simpl; tauto | rewrite <- E; apply Hs | apply IH]
        | apply MQ_fail; [simpl; tauto | rewrite <- E; apply Hs]].
    + destruct (ms (PWriteConfig cfg fld) s) eqn:E;
        [apply MQ_cons; [simpl; tauto | rewrite <- E; apply Hs | apply IH]
        | apply MQ_fail; [simpl; tauto | rewrite <- E; apply Hs]].
Qed.

Lemma leaf_sound : forall s p, is_leaf s -> MatchS p s (ms p s).
Proof.
  intros s p L. destruct (ms p s) eqn:E.
  - apply MS_leaf; auto. apply leaf_dec; auto.
  - apply MS_leaf_no; auto. intros H. apply leaf_dec in H; auto. congruence.
Qed.

Lemma ms_sound : forall s p, MatchS p s (ms p s).
Proof.
  induction s using stmt_ind'; intros p; try (apply leaf_sound; exact I).
  - (* If *)
    rewrite ms_if. destruct p; try (apply MS_if_kind; simpl; tauto).
    pose proof (mseq_sound_list b H body) as Hb. pose proof (mseq_sound_list o H0 orelse) as Ho.
    destruct (match_e spec_quirks c cond) eqn:Ec; simpl.
    + destruct (mseq body b) as [jb|] eqn:Eb; simpl.
      * destruct (mseq orelse o) as [jo|] eqn:Eo; simpl.
        -- eapply MS_if; eauto. apply match_e_dec; auto.
        -- apply MS_if_orelse; auto.
      * apply MS_if_body; auto.
    + apply MS_if_cond. intros Hm. apply match_e_dec in Hm. congruence.
  - (* For *)
    rewrite ms_for. destruct p; try (apply MS_for_kind; simpl; tauto).
    pose proof (mseq_sound_list b H body) as Hb.
    destruct (match_name iter i && match_e spec_quirks lo lo0 && match_e spec_quirks hi hi0) eqn:Eh; simpl.
    + apply andb_true_iff in Eh. destruct Eh as [E12 E3]. apply andb_true_iff in E12. destruct E12 as [E1 E2].
      destruct (mseq body b) as [j|] eqn:Eb; simpl.
      * eapply MS_for; eauto; [apply match_name_spec | apply match_e_dec | apply match_e_dec]; auto.
      * apply MS_for_body; auto.
    + apply MS_for_head. intros (M1 & M2 & M3).
      apply match_name_spec in M1. apply match_e_dec in M2. apply match_e_dec in M3.
      rewrite M1, M2, M3 in Eh. discriminate.
Qed.

Lemma mseq_sound : forall ps blk, MatchSeq ps blk (mseq ps blk).
Proof. intros. apply mseq_sound_list. apply Forall_forall. intros s _ p. apply ms_sound. Qed.

(* determinism: every derivable value is the computed one *)
Lemma match_complete_mut :
  (forall p s b, MatchS p s b -> ms p s = b) /\
  (forall ps blk r, MatchSeq ps blk r -> mseq ps blk = r).
Proof.
  apply MatchS_MatchSeq_ind; intros.
  - apply leaf_dec; auto.
  - destruct (ms p s) eqn:E; auto. exfalso. apply n. apply leaf_dec; auto.
  - rewrite ms_if. apply match_e_dec in m. rewrite m, H, H0. reflexivity.
  - rewrite ms_if. destruct p; auto. exfalso. apply n. exact I.
  - rewrite ms_if. destruct (match_e spec_quirks c pc) eqn:E; auto. exfalso. apply n. apply match_e_dec; auto.
  - rewrite ms_if, H. simpl. rewrite andb_false_r. reflexivity.
  - rewrite ms_if, H. simpl. rewrite andb_false_r. reflexivity.
  - rewrite ms_for. apply match_name_spec in m. apply match_e_dec in m0, m1. rewrite m, m0, m1, H. reflexivity.
  - rewrite ms_for. destruct p; auto. exfalso. apply n. exact I.
  - rewrite ms_for.
    destruct (match_name pi i) eqn:E1; auto. destruct (match_e spec_quirks lo plo) eqn:E2; auto.
    destruct (match_e spec_quirks hi phi) eqn:E3; auto. exfalso. apply n.
    repeat split; [apply match_name_spec | apply match_e_dec | apply match_e_dec]; auto.
  - rewrite ms_for, H. simpl. rewrite andb_false_r. reflexivity.
  - rewrite mseq_unfold. reflexivity.
  - rewrite mseq_unfold. reflexivity.
  - rewrite mseq_unfold. reflexivity.
  - rewrite mseq_unfold. rewrite H, H0. reflexivity.
  - rewrite mseq_unfold. rewrite H, H0. reflexivity.
  - rewrite mseq_unfold. destruct p; try (exfalso; apply n; exact I); rewrite H, H0; reflexivity.
  - rewrite mseq_unfold. destruct p; try (exfalso; apply n; exact I); rewrite H; reflexivity.
Qed.

Theorem match_stmt_dec : forall p s b, match_stmt spec_quirks s p = b <-> MatchS p s b.
Proof.
  intros; split.
  - intros <-. apply ms_sound.
  - apply (proj1 match_complete_mut).
Qed.

Theorem match_stmts_dec : forall ps blk r, match_stmts spec_quirks ps blk = r <-> MatchSeq ps blk r.
Proof.
  intros; split.
  - intros <-. apply mseq_sound.
  - apply (proj2 match_complete_mut).
Qed.

(* the statement of the design document *)
Theorem match_rel_dec : forall pats blk j, match_stmts spec_quirks pats blk = Some j <-> MatchRel pats blk j.
Proof. intros. apply match_stmts_dec. Qed.

(* matching a block of cursor nodes = matching the underlying statements *)
Lemma match_seq_map : forall {X Y} (f : Y -> X) (m1 : pstmt -> X -> bool) (m2 : pstmt -> Y -> bool),
  (forall p y, m1 p (f y) = m2 p y) ->
  forall blk ps, match_seq m1 ps (map f blk) = match_seq m2 ps blk.
Proof.
  intros X Y f m1 m2 Hm. induction blk as [|y blk IH]; intros ps.
  - destruct ps; reflexivity.
  - destruct ps as [|p ps']; [reflexivity|]. simpl.
    destruct p; try (rewrite Hm, IH; reflexivity).
    destruct ps' as [|p1 ps''].
    + rewrite map_length. reflexivity.
    + rewrite Hm, !IH. reflexivity.
Qed.

Theorem match_stmts_nodes_stmts : forall q ps blk,
  match_stmts_nodes q ps (map NStmt blk) = match_stmts q ps blk.
Proof. intros. unfold match_stmts_nodes, match_stmts. apply match_seq_map. reflexivity. Qed.

(* the matched prefix is never longer than the block, and is non-empty unless the pattern is empty *)
Lemma match_seq_bound : forall {X} (m : pstmt -> X -> bool) blk ps j,
  match_seq m ps blk = Some j -> j <= List.length blk /\ (ps <> [] -> 0 < j).
Proof.
  intros X m. induction blk as [|s blk IH]; intros ps j H.
  - destruct ps; simpl in H; inversion H; subst. split; auto. congruence.
  - destruct ps as [|p ps']; simpl in H; [inversion H; subst; split; [lia | congruence]|].
    assert (Hc : forall ps0 r, option_map S (match_seq m ps0 blk) = Some r -> r <= S (List.length blk) /\ 0 < r).
    { intros ps0 r Hr. destruct (match_seq m ps0 blk) as [j'|] eqn:E; simpl in Hr; inversion Hr; subst.
      apply IH in E. simpl. lia. }
    destruct p;
      try (destruct (m _ s); [apply Hc in H; simpl; split; [lia | intros; lia] | discriminate]).
    destruct ps' as [|p1 ps''].
    + inversion H; subst. simpl. split; [lia | intros; lia].
    + destruct (m p1 s); apply Hc in H; simpl; split; try lia; intros; lia.
Qed.
