(* C16 -- find / pattern matching / cursor navigation: executable model.
   Mirrors  /repo/src/exo/frontend/pattern_match.py   (PatternMatch, _children, match_pattern's #n regex)
            /repo/src/exo/core/internal_cursors.py    (Node / Block / Gap navigation)
            /repo/src/exo/API_cursors.py, API.py      (find wrappers, name #n shorthands, API-level navigation)
   Executable Gallina only; no proofs in this file. *)
From Coq Require Import List ZArith Bool String Ascii Arith.
Import ListNotations.
Local Open Scope Z_scope.

(* ------------------------------------------------------------------ *)
(** * 1. LoopIR fragment *)

(* A literal: exact rational num/den in lowest terms (the exporter uses fractions.Fraction, so Python's
   `pat.val == e.val` over bool/int/float is structural equality here: True == 1 == 1.0). *)
Inductive cval := CV (num : Z) (den : positive).
Definition cval_eqb (a b : cval) : bool :=
  match a, b with CV n1 d1, CV n2 d2 => Z.eqb n1 n2 && Pos.eqb d1 d2 end.
Definition cval_neg (a : cval) : cval := match a with CV n d => CV (- n) d end.

Inductive wacc (E : Type) := Interval (lo hi : E) | Point (pt : E).
Arguments Interval {E}. Arguments Point {E}.

Inductive expr :=
| Read (x : string) (idx : list expr)
| Const (v : cval)
| USub (a : expr)
| BinOp (op : string) (l r : expr)
| Extern (f : string) (args : list expr)
| WindowExpr (x : string) (idx : list (wacc expr))
| StrideExpr (x : string) (dim : nat)
| ReadConfig (cfg fld : string).

Inductive stmt :=
| Assign (x : string) (idx : list expr) (rhs : expr)
| Reduce (x : string) (idx : list expr) (rhs : expr)
| WriteConfig (cfg fld : string) (rhs : expr)
| Pass
| If (cond : expr) (body orelse : list stmt)
| For (iter : string) (lo hi : expr) (body : list stmt)
| Alloc (x : string) (shape : option (list expr))     (* None: scalar;  Some hi: Tensor(hi) *)
| Call (f : string) (args : list expr)
| WindowStmt (x : string) (rhs : expr).

Record proc := { p_args : list string; p_body : list stmt }.

(* everything a cursor path can resolve to *)
Inductive node :=
| NProc (p : proc) | NArg (x : string) | NStmt (s : stmt) | NExpr (e : expr) | NW (w : wacc expr).

(* ------------------------------------------------------------------ *)
(** * 2. PAST patterns *)

Inductive pexpr :=
| PE_Hole
| PRead (x : string) (idx : list pexpr)
| PStride (x : string) (dim : option nat)
| PConst (v : cval)
| PUSub (a : pexpr)
| PBinOp (op : string) (l r : pexpr)
| PExtern (f : string) (args : list pexpr)
| PReadConfig (cfg fld : string).

Inductive pstmt :=
| PS_Hole
| PAssign (x : string) (idx : list pexpr) (rhs : pexpr)
| PReduce (x : string) (idx : list pexpr) (rhs : pexpr)
| PPass
| PIf (cond : pexpr) (body orelse : list pstmt)
| PFor (iter : string) (lo hi : pexpr) (body : list pstmt)
| PAlloc (x : string) (sizes : list pexpr)
| PCall (f : string) (args : list pexpr)
| PWriteConfig (cfg fld : string).

Inductive pattern := PatE (e : pexpr) | PatS (l : list pstmt).

(* ------------------------------------------------------------------ *)
(** * 3. The matcher (pattern_match.py: match_name / match_e / match_stmt / match_stmts) *)

(* Places where the code deviates (or deviated) from "structurally matches the pattern".  [impl_quirks] is
   what /repo does NOW; [spec_quirks] is the specification (MatchRel).  Flip a field of [impl_quirks] when
   the corresponding line of pattern_match.py changes; the check compares it with probes of the real code.
     q_stride0  : `pat.dim == e.dim or not bool(pat.dim)` made stride(x, 0) a wildcard
                  -- repaired in /repo 80472758 (`... or pat.dim is None`), now false
     q_callargs : Call patterns: only the callee name is compared, pat.args ignored   (open finding F-C16-2)
     q_wcfg     : WriteConfig: match_name called with (ir, pat) swapped, `_` not honoured
                  -- repaired in /repo e0571e51 (`pat.config in ("_", name) and pat.field in ("_", field)`), now false *)
Record quirks := {
  q_stride0  : bool;
  q_callargs : bool;
  q_wcfg     : bool
}.
Definition impl_quirks : quirks := {| q_stride0 := false; q_callargs := true; q_wcfg := false |}.
Definition spec_quirks : quirks := {| q_stride0 := false; q_callargs := false; q_wcfg := false |}.

Definition hole_name : string := "_"%string.

(* match_name(pat_nm, ir_sym):  pat_nm == "_" or pat_nm == str(ir_sym) *)
Definition match_name (pat_nm ir_nm : string) : bool :=
  String.eqb pat_nm hole_name || String.eqb pat_nm ir_nm.

(* all(f(p, s) for p, s in zip(ps, ss)) : compared over the common prefix only *)
Section ZipAll.
  Context {A B : Type} (f : A -> B -> bool).
  Fixpoint zip_all (la : list A) (lb : list B) {struct lb} : bool :=
    match lb, la with
    | b :: lb', a :: la' => f a b && zip_all la' lb'
    | _, _ => true
    end.
End ZipAll.

Definition opt_nat_eqb (a : option nat) (b : nat) : bool :=
  match a with Some x => Nat.eqb x b | None => false end.

(* `pat.dim == e.dim or not bool(pat.dim)` *)
Definition match_stride_dim (q : quirks) (pd : option nat) (d : nat) : bool :=
  match pd with
  | None => true
  | Some x => Nat.eqb x d || (q_stride0 q && Nat.eqb x 0)
  end.

(* PatternMatch.match_idx (expression reads only): a pattern that spells out an index only matches reads
   of the same rank; `x`, `x[_]`, `x[_, _]` match a read of any rank.  [rank_ok] is the rank test, the
   element-wise comparison stays the zip over the common prefix. *)
Definition all_eholes (l : list pexpr) : bool :=
  forallb (fun p => match p with PE_Hole => true | _ => false end) l.
Definition rank_ok {A : Type} (pidx : list pexpr) (idx : list A) : bool :=
  Nat.eqb (List.length pidx) (List.length idx) || all_eholes pidx.

Definition is_hole_list1 (l : list pexpr) : bool :=
  match l with [PE_Hole] => true | _ => false end.

Fixpoint match_e (q : quirks) (e : expr) (pat : pexpr) {struct e} : bool :=
  match pat with
  | PE_Hole => true
  | _ =>
    match e with
    | Read x idx =>
        match pat with
        | PRead px pidx =>
            match_name px x && rank_ok pidx idx && zip_all (fun p e' => match_e q e' p) pidx idx
        | _ => false end
    | WindowExpr x _ =>
        match pat with
        | PRead px pidx => is_hole_list1 pidx && match_name px x
        | _ => false end
    | Const v =>
        match pat with
        | PConst pv => cval_eqb pv v
        | PUSub (PConst pv) => cval_eqb (cval_neg pv) v      (* -3 parsed as USub(Const 3) matches Const(-3) *)
        | _ => false end
    | BinOp op l r =>
        match pat with
        | PBinOp pop pl pr => String.eqb pop op && match_e q l pl && match_e q r pr
        | _ => false end
    | USub a =>
        match pat with
        | PUSub pa => match_e q a pa
        | _ => false end
    | Extern f args =>
        match pat with
        | PExtern pf pargs => match_name pf f && zip_all (fun p e' => match_e q e' p) pargs args
        | _ => false end
    | ReadConfig c f =>
        match pat with
        | PReadConfig pc pf => String.eqb pc c && String.eqb pf f
        | _ => false end
    | StrideExpr x d =>
        match pat with
        | PStride px pd => match_name px x && match_stride_dim q pd d
        | _ => false end
    end
  end.

Definition match_es (q : quirks) (ps : list pexpr) (es : list expr) : bool :=
  zip_all (fun p e' => match_e q e' p) ps es.

(* match_stmts: the while loop over (i, j); returns the number of statements of the matched prefix.
   [ms] is the single-statement matcher; generic in the element type so that it can run on cursor blocks. *)
Section MatchSeq.
  Context {X : Type} (ms : pstmt -> X -> bool).
  Fixpoint match_seq (pats : list pstmt) (blk : list X) {struct blk} : option nat :=
    match pats with
    | [] => Some 0%nat                                              (* i == len(pats): cur[:j] *)
    | p :: pats' =>
      match blk with
      | [] => None                                                  (* j == len(cur) and i < len(pats) *)
      | s :: blk' =>
        match p with
        | PS_Hole =>
          match pats' with
          | [] => Some (List.length blk)                                 (* no look-ahead: `return cur` *)
          | p1 :: pats'' =>
              option_map S (if ms p1 s then match_seq pats'' blk'   (* look-ahead matches: i += 2 *)
                            else match_seq pats blk')               (* the hole absorbs s *)
          end
        | _ => if ms p s then option_map S (match_seq pats' blk') else None
        end
      end
    end.
End MatchSeq.

Definition is_some {A} (o : option A) : bool := match o with Some _ => true | None => false end.
Definition is_nil {A} (l : list A) : bool := match l with [] => true | _ => false end.

(* match_name for WriteConfig as the code calls it: match_name(stmt.config.name(), pat.config) *)
Definition match_writeconfig (q : quirks) (pc pf cfg fld : string) : bool :=
  if q_wcfg q then match_name cfg pc && match_name fld pf
  else match_name pc cfg && match_name pf fld.

Definition match_call_args (q : quirks) (pargs : list pexpr) (args : list expr) : bool :=
  if q_callargs q then true else match_es q pargs args.

Fixpoint match_stmt (q : quirks) (s : stmt) (pat : pstmt) {struct s} : bool :=
  match s with
  | Assign x idx rhs =>
      match pat with
      | PAssign px pidx prhs => match_name px x && match_es q pidx idx && match_e q rhs prhs
      | _ => false end
  | Reduce x idx rhs =>
      match pat with
      | PReduce px pidx prhs => match_name px x && match_es q pidx idx && match_e q rhs prhs
      | _ => false end
  | WindowStmt x rhs =>
      match pat with
      | PAssign px pidx prhs => match_name px x && is_nil pidx && match_e q rhs prhs
      | _ => false end
  | Pass => match pat with PPass => true | _ => false end
  | If c b o =>
      match pat with
      | PIf pc pb po =>
          match_e q c pc
          && is_some (match_seq (fun p s' => match_stmt q s' p) pb b)
          && is_some (match_seq (fun p s' => match_stmt q s' p) po o)
      | _ => false end
  | For i lo hi b =>
      match pat with
      | PFor pi plo phi pb =>
          match_name pi i && match_e q lo plo && match_e q hi phi
          && is_some (match_seq (fun p s' => match_stmt q s' p) pb b)
      | _ => false end
  | Alloc x sh =>
      match pat with
      | PAlloc px psz =>
          match sh with
          | Some his => match_es q psz his && match_name px x
          | None => match_name px x
          end
      | _ => false end
  | Call f args =>
      match pat with
      | PCall pf pargs => match_name pf f && match_call_args q pargs args
      | _ => false end
  | WriteConfig cfg fld _ =>
      match pat with
      | PWriteConfig pc pf => match_writeconfig q pc pf cfg fld
      | _ => false end
  end.

Definition match_stmts (q : quirks) (pats : list pstmt) (blk : list stmt) : option nat :=
  match_seq (fun p s => match_stmt q s p) pats blk.

(* matching a cursor's node *)
Definition match_e_node (q : quirks) (pat : pexpr) (n : node) : bool :=
  match n with NExpr e => match_e q e pat | _ => false end.
Definition match_stmt_node (q : quirks) (pat : pstmt) (n : node) : bool :=
  match n with NStmt s => match_stmt q s pat | _ => false end.
Definition match_stmts_nodes (q : quirks) (pats : list pstmt) (blk : list node) : option nat :=
  match_seq (match_stmt_node q) pats blk.

(* Python raises AssertionError ("holes must be handled in match_stmts") when a statement hole is
   followed by another hole; the model treats the look-ahead hole as non-matching.  [wf_pats] = the
   patterns on which Python cannot assert. *)
Fixpoint no_adjacent_holes (l : list pstmt) : bool :=
  match l with
  | PS_Hole :: ((PS_Hole :: _) as t) => false
  | _ :: t => no_adjacent_holes t
  | [] => true
  end.
Fixpoint wf_pstmt (p : pstmt) : bool :=
  match p with
  | PIf _ b o => forallb wf_pstmt b && no_adjacent_holes b && forallb wf_pstmt o && no_adjacent_holes o
  | PFor _ _ _ b => forallb wf_pstmt b && no_adjacent_holes b
  | _ => true
  end.
Definition wf_pats (l : list pstmt) : bool := forallb wf_pstmt l && no_adjacent_holes l.

(* ------------------------------------------------------------------ *)
(** * 4. Paths, cursors, attribute access *)

Inductive attr := Acond | Alo | Ahi | Aidx | Alhs | Arhs | Aargs | Aarg | Apt | Abody | Aorelse.

(* textual order of the attributes inside one node; `_children` lists attributes in this order *)
Definition attr_rank (a : attr) : nat :=
  match a with
  | Acond => 0 | Alo => 1 | Ahi => 2 | Aidx => 3 | Alhs => 4 | Arhs => 5
  | Aargs => 6 | Aarg => 7 | Apt => 8 | Abody => 9 | Aorelse => 10
  end%nat.
Definition attr_eqb (a b : attr) : bool := Nat.eqb (attr_rank a) (attr_rank b).

Definition step : Type := attr * option nat.
Definition path : Type := list step.

Inductive cursor :=
| CNode (p : path)
| CBlock (anchor : path) (a : attr) (lo hi : Z)        (* Block(_anchor, _attr, range(lo, hi)) *)
| CGap (anchor : path) (after : bool).                 (* Gap(_anchor, Before|After) *)

Inductive attrval := AList (l : list node) | ANode (n : node) | ANone.

(* getattr(node, attr) *)
Definition get_attr (n : node) (a : attr) : attrval :=
  match n with
  | NProc p =>
      match a with
      | Aargs => AList (map NArg (p_args p))
      | Abody => AList (map NStmt (p_body p))
      | _ => ANone end
  | NArg _ => ANone
  | NStmt s =>
      match s with
      | Assign _ idx rhs | Reduce _ idx rhs =>
          match a with Aidx => AList (map NExpr idx) | Arhs => ANode (NExpr rhs) | _ => ANone end
      | WriteConfig _ _ rhs | WindowStmt _ rhs =>
          match a with Arhs => ANode (NExpr rhs) | _ => ANone end
      | Pass | Alloc _ _ => ANone
      | If c b o =>
          match a with
          | Acond => ANode (NExpr c) | Abody => AList (map NStmt b) | Aorelse => AList (map NStmt o)
          | _ => ANone end
      | For _ lo hi b =>
          match a with
          | Alo => ANode (NExpr lo) | Ahi => ANode (NExpr hi) | Abody => AList (map NStmt b)
          | _ => ANone end
      | Call _ args => match a with Aargs => AList (map NExpr args) | _ => ANone end
      end
  | NExpr e =>
      match e with
      | Read _ idx => match a with Aidx => AList (map NExpr idx) | _ => ANone end
      | WindowExpr _ idx => match a with Aidx => AList (map NW idx) | _ => ANone end
      | Const _ | StrideExpr _ _ | ReadConfig _ _ => ANone
      | USub x => match a with Aarg => ANode (NExpr x) | _ => ANone end
      | BinOp _ l r => match a with Alhs => ANode (NExpr l) | Arhs => ANode (NExpr r) | _ => ANone end
      | Extern _ args => match a with Aargs => AList (map NExpr args) | _ => ANone end
      end
  | NW w =>
      match w with
      | Interval lo hi => match a with Alo => ANode (NExpr lo) | Ahi => ANode (NExpr hi) | _ => ANone end
      | Point pt => match a with Apt => ANode (NExpr pt) | _ => ANone end
      end
  end.

(* pattern_match._children: which attributes are traversed, in which order *)
Definition child_attrs (n : node) : list attr :=
  match n with
  | NProc _ => [Abody]
  | NArg _ => []
  | NStmt s =>
      match s with
      | Assign _ _ _ | Reduce _ _ _ => [Aidx; Arhs]
      | WriteConfig _ _ _ | WindowStmt _ _ => [Arhs]
      | Pass | Alloc _ _ => []
      | If _ _ _ => [Acond; Abody; Aorelse]
      | For _ _ _ _ => [Alo; Ahi; Abody]
      | Call _ _ => [Aargs]
      end
  | NExpr e =>
      match e with
      | Read _ _ | WindowExpr _ _ => [Aidx]
      | Const _ | StrideExpr _ _ | ReadConfig _ _ => []
      | USub _ => [Aarg]
      | BinOp _ _ _ => [Alhs; Arhs]
      | Extern _ _ => [Aargs]
      end
  | NW w => match w with Interval _ _ => [Alo; Ahi] | Point _ => [Apt] end
  end.

Fixpoint mapi_from {A B : Type} (f : nat -> A -> B) (k : nat) (l : list A) : list B :=
  match l with [] => [] | x :: t => f k x :: mapi_from f (S k) t end.

(* _children_from_attrs for one attribute *)
Definition expand_attr (n : node) (a : attr) : list (step * node) :=
  match get_attr n a with
  | AList l => mapi_from (fun i c => ((a, Some i), c)) 0%nat l
  | ANode c => [((a, None), c)]
  | ANone => []
  end.
Definition children (n : node) : list (step * node) := flat_map (expand_attr n) (child_attrs n).

(* Node._node : walk the path from the root *)
Fixpoint resolve (n : node) (p : path) : option node :=
  match p with
  | [] => Some n
  | (a, i) :: p' =>
      match get_attr n a, i with
      | AList l, Some k => match nth_error l k with Some c => resolve c p' | None => None end
      | ANode c, None => resolve c p'
      | _, _ => None
      end
  end.

(* sizes (fuel for the traversals) *)
Fixpoint size_e (e : expr) : nat :=
  match e with
  | Read _ idx => S (list_sum (map size_e idx))
  | Const _ | StrideExpr _ _ | ReadConfig _ _ => 1
  | USub a => S (size_e a)
  | BinOp _ l r => S (size_e l + size_e r)
  | Extern _ args => S (list_sum (map size_e args))
  | WindowExpr _ idx =>
      S (list_sum (map (fun w => match w with
                                 | Interval lo hi => S (size_e lo + size_e hi)
                                 | Point pt => S (size_e pt) end) idx))
  end%nat.
Definition size_w (w : wacc expr) : nat :=
  match w with Interval lo hi => S (size_e lo + size_e hi) | Point pt => S (size_e pt) end.
Fixpoint size_s (s : stmt) : nat :=
  match s with
  | Assign _ idx rhs | Reduce _ idx rhs => S (list_sum (map size_e idx) + size_e rhs)
  | WriteConfig _ _ rhs | WindowStmt _ rhs => S (size_e rhs)
  | Pass | Alloc _ _ => 1
  | If c b o => S (size_e c + list_sum (map size_s b) + list_sum (map size_s o))
  | For _ lo hi b => S (size_e lo + size_e hi + list_sum (map size_s b))
  | Call _ args => S (list_sum (map size_e args))
  end%nat.
Definition size (n : node) : nat :=
  match n with
  | NProc p => S (List.length (p_args p) + list_sum (map size_s (p_body p)))
  | NArg _ => 1%nat
  | NStmt s => size_s s
  | NExpr e => size_e e
  | NW w => size_w w
  end.

(* ------------------------------------------------------------------ *)
(** * 5. find  (PatternMatch.find / find_expr / find_stmts / find_stmts_in_block / _add_result) *)

(* PatternMatch state: _match_no, _results; [f_done] = _MatchComplete has been raised *)
Record fstate := { f_no : option nat; f_res : list cursor; f_done : bool }.
Definition init_state (mno : option nat) : fstate := {| f_no := mno; f_res := []; f_done := false |}.

Definition add_result (st : fstate) (c : cursor) : fstate :=
  if f_done st then st else
  match f_no st with
  | None => {| f_no := None; f_res := f_res st ++ [c]; f_done := false |}
  | Some O => {| f_no := Some O; f_res := f_res st ++ [c]; f_done := true |}
  | Some (S k) => {| f_no := Some k; f_res := f_res st; f_done := false |}
  end.

(* find_expr: test the node, then recurse into _children(cur) in order *)
Fixpoint find_expr_f (fuel : nat) (q : quirks) (pat : pexpr) (st : fstate) (p : path) (n : node) : fstate :=
  match fuel with
  | O => st
  | S f =>
      if f_done st then st else
      let st1 := if match_e_node q pat n then add_result st (CNode p) else st in
      fold_left (fun st' sc => find_expr_f f q pat st' (p ++ [fst sc]) (snd sc)) (children n) st1
  end.

(* the statement blocks hanging off the first statement of a block: If -> body, orelse; For -> body *)
Definition node_blocks (n : node) : list (attr * list node) :=
  match n with
  | NStmt (If _ b o) => [(Abody, map NStmt b); (Aorelse, map NStmt o)]
  | NStmt (For _ _ _ b) => [(Abody, map NStmt b)]
  | _ => []
  end.

(* find_stmts_in_block(pats, curs) where curs = Block(anchor, a, range(k, k + len blk)).
   [rec] is the recursive call on a sub-block curs[0].body() / curs[0].orelse() (one nesting level deeper). *)
Section FindBlockLoop.
  Context (rec : fstate -> path -> attr -> list node -> fstate).
  Context (q : quirks) (pats : list pstmt) (anchor : path) (a : attr).
  Fixpoint find_block_loop (st : fstate) (k : nat) (blk : list node) {struct blk} : fstate :=
    match blk with
    | [] => st                                                         (* len(curs) == 0 *)
    | n :: rest =>
        if f_done st then st else
        let st1 := match match_stmts_nodes q pats blk with               (* match a prefix of curs *)
                   | Some j => add_result st (CBlock anchor a (Z.of_nat k) (Z.of_nat (k + j)))
                   | None => st end in
        let st2 := fold_left (fun st' ab => rec st' (anchor ++ [(a, Some k)]) (fst ab) (snd ab))
                             (node_blocks n) st1 in                      (* curs[0].body(), curs[0].orelse() *)
        find_block_loop st2 (S k) rest                                   (* curs[1:] *)
    end.
End FindBlockLoop.

Fixpoint find_block_f (fuel : nat) (q : quirks) (pats : list pstmt) (st : fstate)
         (anchor : path) (a : attr) (k : nat) (blk : list node) : fstate :=
  match fuel with
  | O => st
  | S f =>
      find_block_loop (fun st' an a' b => find_block_f f q pats st' an a' 0%nat b) q pats anchor a st k blk
  end.

Inductive err :=
| InvalidCursorError | IndexError | ValueError | TypeError | AttributeError | AssertionError
| PatternMatchError | SchedulingError.
Inductive res (A : Type) := Ok (a : A) | Err (e : err).
Arguments Ok {A}. Arguments Err {A}.
Definition bind {A B} (r : res A) (f : A -> res B) : res B :=
  match r with Ok a => f a | Err e => Err e end.

Fixpoint last_step (p : path) : option step :=
  match p with [] => None | [s] => Some s | _ :: t => last_step t end.

Definition all_holes (l : list pstmt) : bool :=
  forallb (fun p => match p with PS_Hole => true | _ => false end) l.

(* PatternMatch.find(cur, pat, match_no) with cur = Node(root, ctx) *)
Definition pm_find (q : quirks) (root : node) (ctx : path) (pat : pattern) (mno : option nat)
  : res (list cursor) :=
  match resolve root ctx with
  | None => Err AttributeError
  | Some n =>
      match pat with
      | PatE PE_Hole => Err PatternMatchError
      | PatE pe => Ok (f_res (find_expr_f (size n) q pe (init_state mno) ctx n))
      | PatS pats =>
          if all_holes pats then Err PatternMatchError else
          match n with
          | NProc p =>                                                      (* cur.body() *)
              Ok (f_res (find_block_f (size n) q pats (init_state mno) ctx Abody 0%nat (map NStmt (p_body p))))
          | _ =>                                                            (* cur.as_block() *)
              match last_step ctx with
              | None => Err IndexError
              | Some (_, None) => Err InvalidCursorError
              | Some (a, Some k) =>
                  Ok (f_res (find_block_f (S (size n)) q pats (init_state mno) (removelast ctx) a k [n]))
              end
          end
      end
  end.

(* API_cursors.find: unwrap singleton blocks; SchedulingError when nothing was found *)
Definition unwrap1 (c : cursor) : cursor :=
  match c with
  | CBlock anchor a lo hi => if Z.eqb (hi - lo) 1 then CNode (anchor ++ [(a, Some (Z.to_nat lo))]) else c
  | _ => c
  end.

Definition api_find (q : quirks) (root : node) (ctx : path) (pat : pattern) (mno : option nat)
  : res (list cursor) :=
  bind (pm_find q root ctx pat mno) (fun l =>
    match l with [] => Err SchedulingError | _ => Ok (map unwrap1 l) end).

(* ---- the independent enumeration used as search oracle: every node in pre-order ---- *)
Fixpoint preorder_f (fuel : nat) (p : path) (n : node) : list (path * node) :=
  match fuel with
  | O => []
  | S f => (p, n) :: flat_map (fun sc => preorder_f f (p ++ [fst sc]) (snd sc)) (children n)
  end.
Definition preorder (p : path) (n : node) : list (path * node) := preorder_f (size n) p n.

Definition find_expr_all (q : quirks) (pat : pexpr) (p : path) (n : node) : list cursor :=
  map (fun pn => CNode (fst pn)) (filter (fun pn => match_e_node q pat (snd pn)) (preorder p n)).

(* every statement position (anchor, attr, k, suffix of the block starting at k), in program order *)
Definition blockpos : Type := path * attr * nat * list node.

Section BlockPosLoop.
  Context (rec : path -> attr -> list node -> list blockpos).
  Context (anchor : path) (a : attr).
  Fixpoint block_positions_loop (k : nat) (blk : list node) {struct blk} : list blockpos :=
    match blk with
    | [] => []
    | n :: rest =>
        (anchor, a, k, blk)
          :: flat_map (fun ab => rec (anchor ++ [(a, Some k)]) (fst ab) (snd ab)) (node_blocks n)
          ++ block_positions_loop (S k) rest
    end.
End BlockPosLoop.

Fixpoint block_positions_f (fuel : nat) (anchor : path) (a : attr) (k : nat) (blk : list node)
  : list blockpos :=
  match fuel with
  | O => []
  | S f => block_positions_loop (fun an a' b => block_positions_f f an a' 0%nat b) anchor a k blk
  end.

Definition head_match (q : quirks) (pats : list pstmt) (pos : blockpos) : list cursor :=
  match pos with
  | (anchor, a, k, blk) =>
      match match_stmts_nodes q pats blk with
      | Some j => [CBlock anchor a (Z.of_nat k) (Z.of_nat (k + j))]
      | None => []
      end
  end.

Definition find_block_all (fuel : nat) (q : quirks) (pats : list pstmt)
           (anchor : path) (a : attr) (k : nat) (blk : list node) : list cursor :=
  flat_map (head_match q pats) (block_positions_f fuel anchor a k blk).

(* all matches, as a list, for a context (the [match_no = None] answer written without state) *)
Definition pm_find_all (q : quirks) (root : node) (ctx : path) (pat : pattern) : res (list cursor) :=
  match resolve root ctx with
  | None => Err AttributeError
  | Some n =>
      match pat with
      | PatE PE_Hole => Err PatternMatchError
      | PatE pe => Ok (find_expr_all q pe ctx n)
      | PatS pats =>
          if all_holes pats then Err PatternMatchError else
          match n with
          | NProc p => Ok (find_block_all (size n) q pats ctx Abody 0%nat (map NStmt (p_body p)))
          | _ =>
              match last_step ctx with
              | None => Err IndexError
              | Some (_, None) => Err InvalidCursorError
              | Some (a, Some k) => Ok (find_block_all (S (size n)) q pats (removelast ctx) a k [n])
              end
          end
      end
  end.

Definition select_nth {A} (l : list A) (mno : option nat) : list A :=
  match mno with
  | None => l
  | Some k => match nth_error l k with Some c => [c] | None => [] end
  end.

(* ------------------------------------------------------------------ *)
(** * 6. Pattern-string glue: the `#n` suffix and the name shorthands *)

Definition is_digit (c : ascii) : bool :=
  let n := nat_of_ascii c in (48 <=? n)%nat && (n <=? 57)%nat.
(* str-pattern \s restricted to ASCII *)
Definition is_space (c : ascii) : bool :=
  let n := nat_of_ascii c in
  Nat.eqb n 32 || ((9 <=? n)%nat && (n <=? 13)%nat) || ((28 <=? n)%nat && (n <=? 31)%nat).
Definition is_word_start (c : ascii) : bool :=
  let n := nat_of_ascii c in
  ((65 <=? n)%nat && (n <=? 90)%nat) || ((97 <=? n)%nat && (n <=? 122)%nat) || Nat.eqb n 95.
Definition is_word (c : ascii) : bool := is_word_start c || is_digit c.
Definition hash_char : ascii := "#"%char.
Definition nl_char : ascii := ascii_of_nat 10.

(* split at the first '#' *)
Fixpoint split_hash (s : string) : option (string * string) :=
  match s with
  | EmptyString => None
  | String c t =>
      if Ascii.eqb c hash_char then Some (EmptyString, t)
      else match split_hash t with
           | Some (a, b) => Some (String c a, b)
           | None => None end
  end.

Fixpoint all_chars (f : ascii -> bool) (s : string) : bool :=
  match s with EmptyString => true | String c t => f c && all_chars f t end.

(* longest prefix satisfying f, and the rest *)
Fixpoint span_chars (f : ascii -> bool) (s : string) : string * string :=
  match s with
  | EmptyString => (EmptyString, EmptyString)
  | String c t => if f c then let (a, b) := span_chars f t in (String c a, b) else (EmptyString, s)
  end.

Fixpoint digits_val (acc : nat) (s : string) : nat :=
  match s with
  | EmptyString => acc
  | String c t => digits_val (10 * acc + (nat_of_ascii c - 48))%nat t
  end.

(* match_pattern:  re.search of  ^([^#]+)#(\d+)\s*$  in pattern_str *)
Definition parse_match_no (s : string) : option (string * nat) :=
  match split_hash s with
  | None => None
  | Some (pre, post) =>
      match pre with
      | EmptyString => None
      | _ =>
          let (ds, rest) := span_chars is_digit post in
          match ds with
          | EmptyString => None
          | _ => if all_chars is_space rest then Some (pre, digits_val 0 ds) else None
          end
      end
  end.

(* (pattern text handed to pyparser.pattern, match_no) *)
Definition split_pattern (s : string) (default_no : option nat) : string * option nat :=
  match parse_match_no s with
  | Some (pre, k) => (pre, Some k)
  | None => (s, default_no)
  end.

(* find_loop / find_alloc_or_arg:  re.search of  ^([a-zA-Z_]\w* )\s*(\#\s*[0-9]+)?$  in pattern
   returns (name, count-text) *)
Definition parse_name_count (s : string) : option (string * string) :=
  match s with
  | EmptyString => None
  | String c t =>
      if negb (is_word_start c) then None else
      let (w, r1) := span_chars is_word t in
      let name := String c w in
      let (_, r2) := span_chars is_space r1 in
      let at_end (r : string) : bool :=
          match r with EmptyString => true | String c' EmptyString => Ascii.eqb c' nl_char | _ => false end in
      (* no count group: \s* must reach the end (a final newline may be left for `$`) *)
      if all_chars is_space r1 then Some (name, EmptyString) else
      match r2 with
      | String h r3 =>
          if Ascii.eqb h hash_char then
            let (sp, r4) := span_chars is_space r3 in
            let (ds, r5) := span_chars is_digit r4 in
            match ds with
            | EmptyString => None
            | _ => if at_end r5 then Some (name, String h (sp ++ ds)) else None
            end
          else None
      | EmptyString => None
      end
  end.

Definition find_loop_pattern (s : string) : string :=
  match parse_name_count s with
  | Some (name, count) => ("for " ++ name ++ " in _: _" ++ count)%string
  | None => s
  end.

Fixpoint index_of (x : string) (l : list string) (k : nat) : option nat :=
  match l with
  | [] => None
  | y :: t => if String.eqb x y then Some k else index_of x t (S k)
  end.

(* find_alloc_or_arg: Some (inl i) = the i-th argument;  Some (inr s) / None->s = pattern to search *)
Definition find_alloc_or_arg_pattern (args : list string) (s : string) : nat + string :=
  match parse_name_count s with
  | Some (name, count) =>
      match index_of name args 0%nat with
      | Some i => inl i
      | None => inr (name ++ ": _" ++ count)%string
      end
  | None => inr s
  end.

(* ------------------------------------------------------------------ *)
(** * 7. Navigation (internal_cursors.py), relative to a root node *)

Definition len_z {A} (l : list A) : Z := Z.of_nat (List.length l).

(* Node.parent *)
Definition node_parent (p : path) : res path :=
  match p with [] => Err InvalidCursorError | _ => Ok (removelast p) end.

(* Node._child_node(attr, i) *)
Definition child_node (root : node) (p : path) (a : attr) (i : option Z) : res path :=
  match resolve root p with
  | None => Err AttributeError
  | Some n =>
      match get_attr n a with
      | ANone => Err AttributeError
      | AList l =>
          match i with
          | Some z => if (0 <=? z) && (z <? len_z l) then Ok (p ++ [(a, Some (Z.to_nat z))])
                      else Err InvalidCursorError
          | None => Err ValueError
          end
      | ANode _ =>
          match i with
          | None => Ok (p ++ [(a, None)])
          | Some _ => Err TypeError
          end
      end
  end.

(* Node._child_block(attr) *)
Definition child_block (root : node) (p : path) (a : attr) : res cursor :=
  match resolve root p with
  | None => Err AttributeError
  | Some n =>
      match get_attr n a with
      | AList l => Ok (CBlock p a 0 (len_z l))
      | ANode _ => Err AssertionError
      | ANone => Err AttributeError
      end
  end.

(* Node.next(dist) / Node.prev(dist) *)
Definition node_next (root : node) (p : path) (d : Z) : res path :=
  match last_step p with
  | None => Err InvalidCursorError                                  (* cannot move root cursor *)
  | Some (_, None) => Err InvalidCursorError                        (* cursor is not inside block *)
  | Some (a, Some k) => child_node root (removelast p) a (Some (Z.of_nat k + d))
  end.
Definition node_prev (root : node) (p : path) (d : Z) : res path := node_next root p (- d).

Definition node_before (p : path) : cursor := CGap p false.
Definition node_after (p : path) : cursor := CGap p true.

(* Node.as_block *)
Definition node_as_block (p : path) : res cursor :=
  match last_step p with
  | None => Err IndexError
  | Some (_, None) => Err InvalidCursorError
  | Some (a, Some k) => Ok (CBlock (removelast p) a (Z.of_nat k) (Z.of_nat k + 1))
  end.

Definition step_eqb (s t : step) : bool :=
  attr_eqb (fst s) (fst t) &&
  match snd s, snd t with
  | None, None => true
  | Some i, Some j => Nat.eqb i j
  | _, _ => false
  end.
Fixpoint path_eqb (p q : path) : bool :=
  match p, q with
  | [], [] => true
  | s :: p', t :: q' => step_eqb s t && path_eqb p' q'
  | _, _ => false
  end.
(* _starts_with(a, b) *)
Fixpoint starts_with (a b : path) : bool :=
  match b with
  | [] => true
  | t :: b' => match a with [] => false | s :: a' => step_eqb s t && starts_with a' b' end
  end.

Definition cursor_anchor_path (c : cursor) : path :=
  match c with CNode p => p | CBlock anchor _ _ _ => anchor | CGap anchor _ => anchor end.
(* Node.is_ancestor_of(other) *)
Definition is_ancestor_of (p : path) (other : cursor) : bool := starts_with (cursor_anchor_path other) p.

(* Gap.parent / Gap.anchor *)
Definition gap_parent (anchor : path) : res path := node_parent anchor.
Definition gap_anchor (anchor : path) : path := anchor.

(* len(range(lo, hi)) *)
Definition range_len (lo hi : Z) : Z := Z.max 0 (hi - lo).

(* range(lo, hi)[i] for an int i *)
Definition range_index (lo hi i : Z) : res Z :=
  let n := range_len lo hi in
  let i' := if i <? 0 then i + n else i in
  if (0 <=? i') && (i' <? n) then Ok (lo + i') else Err IndexError.

(* slice(start, stop).indices(n) with step 1 *)
Definition slice_bound (n : Z) (x : option Z) (dflt : Z) : Z :=
  match x with
  | None => dflt
  | Some v => if v <? 0 then Z.max (v + n) 0 else Z.min v n
  end.
(* range(lo, hi)[start:stop] *)
Definition range_slice (lo hi : Z) (start stop : option Z) : Z * Z :=
  let n := range_len lo hi in
  (lo + slice_bound n start 0, lo + slice_bound n stop n).

(* Block.__getitem__(int) *)
Definition block_get (root : node) (anchor : path) (a : attr) (lo hi i : Z) : res path :=
  bind (range_index lo hi i) (fun r => child_node root anchor a (Some r)).
(* Block.__getitem__(slice) *)
Definition block_slice (anchor : path) (a : attr) (lo hi : Z) (start stop : option Z) : cursor :=
  let (l, h) := range_slice lo hi start stop in CBlock anchor a l h.
(* Block.__len__ *)
Definition block_len (lo hi : Z) : Z := range_len lo hi.
(* Block.parent *)
Definition block_parent (anchor : path) : path := anchor.
(* Block.before / Block.after *)
Definition block_before (root : node) (anchor : path) (a : attr) (lo hi : Z) : res cursor :=
  bind (block_get root anchor a lo hi 0) (fun p => Ok (node_before p)).
Definition block_after (root : node) (anchor : path) (a : attr) (lo hi : Z) : res cursor :=
  bind (block_get root anchor a lo hi (-1)) (fun p => Ok (node_after p)).
(* Block.__iter__ *)
Fixpoint block_iter_from (root : node) (anchor : path) (a : attr) (lo : Z) (n : nat) : list (res path) :=
  match n with
  | O => []
  | S n' => child_node root anchor a (Some lo) :: block_iter_from root anchor a (lo + 1) n'
  end.
Definition block_iter (root : node) (anchor : path) (a : attr) (lo hi : Z) : list (res path) :=
  block_iter_from root anchor a lo (Z.to_nat (range_len lo hi)).

(* Block.expand(delta_lo, delta_hi) *)
Definition block_expand (root : node) (anchor : path) (a : attr) (lo hi : Z) (dlo dhi : option Z)
  : res cursor :=
  bind (child_block root anchor a) (fun full =>
    match full with
    | CBlock _ _ flo fhi =>
        let n := range_len flo fhi in
        let dl := match dlo with None => lo | Some d => d end in
        let dh := match dhi with None => n - hi | Some d => d end in
        Ok (CBlock anchor a (Z.max 0 (lo - dl)) (Z.min n (hi + dh)))
    | _ => Err AssertionError
    end).

(* range equality (step 1) and _is_sub_range *)
Definition range_eqb (lo1 hi1 lo2 hi2 : Z) : bool :=
  let n1 := range_len lo1 hi1 in
  let n2 := range_len lo2 hi2 in
  Z.eqb n1 n2 && (Z.eqb n1 0 || Z.eqb lo1 lo2).
Definition is_sub_range (lo1 hi1 lo2 hi2 : Z) : bool :=
  (lo2 <=? lo1) && (hi1 <=? hi2) && negb (range_eqb lo1 hi1 lo2 hi2).

(* `i in range(lo, hi)` for i : option nat *)
Definition in_range (i : option nat) (lo hi : Z) : bool :=
  match i with None => false | Some k => (lo <=? Z.of_nat k) && (Z.of_nat k <? hi) end.

(* Block.__contains__ *)
Definition block_contains_node (anchor : path) (a : attr) (lo hi : Z) (p : path) : res bool :=
  match last_step p with
  | None => Err InvalidCursorError                                  (* cur.parent() raises *)
  | Some (a', i) => Ok (path_eqb (removelast p) anchor && attr_eqb a' a && in_range i lo hi)
  end.
Definition block_contains (anchor : path) (a : attr) (lo hi : Z) (c : cursor) : res bool :=
  match c with
  | CBlock anchor' a' lo' hi' =>
      Ok (path_eqb anchor' anchor && attr_eqb a' a
          && (is_sub_range lo' hi' lo hi || range_eqb lo' hi' lo hi))
  | CGap anchor' _ => block_contains_node anchor a lo hi anchor'
  | CNode p => block_contains_node anchor a lo hi p
  end.

(* ------------------------------------------------------------------ *)
(** * 8. API-level navigation (API_cursors.py): InvalidCursor = [Ok None] *)

Definition is_w_access (root : node) (p : path) : bool :=
  match resolve root p with Some (NW _) => true | _ => false end.
Definition is_proc (root : node) (p : path) : bool :=
  match resolve root p with Some (NProc _) => true | _ => false end.

(* the internal parent of any cursor *)
Definition impl_parent (c : cursor) : res path :=
  match c with
  | CNode p => node_parent p
  | CBlock anchor _ _ _ => Ok anchor
  | CGap anchor _ => gap_parent anchor
  end.

(* Cursor.parent *)
Definition api_parent (root : node) (c : cursor) : res (option cursor) :=
  bind (impl_parent c) (fun pp =>
    if is_w_access root pp then bind (node_parent pp) (fun pp' => Ok (Some (CNode pp')))
    else if is_proc root pp then Ok None
    else Ok (Some (CNode pp))).

Definition catch_invalid (r : res path) : res (option cursor) :=
  match r with
  | Ok p => Ok (Some (CNode p))
  | Err InvalidCursorError => Ok None
  | Err e => Err e
  end.
(* StmtCursor.next / prev *)
Definition api_next (root : node) (p : path) (d : Z) : res (option cursor) := catch_invalid (node_next root p d).
Definition api_prev (root : node) (p : path) (d : Z) : res (option cursor) := catch_invalid (node_prev root p d).

(* BlockCursor.expand: negative deltas are rejected *)
Definition api_expand (root : node) (anchor : path) (a : attr) (lo hi : Z) (dlo dhi : option Z) : res cursor :=
  let neg (x : option Z) := match x with Some d => d <? 0 | None => false end in
  if neg dlo || neg dhi then Err ValueError else block_expand root anchor a lo hi dlo dhi.

(* ListCursorPrototype.__getitem__(slice): lift_cursor raises InvalidCursorError on an empty block
   (`if len(impl) == 0: raise InvalidCursorError("block no longer exists")`) *)
Definition api_slice (anchor : path) (a : attr) (lo hi : Z) (start stop : option Z) : res cursor :=
  match block_slice anchor a lo hi start stop with
  | CBlock an a' l h => if 0 <? range_len l h then Ok (CBlock an a' l h) else Err InvalidCursorError
  | c => Ok c
  end.

(* IfCursor.orelse: InvalidCursor when the else branch is empty *)
Definition api_orelse (root : node) (p : path) : res (option cursor) :=
  bind (child_block root p Aorelse) (fun b =>
    match b with
    | CBlock _ _ lo hi => if 0 <? range_len lo hi then Ok (Some b) else Ok None
    | _ => Ok (Some b)
    end).
