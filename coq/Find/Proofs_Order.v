(* C16 -- program order on paths; the enumerations of Model.v are strictly increasing in it. *)
From Coq Require Import List ZArith Bool String Arith Lia Sorted.
From Find Require Import Model Spec Proofs_Nav Proofs_Find.
Import ListNotations.

(* ------------------------------------------------------------------ *)
(** * path_lt is a strict order *)

Lemma idx_lt_irrefl : forall i, ~ idx_lt i i.
Proof. intros [i|]; simpl; lia. Qed.
Lemma idx_lt_trans : forall i j k, idx_lt i j -> idx_lt j k -> idx_lt i k.
Proof. intros [i|] [j|] [k|]; simpl; try tauto; lia. Qed.

Lemma step_lt_irrefl : forall s, ~ step_lt s s.
Proof. intros s [H|[_ H]]; [lia | exact (idx_lt_irrefl _ H)]. Qed.
Lemma step_lt_trans : forall s t u, step_lt s t -> step_lt t u -> step_lt s u.
Proof.
  intros s t u [H1|[E1 H1]] [H2|[E2 H2]]; unfold step_lt.
  - left; lia.
  - left. rewrite <- E2. exact H1.
  - left. rewrite E1. exact H2.
  - right. split; [congruence | eapply idx_lt_trans; eauto].
Qed.

Lemma path_lt_irrefl : forall p, ~ path_lt p p.
Proof.
  induction p as [|s p IH]; simpl; auto.
  intros [H|[_ H]]; [exact (step_lt_irrefl _ H) | exact (IH H)].
Qed.

Lemma path_lt_trans : forall p q r, path_lt p q -> path_lt q r -> path_lt p r.
Proof.
  induction p as [|s p IH]; intros [|t q] [|u r]; simpl; try tauto.
  intros [H1|[E1 H1]] [H2|[E2 H2]].
  - left. eapply step_lt_trans; eauto.
  - left. subst. exact H1.
  - left. subst. exact H2.
  - right. split; [congruence | eapply IH; eauto].
Qed.

Lemma path_lt_app : forall p x y, path_lt (p ++ x) (p ++ y) <-> path_lt x y.
Proof.
  induction p as [|s p IH]; intros x y; simpl; [tauto|].
  split.
  - intros [H|[_ H]]; [exfalso; exact (step_lt_irrefl _ H) | apply IH; exact H].
  - intros H. right. split; auto. apply IH. exact H.
Qed.

Lemma path_lt_prefix : forall p st x, path_lt p (p ++ st :: x).
Proof.
  intros. rewrite <- (app_nil_r p) at 1. apply path_lt_app. simpl. exact I.
Qed.

Lemma path_lt_step : forall p s t x y, step_lt s t -> path_lt (p ++ s :: x) (p ++ t :: y).
Proof. intros. apply path_lt_app. simpl. left. assumption. Qed.

(* ------------------------------------------------------------------ *)
(** * StronglySorted toolkit *)

Lemma SS_app : forall {A} (R : A -> A -> Prop) l1 l2,
  StronglySorted R l1 -> StronglySorted R l2 -> (forall x y, In x l1 -> In y l2 -> R x y) ->
  StronglySorted R (l1 ++ l2).
Proof.
  induction l1 as [|a l1 IH]; intros l2 H1 H2 H; simpl; auto.
  inversion H1; subst. constructor.
  - apply IH; auto. intros; apply H; simpl; auto.
  - apply Forall_app. split; auto. apply Forall_forall. intros y Hy. apply H; simpl; auto.
Qed.

Lemma SS_map : forall {A B} (f : A -> B) (R : B -> B -> Prop) l,
  StronglySorted R (map f l) <-> StronglySorted (fun x y => R (f x) (f y)) l.
Proof.
  induction l as [|a l IH]; simpl; split; intros H; try constructor; inversion H; subst.
  - apply IH; auto.
  - rewrite Forall_map in H3. exact H3.
  - apply IH; auto.
  - rewrite Forall_map. exact H3.
Qed.

Lemma SS_flat_map : forall {A B} (RA : A -> A -> Prop) (RB : B -> B -> Prop) (f : A -> list B) la,
  StronglySorted RA la ->
  (forall a, In a la -> StronglySorted RB (f a)) ->
  (forall a1 a2 x y, In a1 la -> In a2 la -> RA a1 a2 -> In x (f a1) -> In y (f a2) -> RB x y) ->
  StronglySorted RB (flat_map f la).
Proof.
  induction la as [|a la IH]; intros HS Hf Hc; simpl; [constructor|].
  inversion HS; subst. apply SS_app.
  - apply Hf; simpl; auto.
  - apply IH; auto.
    + intros; apply Hf; simpl; auto.
    + intros a1 a2 x y I1 I2. apply Hc; simpl; auto.
  - intros x y Hx Hy. apply in_flat_map in Hy. destruct Hy as (a2 & I2 & Hy).
    rewrite Forall_forall in H2. apply (Hc a a2); simpl; auto.
Qed.

(* keeping at most one element per position preserves sortedness *)
Lemma SS_flat_map_sub : forall {A B} (R : path -> path -> Prop) (g : A -> path) (g' : B -> path) (h : A -> list B) l,
  StronglySorted R (map g l) ->
  (forall x, h x = [] \/ exists c, h x = [c] /\ g' c = g x) ->
  StronglySorted R (map g' (flat_map h l)).
Proof.
  induction l as [|x l IH]; intros HS Hh; simpl; [constructor|].
  simpl in HS. inversion HS; subst. specialize (IH H1 Hh).
  destruct (Hh x) as [E|(c & E & Ec)]; rewrite E; simpl; auto.
  constructor; auto. rewrite Ec.
  apply Forall_forall. intros y Hy. rewrite Forall_forall in H2.
  apply in_map_iff in Hy. destruct Hy as (c' & <- & Hc'). apply in_flat_map in Hc'.
  destruct Hc' as (x' & Hx' & Hc'). destruct (Hh x') as [E'|(c'' & E' & Ec')]; rewrite E' in Hc'; simpl in Hc'.
  - contradiction.
  - destruct Hc' as [<-|[]]. rewrite Ec'. apply H2. apply in_map. exact Hx'.
Qed.

Lemma SS_NoDup : forall {A} (R : A -> A -> Prop) l,
  (forall x, ~ R x x) -> StronglySorted R l -> NoDup l.
Proof.
  induction l as [|a l IH]; intros Hirr H; constructor; inversion H; subst.
  - intros Hin. rewrite Forall_forall in H3. exact (Hirr a (H3 a Hin)).
  - apply IH; auto.
Qed.

Lemma map_flat_map : forall {A B C} (f : B -> C) (g : A -> list B) l,
  map f (flat_map g l) = flat_map (fun x => map f (g x)) l.
Proof. induction l as [|x l IH]; simpl; auto. rewrite map_app, IH. reflexivity. Qed.

(* ------------------------------------------------------------------ *)
(** * the child edges of a node are listed in strictly increasing order *)

Lemma mapi_steps_sorted : forall (a : attr) (l : list node) k,
  StronglySorted step_lt (map fst (mapi_from (fun i c => ((a, Some i), c)) k l)) /\
  Forall (fun st => fst st = a /\ exists i, snd st = Some i /\ k <= i) (map fst (mapi_from (fun i c => ((a, Some i), c)) k l)).
Proof.
  induction l as [|x l IH]; intros k; simpl; split; try constructor.
  - apply IH.
  - destruct (IH (S k)) as [_ F]. eapply Forall_impl; [|exact F].
    intros st (E & i & Ei & Hi). right. simpl. split; auto. rewrite Ei. simpl. lia.
  - simpl. split; auto. exists k. split; auto.
  - destruct (IH (S k)) as [_ F]. eapply Forall_impl; [|exact F].
    intros st (E & i & Ei & Hi). split; auto. exists i. split; auto. lia.
Qed.

Lemma expand_attr_sorted : forall n a, StronglySorted step_lt (map fst (expand_attr n a)).
Proof.
  intros. unfold expand_attr. destruct (get_attr n a).
  - apply mapi_steps_sorted.
  - simpl. repeat constructor.
  - constructor.
Qed.

Lemma expand_attr_attr : forall n a st c, In (st, c) (expand_attr n a) -> fst st = a.
Proof.
  intros n a st c H. unfold expand_attr in H. destruct (get_attr n a).
  - apply in_mapi_from in H. destruct H as (i & c' & _ & E). inversion E; subst. reflexivity.
  - destruct H as [E|[]]. inversion E; subst. reflexivity.
  - contradiction.
Qed.

Lemma child_attrs_sorted : forall n, StronglySorted (fun a b => attr_rank a < attr_rank b) (child_attrs n).
Proof.
  intros n. destruct n as [p|x|s|e|w]; [| |destruct s|destruct e|destruct w]; simpl;
    repeat (constructor; simpl; try lia).
Qed.

Theorem children_sorted : forall n, StronglySorted step_lt (map fst (children n)).
Proof.
  intros n. unfold children. rewrite map_flat_map.
  eapply SS_flat_map with (RA := fun a b => attr_rank a < attr_rank b).
  - apply child_attrs_sorted.
  - intros a _. apply expand_attr_sorted.
  - intros a1 a2 x y _ _ Hr Hx Hy.
    apply in_map_iff in Hx. destruct Hx as ([st1 c1] & <- & Hx).
    apply in_map_iff in Hy. destruct Hy as ([st2 c2] & <- & Hy).
    apply expand_attr_attr in Hx. apply expand_attr_attr in Hy. simpl in *.
    left. rewrite Hx, Hy. exact Hr.
Qed.

(* ------------------------------------------------------------------ *)
(** * the pre-order enumeration is strictly increasing *)

Lemma preorder_prefix : forall fuel p n x, In x (preorder_f fuel p n) -> exists s, fst x = p ++ s.
Proof.
  induction fuel as [|f IH]; intros p n x H; simpl in H; [contradiction|].
  destruct H as [<-|H].
  - exists []. simpl. rewrite app_nil_r. reflexivity.
  - apply in_flat_map in H. destruct H as (sc & _ & H). apply IH in H. destruct H as (s & ->).
    exists (fst sc :: s). rewrite <- app_assoc. reflexivity.
Qed.

Theorem preorder_f_sorted : forall fuel p n, StronglySorted path_lt (map fst (preorder_f fuel p n)).
Proof.
  induction fuel as [|f IH]; intros p n; simpl; [constructor|].
  constructor.
  - apply SS_map.
    eapply SS_flat_map with (RA := fun sc1 sc2 => step_lt (fst sc1) (fst sc2)).
    + apply SS_map. apply children_sorted.
    + intros sc _. apply SS_map. apply IH.
    + intros sc1 sc2 x y _ _ Hlt Hx Hy.
      apply preorder_prefix in Hx. apply preorder_prefix in Hy.
      destruct Hx as (s1 & ->). destruct Hy as (s2 & ->).
      rewrite <- !app_assoc. simpl. apply path_lt_step. exact Hlt.
  - apply Forall_forall. intros y Hy. apply in_map_iff in Hy. destruct Hy as (x & <- & Hx).
    apply in_flat_map in Hx. destruct Hx as (sc & _ & Hx). apply preorder_prefix in Hx.
    destruct Hx as (s & ->). rewrite <- app_assoc. simpl. apply path_lt_prefix.
Qed.

Corollary preorder_sorted : forall p n, StronglySorted path_lt (map fst (preorder p n)).
Proof. intros. apply preorder_f_sorted. Qed.

(* the matching nodes, in the order find_expr reports them *)
Theorem find_expr_all_sorted : forall q pat p n,
  StronglySorted path_lt (map cursor_start (find_expr_all q pat p n)).
Proof.
  intros. unfold find_expr_all. rewrite map_map. simpl.
  pose proof (preorder_sorted p n) as H. revert H. generalize (preorder p n).
  induction l as [|x l IH]; intros H; simpl; [constructor|].
  simpl in H. inversion H; subst. destruct (match_e_node q pat (snd x)); simpl; auto.
  constructor; auto. rewrite Forall_forall in *. intros y Hy. apply H3.
  apply in_map_iff in Hy. destruct Hy as (z & <- & Hz). apply filter_In in Hz. apply in_map. tauto.
Qed.

(* ------------------------------------------------------------------ *)
(** * the statement positions are strictly increasing *)

Lemma node_blocks_sorted : forall n,
  StronglySorted (fun ab1 ab2 : attr * list node => attr_rank (fst ab1) < attr_rank (fst ab2)) (node_blocks n).
Proof.
  intros n. destruct n as [p|x|s|e|w]; simpl; try constructor.
  destruct s; simpl; repeat (constructor; simpl; try lia).
Qed.

Lemma block_positions_prefix : forall fuel anchor a k blk pos,
  In pos (block_positions_f fuel anchor a k blk) ->
  exists i s, blockpos_start pos = anchor ++ (a, Some (k + i)) :: s.
Proof.
  induction fuel as [|f IH]; intros anchor a k blk pos H; simpl in H; [contradiction|].
  revert k H. induction blk as [|n rest IHb]; intros k H; simpl in H; [contradiction|].
  destruct H as [<-|H].
  - exists 0, []. simpl. rewrite Nat.add_0_r. reflexivity.
  - apply in_app_or in H. destruct H as [H|H].
    + apply in_flat_map in H. destruct H as (ab & _ & H). apply IH in H.
      destruct H as (i & s & ->). exists 0, ((fst ab, Some (0 + i)) :: s).
      rewrite Nat.add_0_r, <- app_assoc. reflexivity.
    + apply IHb in H. destruct H as (i & s & ->). exists (S i), s. replace (k + S i) with (S k + i) by lia. reflexivity.
Qed.

Theorem block_positions_sorted : forall fuel anchor a k blk,
  StronglySorted path_lt (map blockpos_start (block_positions_f fuel anchor a k blk)).
Proof.
  induction fuel as [|f IH]; intros anchor a k blk; simpl; [constructor|].
  revert k. induction blk as [|n rest IHb]; intros k; simpl; [constructor|].
  constructor.
  - rewrite map_app. apply SS_app.
    + apply SS_map.
      eapply SS_flat_map with (RA := fun ab1 ab2 : attr * list node => attr_rank (fst ab1) < attr_rank (fst ab2)).
      * apply node_blocks_sorted.
      * intros ab _. apply SS_map. apply IH.
      * intros ab1 ab2 x y _ _ Hr Hx Hy.
        apply block_positions_prefix in Hx. apply block_positions_prefix in Hy.
        destruct Hx as (i1 & s1 & ->). destruct Hy as (i2 & s2 & ->).
        apply path_lt_step. left. exact Hr.
    + apply IHb.
    + intros x y Hx Hy.
      apply in_map_iff in Hx. destruct Hx as (px & <- & Hx).
      apply in_map_iff in Hy. destruct Hy as (py & <- & Hy).
      apply in_flat_map in Hx. destruct Hx as (ab & _ & Hx).
      apply block_positions_prefix in Hx. destruct Hx as (i1 & s1 & ->).
      apply (block_positions_prefix (S f)) in Hy. destruct Hy as (i2 & s2 & ->).
      rewrite <- app_assoc. simpl. apply path_lt_step. right. simpl. split; auto. lia.
  - apply Forall_forall. intros y Hy. apply in_map_iff in Hy. destruct Hy as (py & <- & Hy).
    apply in_app_or in Hy. destruct Hy as [Hy|Hy].
    + apply in_flat_map in Hy. destruct Hy as (ab & _ & Hy).
      apply block_positions_prefix in Hy. destruct Hy as (i & s & ->).
      simpl. apply path_lt_prefix.
    + apply (block_positions_prefix (S f)) in Hy. destruct Hy as (i & s & ->).
      simpl. apply path_lt_step. right. simpl. split; auto. lia.
Qed.

Lemma head_match_shape : forall q pats pos,
  head_match q pats pos = [] \/ exists c, head_match q pats pos = [c] /\ cursor_start c = blockpos_start pos.
Proof.
  intros q pats [[[anchor a] k] blk]. unfold head_match.
  destruct (match_stmts_nodes q pats blk) as [j|]; auto.
  right. eexists. split; [reflexivity|]. simpl. rewrite Nat2Z.id. reflexivity.
Qed.

Theorem find_block_all_sorted : forall fuel q pats anchor a k blk,
  StronglySorted path_lt (map cursor_start (find_block_all fuel q pats anchor a k blk)).
Proof.
  intros. unfold find_block_all.
  apply SS_flat_map_sub with (g := blockpos_start).
  - apply block_positions_sorted.
  - apply head_match_shape.
Qed.

Theorem program_order_strict :
  (forall p, ~ path_lt p p) /\ (forall p q r, path_lt p q -> path_lt q r -> path_lt p r) /\
  (forall p st x, path_lt p (p ++ st :: x)).
Proof. exact (conj path_lt_irrefl (conj path_lt_trans path_lt_prefix)). Qed.
