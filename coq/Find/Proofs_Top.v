(* C16 -- assembly of the property-level statements about find. *)
From Coq Require Import List ZArith Bool String Ascii Arith Lia Sorted.
From Find Require Import Model Spec Proofs_Nav Proofs_Find Proofs_Order Proofs_Reach Proofs_Match Proofs_Quirks.
Import ListNotations.

Lemma sorted_starts_nodup : forall l : list cursor,
  StronglySorted path_lt (map cursor_start l) -> NoDup l.
Proof.
  intros l H. apply (NoDup_map_inv cursor_start). eapply SS_NoDup; eauto. apply path_lt_irrefl.
Qed.

(* ------------------------------------------------------------------ *)
(** * expression patterns *)

Definition is_ehole (pe : pexpr) : Prop := match pe with PE_Hole => True | _ => False end.

(* find-all of an expression pattern below a context node: exactly the reachable expression nodes that
   match, each once, in program order *)
Theorem find_all_expr : forall q root ctx n pe,
  resolve root ctx = Some n -> ~ is_ehole pe ->
  exists L, pm_find_all q root ctx (PatE pe) = Ok L /\
    (forall c, In c L <-> exists s e, c = CNode (ctx ++ s) /\ Reach n s (NExpr e) /\ match_e q e pe = true) /\
    StronglySorted path_lt (map cursor_start L) /\ NoDup L.
Proof.
  intros q root ctx n pe R NH. exists (find_expr_all q pe ctx n).
  assert (E : pm_find_all q root ctx (PatE pe) = Ok (find_expr_all q pe ctx n)).
  { unfold pm_find_all. rewrite R. destruct pe; auto. exfalso. apply NH. exact I. }
  split; auto. split; [|split].
  - intros c. unfold find_expr_all. rewrite in_map_iff. split.
    + intros ([p' m] & <- & Hin). apply filter_In in Hin. destruct Hin as [Hin Hm]. simpl in *.
      apply preorder_reach in Hin. destruct Hin as (s & -> & Rch).
      destruct m; simpl in Hm; try discriminate. exists s, e. auto.
    + intros (s & e & -> & Rch & Hm). exists (ctx ++ s, NExpr e). split; auto.
      apply filter_In. split; auto. apply preorder_reach. eauto.
  - apply find_expr_all_sorted.
  - apply sorted_starts_nodup. apply find_expr_all_sorted.
Qed.

(* from the procedure root, in terms of paths that resolve *)
Corollary find_all_expr_root : forall q p pe,
  ~ is_ehole pe ->
  exists L, pm_find_all q (NProc p) [] (PatE pe) = Ok L /\
    (forall c, In c L <-> exists path e, c = CNode path /\ resolve (NProc p) path = Some (NExpr e) /\
                                          avoids_args path /\ match_e q e pe = true) /\
    StronglySorted path_lt (map cursor_start L) /\ NoDup L.
Proof.
  intros q p pe NH.
  destruct (find_all_expr q (NProc p) [] (NProc p) pe eq_refl NH) as (L & E & Hin & HS & HN).
  exists L. repeat split; auto.
  - intros H. apply Hin in H. destruct H as (s & e & -> & Rch & Hm). exists s, e.
    apply reach_iff_resolve in Rch. tauto.
  - intros (path & e & -> & Rs & Av & Hm). apply Hin. exists path, e. repeat split; auto.
    apply reach_iff_resolve. auto.
Qed.

(* ------------------------------------------------------------------ *)
(** * statement patterns *)

Lemma block_attr_stmts : forall m a l, get_attr m a = AList l -> block_attr a -> exists ss, l = map NStmt ss.
Proof.
  intros m a l G [->| ->]; destruct m as [p|x|s|e|w]; simpl in G; try discriminate.
  - inversion G; eauto.
  - destruct s; try discriminate; inversion G; eauto.
  - destruct e; discriminate.
  - destruct w; discriminate.
  - destruct s; try discriminate; inversion G; eauto.
  - destruct e; discriminate.
  - destruct w; discriminate.
Qed.

Lemma bsize_body : forall p, bsize (map NStmt (p_body p)) < size (NProc p).
Proof.
  intros p. unfold bsize. rewrite map_map. simpl.
  change (fun x => size_s x) with size_s. lia.
Qed.

Lemma skipn_map : forall {A B} (f : A -> B) k l, skipn k (map f l) = map f (skipn k l).
Proof. induction k as [|k IH]; intros [|x l]; simpl; auto. Qed.

(* find-all of a statement pattern from the procedure root: exactly the statement positions (reachable
   through body/orelse steps) at which a prefix of the remaining block matches, each once, in program
   order; the reported block is that prefix *)
Theorem find_all_stmts_root : forall q p pats,
  all_holes pats = false ->
  exists L, pm_find_all q (NProc p) [] (PatS pats) = Ok L /\
    (forall c, In c L <->
       exists an a k j m ss,
         c = CBlock an a (Z.of_nat k) (Z.of_nat (k + j)) /\
         block_path an /\ block_attr a /\
         resolve (NProc p) an = Some m /\ get_attr m a = AList (map NStmt ss) /\ k < List.length ss /\
         match_stmts q pats (skipn k ss) = Some j) /\
    StronglySorted path_lt (map cursor_start L) /\ NoDup L.
Proof.
  intros q p pats AH.
  set (root := NProc p). set (blk := map NStmt (p_body p)).
  exists (find_block_all (size root) q pats [] Abody 0 blk).
  assert (E : pm_find_all q root [] (PatS pats) = Ok (find_block_all (size root) q pats [] Abody 0 blk)).
  { unfold pm_find_all. simpl. rewrite AH. reflexivity. }
  assert (G0 : get_attr root Abody = AList blk) by reflexivity.
  assert (BA0 : block_attr Abody) by (left; reflexivity).
  split; auto. split; [|split].
  - intros c. unfold find_block_all. rewrite in_flat_map. split.
    + intros ([[[an a] k] suf] & Hpos & Hc).
      apply positions_iff in Hpos; [|apply bsize_body].
      pose proof (blockpos_resolve_sound root [] Abody 0 blk _ Hpos root blk eq_refl G0 eq_refl BA0) as S.
      simpl in S. destruct S as (s & m & l & -> & BP & BA & Rm & Gm & -> & Hk & _).
      destruct (block_attr_stmts _ _ _ Gm BA) as (ss & ->).
      unfold head_match in Hc. rewrite skipn_map, match_stmts_nodes_stmts in Hc.
      destruct (match_stmts q pats (skipn k ss)) as [j|] eqn:Em; [|contradiction].
      destruct Hc as [<-|[]]. exists s, a, k, j, m, ss. rewrite map_length in Hk. repeat split; auto.
    + intros (an & a & k & j & m & ss & -> & BP & BA & Rm & Gm & Hk & Hm).
      exists (an, a, k, skipn k (map NStmt ss)). split.
      * apply positions_iff; [apply bsize_body|].
        change blk with (skipn 0 blk).
        change an with ([] ++ an).
        eapply blockpos_resolve_complete with (m0 := root) (m := m); eauto.
        -- reflexivity.
        -- (* the first step from the procedure root is into its body *)
           destruct an as [|[a1 i1] an']; simpl; auto.
           pose proof (Forall_inv BP) as [BA1 (k1 & E1)]. simpl in BA1, E1. subst i1.
           split; [|exists k1; split; auto; lia].
           simpl in Rm. destruct BA1 as [->| ->]; auto. simpl in Rm. discriminate.
        -- rewrite map_length. exact Hk.
        -- intros ->. simpl in Rm. inversion Rm; subst m. split; [|lia].
           destruct BA as [->| ->]; auto. simpl in Gm. discriminate.
      * unfold head_match. rewrite skipn_map, match_stmts_nodes_stmts, Hm. left. reflexivity.
  - apply find_block_all_sorted.
  - apply sorted_starts_nodup. apply find_block_all_sorted.
Qed.

(* with the specification's matcher the condition is MatchRel itself *)
Corollary find_all_stmts_root_spec : forall p pats,
  all_holes pats = false ->
  exists L, pm_find_all spec_quirks (NProc p) [] (PatS pats) = Ok L /\
    (forall c, In c L <->
       exists an a k j m ss,
         c = CBlock an a (Z.of_nat k) (Z.of_nat (k + j)) /\
         block_path an /\ block_attr a /\
         resolve (NProc p) an = Some m /\ get_attr m a = AList (map NStmt ss) /\ k < List.length ss /\
         MatchRel pats (skipn k ss) j) /\
    StronglySorted path_lt (map cursor_start L) /\ NoDup L.
Proof.
  intros p pats AH. destruct (find_all_stmts_root spec_quirks p pats AH) as (L & E & Hin & HS & HN).
  exists L. repeat split; auto.
  - intros H. apply Hin in H. destruct H as (an & a & k & j & m & ss & H). exists an, a, k, j, m, ss.
    rewrite <- match_rel_dec. exact H.
  - intros (an & a & k & j & m & ss & H). apply Hin. exists an, a, k, j, m, ss. rewrite match_rel_dec. exact H.
Qed.

Corollary find_all_expr_root_spec : forall p pe,
  ~ is_ehole pe ->
  exists L, pm_find_all spec_quirks (NProc p) [] (PatE pe) = Ok L /\
    (forall c, In c L <-> exists path e, c = CNode path /\ resolve (NProc p) path = Some (NExpr e) /\
                                          avoids_args path /\ MatchE pe e) /\
    StronglySorted path_lt (map cursor_start L) /\ NoDup L.
Proof.
  intros p pe NH. destruct (find_all_expr_root spec_quirks p pe NH) as (L & E & Hin & HS & HN).
  exists L. repeat split; auto.
  - intros H. apply Hin in H. destruct H as (path & e & H). exists path, e. rewrite <- match_e_dec. exact H.
  - intros (path & e & H). apply Hin. exists path, e. rewrite match_e_dec. exact H.
Qed.

(* patterns that are rejected *)
Theorem find_anything_rejected : forall q root ctx n mno,
  resolve root ctx = Some n ->
  pm_find q root ctx (PatE PE_Hole) mno = Err PatternMatchError /\
  (forall pats, all_holes pats = true -> pm_find q root ctx (PatS pats) mno = Err PatternMatchError).
Proof.
  intros. unfold pm_find. rewrite H. split; auto. intros pats AH. rewrite AH. reflexivity.
Qed.

(* ------------------------------------------------------------------ *)
(** * `#n`, unwrapping, "raises when there is none" at the API level *)

Theorem api_find_select : forall q root ctx pat mno,
  api_find q root ctx pat mno =
  match pm_find_all q root ctx pat with
  | Ok l => match select_nth l mno with
            | [] => Err SchedulingError
            | l' => Ok (map unwrap1 l')
            end
  | Err e => Err e
  end.
Proof.
  intros. unfold api_find. rewrite pm_find_select. destruct (pm_find_all q root ctx pat); simpl; auto.
  destruct (select_nth a mno); reflexivity.
Qed.

(* `#n` = the n-th element of find-all; out of range = SchedulingError *)
Corollary api_find_nth : forall q root ctx pat k l,
  pm_find_all q root ctx pat = Ok l ->
  api_find q root ctx pat (Some k) =
  match nth_error l k with Some c => Ok [unwrap1 c] | None => Err SchedulingError end.
Proof.
  intros. rewrite api_find_select, H. simpl. destruct (nth_error l k); reflexivity.
Qed.

(* unwrapping a singleton block does not move the cursor *)
Lemma unwrap1_start : forall c, cursor_start (unwrap1 c) = cursor_start c.
Proof. intros [p|an a lo hi|an t]; simpl; auto. destruct (hi - lo =? 1)%Z; reflexivity. Qed.

(* the `#n` suffix: "<pattern>#<digits><spaces>" selects match number <digits> of <pattern> *)
Lemma split_hash_no_hash : forall pre post,
  all_chars (fun c => negb (Ascii.eqb c hash_char)) pre = true ->
  split_hash (pre ++ String hash_char post) = Some (pre, post).
Proof.
  induction pre as [|c pre IH]; intros post H; simpl in *.
  - reflexivity.
  - apply andb_true_iff in H. destruct H as [H1 H2]. apply negb_true_iff in H1. rewrite H1.
    rewrite IH; auto.
Qed.

Lemma span_chars_app : forall f a b,
  all_chars f a = true ->
  match b with EmptyString => True | String c _ => f c = false end ->
  span_chars f (a ++ b) = (a, b).
Proof.
  induction a as [|c a IH]; intros b Ha Hb; simpl in *.
  - destruct b as [|c b]; simpl; auto. rewrite Hb. reflexivity.
  - apply andb_true_iff in Ha. destruct Ha as [H1 H2]. rewrite H1, IH; auto.
Qed.

Lemma space_not_digit : forall c, is_space c = true -> is_digit c = false.
Proof.
  intros c. unfold is_space, is_digit. generalize (nat_of_ascii c). intros n H.
  apply andb_false_iff.
  destruct (Nat.leb_spec 48 n); [right | left; reflexivity].
  destruct (Nat.leb_spec n 57); [|reflexivity].
  exfalso. apply orb_true_iff in H. destruct H as [H|H]; [apply orb_true_iff in H; destruct H as [H|H]|].
  - apply Nat.eqb_eq in H. lia.
  - apply andb_true_iff in H. destruct H as [_ H]. apply Nat.leb_le in H. lia.
  - apply andb_true_iff in H. destruct H as [_ H]. apply Nat.leb_le in H. lia.
Qed.

(* "<pre>#<digits><spaces>": pre non-empty without '#', at least one digit *)
Theorem hash_suffix_parse : forall pre ds sp dflt,
  pre <> EmptyString -> all_chars (fun c => negb (Ascii.eqb c hash_char)) pre = true ->
  ds <> EmptyString -> all_chars is_digit ds = true -> all_chars is_space sp = true ->
  split_pattern (pre ++ String hash_char (ds ++ sp)) dflt = (pre, Some (digits_val 0 ds)).
Proof.
  intros pre ds sp dflt Hpre Hnh Hds Hd Hs. unfold split_pattern, parse_match_no.
  rewrite split_hash_no_hash by assumption.
  destruct pre as [|c pre]; [congruence|].
  rewrite span_chars_app; auto.
  - destruct ds as [|d ds]; [congruence|]. rewrite Hs. reflexivity.
  - destruct sp as [|s sp]; auto. simpl in Hs. apply andb_true_iff in Hs. destruct Hs as [Hs _].
    apply space_not_digit; auto.
Qed.

(* a pattern string without '#' is passed on unchanged with the default match number *)
Theorem no_hash_parse : forall s dflt, split_hash s = None -> split_pattern s dflt = (s, dflt).
Proof. intros. unfold split_pattern, parse_match_no. rewrite H. reflexivity. Qed.

(* statement patterns below a context statement cursor (Cursor.find): the search runs over the singleton
   block [n] holding the context statement and the blocks nested in it *)
Theorem find_all_stmts_ctx : forall q root ctx n a k pats,
  resolve root ctx = Some n -> not_proc n -> last_step ctx = Some (a, Some k) -> all_holes pats = false ->
  exists L, pm_find_all q root ctx (PatS pats) = Ok L /\
    (forall c, In c L <-> exists pos, BlockPos (removelast ctx) a k [n] pos /\ In c (head_match q pats pos)) /\
    StronglySorted path_lt (map cursor_start L) /\ NoDup L.
Proof.
  intros q root ctx n a k pats R NP LS AH.
  exists (find_block_all (S (size n)) q pats (removelast ctx) a k [n]).
  split; [|split; [|split]].
  - unfold pm_find_all. rewrite R, AH, LS. destruct n; try reflexivity. contradiction.
  - intros c. unfold find_block_all. rewrite in_flat_map. split.
    + intros (pos & Hp & Hc). exists pos. split; auto. apply positions_iff in Hp; auto.
      unfold bsize. simpl. lia.
    + intros (pos & Hp & Hc). exists pos. split; auto. apply positions_iff; auto.
      unfold bsize. simpl. lia.
  - apply find_block_all_sorted.
  - apply sorted_starts_nodup. apply find_block_all_sorted.
Qed.
