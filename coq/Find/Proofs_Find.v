(* C16 -- the find traversals: stateful traversal with early exit = selection from the pre-order
   enumeration; the enumeration lists exactly the reachable positions, in program order. *)
From Coq Require Import List ZArith Bool String Arith Lia Sorted.
From Find Require Import Model Spec Proofs_Nav.
Import ListNotations.

(* ------------------------------------------------------------------ *)
(** * sizes *)

Lemma in_list_sum : forall {A} (f : A -> nat) l x, In x l -> f x <= list_sum (map f l).
Proof.
  induction l as [|y l IH]; intros x H; simpl in *; [contradiction|].
  destruct H as [->|H]; [lia|]. specialize (IH x H). lia.
Qed.

Lemma size_e_pos : forall e, 1 <= size_e e.
Proof. destruct e; simpl; lia. Qed.
Lemma size_s_pos : forall s, 1 <= size_s s.
Proof. destruct s; simpl; lia. Qed.
Lemma size_pos : forall n, 1 <= size n.
Proof.
  destruct n; simpl; try lia; [apply size_s_pos | apply size_e_pos | destruct w; simpl; lia].
Qed.

Lemma size_e_window : forall x idx, size_e (WindowExpr x idx) = S (list_sum (map size_w idx)).
Proof. reflexivity. Qed.

Ltac list_size_tac :=
  match goal with
  | H : In ?c (map ?f ?l) |- _ =>
      apply in_map_iff in H; destruct H as (?x & <- & ?Hx)
  end.

Lemma get_attr_list_size : forall n a l c, get_attr n a = AList l -> In c l -> size c < size n.
Proof.
  intros n a l c H Hin.
  destruct n as [p|x|s|e|w]; simpl in H; try discriminate.
  - destruct a; try discriminate; inversion H; subst; list_size_tac; simpl.
    + destruct (p_args p); [contradiction | simpl; lia].
    + pose proof (in_list_sum size_s _ _ Hx). lia.
  - destruct s; destruct a; try discriminate; inversion H; subst; list_size_tac; simpl;
      match goal with
      | Hx : In ?x ?l |- context [map size_e ?l] => pose proof (in_list_sum size_e _ _ Hx); lia
      | Hx : In ?x ?l |- context [map size_s ?l] => pose proof (in_list_sum size_s _ _ Hx); lia
      end.
  - destruct e; destruct a; try discriminate; inversion H; subst; list_size_tac.
    + simpl. pose proof (in_list_sum size_e _ _ Hx). lia.
    + simpl. pose proof (in_list_sum size_e _ _ Hx). lia.
    + unfold size. rewrite size_e_window. pose proof (in_list_sum size_w _ _ Hx). lia.
  - destruct w; destruct a; discriminate.
Qed.

Lemma get_attr_node_size : forall n a c, get_attr n a = ANode c -> size c < size n.
Proof.
  intros n a c H.
  destruct n as [p|x|s|e|w]; simpl in H; try discriminate.
  - destruct a; discriminate.
  - destruct s; destruct a; try discriminate; inversion H; subst; simpl; lia.
  - destruct e; destruct a; try discriminate; inversion H; subst; simpl; lia.
  - destruct w; destruct a; try discriminate; inversion H; subst; simpl; lia.
Qed.

Lemma in_mapi_from : forall {A B} (f : nat -> A -> B) l k y,
  In y (mapi_from f k l) <-> exists i c, nth_error l i = Some c /\ y = f (k + i) c.
Proof.
  induction l as [|x l IH]; intros k y; simpl.
  - split; [contradiction|]. intros (i & c & H & _). destruct i; discriminate.
  - split.
    + intros [<-|H].
      * exists 0, x. split; auto. f_equal. lia.
      * apply IH in H. destruct H as (i & c & H1 & ->). exists (S i), c. split; auto. f_equal. lia.
    + intros (i & c & H1 & ->). destruct i as [|i]; simpl in H1.
      * inversion H1; subst. left. f_equal. lia.
      * right. apply IH. exists i, c. split; auto. f_equal. lia.
Qed.

(* one child edge = one step of [resolve] along an attribute that _children follows *)
Lemma children_spec : forall n st c,
  In (st, c) (children n) <-> In (fst st) (child_attrs n) /\ resolve n [st] = Some c.
Proof.
  intros n [a i] c. unfold children. rewrite in_flat_map. simpl. split.
  - intros (a' & Ha & H). unfold expand_attr in H.
    destruct (get_attr n a') eqn:G.
    + apply in_mapi_from in H. destruct H as (k & c' & N & E). inversion E; subst. split; auto.
      rewrite G. simpl in N. simpl. rewrite N. reflexivity.
    + destruct H as [E|[]]. inversion E; subst. split; auto. rewrite G. reflexivity.
    + contradiction.
  - intros (Ha & H). exists a. split; auto. unfold expand_attr.
    destruct (get_attr n a) eqn:G; destruct i as [k|]; try discriminate.
    + destruct (nth_error l k) eqn:N; try discriminate. inversion H; subst.
      apply in_mapi_from. exists k, c. auto.
    + inversion H; subst. left. reflexivity.
Qed.

Lemma children_size : forall n st c, In (st, c) (children n) -> size c < size n.
Proof.
  intros n [a i] c H. apply children_spec in H. destruct H as [_ H]. simpl in H.
  destruct (get_attr n a) eqn:G; destruct i as [k|]; try discriminate.
  - destruct (nth_error l k) eqn:N; try discriminate. inversion H; subst.
    eapply get_attr_list_size; eauto. eapply nth_error_In; eauto.
  - inversion H; subst. eapply get_attr_node_size; eauto.
Qed.

(* ------------------------------------------------------------------ *)
(** * the pre-order enumeration does not depend on the fuel once it is >= size *)

Lemma flat_map_ext_in : forall {A B} (f g : A -> list B) l,
  (forall x, In x l -> f x = g x) -> flat_map f l = flat_map g l.
Proof.
  induction l as [|x l IH]; intros H; simpl; auto.
  rewrite (H x (or_introl eq_refl)). f_equal. apply IH. intros y Hy. apply H. right; auto.
Qed.

Lemma preorder_fuel : forall f1 f2 p n,
  size n <= f1 -> size n <= f2 -> preorder_f f1 p n = preorder_f f2 p n.
Proof.
  induction f1 as [|f1 IH]; intros f2 p n H1 H2.
  - pose proof (size_pos n). lia.
  - destruct f2 as [|f2]; [pose proof (size_pos n); lia|].
    simpl. f_equal. apply flat_map_ext_in. intros [st c] Hc. simpl.
    pose proof (children_size _ _ _ Hc). apply IH; lia.
Qed.

Lemma preorder_unfold : forall p n,
  preorder p n = (p, n) :: flat_map (fun sc => preorder (p ++ [fst sc]) (snd sc)) (children n).
Proof.
  intros. unfold preorder. pose proof (size_pos n). destruct (size n) as [|f] eqn:E; [lia|].
  simpl. f_equal. apply flat_map_ext_in. intros [st c] Hc. simpl.
  pose proof (children_size _ _ _ Hc). apply preorder_fuel; lia.
Qed.

(* ------------------------------------------------------------------ *)
(** * _add_result / _MatchComplete *)

Lemma add_result_done : forall st c, f_done st = true -> add_result st c = st.
Proof. intros. unfold add_result. rewrite H. reflexivity. Qed.

Lemma fold_add_done : forall l st, f_done st = true -> fold_left add_result l st = st.
Proof. induction l as [|c l IH]; intros; simpl; auto. rewrite add_result_done; auto. Qed.

Lemma fold_add_all : forall l acc,
  fold_left add_result l {| f_no := None; f_res := acc; f_done := false |} =
  {| f_no := None; f_res := acc ++ l; f_done := false |}.
Proof.
  induction l as [|c l IH]; intros acc; simpl.
  - rewrite app_nil_r. reflexivity.
  - unfold add_result at 2. simpl. rewrite IH. rewrite <- app_assoc. reflexivity.
Qed.

Lemma fold_add_nth : forall l k acc,
  f_res (fold_left add_result l {| f_no := Some k; f_res := acc; f_done := false |}) =
  acc ++ select_nth l (Some k).
Proof.
  induction l as [|c l IH]; intros k acc; simpl.
  - destruct k; simpl; rewrite app_nil_r; reflexivity.
  - destruct k as [|k]; unfold add_result at 2; simpl.
    + rewrite fold_add_done by reflexivity. reflexivity.
    + rewrite IH. reflexivity.
Qed.

Theorem fold_add_select : forall l mno,
  f_res (fold_left add_result l (init_state mno)) = select_nth l mno.
Proof.
  intros l [k|]; unfold init_state.
  - rewrite fold_add_nth. reflexivity.
  - rewrite fold_add_all. reflexivity.
Qed.

(* ------------------------------------------------------------------ *)
(** * find_expr = fold of _add_result over the matching nodes of the pre-order enumeration *)

Definition cands_e (q : quirks) (pat : pexpr) (l : list (path * node)) : list cursor :=
  map (fun pn => CNode (fst pn)) (filter (fun pn => match_e_node q pat (snd pn)) l).

Lemma cands_e_app : forall q pat l1 l2, cands_e q pat (l1 ++ l2) = cands_e q pat l1 ++ cands_e q pat l2.
Proof. intros. unfold cands_e. rewrite filter_app, map_app. reflexivity. Qed.

Lemma find_expr_fold : forall fuel q pat st p n,
  find_expr_f fuel q pat st p n = fold_left add_result (cands_e q pat (preorder_f fuel p n)) st.
Proof.
  induction fuel as [|f IH]; intros q pat st p n; simpl; auto.
  destruct (f_done st) eqn:D.
  - rewrite fold_add_done; auto.
  - unfold cands_e. simpl filter. fold (cands_e q pat).
    set (st1 := if match_e_node q pat n then add_result st (CNode p) else st).
    assert (E : fold_left add_result
                  (map (fun pn : path * node => CNode (fst pn))
                     (if match_e_node q pat n
                      then (p, n) :: filter (fun pn => match_e_node q pat (snd pn))
                                            (flat_map (fun sc => preorder_f f (p ++ [fst sc]) (snd sc)) (children n))
                      else filter (fun pn => match_e_node q pat (snd pn))
                                  (flat_map (fun sc => preorder_f f (p ++ [fst sc]) (snd sc)) (children n)))) st
                = fold_left add_result
                    (cands_e q pat (flat_map (fun sc => preorder_f f (p ++ [fst sc]) (snd sc)) (children n))) st1).
    { unfold st1. destruct (match_e_node q pat n); reflexivity. }
    rewrite E. clear E. generalize st1. clear st1 D st.
    induction (children n) as [|sc cs IHc]; intros st1; simpl; auto.
    rewrite cands_e_app, fold_left_app, <- IH. apply IHc.
Qed.

Theorem find_expr_select : forall q pat mno p n,
  f_res (find_expr_f (size n) q pat (init_state mno) p n) = select_nth (find_expr_all q pat p n) mno.
Proof. intros. rewrite find_expr_fold. apply fold_add_select. Qed.

(* ------------------------------------------------------------------ *)
(** * find_stmts_in_block = fold of _add_result over the matching statement positions *)

Arguments match_stmts_nodes : simpl never.
Arguments head_match : simpl never.

Lemma find_block_fold : forall fuel q pats st anchor a k blk,
  find_block_f fuel q pats st anchor a k blk =
  fold_left add_result (find_block_all fuel q pats anchor a k blk) st.
Proof.
  unfold find_block_all.
  induction fuel as [|f IH]; intros q pats st anchor a k blk; simpl; auto.
  revert st k. induction blk as [|n rest IHb]; intros st k; simpl; auto.
  destruct (f_done st) eqn:D.
  - rewrite fold_add_done; auto.
  - rewrite flat_map_app, !fold_left_app.
    rewrite <- IHb. f_equal.
    (* head match *)
    set (st1 := match match_stmts_nodes q pats (n :: rest) with
                | Some j => add_result st (CBlock anchor a (Z.of_nat k) (Z.of_nat (k + j)))
                | None => st end).
    assert (E : fold_left add_result (head_match q pats (anchor, a, k, n :: rest)) st = st1).
    { unfold st1, head_match. destruct (match_stmts_nodes q pats (n :: rest)); reflexivity. }
    rewrite E. generalize st1. clear E st1 D st IHb.
    induction (node_blocks n) as [|ab bs IHbs]; intros st1; simpl; auto.
    rewrite flat_map_app, fold_left_app. rewrite <- IH. apply IHbs.
Qed.

Theorem find_block_select : forall fuel q pats mno anchor a k blk,
  f_res (find_block_f fuel q pats (init_state mno) anchor a k blk) =
  select_nth (find_block_all fuel q pats anchor a k blk) mno.
Proof. intros. rewrite find_block_fold. apply fold_add_select. Qed.

(* PatternMatch.find with match_no = the selection from the complete enumeration *)
Theorem pm_find_select : forall q root ctx pat mno,
  pm_find q root ctx pat mno =
  match pm_find_all q root ctx pat with
  | Ok l => Ok (select_nth l mno)
  | Err e => Err e
  end.
Proof.
  intros. unfold pm_find, pm_find_all.
  destruct (resolve root ctx) as [n|]; auto.
  destruct pat as [pe|pats].
  - destruct pe; auto; rewrite find_expr_select; reflexivity.
  - destruct (all_holes pats); auto.
    destruct n; try (rewrite find_block_select; reflexivity);
      destruct (last_step ctx) as [[a [k|]]|]; auto; rewrite find_block_select; reflexivity.
Qed.
