(* C16 -- the enumerations list exactly the positions of the tree. *)
From Coq Require Import List ZArith Bool String Arith Lia Sorted.
From Find Require Import Model Spec Proofs_Nav Proofs_Find Proofs_Order.
Import ListNotations.

(* ------------------------------------------------------------------ *)
(** * pre-order enumeration = reachable positions *)

Lemma preorder_f_reach_sound : forall fuel p n p' m,
  In (p', m) (preorder_f fuel p n) -> exists s, p' = p ++ s /\ Reach n s m.
Proof.
  induction fuel as [|f IH]; intros p n p' m H; simpl in H; [contradiction|].
  destruct H as [E|H].
  - inversion E; subst. exists []. rewrite app_nil_r. split; auto. constructor.
  - apply in_flat_map in H. destruct H as ([st c] & Hc & H). simpl in H.
    apply IH in H. destruct H as (s & -> & R). exists (st :: s). rewrite <- app_assoc. split; auto.
    econstructor; eauto.
Qed.

Lemma preorder_f_reach_complete : forall n s m, Reach n s m ->
  forall fuel p, size n <= fuel -> In (p ++ s, m) (preorder_f fuel p n).
Proof.
  induction 1 as [n|n st c s m Hc R IH]; intros fuel p Hf.
  - pose proof (size_pos n). destruct fuel; [lia|]. simpl. left. rewrite app_nil_r. reflexivity.
  - pose proof (size_pos n). destruct fuel as [|f]; [lia|]. simpl. right.
    apply in_flat_map. exists (st, c). split; auto. simpl.
    pose proof (children_size _ _ _ Hc).
    replace (p ++ st :: s) with ((p ++ [st]) ++ s) by (rewrite <- app_assoc; reflexivity).
    apply IH. lia.
Qed.

Theorem preorder_reach : forall p n p' m,
  In (p', m) (preorder p n) <-> exists s, p' = p ++ s /\ Reach n s m.
Proof.
  intros. unfold preorder. split.
  - apply preorder_f_reach_sound.
  - intros (s & -> & R). apply preorder_f_reach_complete; auto.
Qed.

(* ------------------------------------------------------------------ *)
(** * reachable = resolvable (except through proc.args, which find does not traverse) *)

Lemma resolve_cons : forall n st s,
  resolve n (st :: s) = match resolve n [st] with Some c => resolve c s | None => None end.
Proof. intros. change (st :: s) with ([st] ++ s). apply resolve_app. Qed.

Lemma reach_resolve : forall n s m, Reach n s m -> resolve n s = Some m.
Proof.
  induction 1 as [n|n st c s m Hc R IH]; [reflexivity|].
  apply children_spec in Hc. destruct Hc as [_ Hc]. rewrite resolve_cons, Hc. exact IH.
Qed.

Definition not_proc (n : node) : Prop := match n with NProc _ => False | _ => True end.

Lemma attrs_complete : forall n a, not_proc n -> get_attr n a <> ANone -> In a (child_attrs n).
Proof.
  intros n a NP H. destruct n as [p|x|s|e|w]; simpl in *; try contradiction.
  - destruct s; destruct a; simpl in *; try congruence; auto.
  - destruct e; destruct a; simpl in *; try congruence; auto.
  - destruct w; destruct a; simpl in *; try congruence; auto.
Qed.

Lemma get_attr_list_not_proc : forall n a l c, get_attr n a = AList l -> In c l -> not_proc c.
Proof.
  intros n a l c H Hin. destruct n as [p|x|s|e|w]; simpl in H; try discriminate.
  - destruct a; try discriminate; inversion H; subst; apply in_map_iff in Hin; destruct Hin as (? & <- & _); exact I.
  - destruct s; destruct a; try discriminate; inversion H; subst; apply in_map_iff in Hin; destruct Hin as (? & <- & _); exact I.
  - destruct e; destruct a; try discriminate; inversion H; subst; apply in_map_iff in Hin; destruct Hin as (? & <- & _); exact I.
  - destruct w; destruct a; discriminate.
Qed.

Lemma get_attr_node_not_proc : forall n a c, get_attr n a = ANode c -> not_proc c.
Proof.
  intros n a c H. destruct n as [p|x|s|e|w]; simpl in H; try discriminate.
  - destruct a; discriminate.
  - destruct s; destruct a; try discriminate; inversion H; subst; exact I.
  - destruct e; destruct a; try discriminate; inversion H; subst; exact I.
  - destruct w; destruct a; try discriminate; inversion H; subst; exact I.
Qed.

Lemma resolve_step_not_proc : forall n st c, resolve n [st] = Some c -> not_proc c.
Proof.
  intros n [a i] c H. simpl in H. destruct (get_attr n a) eqn:G; destruct i as [k|]; try discriminate.
  - destruct (nth_error l k) eqn:N; try discriminate. inversion H; subst.
    eapply get_attr_list_not_proc; eauto. eapply nth_error_In; eauto.
  - inversion H; subst. eapply get_attr_node_not_proc; eauto.
Qed.

Lemma resolve_step_attr : forall n st c, resolve n [st] = Some c -> get_attr n (fst st) <> ANone.
Proof.
  intros n [a i] c H. simpl in *. destruct (get_attr n a); try discriminate; destruct i; discriminate.
Qed.

Lemma resolve_reach_np : forall s n m, not_proc n -> resolve n s = Some m -> Reach n s m.
Proof.
  induction s as [|st s IH]; intros n m NP H.
  - simpl in H. inversion H; subst. constructor.
  - rewrite resolve_cons in H. destruct (resolve n [st]) as [c|] eqn:E; try discriminate.
    econstructor.
    + apply children_spec. split; eauto. apply attrs_complete; auto. eapply resolve_step_attr; eauto.
    + apply IH; auto. eapply resolve_step_not_proc; eauto.
Qed.

(* from the procedure root: every resolvable path that does not start in proc.args *)
Definition avoids_args (s : path) : Prop := match s with (Aargs, _) :: _ => False | _ => True end.

Theorem reach_iff_resolve : forall p s m,
  Reach (NProc p) s m <-> resolve (NProc p) s = Some m /\ avoids_args s.
Proof.
  intros p s m. split.
  - intros R. split; [apply reach_resolve; auto|].
    inversion R; subst; simpl; auto.
    apply children_spec in H. destruct H as [Ha _]. destruct st as [a i]. simpl in Ha.
    destruct Ha as [Ha|[]]. subst a. exact I.
  - intros [H Av]. destruct s as [|st s].
    + simpl in H. inversion H; subst. constructor.
    + rewrite resolve_cons in H. destruct (resolve (NProc p) [st]) as [c|] eqn:E; try discriminate.
      econstructor.
      * apply children_spec. split; eauto. destruct st as [a i]. simpl in *.
        destruct a; try discriminate; try contradiction. left; reflexivity.
      * apply resolve_reach_np; auto. eapply resolve_step_not_proc; eauto.
Qed.

Theorem reach_iff_resolve_np : forall n s m, not_proc n -> (Reach n s m <-> resolve n s = Some m).
Proof. intros; split; [apply reach_resolve | apply resolve_reach_np; auto]. Qed.

(* ------------------------------------------------------------------ *)
(** * statement positions = BlockPos *)

Definition bsize (blk : list node) : nat := list_sum (map size blk).

Lemma node_blocks_size : forall n a b, In (a, b) (node_blocks n) -> bsize b < size n.
Proof.
  intros n a b H. destruct n as [p|x|s|e|w]; simpl in H; try contradiction.
  destruct s; simpl in H; try contradiction; unfold bsize.
  - destruct H as [E|[E|[]]]; inversion E; subst; rewrite map_map; simpl;
      change (fun x => size_s x) with size_s; lia.
  - destruct H as [E|[]]; inversion E; subst; rewrite map_map; simpl;
      change (fun x => size_s x) with size_s; lia.
Qed.

Lemma skipn_cons_in : forall {A} i (l : list A) x rest, skipn i l = x :: rest -> In x l.
Proof.
  intros A i l x rest H. rewrite <- (firstn_skipn i l). rewrite H. apply in_or_app. right. left. reflexivity.
Qed.

Lemma blockpos_shift : forall anchor a k n rest pos,
  BlockPos anchor a (S k) rest pos -> BlockPos anchor a k (n :: rest) pos.
Proof.
  intros anchor a k n rest pos H. inversion H; subst.
  - replace (S k + i) with (k + S i) by lia. apply BP_here with (i := S i). exact H0.
  - apply BP_nested with (i := S i) (n := n0) (rest := rest0) (a' := a') (b := b); auto.
    replace (k + S i) with (S k + i) by lia. exact H2.
Qed.

Lemma positions_sound : forall fuel anchor a k blk pos,
  In pos (block_positions_f fuel anchor a k blk) -> BlockPos anchor a k blk pos.
Proof.
  induction fuel as [|f IH]; intros anchor a k blk pos H; simpl in H; [contradiction|].
  revert k H. induction blk as [|n rest IHb]; intros k H; simpl in H; [contradiction|].
  destruct H as [<-|H].
  - replace (anchor, a, k, n :: rest) with (anchor, a, k + 0, n :: rest) by (rewrite Nat.add_0_r; reflexivity).
    apply BP_here with (i := 0). reflexivity.
  - apply in_app_or in H. destruct H as [H|H].
    + apply in_flat_map in H. destruct H as ([a' b] & Hab & H). simpl in H. apply IH in H.
      apply BP_nested with (i := 0) (n := n) (rest := rest) (a' := a') (b := b); auto.
      rewrite Nat.add_0_r. exact H.
    + apply blockpos_shift. apply IHb. exact H.
Qed.

Lemma positions_loop_here : forall rec anchor a i k blk n rest,
  skipn i blk = n :: rest -> In (anchor, a, k + i, n :: rest) (block_positions_loop rec anchor a k blk).
Proof.
  induction i as [|i IH]; intros k blk n rest H.
  - simpl in H. subst. simpl. left. rewrite Nat.add_0_r. reflexivity.
  - destruct blk as [|x blk]; simpl in H; try discriminate. simpl. right. apply in_or_app. right.
    replace (k + S i) with (S k + i) by lia. apply IH. exact H.
Qed.

Lemma positions_loop_nested : forall rec anchor a i k blk n rest ab pos,
  skipn i blk = n :: rest -> In ab (node_blocks n) ->
  In pos (rec (anchor ++ [(a, Some (k + i))]) (fst ab) (snd ab)) ->
  In pos (block_positions_loop rec anchor a k blk).
Proof.
  induction i as [|i IH]; intros k blk n rest ab pos H Hab Hp.
  - simpl in H. subst. simpl. right. apply in_or_app. left. apply in_flat_map. exists ab. split; auto.
    rewrite Nat.add_0_r in Hp. exact Hp.
  - destruct blk as [|x blk]; simpl in H; try discriminate. simpl. right. apply in_or_app. right.
    eapply IH; eauto. replace (S k + i) with (k + S i) by lia. exact Hp.
Qed.

Lemma positions_complete : forall anchor a k blk pos, BlockPos anchor a k blk pos ->
  forall fuel, bsize blk < fuel -> In pos (block_positions_f fuel anchor a k blk).
Proof.
  induction 1 as [anchor a k blk i n rest Hs | anchor a k blk i n rest a' b pos Hs Hab Hsub IH]; intros fuel Hf.
  - destruct fuel as [|f]; [lia|]. simpl. apply positions_loop_here. exact Hs.
  - destruct fuel as [|f]; [lia|]. simpl.
    eapply positions_loop_nested with (ab := (a', b)); eauto. simpl. apply IH.
    pose proof (node_blocks_size _ _ _ Hab). pose proof (skipn_cons_in _ _ _ _ Hs) as Hin.
    pose proof (in_list_sum size _ _ Hin). unfold bsize in *. lia.
Qed.

Theorem positions_iff : forall fuel anchor a k blk pos, bsize blk < fuel ->
  (In pos (block_positions_f fuel anchor a k blk) <-> BlockPos anchor a k blk pos).
Proof. intros; split; [apply positions_sound | intros; apply positions_complete; auto]. Qed.

(* ------------------------------------------------------------------ *)
(** * BlockPos = resolvable statement positions *)

Definition block_attr (a : attr) : Prop := a = Abody \/ a = Aorelse.
Definition block_step (st : step) : Prop := block_attr (fst st) /\ exists k, snd st = Some k.
Definition block_path (p : path) : Prop := Forall block_step p.

Lemma node_blocks_attr : forall n a b, In (a, b) (node_blocks n) -> get_attr n a = AList b /\ block_attr a.
Proof.
  intros n a b H. destruct n as [p|x|s|e|w]; simpl in H; try contradiction.
  destruct s; simpl in H; try contradiction.
  - destruct H as [E|[E|[]]]; inversion E; subst; simpl; unfold block_attr; auto.
  - destruct H as [E|[]]; inversion E; subst; simpl; unfold block_attr; auto.
Qed.

Lemma node_blocks_complete : forall n a b, not_proc n -> get_attr n a = AList b -> block_attr a -> In (a, b) (node_blocks n).
Proof.
  intros n a b NP G [->| ->]; destruct n as [p|x|s|e|w]; simpl in *; try contradiction; try discriminate.
  - destruct s; try discriminate; inversion G; subst; simpl; auto.
  - destruct e; discriminate.
  - destruct w; discriminate.
  - destruct s; try discriminate; inversion G; subst; simpl; auto.
  - destruct e; discriminate.
  - destruct w; discriminate.
Qed.

Lemma skipn_nth : forall {A} k (l : list A) x rest, skipn k l = x :: rest -> nth_error l k = Some x.
Proof.
  induction k as [|k IH]; intros l x rest H; destruct l as [|y l]; simpl in *; try discriminate.
  - inversion H; reflexivity.
  - eapply IH; eauto.
Qed.

Lemma skipn_nonempty : forall {A} k (l : list A), k < List.length l -> exists x rest, skipn k l = x :: rest.
Proof.
  induction k as [|k IH]; intros l H; destruct l as [|y l]; simpl in *; try lia.
  - eauto.
  - apply IH. lia.
Qed.

Lemma skipn_length_lt : forall {A} k (l : list A) x rest, skipn k l = x :: rest -> k < List.length l.
Proof.
  intros A k l x rest H. destruct (Nat.lt_ge_cases k (List.length l)); auto.
  rewrite skipn_all2 in H by lia. discriminate.
Qed.

Lemma skipn_skipn' : forall {A} k i (l : list A), skipn i (skipn k l) = skipn (k + i) l.
Proof.
  induction k as [|k IH]; intros i l; simpl; auto.
  destruct l as [|x l]; [destruct i; reflexivity | apply IH].
Qed.

(* soundness: every BlockPos position is a statement position reachable by body/orelse steps *)
Theorem blockpos_resolve_sound : forall root anchor a k blk pos,
  BlockPos anchor a k blk pos ->
  forall m0 l0, resolve root anchor = Some m0 -> get_attr m0 a = AList l0 -> blk = skipn k l0 -> block_attr a ->
  match pos with
  | (an, a', k', suf) =>
      exists s m l, an = anchor ++ s /\ block_path s /\ block_attr a' /\ resolve root an = Some m /\
                    get_attr m a' = AList l /\ suf = skipn k' l /\ k' < List.length l /\
                    (s = [] -> a' = a /\ k <= k')
  end.
Proof.
  induction 1 as [anchor a k blk i n rest Hs | anchor a k blk i n rest a' b pos Hs Hab Hsub IH];
    intros m0 l0 R G -> BA.
  - rewrite skipn_skipn' in Hs.
    exists [], m0, l0. rewrite app_nil_r. repeat split; auto.
    + constructor.
    + eapply skipn_length_lt; eauto.
    + lia.
  - rewrite skipn_skipn' in Hs.
    pose proof (skipn_nth _ _ _ _ Hs) as N.
    destruct (node_blocks_attr _ _ _ Hab) as [Gn BA'].
    assert (R' : resolve root (anchor ++ [(a, Some (k + i))]) = Some n).
    { apply resolve_snoc_list. eauto. }
    specialize (IH n b R' Gn eq_refl BA').
    destruct pos as [[[an ap] kp] suf].
    destruct IH as (s & m & l & -> & BP & BAp & Rm & Gm & Es & Hk & _).
    exists ((a, Some (k + i)) :: s), m, l. rewrite <- app_assoc in *. simpl in *.
    repeat split; auto; try discriminate.
    constructor; auto. split; simpl; eauto.
Qed.

Lemma resolve_app_some : forall n p q m, resolve n p = Some m -> resolve n (p ++ q) = resolve m q.
Proof. intros. rewrite resolve_app, H. reflexivity. Qed.

(* completeness *)
Definition first_ok (s : path) (a : attr) (k : nat) : Prop :=
  match s with [] => True | (a1, i1) :: _ => a1 = a /\ exists k1, i1 = Some k1 /\ k <= k1 end.

Lemma get_attr_block_elems : forall m a l c, get_attr m a = AList l -> block_attr a -> In c l -> not_proc c.
Proof. intros. eapply get_attr_list_not_proc; eauto. Qed.

Theorem blockpos_resolve_complete : forall root s anchor a k m0 l0 m ap kp l,
  resolve root anchor = Some m0 -> get_attr m0 a = AList l0 ->
  block_path s -> first_ok s a k ->
  resolve root (anchor ++ s) = Some m -> get_attr m ap = AList l -> block_attr ap -> kp < List.length l ->
  (s = [] -> ap = a /\ k <= kp) ->
  BlockPos anchor a k (skipn k l0) (anchor ++ s, ap, kp, skipn kp l).
Proof.
  intros root s. induction s as [|[a1 i1] s IH]; intros anchor a k m0 l0 m ap kp l R0 G0 BP FO R G BA Hk Hnil.
  - rewrite app_nil_r in *. destruct (Hnil eq_refl) as [-> Hle].
    rewrite R0 in R. inversion R; subst m. rewrite G0 in G. inversion G; subst l.
    destruct (skipn_nonempty kp l0 Hk) as (x & rest & E).
    replace kp with (k + (kp - k)) at 1 by lia. rewrite E.
    apply BP_here. rewrite skipn_skipn'. replace (k + (kp - k)) with kp by lia. exact E.
  - simpl in FO. destruct FO as (-> & k1 & -> & Hk1).
    pose proof (Forall_inv BP) as BS1. pose proof (Forall_inv_tail BP) as BPs.
    (* the node reached by the first step *)
    change ((a, Some k1) :: s) with ([(a, Some k1)] ++ s) in R. rewrite app_assoc in R.
    rewrite resolve_app in R.
    match type of R with (match ?X with _ => _ end = _) => destruct X as [n|] eqn:Rn end; [|discriminate].
    pose proof Rn as Rn'. apply resolve_snoc_list in Rn'. destruct Rn' as (m0' & l0' & R0' & G0' & N).
    rewrite R0 in R0'. inversion R0'; subst m0'. rewrite G0 in G0'. inversion G0'; subst l0'.
    assert (NPn : not_proc n).
    { apply (get_attr_list_not_proc m0 a l0 n G0). eapply nth_error_In; eauto. }
    assert (Hk1' : k1 < List.length l0) by (apply nth_error_Some; congruence).
    destruct (skipn_nonempty k1 l0 Hk1') as (x & rest & E).
    assert (x = n) by (apply skipn_nth in E; congruence). subst x.
    assert (Es : skipn (k1 - k) (skipn k l0) = n :: rest).
    { rewrite skipn_skipn'. replace (k + (k1 - k)) with k1 by lia. exact E. }
    change ((a, Some k1) :: s) with ([(a, Some k1)] ++ s). rewrite app_assoc.
    destruct s as [|[a2 i2] s'].
    + (* the position is a statement of a block of n *)
      simpl in R. inversion R; subst m.
      apply BP_nested with (i := k1 - k) (n := n) (rest := rest) (a' := ap) (b := l); auto.
      * apply node_blocks_complete; auto.
      * replace (k + (k1 - k)) with k1 by lia.
        pose proof (IH (anchor ++ [(a, Some k1)]) ap 0 n l n ap kp l Rn G ltac:(constructor) I) as IH'.
        apply IH'; auto.
        -- rewrite app_nil_r. exact Rn.
        -- intros _. split; auto. lia.
    + (* descend through attribute a2 of n *)
      pose proof (Forall_inv BPs) as BS2. pose proof (Forall_inv_tail BPs) as BPs'. destruct BS2 as [BA2 (k2 & E2)]. simpl in BA2, E2. subst i2.
      assert (exists b2, get_attr n a2 = AList b2) as (b2 & G2).
      { rewrite resolve_cons in R. simpl in R. destruct (get_attr n a2); try discriminate. eauto. }
      apply BP_nested with (i := k1 - k) (n := n) (rest := rest) (a' := a2) (b := b2); auto.
      * apply node_blocks_complete; auto.
      * replace (k + (k1 - k)) with k1 by lia.
        pose proof (IH (anchor ++ [(a, Some k1)]) a2 0 n b2 m ap kp l Rn G2 BPs) as IH'.
        apply IH'; auto.
        -- simpl. split; auto. exists k2. split; auto. lia.
        -- etransitivity; [apply (resolve_app_some _ _ _ _ Rn) | exact R].
        -- intros E0; discriminate E0.
Qed.
