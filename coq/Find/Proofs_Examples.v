(* C16 -- the hypotheses of the implication-shaped theorems are satisfiable: concrete instances
   (all by computation) on one small procedure.

     def ex(n, A, B):
         for i in seq(0, n):            # body 0
             t = 0.0                    #   body 0
             if i < 2:                  #   body 1
                 B[i] = -3.0            #     body 0
             else:
                 pass                   #     orelse 0
                 B[i] = t               #     orelse 1
             w = A[i, 0:n]              #   body 2
             callee(n, w)               #   body 3
         B[0] = 1.0                     # body 1                                                      *)
From Coq Require Import List ZArith Bool String Ascii Arith Lia Sorted.
From Find Require Import Model Spec Proofs_Nav Proofs_Find Proofs_Order Proofs_Reach Proofs_Match Proofs_Quirks Proofs_Top.
Import ListNotations.
Local Open Scope string_scope.
Local Open Scope list_scope.

Definition c0 : expr := Const (CV 0 1).
Definition ex_if : stmt :=
  If (BinOp "<" (Read "i" []) (Const (CV 2 1)))
     [Assign "B" [Read "i" []] (Const (CV (-3) 1))]
     [Pass; Assign "B" [Read "i" []] (Read "t" [])].
Definition ex_loop : stmt :=
  For "i" c0 (Read "n" [])
      [Assign "t" [] c0; ex_if;
       WindowStmt "w" (WindowExpr "A" [Point (Read "i" []); Interval c0 (Read "n" [])]);
       Call "callee" [Read "n" []; Read "w" []]].
Definition ex_proc : proc :=
  {| p_args := ["n"; "A"; "B"]; p_body := [ex_loop; Assign "B" [c0] (Const (CV 1 1))] |}.
Definition ex : node := NProc ex_proc.

Definition p_t : path := [(Abody, Some 0); (Abody, Some 0)].        (* t = 0.0 *)
Definition p_if : path := [(Abody, Some 0); (Abody, Some 1)].       (* if i < 2 *)
Definition p_call : path := [(Abody, Some 0); (Abody, Some 3)].     (* callee(n, w) *)

(* ---- navigation ---- *)
Example ex_next : node_next ex p_t 1 = Ok p_if /\ node_prev ex p_if 1 = Ok p_t /\
                  exists c, resolve ex p_t = Some c.
Proof. repeat split. eexists. reflexivity. Qed.

Example ex_next_edge : node_next ex p_call 1 = Err InvalidCursorError /\ node_prev ex p_t 1 = Err InvalidCursorError /\
                       api_next ex p_call 1 = Ok None.
Proof. repeat split. Qed.

Example ex_child_parent : child_node ex p_if Aorelse (Some 1%Z) = Ok (p_if ++ [(Aorelse, Some 1)]) /\
                          node_parent (p_if ++ [(Aorelse, Some 1)]) = Ok p_if.
Proof. repeat split. Qed.

Example ex_valid_block : valid_block ex [(Abody, Some 0)] Abody 1 3.
Proof.
  unfold valid_block. eexists; eexists. split; [reflexivity|]. split; [reflexivity|].
  unfold len_z. simpl. lia.
Qed.

Example ex_as_block : node_as_block p_if = Ok (CBlock [(Abody, Some 0)] Abody 1 2) /\
                      block_get ex [(Abody, Some 0)] Abody 1 2 0 = Ok p_if.
Proof. repeat split. Qed.

Example ex_expand :
  block_expand ex [(Abody, Some 0)] Abody 1 3 (Some 0%Z) (Some 0%Z) = Ok (CBlock [(Abody, Some 0)] Abody 1 3) /\
  block_expand ex [(Abody, Some 0)] Abody 1 3 None None = Ok (CBlock [(Abody, Some 0)] Abody 0 4) /\
  block_expand ex [(Abody, Some 0)] Abody 1 3 (Some 7%Z) (Some 7%Z) = Ok (CBlock [(Abody, Some 0)] Abody 0 4).
Proof. repeat split. Qed.

Example ex_slice :
  block_slice [(Abody, Some 0)] Abody 0 4 (Some 1%Z) (Some 3%Z) = CBlock [(Abody, Some 0)] Abody 1 3 /\
  block_get ex [(Abody, Some 0)] Abody 1 3 1 = block_get ex [(Abody, Some 0)] Abody 0 4 2 /\
  block_get ex [(Abody, Some 0)] Abody 1 3 2 = Err IndexError.
Proof. repeat split. Qed.

(* API level: a slice that selects no statement is an invalid cursor (lift_cursor, /repo "a block cursor
   whose statements were all deleted must forward to an invalid cursor") *)
Example ex_api_slice_empty :
  api_slice [(Abody, Some 0)] Abody 0 4 (Some 2%Z) (Some 2%Z) = Err InvalidCursorError /\
  api_slice [(Abody, Some 0)] Abody 0 4 (Some 3%Z) (Some 1%Z) = Err InvalidCursorError /\
  api_slice [(Abody, Some 0)] Abody 0 4 (Some 1%Z) None = Ok (CBlock [(Abody, Some 0)] Abody 1 4).
Proof. repeat split. Qed.

(* ---- matching ---- *)
Definition pat_B : list pstmt := [PAssign "B" [PE_Hole] PE_Hole].                  (* B[_] = _ *)
Definition pat_seq : list pstmt := [PS_Hole; PAssign "w" [] PE_Hole; PS_Hole].     (* _ ; w = _ ; _ *)

Example ex_matchrel : MatchRel pat_seq (match ex_loop with For _ _ _ b => b | _ => [] end) 4.
Proof. apply match_rel_dec. reflexivity. Qed.

(* zip truncation: `B = _` matches `B[i] = -3.0` *)
Example ex_zip : MatchS (PAssign "B" [] PE_Hole) (Assign "B" [Read "i" []] (Const (CV (-3) 1))) true.
Proof. apply match_stmt_dec. reflexivity. Qed.

(* first-match semantics of a hole: `_ ; B = _ ; pass` does not match  [t = 0; B = 1; B = 2; pass] *)
Example ex_hole_no_backtracking :
  MatchSeq [PS_Hole; PAssign "B" [] PE_Hole; PPass]
           [Assign "t" [] c0; Assign "B" [] c0; Assign "B" [] c0; Pass] None.
Proof. apply match_stmts_dec. reflexivity. Qed.

(* -3.0 in a pattern is USub(Const 3.0) and matches the literal -3.0 *)
Example ex_negconst : MatchE (PUSub (PConst (CV 3 1))) (Const (CV (-3) 1)).
Proof. apply match_e_dec. reflexivity. Qed.

(* ---- find ---- *)
Example ex_find_all :
  pm_find_all spec_quirks ex [] (PatS pat_B) =
  Ok [CBlock p_if Abody 0 1; CBlock p_if Aorelse 1 2; CBlock [] Abody 1 2] /\ all_holes pat_B = false.
Proof. split; reflexivity. Qed.

Example ex_find_nth :
  api_find impl_quirks ex [] (PatS pat_B) (Some 1%nat) = Ok [CNode (p_if ++ [(Aorelse, Some 1)])] /\
  api_find impl_quirks ex [] (PatS pat_B) (Some 3%nat) = Err SchedulingError /\
  api_find impl_quirks ex [] (PatS pat_B) None =
    Ok [CNode (p_if ++ [(Abody, Some 0)]); CNode (p_if ++ [(Aorelse, Some 1)]); CNode [(Abody, Some 1)]].
Proof. repeat split. Qed.

Example ex_find_expr :
  pm_find_all spec_quirks ex [] (PatE (PRead "i" [])) =
  Ok [CNode (p_if ++ [(Acond, None); (Alhs, None)]);
      CNode (p_if ++ [(Abody, Some 0); (Aidx, Some 0)]);
      CNode (p_if ++ [(Aorelse, Some 1); (Aidx, Some 0)]);
      CNode [(Abody, Some 0); (Abody, Some 2); (Arhs, None); (Aidx, Some 0); (Apt, None)]] /\
  ~ is_ehole (PRead "i" []).
Proof. split; [reflexivity | exact (fun H => H)]. Qed.

(* a multi-statement match is reported as the matched block; a trailing hole takes the rest;
   a hole in front of `w = _` may be empty *)
Example ex_find_block :
  api_find impl_quirks ex [] (PatS pat_seq) None =
  Ok [CBlock [(Abody, Some 0)] Abody 0 4; CBlock [(Abody, Some 0)] Abody 1 4; CBlock [(Abody, Some 0)] Abody 2 4].
Proof. reflexivity. Qed.

(* find below a context cursor *)
Example ex_find_ctx :
  api_find impl_quirks ex p_if (PatS pat_B) None = Ok [CNode (p_if ++ [(Abody, Some 0)]); CNode (p_if ++ [(Aorelse, Some 1)])] /\
  resolve ex p_if = Some (NStmt ex_if).
Proof. split; reflexivity. Qed.

(* ---- pattern-string glue ---- *)
Example ex_hash : split_pattern "for i in _: _ #2" (Some 0%nat) = ("for i in _: _ ", Some 2%nat).
Proof. reflexivity. Qed.
Example ex_loop_shorthand : find_loop_pattern "i #1" = "for i in _: _#1" /\ find_loop_pattern "i" = "for i in _: _".
Proof. split; reflexivity. Qed.
(* existing behaviour (finding F-C16-4): the shorthand regex accepts `i # 1`, but the count is then lost *)
Example ex_hash_space :
  find_loop_pattern "i # 1" = "for i in _: _# 1" /\
  split_pattern (find_loop_pattern "i # 1") (Some 0%nat) = ("for i in _: _# 1", Some 0%nat).
Proof. split; reflexivity. Qed.
Example ex_alloc_shorthand :
  find_alloc_or_arg_pattern ["n"; "A"; "B"] "A" = inl 1%nat /\
  find_alloc_or_arg_pattern ["n"; "A"; "B"] "t #1" = inr "t: _#1".
Proof. split; reflexivity. Qed.

(* hypotheses of C16_hash_suffix *)
Example ex_hash_hyps :
  let pre := "x = _ " in let ds := "12" in let sp := "  " in
  pre <> EmptyString /\ all_chars (fun c => negb (Ascii.eqb c hash_char)) pre = true /\
  ds <> EmptyString /\ all_chars is_digit ds = true /\ all_chars is_space sp = true /\
  split_pattern (pre ++ String hash_char (ds ++ sp))%string None = (pre, Some 12%nat).
Proof. repeat split; discriminate. Qed.

(* well-formedness of statement patterns (no adjacent holes) *)
Example ex_wf : wf_pats pat_seq = true /\ wf_pats [PS_Hole; PS_Hole; PPass] = false.
Proof. split; reflexivity. Qed.
