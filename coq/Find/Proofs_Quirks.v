(* C16 -- where the implementation's matcher (Model.impl_quirks) differs from the specification
   (Model.spec_quirks = MatchRel), and where it provably does not.

   History: stride-dim0 (F-C16-1) and writeconfig-wildcard (F-C16-3) were repaired in /repo
   (80472758, e0571e51); their fields of [impl_quirks] are false now and their former witnesses are kept
   below as REGRESSION examples (they must evaluate the repaired way); so is the rank test of expression
   reads (2bbe1c40).  Open: call-args-ignored (F-C16-2).
   When that one is repaired: set q_callargs := false in Model.impl_quirks, turn quirk_callargs into a
   regression example, and replace impl_differs_from_spec / impl_decides_matchrel by the unconditional
   equality (impl_quirks = spec_quirks then holds by reflexivity). *)
From Coq Require Import List ZArith Bool String Arith Lia.
From Find Require Import Model Spec Proofs_Match.
Import ListNotations.
Local Open Scope string_scope.

(* ------------------------------------------------------------------ *)
(** * regression examples for the two repaired deviations *)

(* stride(A, 0) no longer matches stride(A, 1); stride(A, _) and stride(A, 1) still do *)
Example regression_stride0 :
  match_e impl_quirks (StrideExpr "A" 1) (PStride "A" (Some 0)) = false /\
  match_e impl_quirks (StrideExpr "A" 0) (PStride "A" (Some 0)) = true /\
  match_e impl_quirks (StrideExpr "A" 1) (PStride "A" None) = true /\
  ~ MatchE (PStride "A" (Some 0)) (StrideExpr "A" 1).
Proof.
  repeat split. intros H. apply match_e_dec in H. discriminate H.
Qed.

(* `_.a = _` and `Cfg._ = _` match `Cfg.a = 1`; a different field does not *)
Example regression_wcfg :
  match_stmt impl_quirks (WriteConfig "Cfg" "a" (Const (CV 1 1))) (PWriteConfig "_" "a") = true /\
  match_stmt impl_quirks (WriteConfig "Cfg" "a" (Const (CV 1 1))) (PWriteConfig "Cfg" "_") = true /\
  match_stmt impl_quirks (WriteConfig "Cfg" "a" (Const (CV 1 1))) (PWriteConfig "_" "b") = false /\
  MatchS (PWriteConfig "_" "a") (WriteConfig "Cfg" "a" (Const (CV 1 1))) true.
Proof. repeat split. apply match_stmt_dec. reflexivity. Qed.

(* rank test of expression reads (/repo 2bbe1c40, PatternMatch.match_idx): the pattern x[0] no longer
   matches the whole-buffer read x nor x[0, 5]; x, x[_] and x[_, _] still match a read of any rank; the
   indices of STATEMENT patterns keep the zip truncation (x[0] = 0.0 matches the scalar x = 0.0) *)
Example regression_read_rank :
  let c := fun k => Const (CV k 1) in let pc := fun k => PConst (CV k 1) in
  match_e impl_quirks (Read "x" []) (PRead "x" [pc 0%Z]) = false /\
  match_e impl_quirks (Read "x" [c 0%Z; c 5%Z]) (PRead "x" [pc 0%Z]) = false /\
  match_e impl_quirks (Read "x" [c 0%Z]) (PRead "x" [pc 0%Z]) = true /\
  match_e impl_quirks (Read "x" [c 0%Z; c 5%Z]) (PRead "x" [pc 0%Z; PE_Hole]) = true /\
  match_e impl_quirks (Read "x" [c 0%Z; c 5%Z]) (PRead "x" []) = true /\
  match_e impl_quirks (Read "x" [c 0%Z; c 5%Z]) (PRead "x" [PE_Hole]) = true /\
  match_e impl_quirks (Read "x" []) (PRead "x" [PE_Hole; PE_Hole]) = true /\
  ~ MatchE (PRead "x" [pc 0%Z]) (Read "x" []) /\
  ~ MatchE (PRead "x" [pc 0%Z]) (Read "x" [c 0%Z; c 5%Z]) /\
  match_stmt impl_quirks (Assign "x" [] (c 0%Z)) (PAssign "x" [pc 0%Z] (pc 0%Z)) = true.
Proof.
  repeat split; intros H; apply match_e_dec in H; discriminate H.
Qed.

(* ------------------------------------------------------------------ *)
(** * the open deviation: call arguments are ignored *)

(* callee(1) matches callee(2)                   pattern_match.py: Call case compares only the name *)
Example quirk_callargs :
  match_stmt impl_quirks (Call "callee" [Const (CV 2 1)]) (PCall "callee" [PConst (CV 1 1)]) = true /\
  MatchS (PCall "callee" [PConst (CV 1 1)]) (Call "callee" [Const (CV 2 1)]) false.
Proof. split; [reflexivity|]. apply match_stmt_dec. reflexivity. Qed.

(* the full-strength statement "the implementation decides MatchRel" is false of the faithful model *)
Theorem impl_differs_from_spec :
  exists pats blk j, match_stmts impl_quirks pats blk = Some j /\ ~ MatchRel pats blk j.
Proof.
  exists [PCall "callee" [PConst (CV 1 1)]], [Call "callee" [Const (CV 2 1)]], 1%nat.
  split; [reflexivity|]. intros H. apply match_rel_dec in H. discriminate H.
Qed.

(* ------------------------------------------------------------------ *)
(** * expressions: the implementation's matcher IS the specification's *)

Lemma zip_all_ext_in : forall {A B} (f g : A -> B -> bool) lb la,
  (forall a b, In a la -> In b lb -> f a b = g a b) -> zip_all f la lb = zip_all g la lb.
Proof.
  induction lb as [|b lb IH]; intros la H; destruct la as [|a la]; simpl; try reflexivity.
  rewrite H by (simpl; auto). f_equal. apply IH. intros; apply H; simpl; auto.
Qed.

Lemma impl_spec_e : forall e p, match_e impl_quirks e p = match_e spec_quirks e p.
Proof.
  induction e using expr_ind'; intros p; destruct p; simpl in *; auto.
  - f_equal. apply zip_all_ext_in. intros a b Ha Hb. rewrite Forall_forall in H. apply H; auto.
  - rewrite IHe1, IHe2. reflexivity.
  - f_equal. apply zip_all_ext_in. intros a b Ha Hb. rewrite Forall_forall in H. apply H; auto.
Qed.

Lemma impl_spec_es : forall ps es, match_es impl_quirks ps es = match_es spec_quirks ps es.
Proof. intros. unfold match_es. apply zip_all_ext_in. intros a b _ _. apply impl_spec_e. Qed.

Theorem impl_decides_matche : forall p e, match_e impl_quirks e p = true <-> MatchE p e.
Proof. intros p e. rewrite impl_spec_e. apply match_e_dec. Qed.

(* ------------------------------------------------------------------ *)
(** * statements: on patterns whose call patterns have only hole arguments both matchers agree *)

Lemma match_seq_ext_in : forall {X} (m1 m2 : pstmt -> X -> bool) blk ps,
  (forall p s, In p ps -> In s blk -> m1 p s = m2 p s) -> match_seq m1 ps blk = match_seq m2 ps blk.
Proof.
  intros X m1 m2. induction blk as [|s blk IH]; intros ps H.
  - destruct ps; reflexivity.
  - destruct ps as [|p ps']; [reflexivity|]. simpl.
    assert (Hsub : forall ps0, incl ps0 (p :: ps') -> match_seq m1 ps0 blk = match_seq m2 ps0 blk).
    { intros ps0 Hi. apply IH. intros p0 s0 Hp Hs. apply H; [apply Hi; auto | simpl; auto]. }
    assert (Hm : forall p0, In p0 (p :: ps') -> m1 p0 s = m2 p0 s) by (intros; apply H; simpl; auto).
    destruct p; try (rewrite Hm by (simpl; auto); rewrite Hsub by (apply incl_tl, incl_refl); reflexivity).
    destruct ps' as [|p1 ps'']; [reflexivity|].
    rewrite Hm by (simpl; auto). rewrite (Hsub ps'') by (apply incl_tl, incl_tl, incl_refl).
    rewrite (Hsub (PS_Hole :: p1 :: ps'')) by apply incl_refl. reflexivity.
Qed.

Lemma all_eholes_match : forall q ps es, all_eholes ps = true -> match_es q ps es = true.
Proof.
  intros q ps. unfold match_es. induction ps as [|p ps IH]; intros es H; destruct es as [|e es]; simpl; auto.
  simpl in H. apply andb_true_iff in H. destruct H as [H1 H2]. destruct p; try discriminate.
  rewrite match_e_hole. simpl. apply IH. exact H2.
Qed.

Lemma impl_spec_s : forall s p, benign_s p = true -> match_stmt impl_quirks s p = match_stmt spec_quirks s p.
Proof.
  induction s using stmt_ind'; intros p B; destruct p; simpl in *; auto.
  - rewrite impl_spec_es, impl_spec_e. reflexivity.
  - rewrite impl_spec_es, impl_spec_e. reflexivity.
  - (* If *)
    apply andb_true_iff in B. destruct B as [B1 B2].
    rewrite impl_spec_e.
    rewrite (match_seq_ext_in (fun p s' => match_stmt impl_quirks s' p) (fun p s' => match_stmt spec_quirks s' p) b body).
    rewrite (match_seq_ext_in (fun p s' => match_stmt impl_quirks s' p) (fun p s' => match_stmt spec_quirks s' p) o orelse).
    reflexivity.
    + intros p s Hp Hs. rewrite Forall_forall in H0. apply H0; auto. rewrite forallb_forall in B2; auto.
    + intros p s Hp Hs. rewrite Forall_forall in H. apply H; auto. rewrite forallb_forall in B1; auto.
  - (* For *)
    rewrite !impl_spec_e.
    rewrite (match_seq_ext_in (fun p s' => match_stmt impl_quirks s' p) (fun p s' => match_stmt spec_quirks s' p) b body).
    reflexivity.
    intros p s Hp Hs. rewrite Forall_forall in H. apply H; auto. rewrite forallb_forall in B; auto.
  - destruct sh; auto. rewrite impl_spec_es. reflexivity.
  - unfold match_call_args. simpl. rewrite all_eholes_match; auto.
  - rewrite impl_spec_e. reflexivity.
Qed.

Theorem impl_spec_stmts : forall pats blk,
  forallb benign_s pats = true -> match_stmts impl_quirks pats blk = match_stmts spec_quirks pats blk.
Proof.
  intros pats blk B. unfold match_stmts. apply match_seq_ext_in. intros p s Hp Hs.
  apply impl_spec_s. rewrite forallb_forall in B. auto.
Qed.

(* under the excluding hypothesis the implementation's matcher decides MatchRel *)
Theorem impl_decides_matchrel : forall pats blk r,
  forallb benign_s pats = true ->
  (match_stmts impl_quirks pats blk = Some r <-> MatchRel pats blk r).
Proof. intros pats blk r B. rewrite impl_spec_stmts by assumption. apply match_rel_dec. Qed.

(* the hypothesis of impl_decides_matchrel is satisfiable (and the conclusion is a genuine match) *)
Example impl_spec_stmts_nonvacuous :
  let pats := [PFor "i" PE_Hole PE_Hole [PS_Hole]; PS_Hole; PAssign "x" [] PE_Hole; PCall "f" [PE_Hole]] in
  let blk := [For "i" (Const (CV 0 1)) (Read "n" []) [Pass]; Pass; Pass; Assign "x" [Read "i" []] (Const (CV 1 1));
              Call "f" [Read "x" []; Read "y" []]; Pass] in
  forallb benign_s pats = true /\ match_stmts impl_quirks pats blk = Some 5%nat.
Proof. repeat split. Qed.
