(* C16 -- navigation laws of the cursor model (Model.v section 7/8). *)
From Coq Require Import List ZArith Bool String Arith Lia.
From Find Require Import Model.
Import ListNotations.
Local Open Scope Z_scope.

(* ------------------------------------------------------------------ *)
(** * paths *)

Lemma last_step_snoc : forall (p : path) s, last_step (p ++ [s]) = Some s.
Proof.
  induction p as [|x p IH]; intros s; simpl; auto.
  destruct (p ++ [s]) eqn:E.
  - destruct p; discriminate.
  - rewrite <- E. apply IH.
Qed.

Lemma last_step_nil_iff : forall p : path, last_step p = None <-> p = [].
Proof.
  induction p as [|x p IH]; simpl; split; auto; try discriminate.
  destruct p; try discriminate. intros H. apply IH in H. discriminate.
Qed.

Lemma last_step_decomp : forall (p : path) s, last_step p = Some s -> p = removelast p ++ [s].
Proof.
  induction p as [|x p IH]; intros s H; simpl in *; try discriminate.
  destruct p as [|y p'].
  - inversion H; reflexivity.
  - simpl. f_equal. apply (IH s H).
Qed.

Lemma removelast_snoc : forall (p : path) s, removelast (p ++ [s]) = p.
Proof. intros. apply removelast_last. Qed.

Lemma resolve_app : forall p q n,
  resolve n (p ++ q) = match resolve n p with Some m => resolve m q | None => None end.
Proof.
  induction p as [|[a i] p IH]; intros q n; simpl; auto.
  destruct (get_attr n a); destruct i; auto.
  destruct (nth_error l n0); auto.
Qed.

Lemma resolve_snoc_list : forall root p a k c,
  resolve root (p ++ [(a, Some k)]) = Some c <->
  exists n l, resolve root p = Some n /\ get_attr n a = AList l /\ nth_error l k = Some c.
Proof.
  intros. rewrite resolve_app. split.
  - destruct (resolve root p) as [n|]; try discriminate. simpl.
    destruct (get_attr n a) eqn:G; try discriminate.
    destruct (nth_error l k) eqn:N; try discriminate. intros H. inversion H; subst. eauto.
  - intros (n & l & -> & G & N). simpl. rewrite G, N. reflexivity.
Qed.

Lemma resolve_snoc_node : forall root p a c,
  resolve root (p ++ [(a, None)]) = Some c <->
  exists n, resolve root p = Some n /\ get_attr n a = ANode c.
Proof.
  intros. rewrite resolve_app. split.
  - destruct (resolve root p) as [n|]; try discriminate. simpl.
    destruct (get_attr n a) eqn:G; try discriminate. intros H; inversion H; subst. eauto.
  - intros (n & -> & G). simpl. rewrite G. reflexivity.
Qed.

Arguments step_eqb : simpl never.
Arguments attr_eqb : simpl never.

Lemma step_eqb_refl : forall s, step_eqb s s = true.
Proof.
  intros [a i]. unfold step_eqb, attr_eqb. simpl. rewrite Nat.eqb_refl. destruct i; auto. apply Nat.eqb_refl.
Qed.

Lemma attr_rank_inj : forall a b, attr_rank a = attr_rank b -> a = b.
Proof. destruct a, b; simpl; intros H; try reflexivity; discriminate. Qed.

Lemma attr_eqb_eq : forall a b, attr_eqb a b = true <-> a = b.
Proof.
  intros. unfold attr_eqb. rewrite Nat.eqb_eq. split; [apply attr_rank_inj | intros ->; reflexivity].
Qed.

Lemma step_eqb_eq : forall s t, step_eqb s t = true <-> s = t.
Proof.
  intros [a i] [b j]. unfold step_eqb. simpl. rewrite andb_true_iff, attr_eqb_eq. split.
  - intros [-> H]. destruct i, j; try discriminate; auto. apply Nat.eqb_eq in H. subst. reflexivity.
  - intros H. inversion H; subst. split; auto. destruct j; auto. apply Nat.eqb_refl.
Qed.

Lemma path_eqb_eq : forall p q, path_eqb p q = true <-> p = q.
Proof.
  induction p as [|s p IH]; destruct q as [|t q]; simpl; split; intros H; try discriminate; auto.
  - apply andb_true_iff in H. destruct H as [H1 H2]. apply step_eqb_eq in H1. apply IH in H2. subst. reflexivity.
  - inversion H; subst. rewrite step_eqb_refl. simpl. apply IH. reflexivity.
Qed.

Lemma starts_with_app : forall p q, starts_with (p ++ q) p = true.
Proof.
  induction p as [|s p IH]; intros; simpl.
  - destruct q; reflexivity.
  - rewrite step_eqb_refl. simpl. apply IH.
Qed.

Lemma starts_with_nil : forall a, starts_with a [] = true.
Proof. destruct a; reflexivity. Qed.

Lemma starts_with_iff : forall a b, starts_with a b = true <-> exists s, a = b ++ s.
Proof.
  intros a b; revert a. induction b as [|t b IH]; intros a.
  - rewrite starts_with_nil. split; auto. intros _. exists a. reflexivity.
  - destruct a as [|s a]; simpl; split; try discriminate.
    + intros (x & H). discriminate.
    + intros H. apply andb_true_iff in H. destruct H as [H1 H2]. apply step_eqb_eq in H1. apply IH in H2.
      destruct H2 as (x & ->). subst. eauto.
    + intros (x & H). inversion H; subst. rewrite step_eqb_refl. simpl. apply IH. eauto.
Qed.

(* ------------------------------------------------------------------ *)
(** * parent / child *)

Lemma nav_parent_child : forall root p a i q,
  child_node root p a i = Ok q -> node_parent q = Ok p.
Proof.
  intros root p a i q. unfold child_node.
  destruct (resolve root p); try discriminate.
  destruct (get_attr n a); try discriminate; destruct i; try discriminate.
  - destruct ((0 <=? z) && (z <? len_z l)); try discriminate. intros H; inversion H; subst.
    unfold node_parent. destruct (p ++ [(a, Some (Z.to_nat z))]) eqn:E.
    + destruct p; discriminate.
    + rewrite <- E. rewrite removelast_snoc. reflexivity.
  - intros H; inversion H; subst. unfold node_parent. destruct (p ++ [(a, None)]) eqn:E.
    + destruct p; discriminate.
    + rewrite <- E. rewrite removelast_snoc. reflexivity.
Qed.

(* the result of _child_node is a valid cursor *)
Lemma nav_child_valid : forall root p a i q,
  child_node root p a i = Ok q -> exists c, resolve root q = Some c.
Proof.
  intros root p a i q. unfold child_node.
  destruct (resolve root p) eqn:R; try discriminate.
  destruct (get_attr n a) eqn:G; try discriminate; destruct i; try discriminate.
  - destruct ((0 <=? z) && (z <? len_z l)) eqn:B; try discriminate. intros H; inversion H; subst.
    apply andb_true_iff in B. destruct B as [B1 B2]. apply Z.leb_le in B1. apply Z.ltb_lt in B2. unfold len_z in B2.
    destruct (nth_error l (Z.to_nat z)) eqn:N.
    + exists n0. apply resolve_snoc_list. eauto.
    + apply nth_error_None in N. lia.
  - intros H; inversion H; subst. exists n0. apply resolve_snoc_node. eauto.
Qed.

Definition step_index (s : step) : option Z := option_map Z.of_nat (snd s).

Lemma nav_child_parent : forall root q c,
  resolve root q = Some c -> q <> [] ->
  exists s, last_step q = Some s /\ child_node root (removelast q) (fst s) (step_index s) = Ok q.
Proof.
  intros root q c R NE.
  destruct (last_step q) as [[a i]|] eqn:L.
  2:{ apply last_step_nil_iff in L. contradiction. }
  exists (a, i). split; auto. pose proof (last_step_decomp _ _ L) as D.
  rewrite D in R. unfold child_node, step_index. simpl.
  destruct i as [k|].
  - apply resolve_snoc_list in R. destruct R as (n & l & R1 & G & N). rewrite R1, G. simpl.
    assert (Hk : (k < List.length l)%nat) by (apply nth_error_Some; congruence).
    unfold len_z.
    replace ((0 <=? Z.of_nat k) && (Z.of_nat k <? Z.of_nat (List.length l))) with true.
    + rewrite Nat2Z.id. f_equal; symmetry; exact D.
    + symmetry. apply andb_true_iff. split; [apply Z.leb_le | apply Z.ltb_lt]; lia.
  - apply resolve_snoc_node in R. destruct R as (n & R1 & G). rewrite R1, G. simpl. f_equal; symmetry; exact D.
Qed.

Lemma nav_parent_root : node_parent [] = Err InvalidCursorError.
Proof. reflexivity. Qed.

Lemma nav_parent_ancestor : forall p q,
  node_parent p = Ok q -> is_ancestor_of q (CNode p) = true.
Proof.
  intros p q H. unfold node_parent in H. destruct p as [|s p]; try discriminate. inversion H; subst.
  unfold is_ancestor_of. simpl cursor_anchor_path.
  destruct (last_step (s :: p)) as [t|] eqn:L.
  - rewrite (last_step_decomp _ _ L) at 1. apply starts_with_app.
  - apply last_step_nil_iff in L. discriminate.
Qed.

(* ------------------------------------------------------------------ *)
(** * next / prev *)

Lemma node_next_spec : forall root p d q,
  node_next root p d = Ok q <->
  exists a k n l, last_step p = Some (a, Some k) /\ resolve root (removelast p) = Some n /\
                  get_attr n a = AList l /\ 0 <= Z.of_nat k + d < len_z l /\
                  q = removelast p ++ [(a, Some (Z.to_nat (Z.of_nat k + d)))].
Proof.
  intros. unfold node_next. split.
  - destruct (last_step p) as [[a [k|]]|] eqn:L; try discriminate.
    unfold child_node. destruct (resolve root (removelast p)) eqn:R; try discriminate.
    destruct (get_attr n a) eqn:G; try discriminate.
    destruct ((0 <=? Z.of_nat k + d) && (Z.of_nat k + d <? len_z l)) eqn:B; try discriminate.
    intros H; inversion H; subst. apply andb_true_iff in B. destruct B as [B1 B2].
    apply Z.leb_le in B1. apply Z.ltb_lt in B2. exists a, k, n, l. repeat split; auto.
  - intros (a & k & n & l & L & R & G & B & ->). rewrite L. unfold child_node. rewrite R, G.
    replace ((0 <=? Z.of_nat k + d) && (Z.of_nat k + d <? len_z l)) with true; auto.
    symmetry. apply andb_true_iff. split; [apply Z.leb_le | apply Z.ltb_lt]; lia.
Qed.

Theorem nav_next_prev : forall root p c d q,
  resolve root p = Some c -> node_next root p d = Ok q -> node_prev root q d = Ok p.
Proof.
  intros root p c d q V H. apply node_next_spec in H.
  destruct H as (a & k & n & l & L & R & G & B & ->).
  unfold node_prev. apply node_next_spec.
  pose proof (last_step_decomp _ _ L) as D.
  rewrite D in V. apply resolve_snoc_list in V. destruct V as (n' & l' & R' & G' & N').
  rewrite R in R'. inversion R'; subst n'. rewrite G in G'. inversion G'; subst l'.
  assert (Hk : (k < List.length l)%nat) by (apply nth_error_Some; congruence).
  exists a, (Z.to_nat (Z.of_nat k + d)), n, l.
  rewrite last_step_snoc, removelast_snoc. repeat split; auto; unfold len_z in *; try lia.
  rewrite Z2Nat.id by lia. replace (Z.of_nat k + d + - d) with (Z.of_nat k) by lia.
  rewrite Nat2Z.id. exact D.
Qed.

Theorem nav_prev_next : forall root p c d q,
  resolve root p = Some c -> node_prev root p d = Ok q -> node_next root q d = Ok p.
Proof.
  intros root p c d q V H. unfold node_prev in H.
  pose proof (nav_next_prev root p c (- d) q V H) as H'. unfold node_prev in H'.
  replace (- - d) with d in H' by lia. exact H'.
Qed.

Lemma nav_next_valid : forall root p d q,
  node_next root p d = Ok q -> exists c, resolve root q = Some c.
Proof.
  intros root p d q H. unfold node_next in H.
  destruct (last_step p) as [[a [k|]]|]; try discriminate. eapply nav_child_valid; eauto.
Qed.

(* next moves by exactly [d] inside the same list *)
Lemma nav_next_index : forall root p d q,
  node_next root p d = Ok q ->
  exists a k, last_step p = Some (a, Some k) /\ removelast q = removelast p /\
              last_step q = Some (a, Some (Z.to_nat (Z.of_nat k + d))) /\ 0 <= Z.of_nat k + d.
Proof.
  intros root p d q H. apply node_next_spec in H. destruct H as (a & k & n & l & L & R & G & B & ->).
  exists a, k. rewrite removelast_snoc, last_step_snoc. repeat split; auto. lia.
Qed.

(* edges *)
Lemma nav_next_root : forall root d, node_next root [] d = Err InvalidCursorError.
Proof. reflexivity. Qed.

Lemma nav_next_not_in_block : forall root p a d,
  last_step p = Some (a, None) -> node_next root p d = Err InvalidCursorError.
Proof. intros. unfold node_next. rewrite H. reflexivity. Qed.

Theorem nav_next_at_end : forall root p a k n l d,
  last_step p = Some (a, Some k) -> resolve root (removelast p) = Some n -> get_attr n a = AList l ->
  (Z.of_nat k + d < 0 \/ len_z l <= Z.of_nat k + d) ->
  node_next root p d = Err InvalidCursorError.
Proof.
  intros root p a k n l d L R G B. unfold node_next. rewrite L. unfold child_node. rewrite R, G.
  replace ((0 <=? Z.of_nat k + d) && (Z.of_nat k + d <? len_z l)) with false; auto.
  symmetry. apply andb_false_iff. destruct B; [left; apply Z.leb_gt | right; apply Z.ltb_ge]; lia.
Qed.

Corollary nav_next_last : forall root p a k n l,
  last_step p = Some (a, Some k) -> resolve root (removelast p) = Some n -> get_attr n a = AList l ->
  S k = List.length l -> node_next root p 1 = Err InvalidCursorError.
Proof. intros. eapply nav_next_at_end; eauto. right. unfold len_z. lia. Qed.

Corollary nav_prev_first : forall root p a n l,
  last_step p = Some (a, Some 0%nat) -> resolve root (removelast p) = Some n -> get_attr n a = AList l ->
  node_prev root p 1 = Err InvalidCursorError.
Proof. intros. unfold node_prev. eapply nav_next_at_end; eauto. left. lia. Qed.

(* ------------------------------------------------------------------ *)
(** * gaps *)

Lemma nav_anchor_before : forall p, node_before p = CGap p false /\ gap_anchor p = p.
Proof. split; reflexivity. Qed.
Lemma nav_anchor_after : forall p, node_after p = CGap p true /\ gap_anchor p = p.
Proof. split; reflexivity. Qed.
Lemma nav_gap_parent : forall p, gap_parent p = node_parent p.
Proof. reflexivity. Qed.

(* ------------------------------------------------------------------ *)
(** * blocks *)

Definition valid_block (root : node) (anchor : path) (a : attr) (lo hi : Z) : Prop :=
  exists n l, resolve root anchor = Some n /\ get_attr n a = AList l /\ 0 <= lo <= hi /\ hi <= len_z l.

Lemma range_index_ok : forall lo hi i, 0 <= i < hi - lo -> range_index lo hi i = Ok (lo + i).
Proof.
  intros. unfold range_index, range_len. destruct (i <? 0) eqn:E; [apply Z.ltb_lt in E; lia|].
  replace ((0 <=? i) && (i <? Z.max 0 (hi - lo))) with true; auto.
  symmetry. apply andb_true_iff. split; [apply Z.leb_le | apply Z.ltb_lt]; lia.
Qed.

Lemma range_index_neg : forall lo hi i, - (hi - lo) <= i < 0 -> range_index lo hi i = Ok (hi + i).
Proof.
  intros. unfold range_index, range_len. destruct (i <? 0) eqn:E; [|apply Z.ltb_ge in E; lia].
  replace ((0 <=? i + Z.max 0 (hi - lo)) && (i + Z.max 0 (hi - lo) <? Z.max 0 (hi - lo))) with true.
  - f_equal. lia.
  - symmetry. apply andb_true_iff. split; [apply Z.leb_le | apply Z.ltb_lt]; lia.
Qed.

Lemma range_index_out : forall lo hi i,
  (range_len lo hi <= i \/ i < - range_len lo hi) -> range_index lo hi i = Err IndexError.
Proof.
  intros lo hi i H. unfold range_index. unfold range_len in *.
  destruct (i <? 0) eqn:E.
  - apply Z.ltb_lt in E.
    replace ((0 <=? i + Z.max 0 (hi - lo)) && (i + Z.max 0 (hi - lo) <? Z.max 0 (hi - lo))) with false; auto.
    symmetry. apply andb_false_iff. left. apply Z.leb_gt. lia.
  - apply Z.ltb_ge in E.
    replace ((0 <=? i) && (i <? Z.max 0 (hi - lo))) with false; auto.
    symmetry. apply andb_false_iff. right. apply Z.ltb_ge. lia.
Qed.

Lemma block_get_ok : forall root anchor a lo hi i,
  valid_block root anchor a lo hi -> 0 <= i < hi - lo ->
  block_get root anchor a lo hi i = Ok (anchor ++ [(a, Some (Z.to_nat (lo + i)))]).
Proof.
  intros root anchor a lo hi i (n & l & R & G & B1 & B2) Hi.
  unfold block_get. rewrite range_index_ok by lia. simpl. unfold child_node. rewrite R, G.
  replace ((0 <=? lo + i) && (lo + i <? len_z l)) with true; auto.
  symmetry. apply andb_true_iff. split; [apply Z.leb_le | apply Z.ltb_lt]; lia.
Qed.

(* b[len b] and b[-len b - 1] raise IndexError *)
Theorem nav_block_get_edge : forall root anchor a lo hi i,
  (block_len lo hi <= i \/ i < - block_len lo hi) ->
  block_get root anchor a lo hi i = Err IndexError.
Proof. intros. unfold block_get. rewrite range_index_out; auto. Qed.

(* (as_block c)[0] = c, (as_block c)[-1] = c, len = 1 *)
Theorem nav_as_block_get : forall root p c anchor a lo hi,
  resolve root p = Some c -> node_as_block p = Ok (CBlock anchor a lo hi) ->
  block_get root anchor a lo hi 0 = Ok p /\ block_get root anchor a lo hi (-1) = Ok p /\
  block_len lo hi = 1 /\ valid_block root anchor a lo hi.
Proof.
  intros root p c anchor a lo hi V H. unfold node_as_block in H.
  destruct (last_step p) as [[a' [k|]]|] eqn:L; try discriminate. inversion H; subst. clear H.
  pose proof (last_step_decomp _ _ L) as D. rewrite D in V. apply resolve_snoc_list in V.
  destruct V as (n & l & R & G & N).
  assert (Hk : (k < List.length l)%nat) by (apply nth_error_Some; congruence).
  assert (VB : valid_block root (removelast p) a (Z.of_nat k) (Z.of_nat k + 1)).
  { exists n, l. unfold len_z. repeat split; auto; lia. }
  repeat split; auto.
  - rewrite block_get_ok by (auto; lia). replace (Z.of_nat k + 0) with (Z.of_nat k) by lia.
    rewrite Nat2Z.id. f_equal; symmetry; exact D.
  - unfold block_get. rewrite range_index_neg by lia. simpl. unfold child_node. rewrite R, G.
    replace (Z.of_nat k + 1 + -1) with (Z.of_nat k) by lia.
    replace ((0 <=? Z.of_nat k) && (Z.of_nat k <? len_z l)) with true.
    + rewrite Nat2Z.id. f_equal; symmetry; exact D.
    + symmetry. apply andb_true_iff. unfold len_z. split; [apply Z.leb_le | apply Z.ltb_lt]; lia.
  - unfold block_len, range_len. lia.
Qed.

Lemma nav_as_block_root : node_as_block [] = Err IndexError.
Proof. reflexivity. Qed.
Lemma nav_as_block_not_in_block : forall p a,
  last_step p = Some (a, None) -> node_as_block p = Err InvalidCursorError.
Proof. intros. unfold node_as_block. rewrite H. reflexivity. Qed.

(* as_block c contains c; its parent is the parent of c *)
Theorem nav_as_block_contains : forall p anchor a lo hi,
  node_as_block p = Ok (CBlock anchor a lo hi) ->
  block_contains anchor a lo hi (CNode p) = Ok true /\ node_parent p = Ok (block_parent anchor).
Proof.
  intros p anchor a lo hi H. unfold node_as_block in H.
  destruct (last_step p) as [[a' [k|]]|] eqn:L; try discriminate. inversion H; subst. clear H.
  split.
  - unfold block_contains, block_contains_node. rewrite L. f_equal.
    assert (E1 : path_eqb (removelast p) (removelast p) = true) by (apply path_eqb_eq; reflexivity).
    assert (E2 : attr_eqb a a = true) by (apply attr_eqb_eq; reflexivity).
    rewrite E1, E2. simpl. apply andb_true_iff. split; [apply Z.leb_le | apply Z.ltb_lt]; lia.
  - unfold node_parent, block_parent. destruct p; try discriminate. reflexivity.
Qed.

(* expand(0, 0) is the identity on valid blocks *)
Theorem nav_expand_0_0 : forall root anchor a lo hi,
  valid_block root anchor a lo hi ->
  block_expand root anchor a lo hi (Some 0) (Some 0) = Ok (CBlock anchor a lo hi).
Proof.
  intros root anchor a lo hi (n & l & R & G & B1 & B2).
  unfold block_expand, child_block. rewrite R, G. simpl. unfold range_len, len_z in *.
  f_equal. f_equal; lia.
Qed.

(* expand() = the whole block *)
Theorem nav_expand_full : forall root anchor a lo hi,
  valid_block root anchor a lo hi ->
  block_expand root anchor a lo hi None None = child_block root anchor a.
Proof.
  intros root anchor a lo hi (n & l & R & G & B1 & B2).
  unfold block_expand, child_block. rewrite R, G. simpl. unfold range_len, len_z in *.
  f_equal. f_equal; lia.
Qed.

(* expand never leaves the enclosing list (clamping) *)
Theorem nav_expand_clamped : forall root anchor a lo hi dlo dhi an' a' lo' hi' n l,
  resolve root anchor = Some n -> get_attr n a = AList l ->
  block_expand root anchor a lo hi dlo dhi = Ok (CBlock an' a' lo' hi') ->
  an' = anchor /\ a' = a /\ 0 <= lo' /\ hi' <= len_z l.
Proof.
  intros root anchor a lo hi dlo dhi an' a' lo' hi' n l R G H.
  unfold block_expand, child_block in H. rewrite R, G in H. simpl in H. inversion H; subst.
  unfold range_len, len_z. destruct dlo, dhi; repeat split; try reflexivity; lia.
Qed.

(* b[i:j][k] = b[i+k] *)
Theorem nav_slice_get : forall root anchor a lo hi i j k,
  0 <= i <= j -> j <= hi - lo -> 0 <= k < j - i ->
  match block_slice anchor a lo hi (Some i) (Some j) with
  | CBlock an' a' lo' hi' =>
      block_get root an' a' lo' hi' k = block_get root anchor a lo hi (i + k) /\ block_len lo' hi' = j - i
  | _ => False
  end.
Proof.
  intros root anchor a lo hi i j k Hi Hj Hk.
  unfold block_slice, range_slice, slice_bound, range_len.
  destruct (i <? 0) eqn:E1; [apply Z.ltb_lt in E1; lia|].
  destruct (j <? 0) eqn:E2; [apply Z.ltb_lt in E2; lia|].
  replace (Z.min i (Z.max 0 (hi - lo))) with i by lia.
  replace (Z.min j (Z.max 0 (hi - lo))) with j by lia.
  split.
  - unfold block_get. rewrite !range_index_ok by lia. simpl. f_equal. f_equal. lia.
  - unfold block_len, range_len. lia.
Qed.

(* slicing with omitted bounds: b[:] = b, and negative indices count from the end *)
Theorem nav_slice_full : forall anchor a lo hi,
  lo <= hi -> block_slice anchor a lo hi None None = CBlock anchor a lo hi.
Proof.
  intros. unfold block_slice, range_slice, slice_bound, range_len. f_equal; lia.
Qed.

Theorem nav_slice_neg : forall anchor a lo hi i j,
  lo <= hi -> - (hi - lo) <= i < 0 -> - (hi - lo) <= j < 0 ->
  block_slice anchor a lo hi (Some i) (Some j) = CBlock anchor a (hi + i) (hi + j).
Proof.
  intros. unfold block_slice, range_slice, slice_bound, range_len.
  destruct (i <? 0) eqn:E1; [|apply Z.ltb_ge in E1; lia].
  destruct (j <? 0) eqn:E2; [|apply Z.ltb_ge in E2; lia].
  f_equal; lia.
Qed.

(* slicing clamps at the block boundaries *)
Lemma slice_bound_range : forall n x dflt, 0 <= n -> 0 <= dflt <= n -> 0 <= slice_bound n x dflt <= n.
Proof.
  intros n x dflt Hn Hd. unfold slice_bound. destruct x as [v|]; auto.
  destruct (Z.ltb_spec v 0); lia.
Qed.

Theorem nav_slice_clamped : forall anchor a lo hi s e an' a' lo' hi',
  lo <= hi -> block_slice anchor a lo hi s e = CBlock an' a' lo' hi' ->
  an' = anchor /\ a' = a /\ lo <= lo' <= hi /\ lo <= hi' <= hi.
Proof.
  intros anchor a lo hi s e an' a' lo' hi' Hl H.
  unfold block_slice, range_slice in H. inversion H; subst. clear H.
  assert (Hn : 0 <= range_len lo hi) by (unfold range_len; lia).
  pose proof (slice_bound_range (range_len lo hi) s 0 Hn ltac:(lia)) as B1.
  pose proof (slice_bound_range (range_len lo hi) e (range_len lo hi) Hn ltac:(lia)) as B2.
  unfold range_len in *. repeat split; auto; lia.
Qed.

(* expand undoes slicing *)
Theorem nav_slice_expand : forall root anchor a lo hi i j,
  valid_block root anchor a lo hi -> 0 <= i <= j -> j <= hi - lo ->
  match block_slice anchor a lo hi (Some i) (Some j) with
  | CBlock an' a' lo' hi' =>
      exists full_hi, child_block root anchor a = Ok (CBlock anchor a 0 full_hi) /\
      block_expand root an' a' lo' hi' (Some i) (Some (hi - lo - j)) = Ok (CBlock anchor a lo hi)
  | _ => False
  end.
Proof.
  intros root anchor a lo hi i j (n & l & R & G & B1 & B2) Hi Hj.
  unfold block_slice, range_slice, slice_bound, range_len.
  destruct (i <? 0) eqn:E1; [apply Z.ltb_lt in E1; lia|].
  destruct (j <? 0) eqn:E2; [apply Z.ltb_lt in E2; lia|].
  exists (len_z l). unfold block_expand, child_block. rewrite R, G. simpl. split; auto.
  unfold range_len, len_z in *. f_equal. f_equal; lia.
Qed.

(* b[k] is contained in b; sub-slices are contained in b *)
Theorem nav_get_contains : forall root anchor a lo hi k q,
  valid_block root anchor a lo hi -> 0 <= k < hi - lo ->
  block_get root anchor a lo hi k = Ok q -> block_contains anchor a lo hi (CNode q) = Ok true.
Proof.
  intros root anchor a lo hi k q V Hk H. rewrite block_get_ok in H by auto. inversion H; subst.
  unfold block_contains, block_contains_node. rewrite last_step_snoc, removelast_snoc. f_equal.
  assert (E1 : path_eqb anchor anchor = true) by (apply path_eqb_eq; reflexivity).
  assert (E2 : attr_eqb a a = true) by (apply attr_eqb_eq; reflexivity).
  rewrite E1, E2. simpl. destruct V as (n & l & R & G & B1 & B2).
  rewrite Z2Nat.id by lia. apply andb_true_iff. split; [apply Z.leb_le | apply Z.ltb_lt]; lia.
Qed.

Theorem nav_slice_contains : forall anchor a lo hi s e,
  lo <= hi -> block_contains anchor a lo hi (block_slice anchor a lo hi s e) = Ok true.
Proof.
  intros anchor a lo hi s e Hl.
  destruct (block_slice anchor a lo hi s e) as [|an' a' lo' hi'|] eqn:E;
    try (unfold block_slice in E; destruct (range_slice lo hi s e); discriminate).
  apply nav_slice_clamped in E; auto. destruct E as (-> & -> & B1 & B2).
  unfold block_contains. f_equal.
  assert (E1 : path_eqb anchor anchor = true) by (apply path_eqb_eq; reflexivity).
  assert (E2 : attr_eqb a a = true) by (apply attr_eqb_eq; reflexivity).
  rewrite E1, E2. simpl. unfold is_sub_range.
  destruct (range_eqb lo' hi' lo hi); simpl.
  - apply orb_true_r.
  - rewrite orb_false_r, andb_true_r. apply andb_true_iff. split; apply Z.leb_le; lia.
Qed.

(* before / after of a block are the gaps at its first / last statement *)
Theorem nav_block_before_after : forall root anchor a lo hi,
  valid_block root anchor a lo hi -> lo < hi ->
  block_before root anchor a lo hi = Ok (node_before (anchor ++ [(a, Some (Z.to_nat lo))])) /\
  block_after root anchor a lo hi = Ok (node_after (anchor ++ [(a, Some (Z.to_nat (hi - 1)))])).
Proof.
  intros root anchor a lo hi V H. unfold block_before, block_after. split.
  - rewrite block_get_ok by (auto; lia). simpl. repeat f_equal. lia.
  - destruct V as (n & l & R & G & B1 & B2).
    unfold block_get. rewrite range_index_neg by lia. simpl. unfold child_node. rewrite R, G.
    replace ((0 <=? hi + -1) && (hi + -1 <? len_z l)) with true.
    + simpl. replace (hi + -1) with (hi - 1) by lia. reflexivity.
    + symmetry. apply andb_true_iff. split; [apply Z.leb_le | apply Z.ltb_lt]; lia.
Qed.

(* an empty block has no before/after *)
Lemma nav_block_before_empty : forall root anchor a lo hi,
  hi <= lo -> block_before root anchor a lo hi = Err IndexError /\ block_after root anchor a lo hi = Err IndexError.
Proof.
  intros. unfold block_before, block_after, block_get.
  rewrite !range_index_out; auto; unfold range_len; lia.
Qed.

(* iteration enumerates b[0], b[1], ... *)
Lemma block_iter_from_spec : forall root anchor a n lo,
  block_iter_from root anchor a lo n =
  map (fun k => child_node root anchor a (Some (lo + Z.of_nat k))) (seq 0 n).
Proof.
  induction n as [|n IH]; intros lo; simpl; auto.
  f_equal.
  - f_equal. f_equal. lia.
  - rewrite IH. rewrite <- seq_shift, map_map. apply map_ext. intros k. f_equal. f_equal. lia.
Qed.

Theorem nav_block_iter : forall root anchor a lo hi,
  valid_block root anchor a lo hi ->
  block_iter root anchor a lo hi =
  map (fun k => block_get root anchor a lo hi (Z.of_nat k)) (seq 0 (Z.to_nat (hi - lo))).
Proof.
  intros root anchor a lo hi V. unfold block_iter. rewrite block_iter_from_spec.
  destruct V as (n & l & R & G & B1 & B2).
  unfold range_len. replace (Z.max 0 (hi - lo)) with (hi - lo) by lia.
  apply map_ext_in. intros k Hk. apply in_seq in Hk.
  unfold block_get. rewrite range_index_ok by lia. reflexivity.
Qed.

(* ------------------------------------------------------------------ *)
(** * API level *)

Theorem nav_api_next_prev : forall root p c d q,
  resolve root p = Some c -> api_next root p d = Ok (Some (CNode q)) -> api_prev root q d = Ok (Some (CNode p)).
Proof.
  intros root p c d q V H. unfold api_next, catch_invalid in H.
  destruct (node_next root p d) as [q'|e] eqn:E.
  - inversion H; subst. unfold api_prev. rewrite (nav_next_prev _ _ _ _ _ V E). reflexivity.
  - destruct e; discriminate.
Qed.

Theorem nav_api_prev_next : forall root p c d q,
  resolve root p = Some c -> api_prev root p d = Ok (Some (CNode q)) -> api_next root q d = Ok (Some (CNode p)).
Proof.
  intros root p c d q V H. unfold api_prev, catch_invalid in H.
  destruct (node_prev root p d) as [q'|e] eqn:E.
  - inversion H; subst. unfold api_next. rewrite (nav_prev_next _ _ _ _ _ V E). reflexivity.
  - destruct e; discriminate.
Qed.

(* at the edges the API returns InvalidCursor (= Ok None) *)
Theorem nav_api_next_edge : forall root p a k n l d,
  last_step p = Some (a, Some k) -> resolve root (removelast p) = Some n -> get_attr n a = AList l ->
  (Z.of_nat k + d < 0 \/ len_z l <= Z.of_nat k + d) ->
  api_next root p d = Ok None.
Proof. intros. unfold api_next. erewrite nav_next_at_end; eauto. Qed.

(* API parent of a top-level statement is InvalidCursor *)
Theorem nav_api_parent_top : forall p st,
  api_parent (NProc p) (CNode [st]) = Ok None.
Proof. intros. reflexivity. Qed.

Lemma nav_next_root_or_single : forall root d,
  node_next root [] d = Err InvalidCursorError /\
  (forall p a, last_step p = Some (a, None) -> node_next root p d = Err InvalidCursorError).
Proof. intros. split; [apply nav_next_root | intros; eapply nav_next_not_in_block; eauto]. Qed.
