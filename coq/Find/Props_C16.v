(* C16 -- find returns exactly the statements or expressions that structurally match the pattern, in
   program order, with '#n' selecting the n-th match, and raises when there is none.  Cursor navigation
   is coherent: parent/child, next/prev, before/after/anchor, block indexing, slicing and expand are
   mutual inverses where defined and yield an invalid cursor at the edges.

   ONLY the property theorems; every proof is `exact <lemma>`.  Model: Model.v (executable, tied to
   /repo by the correspondence harness), specification: Spec.v (MatchRel, program order, positions). *)
From Coq Require Import List ZArith Bool String Ascii Arith Sorted.
From Find Require Import Model Spec Proofs_Nav Proofs_Find Proofs_Order Proofs_Reach Proofs_Match Proofs_Quirks Proofs_Top.
Import ListNotations.

(* ================================================================== *)
(** * 1. The executable matcher decides the inductive match relation *)

Theorem C16_match_dec : forall pats blk r,
  match_stmts spec_quirks pats blk = Some r <-> MatchRel pats blk r.
Proof. exact match_rel_dec. Qed.
Print Assumptions C16_match_dec.

(* ... including the negative answer *)
Theorem C16_match_dec_total : forall pats blk r,
  match_stmts spec_quirks pats blk = r <-> MatchSeq pats blk r.
Proof. exact match_stmts_dec. Qed.
Print Assumptions C16_match_dec_total.

Theorem C16_match_stmt_dec : forall p s b,
  match_stmt spec_quirks s p = b <-> MatchS p s b.
Proof. exact match_stmt_dec. Qed.
Print Assumptions C16_match_stmt_dec.

Theorem C16_match_expr_dec : forall p e,
  match_e spec_quirks e p = true <-> MatchE p e.
Proof. exact match_e_dec. Qed.
Print Assumptions C16_match_expr_dec.

(* The statement matcher as /repo implements it (impl_quirks) does NOT decide MatchRel: call patterns
   ignore their arguments (open finding F-C16-2) ... *)
Theorem C16_match_impl_refuted :
  exists pats blk j, match_stmts impl_quirks pats blk = Some j /\ ~ MatchRel pats blk j.
Proof. exact impl_differs_from_spec. Qed.
Print Assumptions C16_match_impl_refuted.

(* ... it does on patterns whose call patterns have only hole arguments (at any nesting depth) *)
Theorem C16_match_impl_partial : forall pats blk r,
  forallb benign_s pats = true ->
  (match_stmts impl_quirks pats blk = Some r <-> MatchRel pats blk r).
Proof. exact impl_decides_matchrel. Qed.
Print Assumptions C16_match_impl_partial.

(* for expressions the implementation's matcher decides MatchE without any side condition
   (since the repair of `stride(x, 0)`, /repo 80472758) *)
Theorem C16_match_expr_impl : forall p e,
  match_e impl_quirks e p = true <-> MatchE p e.
Proof. exact impl_decides_matche. Qed.
Print Assumptions C16_match_expr_impl.

(* ================================================================== *)
(** * 2. find-all lists exactly the matching positions, once each, in program order *)

(* program order is a strict order *)
Theorem C16_program_order_strict :
  (forall p, ~ path_lt p p) /\ (forall p q r, path_lt p q -> path_lt q r -> path_lt p r) /\
  (forall p st x, path_lt p (p ++ st :: x)).
Proof. exact program_order_strict. Qed.
Print Assumptions C16_program_order_strict.

(* statement patterns, from the procedure root, for the matcher of any quirk setting *)
Theorem C16_find_all : forall q p pats,
  all_holes pats = false ->
  exists L, pm_find_all q (NProc p) [] (PatS pats) = Ok L /\
    (forall c, In c L <->
       exists an a k j m ss,
         c = CBlock an a (Z.of_nat k) (Z.of_nat (k + j)) /\
         block_path an /\ block_attr a /\
         resolve (NProc p) an = Some m /\ get_attr m a = AList (map NStmt ss) /\ k < List.length ss /\
         match_stmts q pats (skipn k ss) = Some j) /\
    StronglySorted path_lt (map cursor_start L) /\ NoDup L.
Proof. exact find_all_stmts_root. Qed.
Print Assumptions C16_find_all.

(* ... and with the specification's matcher the membership condition is MatchRel *)
Theorem C16_find_all_spec : forall p pats,
  all_holes pats = false ->
  exists L, pm_find_all spec_quirks (NProc p) [] (PatS pats) = Ok L /\
    (forall c, In c L <->
       exists an a k j m ss,
         c = CBlock an a (Z.of_nat k) (Z.of_nat (k + j)) /\
         block_path an /\ block_attr a /\
         resolve (NProc p) an = Some m /\ get_attr m a = AList (map NStmt ss) /\ k < List.length ss /\
         MatchRel pats (skipn k ss) j) /\
    StronglySorted path_lt (map cursor_start L) /\ NoDup L.
Proof. exact find_all_stmts_root_spec. Qed.
Print Assumptions C16_find_all_spec.

(* expression patterns, from the procedure root *)
Theorem C16_find_all_expr : forall q p pe,
  ~ is_ehole pe ->
  exists L, pm_find_all q (NProc p) [] (PatE pe) = Ok L /\
    (forall c, In c L <-> exists path e, c = CNode path /\ resolve (NProc p) path = Some (NExpr e) /\
                                          avoids_args path /\ match_e q e pe = true) /\
    StronglySorted path_lt (map cursor_start L) /\ NoDup L.
Proof. exact find_all_expr_root. Qed.
Print Assumptions C16_find_all_expr.

Theorem C16_find_all_expr_spec : forall p pe,
  ~ is_ehole pe ->
  exists L, pm_find_all spec_quirks (NProc p) [] (PatE pe) = Ok L /\
    (forall c, In c L <-> exists path e, c = CNode path /\ resolve (NProc p) path = Some (NExpr e) /\
                                          avoids_args path /\ MatchE pe e) /\
    StronglySorted path_lt (map cursor_start L) /\ NoDup L.
Proof. exact find_all_expr_root_spec. Qed.
Print Assumptions C16_find_all_expr_spec.

(* expression patterns below an arbitrary context cursor (Cursor.find) *)
Theorem C16_find_all_expr_ctx : forall q root ctx n pe,
  resolve root ctx = Some n -> ~ is_ehole pe ->
  exists L, pm_find_all q root ctx (PatE pe) = Ok L /\
    (forall c, In c L <-> exists s e, c = CNode (ctx ++ s) /\ Reach n s (NExpr e) /\ match_e q e pe = true) /\
    StronglySorted path_lt (map cursor_start L) /\ NoDup L.
Proof. exact find_all_expr. Qed.
Print Assumptions C16_find_all_expr_ctx.

(* statement patterns below a context statement cursor (Cursor.find): positions of the singleton block
   holding the context statement and of the blocks nested in it (Spec.BlockPos) *)
Theorem C16_find_all_ctx : forall q root ctx n a k pats,
  resolve root ctx = Some n -> not_proc n -> last_step ctx = Some (a, Some k) -> all_holes pats = false ->
  exists L, pm_find_all q root ctx (PatS pats) = Ok L /\
    (forall c, In c L <-> exists pos, BlockPos (removelast ctx) a k [n] pos /\ In c (head_match q pats pos)) /\
    StronglySorted path_lt (map cursor_start L) /\ NoDup L.
Proof. exact find_all_stmts_ctx. Qed.
Print Assumptions C16_find_all_ctx.

(* a pattern that is just a hole is rejected *)
Theorem C16_find_anything_rejected : forall q root ctx n mno,
  resolve root ctx = Some n ->
  pm_find q root ctx (PatE PE_Hole) mno = Err PatternMatchError /\
  (forall pats, all_holes pats = true -> pm_find q root ctx (PatS pats) mno = Err PatternMatchError).
Proof. exact find_anything_rejected. Qed.
Print Assumptions C16_find_anything_rejected.

(* ================================================================== *)
(** * 3. `#n`: the stateful traversal with early exit = the n-th element of find-all *)

Theorem C16_find_nth : forall q root ctx pat mno,
  pm_find q root ctx pat mno =
  match pm_find_all q root ctx pat with
  | Ok l => Ok (select_nth l mno)
  | Err e => Err e
  end.
Proof. exact pm_find_select. Qed.
Print Assumptions C16_find_nth.

(* at the API: `pattern #k` is the k-th match (singleton blocks unwrapped); SchedulingError when there is none *)
Theorem C16_find_nth_api : forall q root ctx pat k l,
  pm_find_all q root ctx pat = Ok l ->
  api_find q root ctx pat (Some k) =
  match nth_error l k with Some c => Ok [unwrap1 c] | None => Err SchedulingError end.
Proof. exact api_find_nth. Qed.
Print Assumptions C16_find_nth_api.

Theorem C16_find_api : forall q root ctx pat mno,
  api_find q root ctx pat mno =
  match pm_find_all q root ctx pat with
  | Ok l => match select_nth l mno with
            | [] => Err SchedulingError
            | l' => Ok (map unwrap1 l')
            end
  | Err e => Err e
  end.
Proof. exact api_find_select. Qed.
Print Assumptions C16_find_api.

(* the `#n` suffix of a pattern string *)
Theorem C16_hash_suffix : forall pre ds sp dflt,
  pre <> EmptyString -> all_chars (fun c => negb (Ascii.eqb c hash_char)) pre = true ->
  ds <> EmptyString -> all_chars is_digit ds = true -> all_chars is_space sp = true ->
  split_pattern (pre ++ String hash_char (ds ++ sp)) dflt = (pre, Some (digits_val 0 ds)).
Proof. exact hash_suffix_parse. Qed.
Print Assumptions C16_hash_suffix.

(* ================================================================== *)
(** * 4. Navigation laws (C16_nav family) *)

(* next / prev are mutual inverses where defined *)
Theorem C16_nav_next_prev : forall root p c d q,
  resolve root p = Some c -> node_next root p d = Ok q -> node_prev root q d = Ok p.
Proof. exact nav_next_prev. Qed.
Print Assumptions C16_nav_next_prev.

Theorem C16_nav_prev_next : forall root p c d q,
  resolve root p = Some c -> node_prev root p d = Ok q -> node_next root q d = Ok p.
Proof. exact nav_prev_next. Qed.
Print Assumptions C16_nav_prev_next.

(* ... and invalid beyond either end of the block, at the root, and outside a block *)
Theorem C16_nav_next_edge : forall root p a k n l d,
  last_step p = Some (a, Some k) -> resolve root (removelast p) = Some n -> get_attr n a = AList l ->
  (Z.of_nat k + d < 0 \/ len_z l <= Z.of_nat k + d)%Z ->
  node_next root p d = Err InvalidCursorError.
Proof. exact nav_next_at_end. Qed.
Print Assumptions C16_nav_next_edge.

Theorem C16_nav_next_root_or_single : forall root d,
  node_next root [] d = Err InvalidCursorError /\
  (forall p a, last_step p = Some (a, None) -> node_next root p d = Err InvalidCursorError).
Proof. exact nav_next_root_or_single. Qed.
Print Assumptions C16_nav_next_root_or_single.

(* parent / child *)
Theorem C16_nav_parent_child : forall root p a i q,
  child_node root p a i = Ok q -> node_parent q = Ok p.
Proof. exact nav_parent_child. Qed.
Print Assumptions C16_nav_parent_child.

Theorem C16_nav_child_parent : forall root q c,
  resolve root q = Some c -> q <> [] ->
  exists s, last_step q = Some s /\ child_node root (removelast q) (fst s) (step_index s) = Ok q.
Proof. exact nav_child_parent. Qed.
Print Assumptions C16_nav_child_parent.

Theorem C16_nav_parent_root : node_parent [] = Err InvalidCursorError.
Proof. exact nav_parent_root. Qed.
Print Assumptions C16_nav_parent_root.

Theorem C16_nav_parent_ancestor : forall p q,
  node_parent p = Ok q -> is_ancestor_of q (CNode p) = true.
Proof. exact nav_parent_ancestor. Qed.
Print Assumptions C16_nav_parent_ancestor.

(* before / after / anchor *)
Theorem C16_nav_anchor_before : forall p, node_before p = CGap p false /\ gap_anchor p = p.
Proof. exact nav_anchor_before. Qed.
Print Assumptions C16_nav_anchor_before.

Theorem C16_nav_anchor_after : forall p, node_after p = CGap p true /\ gap_anchor p = p.
Proof. exact nav_anchor_after. Qed.
Print Assumptions C16_nav_anchor_after.

(* as_block *)
Theorem C16_nav_as_block : forall root p c anchor a lo hi,
  resolve root p = Some c -> node_as_block p = Ok (CBlock anchor a lo hi) ->
  block_get root anchor a lo hi 0 = Ok p /\ block_get root anchor a lo hi (-1) = Ok p /\
  block_len lo hi = 1%Z /\ valid_block root anchor a lo hi.
Proof. exact nav_as_block_get. Qed.
Print Assumptions C16_nav_as_block.

Theorem C16_nav_as_block_contains : forall p anchor a lo hi,
  node_as_block p = Ok (CBlock anchor a lo hi) ->
  block_contains anchor a lo hi (CNode p) = Ok true /\ node_parent p = Ok (block_parent anchor).
Proof. exact nav_as_block_contains. Qed.
Print Assumptions C16_nav_as_block_contains.

Theorem C16_nav_as_block_edge : forall p a,
  last_step p = Some (a, None) -> node_as_block p = Err InvalidCursorError.
Proof. exact nav_as_block_not_in_block. Qed.
Print Assumptions C16_nav_as_block_edge.

(* expand *)
Theorem C16_nav_expand_0_0 : forall root anchor a lo hi,
  valid_block root anchor a lo hi ->
  block_expand root anchor a lo hi (Some 0%Z) (Some 0%Z) = Ok (CBlock anchor a lo hi).
Proof. exact nav_expand_0_0. Qed.
Print Assumptions C16_nav_expand_0_0.

Theorem C16_nav_expand_full : forall root anchor a lo hi,
  valid_block root anchor a lo hi ->
  block_expand root anchor a lo hi None None = child_block root anchor a.
Proof. exact nav_expand_full. Qed.
Print Assumptions C16_nav_expand_full.

Theorem C16_nav_expand_clamped : forall root anchor a lo hi dlo dhi an' a' lo' hi' n l,
  resolve root anchor = Some n -> get_attr n a = AList l ->
  block_expand root anchor a lo hi dlo dhi = Ok (CBlock an' a' lo' hi') ->
  an' = anchor /\ a' = a /\ (0 <= lo')%Z /\ (hi' <= len_z l)%Z.
Proof. exact nav_expand_clamped. Qed.
Print Assumptions C16_nav_expand_clamped.

(* indexing and slicing *)
Theorem C16_nav_slice_get : forall root anchor a lo hi i j k,
  (0 <= i <= j)%Z -> (j <= hi - lo)%Z -> (0 <= k < j - i)%Z ->
  match block_slice anchor a lo hi (Some i) (Some j) with
  | CBlock an' a' lo' hi' =>
      block_get root an' a' lo' hi' k = block_get root anchor a lo hi (i + k) /\ block_len lo' hi' = (j - i)%Z
  | _ => False
  end.
Proof. exact nav_slice_get. Qed.
Print Assumptions C16_nav_slice_get.

Theorem C16_nav_slice_expand : forall root anchor a lo hi i j,
  valid_block root anchor a lo hi -> (0 <= i <= j)%Z -> (j <= hi - lo)%Z ->
  match block_slice anchor a lo hi (Some i) (Some j) with
  | CBlock an' a' lo' hi' =>
      exists full_hi, child_block root anchor a = Ok (CBlock anchor a 0 full_hi) /\
      block_expand root an' a' lo' hi' (Some i) (Some (hi - lo - j)%Z) = Ok (CBlock anchor a lo hi)
  | _ => False
  end.
Proof. exact nav_slice_expand. Qed.
Print Assumptions C16_nav_slice_expand.

Theorem C16_nav_slice_clamped : forall anchor a lo hi s e an' a' lo' hi',
  (lo <= hi)%Z -> block_slice anchor a lo hi s e = CBlock an' a' lo' hi' ->
  an' = anchor /\ a' = a /\ (lo <= lo' <= hi)%Z /\ (lo <= hi' <= hi)%Z.
Proof. exact nav_slice_clamped. Qed.
Print Assumptions C16_nav_slice_clamped.

Theorem C16_nav_slice_contains : forall anchor a lo hi s e,
  (lo <= hi)%Z -> block_contains anchor a lo hi (block_slice anchor a lo hi s e) = Ok true.
Proof. exact nav_slice_contains. Qed.
Print Assumptions C16_nav_slice_contains.

Theorem C16_nav_get_contains : forall root anchor a lo hi k q,
  valid_block root anchor a lo hi -> (0 <= k < hi - lo)%Z ->
  block_get root anchor a lo hi k = Ok q -> block_contains anchor a lo hi (CNode q) = Ok true.
Proof. exact nav_get_contains. Qed.
Print Assumptions C16_nav_get_contains.

Theorem C16_nav_get_edge : forall root anchor a lo hi i,
  (block_len lo hi <= i \/ i < - block_len lo hi)%Z ->
  block_get root anchor a lo hi i = Err IndexError.
Proof. exact nav_block_get_edge. Qed.
Print Assumptions C16_nav_get_edge.

Theorem C16_nav_block_before_after : forall root anchor a lo hi,
  valid_block root anchor a lo hi -> (lo < hi)%Z ->
  block_before root anchor a lo hi = Ok (node_before (anchor ++ [(a, Some (Z.to_nat lo))])) /\
  block_after root anchor a lo hi = Ok (node_after (anchor ++ [(a, Some (Z.to_nat (hi - 1)))])).
Proof. exact nav_block_before_after. Qed.
Print Assumptions C16_nav_block_before_after.

Theorem C16_nav_block_iter : forall root anchor a lo hi,
  valid_block root anchor a lo hi ->
  block_iter root anchor a lo hi =
  map (fun k => block_get root anchor a lo hi (Z.of_nat k)) (seq 0 (Z.to_nat (hi - lo))).
Proof. exact nav_block_iter. Qed.
Print Assumptions C16_nav_block_iter.

(* API level: InvalidCursor (= Ok None) at the edges, inverses elsewhere *)
Theorem C16_nav_api_next_prev : forall root p c d q,
  resolve root p = Some c -> api_next root p d = Ok (Some (CNode q)) -> api_prev root q d = Ok (Some (CNode p)).
Proof. exact nav_api_next_prev. Qed.
Print Assumptions C16_nav_api_next_prev.

Theorem C16_nav_api_prev_next : forall root p c d q,
  resolve root p = Some c -> api_prev root p d = Ok (Some (CNode q)) -> api_next root q d = Ok (Some (CNode p)).
Proof. exact nav_api_prev_next. Qed.
Print Assumptions C16_nav_api_prev_next.

Theorem C16_nav_api_next_edge : forall root p a k n l d,
  last_step p = Some (a, Some k) -> resolve root (removelast p) = Some n -> get_attr n a = AList l ->
  (Z.of_nat k + d < 0 \/ len_z l <= Z.of_nat k + d)%Z ->
  api_next root p d = Ok None.
Proof. exact nav_api_next_edge. Qed.
Print Assumptions C16_nav_api_next_edge.

Theorem C16_nav_api_parent_top : forall p st, api_parent (NProc p) (CNode [st]) = Ok None.
Proof. exact nav_api_parent_top. Qed.
Print Assumptions C16_nav_api_parent_top.
