(* C16 -- specification side: the inductive match relation (MatchRel), program order on paths,
   reachability of tree positions.  No functions of the model are used to define the relations
   (apart from the data types and [cval_neg], [node_blocks], [children] for positions). *)
From Coq Require Import List ZArith Bool String Arith.
From Find Require Import Model.
Import ListNotations.

(* ------------------------------------------------------------------ *)
(** * MatchRel: expressions *)

(* a pattern name is `_` or the name itself *)
Inductive MatchName : string -> string -> Prop :=
| MN_hole : forall x, MatchName hole_name x
| MN_same : forall x, MatchName x x.

Inductive MatchE : pexpr -> expr -> Prop :=
| ME_hole : forall e, MatchE PE_Hole e
| ME_read : forall px x pidx idx,                                (* PatternMatch.match_idx *)
    MatchName px x ->
    (List.length pidx = List.length idx \/ Forall (fun p => p = PE_Hole) pidx) ->   (* same rank, or only holes *)
    MatchEs pidx idx -> MatchE (PRead px pidx) (Read x idx)
| ME_window : forall px x idx,                                  (* a window expression is matched by x[_] *)
    MatchName px x -> MatchE (PRead px [PE_Hole]) (WindowExpr x idx)
| ME_const : forall v, MatchE (PConst v) (Const v)
| ME_negconst : forall v, MatchE (PUSub (PConst v)) (Const (cval_neg v))   (* -3 is parsed as USub(Const 3) *)
| ME_usub : forall pa a, MatchE pa a -> MatchE (PUSub pa) (USub a)
| ME_binop : forall op pl pr l r, MatchE pl l -> MatchE pr r -> MatchE (PBinOp op pl pr) (BinOp op l r)
| ME_extern : forall pf f pargs args,
    MatchName pf f -> MatchEs pargs args -> MatchE (PExtern pf pargs) (Extern f args)
| ME_readconfig : forall c f, MatchE (PReadConfig c f) (ReadConfig c f)
| ME_stride_any : forall px x d, MatchName px x -> MatchE (PStride px None) (StrideExpr x d)
| ME_stride : forall px x d, MatchName px x -> MatchE (PStride px (Some d)) (StrideExpr x d)
(* argument / size lists and the indices of statement patterns are compared pairwise over the COMMON
   PREFIX (Python's zip); expression reads additionally pass the rank test of ME_read *)
with MatchEs : list pexpr -> list expr -> Prop :=
| MEs_nil_l : forall es, MatchEs [] es
| MEs_nil_r : forall ps, MatchEs ps []
| MEs_cons : forall p e ps es, MatchE p e -> MatchEs ps es -> MatchEs (p :: ps) (e :: es).

Scheme MatchE_mind := Induction for MatchE Sort Prop
  with MatchEs_mind := Induction for MatchEs Sort Prop.
Combined Scheme MatchE_MatchEs_ind from MatchE_mind, MatchEs_mind.

(* ------------------------------------------------------------------ *)
(** * MatchRel: statements *)

(* statements without sub-blocks: the whole comparison is local *)
Inductive LeafMatch : pstmt -> stmt -> Prop :=
| LM_assign : forall px x pidx idx prhs rhs,
    MatchName px x -> MatchEs pidx idx -> MatchE prhs rhs -> LeafMatch (PAssign px pidx prhs) (Assign x idx rhs)
| LM_reduce : forall px x pidx idx prhs rhs,
    MatchName px x -> MatchEs pidx idx -> MatchE prhs rhs -> LeafMatch (PReduce px pidx prhs) (Reduce x idx rhs)
| LM_window : forall px x prhs rhs,                              (* a window statement is matched by `x = pat` *)
    MatchName px x -> MatchE prhs rhs -> LeafMatch (PAssign px [] prhs) (WindowStmt x rhs)
| LM_pass : LeafMatch PPass Pass
| LM_alloc_scalar : forall px x psz, MatchName px x -> LeafMatch (PAlloc px psz) (Alloc x None)
| LM_alloc_tensor : forall px x psz his,
    MatchName px x -> MatchEs psz his -> LeafMatch (PAlloc px psz) (Alloc x (Some his))
| LM_call : forall pf f pargs args,
    MatchName pf f -> MatchEs pargs args -> LeafMatch (PCall pf pargs) (Call f args)
| LM_writeconfig : forall pc pf cfg fld rhs,
    MatchName pc cfg -> MatchName pf fld -> LeafMatch (PWriteConfig pc pf) (WriteConfig cfg fld rhs).

Definition is_leaf (s : stmt) : Prop :=
  match s with If _ _ _ | For _ _ _ _ => False | _ => True end.
Definition is_pif (p : pstmt) : Prop := match p with PIf _ _ _ => True | _ => False end.
Definition is_pfor (p : pstmt) : Prop := match p with PFor _ _ _ _ => True | _ => False end.
Definition is_shole (p : pstmt) : Prop := match p with PS_Hole => True | _ => False end.

(* [MatchS p s b]: pattern statement p matches statement s iff b = true.
   [MatchSeq ps blk r]: the pattern sequence ps matches a prefix of blk of length j iff r = Some j;
   r = None: no match.  The index is needed because a statement hole followed by a pattern q absorbs
   statements up to the FIRST statement that q matches (negative information, rule MQ_hole_skip). *)
Inductive MatchS : pstmt -> stmt -> bool -> Prop :=
| MS_leaf : forall p s, is_leaf s -> LeafMatch p s -> MatchS p s true
| MS_leaf_no : forall p s, is_leaf s -> ~ LeafMatch p s -> MatchS p s false
| MS_if : forall pc pb po c b o jb jo,
    MatchE pc c -> MatchSeq pb b (Some jb) -> MatchSeq po o (Some jo) -> MatchS (PIf pc pb po) (If c b o) true
| MS_if_kind : forall p c b o, ~ is_pif p -> MatchS p (If c b o) false
| MS_if_cond : forall pc pb po c b o, ~ MatchE pc c -> MatchS (PIf pc pb po) (If c b o) false
| MS_if_body : forall pc pb po c b o, MatchSeq pb b None -> MatchS (PIf pc pb po) (If c b o) false
| MS_if_orelse : forall pc pb po c b o, MatchSeq po o None -> MatchS (PIf pc pb po) (If c b o) false
| MS_for : forall pi plo phi pb i lo hi b j,
    MatchName pi i -> MatchE plo lo -> MatchE phi hi -> MatchSeq pb b (Some j) ->
    MatchS (PFor pi plo phi pb) (For i lo hi b) true
| MS_for_kind : forall p i lo hi b, ~ is_pfor p -> MatchS p (For i lo hi b) false
| MS_for_head : forall pi plo phi pb i lo hi b,
    ~ (MatchName pi i /\ MatchE plo lo /\ MatchE phi hi) -> MatchS (PFor pi plo phi pb) (For i lo hi b) false
| MS_for_body : forall pi plo phi pb i lo hi b,
    MatchSeq pb b None -> MatchS (PFor pi plo phi pb) (For i lo hi b) false
with MatchSeq : list pstmt -> list stmt -> option nat -> Prop :=
| MQ_done : forall blk, MatchSeq [] blk (Some 0)
| MQ_short : forall p ps, MatchSeq (p :: ps) [] None               (* also: a trailing hole needs >= 1 statement *)
| MQ_hole_last : forall s blk, MatchSeq [PS_Hole] (s :: blk) (Some (S (List.length blk)))
| MQ_hole_stop : forall q ps s blk r,                             (* the look-ahead q matches s: hole is closed *)
    MatchS q s true -> MatchSeq ps blk r -> MatchSeq (PS_Hole :: q :: ps) (s :: blk) (option_map S r)
| MQ_hole_skip : forall q ps s blk r,                             (* q does not match s: the hole absorbs s *)
    MatchS q s false -> MatchSeq (PS_Hole :: q :: ps) blk r -> MatchSeq (PS_Hole :: q :: ps) (s :: blk) (option_map S r)
| MQ_cons : forall p ps s blk r,
    ~ is_shole p -> MatchS p s true -> MatchSeq ps blk r -> MatchSeq (p :: ps) (s :: blk) (option_map S r)
| MQ_fail : forall p ps s blk,
    ~ is_shole p -> MatchS p s false -> MatchSeq (p :: ps) (s :: blk) None.

Scheme MatchS_mind := Induction for MatchS Sort Prop
  with MatchSeq_mind := Induction for MatchSeq Sort Prop.
Combined Scheme MatchS_MatchSeq_ind from MatchS_mind, MatchSeq_mind.

(* The relation of the property text: "pats matches the first j statements of blk" *)
Definition MatchRel (pats : list pstmt) (blk : list stmt) (j : nat) : Prop := MatchSeq pats blk (Some j).

(* patterns on which the code and the specification may differ (see Model.quirks): a call pattern
   with an argument that is not a hole *)
Fixpoint benign_s (p : pstmt) : bool :=
  match p with
  | PIf _ b o => forallb benign_s b && forallb benign_s o
  | PFor _ _ _ b => forallb benign_s b
  | PCall _ args => all_eholes args
  | _ => true
  end.

(* ------------------------------------------------------------------ *)
(** * Program order on paths *)

Definition idx_lt (i j : option nat) : Prop :=
  match i, j with Some x, Some y => x < y | _, _ => False end.
(* inside one node: attributes in textual order, list elements by index *)
Definition step_lt (s t : step) : Prop :=
  attr_rank (fst s) < attr_rank (fst t) \/ (fst s = fst t /\ idx_lt (snd s) (snd t)).
(* pre-order = lexicographic, a node before everything below it *)
Fixpoint path_lt (p q : path) : Prop :=
  match p, q with
  | [], [] => False
  | [], _ :: _ => True
  | _ :: _, [] => False
  | s :: p', t :: q' => step_lt s t \/ (s = t /\ path_lt p' q')
  end.

(* the position a cursor starts at *)
Definition cursor_start (c : cursor) : path :=
  match c with
  | CNode p => p
  | CBlock anchor a lo _ => anchor ++ [(a, Some (Z.to_nat lo))]
  | CGap anchor _ => anchor
  end.

(* ------------------------------------------------------------------ *)
(** * Positions of a tree *)

(* [Reach n s m]: following the child edges s from n leads to m (the edges pattern_match._children follows) *)
Inductive Reach : node -> path -> node -> Prop :=
| Reach_nil : forall n, Reach n [] n
| Reach_step : forall n st c s m, In (st, c) (children n) -> Reach c s m -> Reach n (st :: s) m.

(* statement positions below a block: [BlockPos anchor a k blk pos] -- pos is a statement position of
   the block `blk` (whose first statement has index k in attribute a of the node at `anchor`) or of a
   block nested inside it *)
Inductive BlockPos : path -> attr -> nat -> list node -> blockpos -> Prop :=
| BP_here : forall anchor a k blk i n rest,
    skipn i blk = n :: rest -> BlockPos anchor a k blk (anchor, a, k + i, n :: rest)
| BP_nested : forall anchor a k blk i n rest a' b pos,
    skipn i blk = n :: rest -> In (a', b) (node_blocks n) ->
    BlockPos (anchor ++ [(a, Some (k + i))]) a' 0 b pos ->
    BlockPos anchor a k blk pos.

Definition blockpos_start (pos : blockpos) : path :=
  match pos with (anchor, a, k, _) => anchor ++ [(a, Some k)] end.
