#!/bin/bash
# Build the extracted OCaml driver of the C16 model into coq/Find/_build/c16_driver.
set -e
cd "$(dirname "$0")"
mkdir -p _build
if [ -x _build/c16_driver ] && [ _build/c16_driver -nt Model.v ] && [ _build/c16_driver -nt Extract.v ] && [ _build/c16_driver -nt driver.ml ]; then
  echo "up to date $(pwd)/_build/c16_driver"; exit 0
fi
if [ ! -f Model.vo ] || [ Model.v -nt Model.vo ]; then
  timeout 600 coqc -Q . Find Model.v
fi
cd _build
timeout 600 coqc -Q .. Find ../Extract.v > extract.log 2>&1 || { cat extract.log; exit 1; }
rm -f ../Extract.vo ../Extract.vok ../Extract.vos ../Extract.glob ../.Extract.aux
cp ../driver.ml driver.ml
timeout 600 ocamlfind ocamlopt -package str -w -a -O2 find_model.mli find_model.ml driver.ml -o c16_driver 2>/dev/null \
 || timeout 600 ocamlfind ocamlopt -package str -w -a find_model.mli find_model.ml driver.ml -o c16_driver
echo "built $(pwd)/c16_driver"
