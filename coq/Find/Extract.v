(* Extraction of the executable model to OCaml (ExtrOcamlBasic only). *)
Require Extraction.
Require Import ExtrOcamlBasic.
From Find Require Import Model.
Extraction Language OCaml.
Extraction "find_model.ml"
  impl_quirks spec_quirks api_find pm_find pm_find_all select_nth unwrap1 wf_pats
  match_e match_stmt match_stmts preorder
  split_pattern find_loop_pattern find_alloc_or_arg_pattern
  node_parent child_node child_block node_next node_prev node_before node_after node_as_block
  is_ancestor_of gap_parent gap_anchor block_get block_slice block_len block_parent block_before
  block_after block_iter block_expand block_contains
  api_parent api_next api_prev api_expand api_slice api_orelse resolve.
