(** * C02 — model of the index-expression part of the C backend (src/exo/backend/LoopIR_compiler.py).

    This file: the CIR expression type (LoopIR.py, module CIR), the accessor vocabulary the translated
    functions of [Gen_CIR.v] are written in, the denotation of CIR (Exo's index arithmetic: floor division
    and floor modulo), Python's [//] and [%] on constants, and the syntax of the emitted C expressions.

    Unbounded [Z] throughout: the widths of C's [int] / [int_fast32_t] (and therefore overflow of the
    generated index arithmetic, and the narrowing of [int_fast32_t] arguments to the [int] parameters of
    exo_floor_div / exo_floor_mod) are OUTSIDE this model. *)
From Coq Require Import ZArith List Bool.
Import ListNotations.
Local Open Scope Z_scope.

(** operators that can occur in an indexable expression; [operations] of the compiler has exactly these keys *)
Inductive cop := CAdd | CSub | CMul | CDiv | CMod.

Definition cop_eqb (a b : cop) : bool :=
  match a, b with
  | CAdd, CAdd | CSub, CSub | CMul, CMul | CDiv, CDiv | CMod, CMod => true
  | _, _ => false
  end.

(** module CIR { expr = Read(sym, bool is_non_neg) | Stride(sym, int) | Const(object) | BinOp(op, expr, expr, bool)
    | USub(expr, bool) } *)
Inductive cir :=
| CRead (x : positive) (nn : bool)
| CStride (x : positive) (d : nat)
| CConst (v : Z)
| CBin (op : cop) (a b : cir) (nn : bool)
| CUSub (a : cir) (nn : bool).

(** ** vocabulary of the translated Python ([isinstance], attribute access, [update]) *)
Definition is_read (e : cir) := match e with CRead _ _ => true | _ => false end.
Definition is_stride (e : cir) := match e with CStride _ _ => true | _ => false end.
Definition is_const (e : cir) := match e with CConst _ => true | _ => false end.
Definition is_binop (e : cir) := match e with CBin _ _ _ _ => true | _ => false end.
Definition is_usub (e : cir) := match e with CUSub _ _ => true | _ => false end.

(** attribute access; on a node without the attribute Python raises AttributeError: [None] *)
Definition c_val (e : cir) : option Z := match e with CConst v => Some v | _ => None end.
Definition c_arg (e : cir) : option cir := match e with CUSub a _ => Some a | _ => None end.
Definition c_nn (e : cir) : option bool :=
  match e with CRead _ nn | CBin _ _ _ nn | CUSub _ nn => Some nn | _ => None end.
Definition set_val (e : cir) (v : Z) : option cir := match e with CConst _ => Some (CConst v) | _ => None end.
Definition set_arg (e : cir) (a : cir) : option cir := match e with CUSub _ nn => Some (CUSub a nn) | _ => None end.

(** Python's integer [//] and [%]: ZeroDivisionError on a zero divisor, otherwise floor / sign-of-divisor,
    which is Coq's [Z.div] / [Z.modulo] *)
Definition pydiv (x y : Z) : option Z := if y =? 0 then None else Some (x / y).
Definition pymod (x y : Z) : option Z := if y =? 0 then None else Some (x mod y).

(** ** denotation of CIR: Exo's index arithmetic *)
Definition renv := positive -> Z.          (* value of index/size variables *)
Definition senv := positive -> nat -> Z.   (* strides of window variables *)

Definition cop_den (op : cop) (x y : Z) : Z :=
  match op with
  | CAdd => x + y | CSub => x - y | CMul => x * y | CDiv => x / y | CMod => x mod y
  end.

Fixpoint ceval (rho : renv) (sg : senv) (e : cir) : Z :=
  match e with
  | CRead x _ => rho x
  | CStride x d => sg x d
  | CConst v => v
  | CBin op a b _ => cop_den op (ceval rho sg a) (ceval rho sg b)
  | CUSub a _ => - ceval rho sg a
  end.

(** well-formedness guaranteed by the type checker (typecheck.py: divisor and modulus are positive literals) *)
Fixpoint wf_cir (e : cir) : bool :=
  match e with
  | CBin op a b _ =>
      wf_cir a && wf_cir b &&
      match op with
      | CDiv | CMod => match b with CConst c => 0 <? c | _ => false end
      | _ => true
      end
  | CUSub a _ => wf_cir a
  | _ => true
  end.

(** the meaning of the [is_non_neg] annotations (computed by range analysis, property C13):
    a node flagged non-negative evaluates to a non-negative value *)
Fixpoint flags_sound (rho : renv) (sg : senv) (e : cir) : Prop :=
  match e with
  | CRead x nn => nn = true -> 0 <= rho x
  | CBin op a b nn =>
      flags_sound rho sg a /\ flags_sound rho sg b /\ (nn = true -> 0 <= ceval rho sg (CBin op a b nn))
  | CUSub a nn => flags_sound rho sg a /\ (nn = true -> 0 <= ceval rho sg (CUSub a nn))
  | _ => True
  end.

(** ** emitted C expressions *)
Inductive helper := HFloorDiv | HFloorMod.

Inductive cexp :=
| XVar (x : positive)
| XStride (x : positive) (d : nat)
| XLit (v : Z)
| XBin (op : cop) (a b : cexp)          (* the C operators + - * / % *)
| XNeg (a : cexp)
| XParen (a : cexp)
| XCall (h : helper) (a b : cexp).

(** the C operators on (unbounded) integers: [/] truncates, [%] takes the sign of the dividend *)
Definition c_binop (op : cop) (x y : Z) : Z :=
  match op with
  | CAdd => x + y | CSub => x - y | CMul => x * y | CDiv => Z.quot x y | CMod => Z.rem x y
  end.
