(** * C02 — [simplify_cir] (as translated from the source) preserves the value, the well-formedness and the
      soundness of the non-negativity annotations of every well-formed CIR expression, and never fails on one. *)
From Coq Require Import ZArith List Bool Lia ZifyBool.
From Backend Require Import Model Gen_CIR.
Import ListNotations.
Local Open Scope Z_scope.

Lemma const_is_true : forall e k, const_is e k = true -> e = CConst k.
Proof. destruct e; simpl; intros; try discriminate. f_equal. lia. Qed.

Lemma is_const_true : forall e, is_const e = true -> exists v, e = CConst v.
Proof. destruct e; simpl; intros; try discriminate. eauto. Qed.

(** case analysis follows the tests of the code, not the shape of the operands *)
Ltac use_tests :=
  repeat match goal with
         | H : const_is ?e ?k = true |- _ => apply const_is_true in H; subst e
         | H : is_const ?e = true |- _ => apply is_const_true in H; destruct H as [? ->]
         | H : _ && _ = true |- _ => apply andb_true_iff in H; destruct H
         end.

Ltac break_if :=
  match goal with
  | |- context [if ?c then _ else _] => destruct c eqn:?; use_tests
  end.

Ltac finish_simpl Sl Sr Fl Fr :=
  eexists; split; [reflexivity|]; split; [|split];
  [ cbn [wf_cir] in *; repeat (apply andb_true_iff; split); auto; lia
  | intros rho sg; specialize (Sl rho sg); specialize (Sr rho sg); cbn [ceval cop_den] in *;
    try rewrite <- Sl; try rewrite <- Sr;
    try rewrite Z.div_1_r; try (rewrite Z.div_0_l by lia); lia
  | intros rho sg HF; cbn [flags_sound] in HF; destruct HF as (HF1 & HF2 & HFn);
    specialize (Fl rho sg HF1); specialize (Fr rho sg HF2);
    specialize (Sl rho sg); specialize (Sr rho sg); cbn [flags_sound ceval cop_den] in *;
    repeat split; auto; try tauto;
    try (let Hn := fresh "Hn" in intro Hn; specialize (HFn Hn);
         first [ rewrite ?Sl, ?Sr; exact HFn | lia | congruence ]) ].

Lemma simplify_cir_spec : forall e, wf_cir e = true ->
  exists e', simplify_cir e = Some e' /\ wf_cir e' = true /\
             (forall rho sg, ceval rho sg e' = ceval rho sg e) /\
             (forall rho sg, flags_sound rho sg e -> flags_sound rho sg e').
Proof.
  induction e; intros Hwf.
  - eexists; repeat split; eauto.
  - eexists; repeat split; eauto.
  - eexists; repeat split; eauto.
  - simpl in Hwf.
    apply andb_true_iff in Hwf as [Hwf Hop]. apply andb_true_iff in Hwf as [Ha Hb].
    destruct (IHe1 Ha) as (l & El & Wl & Sl & Fl). destruct (IHe2 Hb) as (r & Er & Wr & Sr & Fr).
    cbn [simplify_cir]. rewrite El, Er. clear IHe1 IHe2.
    destruct op.
    + cbn [cop_eqb orb andb]; repeat (break_if; cbn -[Z.mul Z.add Z.sub Z.div Z.modulo]);
        try discriminate; try (finish_simpl Sl Sr Fl Fr).
    + cbn [cop_eqb orb andb]; repeat (break_if; cbn -[Z.mul Z.add Z.sub Z.div Z.modulo]);
        try discriminate; try (finish_simpl Sl Sr Fl Fr).
    + cbn [cop_eqb orb andb]; repeat (break_if; cbn -[Z.mul Z.add Z.sub Z.div Z.modulo]);
        try discriminate; try (finish_simpl Sl Sr Fl Fr).
    + (* / : the divisor is a positive literal *)
      destruct e2; try discriminate. simpl in Er. inversion Er; subst r. clear Er.
      assert (Hv : 0 < v) by lia. assert (Hv0 : (v =? 0) = false) by lia.
      cbn [cop_eqb orb andb is_const const_is]; rewrite ?andb_true_r, ?Hv0;
        repeat (break_if; cbn -[Z.mul Z.add Z.sub Z.div Z.modulo]); unfold pydiv; rewrite ?Hv0;
        try discriminate;
        repeat match goal with H : (?c =? 1) = true |- _ => assert (c = 1) by lia; clear H; subst c end;
        try (finish_simpl Sl Sr Fl Fr).
    + destruct e2; try discriminate. simpl in Er. inversion Er; subst r. clear Er.
      assert (Hv : 0 < v) by lia. assert (Hv0 : (v =? 0) = false) by lia.
      cbn [cop_eqb orb andb is_const const_is]; rewrite ?andb_true_r, ?andb_false_r, ?Hv0;
        repeat (break_if; cbn -[Z.mul Z.add Z.sub Z.div Z.modulo]); unfold pymod; rewrite ?Hv0;
        try discriminate;
        try (finish_simpl Sl Sr Fl Fr).
  - simpl in Hwf. destruct (IHe Hwf) as (a & Ea & Wa & Sa & Fa).
    cbn [simplify_cir]. rewrite Ea.
    destruct a; cbn -[Z.opp]; eexists; (split; [reflexivity|]); (split; [auto|]); (split;
      [ intros rho sg; specialize (Sa rho sg); simpl in *; lia
      | intros rho sg [HF Hn]; specialize (Fa rho sg HF); specialize (Sa rho sg); simpl in *;
        repeat split; auto; try tauto; try (intro Hq; specialize (Hn Hq); lia) ]).
Qed.

(** the three facts used by the property theorems *)
Lemma simplify_cir_total : forall e, wf_cir e = true -> exists e', simplify_cir e = Some e'.
Proof. intros e H. destruct (simplify_cir_spec e H) as (e' & E & _). eauto. Qed.

Lemma simplify_cir_value : forall e rho sg, wf_cir e = true ->
  option_map (ceval rho sg) (simplify_cir e) = Some (ceval rho sg e).
Proof.
  intros e rho sg H. destruct (simplify_cir_spec e H) as (e' & E & _ & S & _).
  rewrite E. simpl. now rewrite S.
Qed.

Lemma simplify_cir_keeps : forall e e', wf_cir e = true -> simplify_cir e = Some e' ->
  wf_cir e' = true /\ (forall rho sg, ceval rho sg e' = ceval rho sg e) /\
  (forall rho sg, flags_sound rho sg e -> flags_sound rho sg e').
Proof.
  intros e e' H E. destruct (simplify_cir_spec e H) as (e2 & E2 & W & S & F).
  rewrite E in E2. inversion E2; subst. auto.
Qed.

(** the hypothesis is satisfiable and the rules fire: (0 + i * 1) / 1 - 0  simplifies to  i *)
Example simplify_cir_example :
  simplify_cir (CBin CSub (CBin CDiv (CBin CAdd (CConst 0) (CBin CMul (CRead 1 true) (CConst 1) true) true) (CConst 1) true)
                          (CConst 0) false) = Some (CRead 1 true)
  /\ wf_cir (CBin CSub (CBin CDiv (CBin CAdd (CConst 0) (CBin CMul (CRead 1 true) (CConst 1) true) true) (CConst 1) true)
                       (CConst 0) false) = true.
Proof. split; reflexivity. Qed.

(** constants are folded with FLOOR division: -7 / 2 = -4, -7 % 2 = 1 *)
Example simplify_cir_fold_floor :
  simplify_cir (CBin CDiv (CConst (-7)) (CConst 2) false) = Some (CConst (-4)) /\
  simplify_cir (CBin CMod (CConst (-7)) (CConst 2) false) = Some (CConst 1).
Proof. split; reflexivity. Qed.

(** outside well-formedness the implementation's assertions fire: x / 0 and 0 % x *)
Example simplify_cir_asserts :
  simplify_cir (CBin CDiv (CRead 1 true) (CConst 0) true) = None /\
  simplify_cir (CBin CMod (CConst 0) (CRead 1 true) true) = None.
Proof. split; reflexivity. Qed.
