(** * C02 — the emitted text of a buffer access: [access_str] = comp_cir (simplify_cir (get_idx_offset (get_strides ..) idx)).
      The compiler hard-wires [is_non_neg = True] on every product and sum it builds for an offset; those annotations
      are sound because in-range indices, sizes and strides are non-negative, which is what the lemmas below use. *)
From Coq Require Import ZArith List Bool Lia ZifyBool.
From Backend Require Import Model Gen_CIR ModelComp ProofsSimplify ProofsDiv ProofsOffset ProofsWindow.
From Core Require Sem.
Import ListNotations.
Local Open Scope Z_scope.

Definition good (rho : renv) (sg : senv) (e : cir) : Prop :=
  wf_cir e = true /\ flags_sound rho sg e /\ 0 <= ceval rho sg e.

Lemma good_mul : forall rho sg a b, good rho sg a -> good rho sg b -> good rho sg (CBin CMul a b true).
Proof.
  intros rho sg a b (W1 & F1 & P1) (W2 & F2 & P2). unfold good. simpl. rewrite W1, W2.
  repeat split; auto; try nia.
Qed.

Lemma good_add : forall rho sg a b, good rho sg a -> good rho sg b -> good rho sg (CBin CAdd a b true).
Proof.
  intros rho sg a b (W1 & F1 & P1) (W2 & F2 & P2). unfold good. simpl. rewrite W1, W2.
  repeat split; auto; try lia.
Qed.

Lemma ts_loop_good : forall rho sg l st s st' s',
  fold_left ts_step l (st, s) = (st', s') ->
  Forall (good rho sg) l -> Forall (good rho sg) st -> good rho sg s ->
  Forall (good rho sg) st'.
Proof.
  induction l; simpl; intros st s st' s' H HL HS Hs.
  - inversion H; subst. auto.
  - inversion HL; subst. eapply IHl; eauto.
    + apply Forall_app; split; auto.
    + apply good_mul; auto.
Qed.

Lemma tensor_strides_good : forall rho sg szs strides,
  tensor_strides (fun x => x) szs = Some strides ->
  Forall (good rho sg) szs -> Forall (good rho sg) strides.
Proof.
  intros rho sg szs strides H HG. rewrite tensor_strides_unfold, map_id in H.
  destruct (1 <=? Z.of_nat (length szs)) eqn:L; [|discriminate].
  assert (szs <> []) as NE by (destruct szs; simpl in *; [lia | discriminate]).
  destruct (exists_last NE) as (init & last & ->).
  rewrite rev_app_distr in H. simpl in H. rewrite removelast_last in H.
  destruct (fold_left ts_step (rev init) ([CConst 1], last)) as [st s'] eqn:F.
  inversion H; subst strides. apply Forall_rev.
  apply Forall_app in HG as [HI HL]. inversion HL; subst.
  eapply ts_loop_good; eauto.
  - apply Forall_rev; auto.
  - constructor; auto. unfold good; simpl. repeat split; auto; lia.
Qed.

Lemma gio_loop_good : forall rho sg I S acc,
  Forall (good rho sg) I -> Forall (good rho sg) S -> good rho sg acc ->
  good rho sg (fold_left gio_step (combine I S) acc).
Proof.
  induction I; destruct S; simpl; intros acc HI HS Ha; auto.
  inversion HI; inversion HS; subst. apply IHI; auto.
  apply good_add; auto. apply good_mul; auto.
Qed.

Lemma get_idx_offset_good : forall rho sg strides idx e,
  get_idx_offset strides idx = Some e ->
  Forall (good rho sg) idx -> Forall (good rho sg) strides -> good rho sg e.
Proof.
  intros rho sg strides idx e H HI HS. rewrite get_idx_offset_unfold in H.
  destruct (Z.of_nat (length strides) =? Z.of_nat (length idx)); [|discriminate].
  destruct idx as [|i ir]; [discriminate|]. destruct strides as [|s sr]; [discriminate|].
  simpl in H. inversion H; subst e. inversion HI; inversion HS; subst.
  apply gio_loop_good; auto. apply good_mul; auto.
Qed.

Lemma in_range_nonneg : forall idx shape, in_range idx shape -> Forall (fun z => 0 <= z) idx /\ Forall (fun z => 0 <= z) shape.
Proof.
  induction idx; destruct shape; simpl; intros H; try tauto; auto.
  destruct H as [H1 H2]. destruct (IHidx _ H2). split; constructor; auto; lia.
Qed.

Lemma Forall_good : forall rho sg l,
  Forall (fun e => wf_cir e = true /\ flags_sound rho sg e) l ->
  Forall (fun z => 0 <= z) (map (ceval rho sg) l) -> Forall (good rho sg) l.
Proof.
  induction l; intros H1 H2; auto. inversion H1; inversion H2; subst.
  constructor; auto. unfold good. tauto.
Qed.

(** ** access into a tensor (allocation or non-window argument): buf[offset] *)
Theorem access_tensor_correct : forall shape idx rho sg,
  Forall (fun e => wf_cir e = true /\ flags_sound rho sg e) shape ->
  Forall (fun e => wf_cir e = true /\ flags_sound rho sg e) idx ->
  in_range (map (ceval rho sg) idx) (map (ceval rho sg) shape) ->
  idx <> [] ->
  exists x, access_offset (TyTensor shape) idx = Some x /\
            xeval rho sg x = row_major (map (ceval rho sg) shape) (map (ceval rho sg) idx) /\
            0 <= xeval rho sg x < product (map (ceval rho sg) shape) /\
            Sem.flat_index (Sem.dense_dims (map (ceval rho sg) shape)) (map (ceval rho sg) idx) 0
              = Sem.Ok (xeval rho sg x).
Proof.
  intros shape idx rho sg HS HI HR NE.
  pose proof (in_range_length _ _ HR) as LEN. rewrite !map_length in LEN.
  assert (shape <> []) as NS by (destruct shape; destruct idx; simpl in *; congruence).
  destruct (tensor_strides_total shape NS) as (strides & ET & LT).
  destruct (get_idx_offset_total strides idx NE ltac:(lia)) as (e & EG).
  destruct (in_range_nonneg _ _ HR) as [PI PS].
  pose proof (Forall_good _ _ _ HS PS) as GS. pose proof (Forall_good _ _ _ HI PI) as GI.
  pose proof (tensor_strides_good rho sg _ _ ET GS) as GT.
  destruct (get_idx_offset_good rho sg _ _ _ EG GI GT) as (W & F & _).
  destruct (emit_correct e rho sg W F) as (x & EX & VX).
  destruct (offset_row_major _ _ _ _ rho sg ET EG HR) as [V B].
  exists x. unfold access_offset. simpl. rewrite ET, EG. split; [exact EX|].
  rewrite VX. repeat split; try tauto; try lia.
  rewrite flat_index_dense by auto. f_equal. lia.
Qed.

(** ** access through a window (argument or window statement): buf.data[offset], strides read from the struct *)
Lemma window_strides_good : forall rho sg x n known,
  (forall d, 0 <= sg x d) -> (forall d c, known_stride known d = Some c -> 0 <= c) ->
  Forall (good rho sg)
    (map (fun d => match known_stride known d with Some c => CConst c | None => CStride x d end) (seq 0 n)).
Proof.
  intros rho sg x n known Hs Hk. apply Forall_forall. intros e HIn.
  apply in_map_iff in HIn as (d & <- & _).
  destruct (known_stride known d) eqn:K; unfold good; simpl; repeat split; auto. eapply Hk; eauto.
Qed.

Theorem access_window_correct : forall x n known idx rho sg dims off a,
  Forall (fun e => wf_cir e = true /\ flags_sound rho sg e) idx ->
  (forall d, 0 <= sg x d) -> (forall d c, known_stride known d = Some c -> 0 <= c) ->
  (* the struct's strides are the view's strides; a stride assertion fixes the value it names *)
  map snd dims = map (fun d => match known_stride known d with Some c => c | None => sg x d end) (seq 0 n) ->
  Sem.flat_index dims (map (ceval rho sg) idx) off = Sem.Ok a ->
  idx <> [] ->
  exists e, access_offset (TyWindow x n known) idx = Some e /\ a = off + xeval rho sg e.
Proof.
  intros x n known idx rho sg dims off a HI Hs Hk HD HF NE.
  set (strides := map (fun d => match known_stride known d with Some c => CConst c | None => CStride x d end) (seq 0 n)).
  assert (VS : map (ceval rho sg) strides = map snd dims).
  { rewrite HD. unfold strides. rewrite map_map. apply map_ext. intros d. destruct (known_stride known d); reflexivity. }
  assert (LEN : length strides = length idx).
  { assert (L1 : length (map (ceval rho sg) idx) = length dims).
    { clear - HF. revert off HF. generalize (map (ceval rho sg) idx). induction dims as [|[m s] dims]; destruct l;
        cbn [Sem.flat_index]; intros; try discriminate; auto.
      destruct ((0 <=? z) && (z <? m)); [|discriminate]. simpl. f_equal. eapply IHdims; eauto. }
    apply (f_equal (@length Z)) in VS. rewrite !map_length in *. lia. }
  destruct (get_idx_offset_total strides idx NE LEN) as (e0 & EG).
  assert (PI : Forall (fun z => 0 <= z) (map (ceval rho sg) idx)).
  { clear - HF. revert off HF. generalize (map (ceval rho sg) idx). induction dims as [|[m s] dims]; destruct l;
      cbn [Sem.flat_index]; intros; try discriminate; auto.
    destruct ((0 <=? z) && (z <? m)) eqn:R; [|discriminate]. constructor; [lia|]. eapply IHdims; eauto. }
  pose proof (Forall_good _ _ _ HI PI) as GI.
  pose proof (window_strides_good rho sg x n known Hs Hk) as GT. fold strides in GT.
  destruct (get_idx_offset_good rho sg _ _ _ EG GI GT) as (W & F & _).
  destruct (emit_correct e0 rho sg W F) as (e & EX & VX).
  exists e. unfold access_offset. cbn [get_strides]. fold strides. rewrite EG. split; [exact EX|].
  rewrite VX, (get_idx_offset_dot _ _ _ rho sg EG), VS.
  eapply flat_index_dot; eauto.
Qed.

From Coq Require Import String.

(** hypotheses satisfiable: x[i, (i - 3) % 8] of x : R[n, 8] with n = 3, i = 2 *)
Example access_tensor_example :
  let rho := fun x : positive => if Pos.eqb x 1 then 3 else 2 in
  let sg := fun (_ : positive) (_ : nat) => 0 in
  let shape := [CRead 1 true; CConst 8] in
  let idx := [CRead 2 true; CBin CMod (CBin CSub (CRead 2 true) (CConst 3) false) (CConst 8) true] in
  Forall (fun e => wf_cir e = true /\ flags_sound rho sg e) shape /\
  Forall (fun e => wf_cir e = true /\ flags_sound rho sg e) idx /\
  in_range (map (ceval rho sg) idx) (map (ceval rho sg) shape) /\
  option_map show (access_offset (TyTensor shape) idx) = Some "v2 * 8 + exo_floor_mod(v2 - 3, 8)"%string /\
  option_map (xeval rho sg) (access_offset (TyTensor shape) idx) = Some 23.
Proof.
  cbv zeta. repeat split; try reflexivity;
    try (repeat constructor; cbn; intros; try discriminate; lia); cbn; lia.
Qed.

(** ... and through a window argument with strides (6, 2) and offset 1: w[i, 1] *)
Example access_window_example :
  let rho := fun _ : positive => 2 in
  let sg := fun (_ : positive) (d : nat) => match d with O => 6 | _ => 2 end in
  let idx := [CRead 2 true; CConst 1] in
  Sem.flat_index [(4, 6); (3, 2)] (map (ceval rho sg) idx) 1 = Sem.Ok 15 /\
  option_map show (access_offset (TyWindow 5 2 []) idx) = Some "v2 * v5.strides[0] + v5.strides[1]"%string /\
  option_map (xeval rho sg) (access_offset (TyWindow 5 2 []) idx) = Some 14.
Proof. cbv. repeat split; reflexivity. Qed.
