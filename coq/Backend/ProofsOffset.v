(** * C02 — index linearisation: [tensor_strides] (translated) is row-major, [get_idx_offset] (translated) is the dot
      product of indices and strides; on in-range indices the offset is the row-major position, lies inside the
      buffer, is injective, and is the cell Core.Sem's [flat_index] addresses in the dense view of an allocation. *)
From Coq Require Import ZArith List Bool Lia ZifyBool.
From Backend Require Import Model Gen_CIR ModelComp.
From Core Require Sem.
Import ListNotations.
Local Open Scope Z_scope.

(** ** arithmetic of row-major layouts *)
Fixpoint dense_strides (shape : list Z) : list Z :=
  match shape with [] => [] | n :: r => product r :: dense_strides r end.

Lemma product_fold : forall l, product l = fold_right Z.mul 1 l.
Proof. induction l; simpl; congruence. Qed.

Lemma dense_strides_core : forall shape, dense_strides shape = map snd (Sem.dense_dims shape).
Proof. induction shape; simpl; [reflexivity|]. rewrite IHshape, product_fold. reflexivity. Qed.

Lemma dense_extents_core : forall shape, map fst (Sem.dense_dims shape) = shape.
Proof. induction shape; simpl; congruence. Qed.

Lemma product_app : forall a b, product (a ++ b) = product a * product b.
Proof. induction a; intros; simpl; [destruct (product b); reflexivity|]. rewrite IHa. ring. Qed.

Lemma dot_dense : forall shape idx, length idx = length shape ->
  dot idx (dense_strides shape) = row_major shape idx.
Proof.
  induction shape; destruct idx; simpl; intros; try discriminate; auto.
  rewrite IHshape by lia. reflexivity.
Qed.

Lemma in_range_length : forall idx shape, in_range idx shape -> length idx = length shape.
Proof. induction idx; destruct shape; simpl; intros; try tauto. f_equal. apply IHidx. tauto. Qed.

Lemma in_range_product_pos : forall idx shape, in_range idx shape -> 0 < product shape.
Proof.
  induction idx; destruct shape; simpl; intros; try tauto; try lia.
  destruct H as [H1 H2]. specialize (IHidx _ H2). nia.
Qed.

Lemma row_major_bounds : forall shape idx, in_range idx shape -> 0 <= row_major shape idx < product shape.
Proof.
  induction shape; destruct idx; simpl; intros; try tauto; try lia.
  destruct H as [H1 H2]. specialize (IHshape _ H2). nia.
Qed.

Lemma row_major_injective : forall shape idx idx',
  in_range idx shape -> in_range idx' shape ->
  row_major shape idx = row_major shape idx' -> idx = idx'.
Proof.
  induction shape; destruct idx, idx'; simpl; intros H1 H2 E; try tauto.
  destruct H1 as [A1 B1], H2 as [A2 B2].
  pose proof (row_major_bounds _ _ B1). pose proof (row_major_bounds _ _ B2).
  assert (z = z0) by nia. subst z0.
  f_equal. apply IHshape; auto. lia.
Qed.

(** ** the translated loops *)
Definition ts_step (st : list cir * cir) (sz : cir) : list cir * cir :=
  let '(strides, s) := st in (strides ++ [s], CBin CMul sz s true).

Fixpoint suffix_prods (l : list Z) (s : Z) : list Z :=
  match l with [] => [] | x :: r => s :: suffix_prods r (x * s) end.
Fixpoint prod_into (l : list Z) (s : Z) : Z :=
  match l with [] => s | x :: r => prod_into r (x * s) end.

Lemma ts_loop_eval : forall rho sg l st s st' s',
  fold_left ts_step l (st, s) = (st', s') ->
  map (ceval rho sg) st' = map (ceval rho sg) st ++ suffix_prods (map (ceval rho sg) l) (ceval rho sg s).
Proof.
  induction l; simpl; intros st s st' s' H.
  - inversion H; subst. now rewrite app_nil_r.
  - apply IHl in H. rewrite H, map_app. simpl. rewrite <- app_assoc. reflexivity.
Qed.

Lemma suffix_prods_snoc : forall l a s, suffix_prods (l ++ [a]) s = suffix_prods l s ++ [prod_into l s].
Proof. induction l; simpl; intros; [reflexivity|]. now rewrite IHl. Qed.

Lemma prod_into_product : forall l s, prod_into l s = product l * s.
Proof. induction l; simpl; intros; [destruct s; reflexivity|]. rewrite IHl. ring. Qed.

Lemma product_rev : forall l, product (rev l) = product l.
Proof. induction l; simpl; [reflexivity|]. rewrite product_app, IHl. simpl. ring. Qed.

Lemma rev_suffix_prods_dense : forall init last,
  rev (suffix_prods (rev init) last) ++ [1] = dense_strides (init ++ [last]).
Proof.
  induction init; intros last.
  - simpl. reflexivity.
  - change (rev (a :: init)) with (rev init ++ [a]).
    rewrite suffix_prods_snoc, rev_app_distr.
    change (rev [prod_into (rev init) last]) with [prod_into (rev init) last].
    change ((a :: init) ++ [last]) with (a :: (init ++ [last])).
    cbn [dense_strides]. rewrite <- IHinit.
    cbn [app]. f_equal.
    rewrite prod_into_product, product_rev, product_app. simpl. ring.
Qed.

Lemma tensor_strides_unfold : forall szs,
  tensor_strides (fun x => x) szs =
  (if 1 <=? Z.of_nat (length (map (fun x : cir => x) szs)) then
     match hd_error (rev (map (fun x : cir => x) szs)) with
     | Some h => let '(strides, _) := fold_left ts_step (rev (removelast (map (fun x : cir => x) szs))) ([CConst 1], h) in
                 Some (rev strides)
     | None => None
     end
   else None).
Proof.
  intros. unfold tensor_strides.
  destruct (1 <=? Z.of_nat (length (map (fun x : cir => x) szs))); [|reflexivity].
  destruct (hd_error (rev (map (fun x : cir => x) szs))); [|reflexivity].
  assert (E : forall l st, fold_left (fun '(strides, s) sz => let strides0 := strides ++ [s] in
                                        let s0 := CBin CMul sz s true in (strides0, s0)) l st
                           = fold_left ts_step l st).
  { induction l; intros; simpl; [reflexivity|]. rewrite <- IHl. destruct st. reflexivity. }
  rewrite E. destruct (fold_left ts_step _ _). reflexivity.
Qed.

Theorem tensor_strides_row_major : forall szs strides rho sg,
  tensor_strides (fun x => x) szs = Some strides ->
  map (ceval rho sg) strides = dense_strides (map (ceval rho sg) szs).
Proof.
  intros szs strides rho sg H. rewrite tensor_strides_unfold in H. rewrite map_id in H.
  destruct (1 <=? Z.of_nat (length szs)) eqn:L; [|discriminate].
  assert (szs <> []) as NE by (destruct szs; simpl in *; [lia | discriminate]).
  destruct (exists_last NE) as (init & last & ->).
  rewrite rev_app_distr in H. simpl in H. rewrite removelast_last in H.
  destruct (fold_left ts_step (rev init) ([CConst 1], last)) as [st s'] eqn:F.
  inversion H; subst strides. clear H.
  apply ts_loop_eval with (rho := rho) (sg := sg) in F.
  rewrite map_rev, F, map_rev, map_app.
  change (map (ceval rho sg) [CConst 1]) with [1]. change (map (ceval rho sg) [last]) with [ceval rho sg last].
  change (rev ([1] ++ suffix_prods (rev (map (ceval rho sg) init)) (ceval rho sg last)))
    with (rev (suffix_prods (rev (map (ceval rho sg) init)) (ceval rho sg last)) ++ [1]).
  apply rev_suffix_prods_dense.
Qed.

Lemma tensor_strides_total : forall szs, szs <> [] -> exists strides, tensor_strides (fun x => x) szs = Some strides
                                                                 /\ length strides = length szs.
Proof.
  intros szs NE. rewrite tensor_strides_unfold, map_id.
  destruct (exists_last NE) as (init & last & ->).
  rewrite app_length. simpl.
  replace (1 <=? Z.of_nat (length init + 1)) with true by lia.
  rewrite rev_app_distr. simpl. rewrite removelast_last.
  destruct (fold_left ts_step (rev init) ([CConst 1], last)) as [st s'] eqn:F.
  eexists; split; [reflexivity|].
  assert (G : forall l st0 s0 st1 s1, fold_left ts_step l (st0, s0) = (st1, s1) -> length st1 = (length st0 + length l)%nat).
  { induction l; simpl; intros. - inversion H; lia. - apply IHl in H. rewrite app_length in H. simpl in H. lia. }
  apply G in F. rewrite rev_length in *. simpl in F. lia.
Qed.

Definition gio_step (acc : cir) (p : cir * cir) : cir :=
  let '(i, s) := p in CBin CAdd acc (CBin CMul i s true) true.

Lemma gio_loop_eval : forall rho sg I S acc,
  ceval rho sg (fold_left gio_step (combine I S) acc)
  = ceval rho sg acc + dot (map (ceval rho sg) I) (map (ceval rho sg) S).
Proof.
  induction I; destruct S; simpl; intros; try lia.
  rewrite IHI. simpl. lia.
Qed.

Lemma get_idx_offset_unfold : forall strides idx,
  get_idx_offset strides idx =
  (if Z.of_nat (length strides) =? Z.of_nat (length idx) then
     match hd_error idx, hd_error strides with
     | Some i, Some s => Some (fold_left gio_step (combine (tl idx) (tl strides)) (CBin CMul i s true))
     | _, _ => None
     end
   else None).
Proof.
  intros. unfold get_idx_offset.
  destruct (Z.of_nat (length strides) =? Z.of_nat (length idx)); [|reflexivity].
  destruct (hd_error idx); [|reflexivity]. destruct (hd_error strides); [|reflexivity].
  reflexivity.
Qed.

Theorem get_idx_offset_dot : forall strides idx e rho sg,
  get_idx_offset strides idx = Some e ->
  ceval rho sg e = dot (map (ceval rho sg) idx) (map (ceval rho sg) strides).
Proof.
  intros strides idx e rho sg H. rewrite get_idx_offset_unfold in H.
  destruct (Z.of_nat (length strides) =? Z.of_nat (length idx)); [|discriminate].
  destruct idx as [|i ir]; [discriminate|]. destruct strides as [|s sr]; [discriminate|].
  simpl in H. inversion H; subst e. rewrite gio_loop_eval. simpl. reflexivity.
Qed.

Lemma get_idx_offset_total : forall strides idx, idx <> [] -> length strides = length idx ->
  exists e, get_idx_offset strides idx = Some e.
Proof.
  intros strides idx NE L. rewrite get_idx_offset_unfold. rewrite L, Z.eqb_refl.
  destruct idx; [congruence|]. destruct strides; [discriminate|]. simpl. eauto.
Qed.

(** the non-negativity annotations that get_idx_offset / tensor_strides hard-wire ([True]) are sound when the
    indices and sizes are non-negative (they are: indices are in range, sizes positive) -- stated where used *)

(** ** the property: offset of an in-range access into a dense tensor *)
Theorem offset_row_major : forall shape idx strides e rho sg,
  tensor_strides (fun x => x) shape = Some strides ->
  get_idx_offset strides idx = Some e ->
  in_range (map (ceval rho sg) idx) (map (ceval rho sg) shape) ->
  ceval rho sg e = row_major (map (ceval rho sg) shape) (map (ceval rho sg) idx)
  /\ 0 <= ceval rho sg e < product (map (ceval rho sg) shape).
Proof.
  intros shape idx strides e rho sg HT HG HR.
  pose proof (tensor_strides_row_major _ _ rho sg HT) as E1.
  pose proof (get_idx_offset_dot _ _ _ rho sg HG) as E2.
  rewrite E2, E1, dot_dense by (apply in_range_length; auto).
  split; [reflexivity|]. apply row_major_bounds; auto.
Qed.

(** the same offset is the cell Core.Sem addresses in the dense view of an allocation / tensor argument *)
Theorem flat_index_dense : forall shape idx off,
  in_range idx shape ->
  Sem.flat_index (Sem.dense_dims shape) idx off = Sem.Ok (off + row_major shape idx).
Proof.
  induction shape; destruct idx; simpl; intros off H; try tauto.
  - f_equal. lia.
  - destruct H as [H1 H2].
    replace ((0 <=? z) && (z <? a)) with true by lia.
    rewrite IHshape by auto. rewrite <- product_fold. f_equal. lia.
Qed.

Example offset_example :
  let shape := [CRead 1 true; CConst 8] in
  let idx := [CRead 2 true; CConst 2] in
  exists strides e,
    tensor_strides (fun x => x) shape = Some strides /\ get_idx_offset strides idx = Some e /\
    simplify_cir e = Some (CBin CAdd (CBin CMul (CRead 2 true) (CConst 8) true) (CConst 2) true) /\
    in_range (map (ceval (fun x => if Pos.eqb x 1 then 3 else 1) (fun _ _ => 0)) idx)
             (map (ceval (fun x => if Pos.eqb x 1 then 3 else 1) (fun _ _ => 0)) shape).
Proof. do 2 eexists. cbv. repeat split; try reflexivity; discriminate. Qed.

(** hypotheses of [row_major_injective] are satisfiable; distinct tuples, distinct cells *)
Example row_major_injective_example :
  in_range [1; 2] [3; 4] /\ in_range [2; 1] [3; 4] /\ row_major [3; 4] [1; 2] = 6 /\ row_major [3; 4] [2; 1] = 9.
Proof. cbv. repeat split; try discriminate; reflexivity. Qed.
