(** * C02 — the emitted C for an index expression evaluates to Exo's (floor) value of the expression:
      exo_floor_div / exo_floor_mod (bodies translated from the emitted C text) are floor division / modulo for a
      positive divisor; the raw C operators are used only where they agree with them; [comp_cir] is correct. *)
From Coq Require Import ZArith List Bool Lia ZifyBool.
From Backend Require Import Model Gen_CIR ModelComp ProofsSimplify.
Import ListNotations.
Local Open Scope Z_scope.

Lemma quot_floor_nonneg : forall n q, 0 <= n -> 0 < q -> Z.quot n q = n / q.
Proof. intros. apply Z.quot_div_nonneg; lia. Qed.

Lemma rem_floor_nonneg : forall n q, 0 <= n -> 0 < q -> Z.rem n q = n mod q.
Proof. intros. apply Z.rem_mod_nonneg; lia. Qed.

Lemma exo_floor_div_correct : forall n q, 0 < q -> exo_floor_div n q = n / q.
Proof.
  intros n q Hq. unfold exo_floor_div.
  destruct (0 <=? n) eqn:E.
  - rewrite Z.sub_0_r. apply quot_floor_nonneg; lia.
  - assert (Hn : n < 0) by lia.
    set (m := n - (q - 1)).
    pose proof (Z.quot_rem' m q) as H1.
    pose proof (Z.rem_bound_pos_neg m q ltac:(lia) ltac:(lia)) as H2.
    pose proof (Z.div_mod n q ltac:(lia)) as H3.
    pose proof (Z.mod_pos_bound n q Hq) as H4.
    subst m. nia.
Qed.

Lemma exo_floor_mod_correct : forall n q, 0 < q -> exo_floor_mod n q = n mod q.
Proof.
  intros n q Hq. unfold exo_floor_mod.
  pose proof (Z.quot_rem' n q) as H1.
  pose proof (Z.div_mod n q ltac:(lia)) as H3.
  pose proof (Z.mod_pos_bound n q Hq) as H4.
  destruct (Z.rem n q <? 0) eqn:E.
  - assert (Hn : n < 0).
    { destruct (Z_lt_le_dec n 0); auto. pose proof (Z.rem_bound_pos n q ltac:(lia) ltac:(lia)). lia. }
    pose proof (Z.rem_bound_pos_neg n q ltac:(lia) ltac:(lia)) as H2.
    apply Z.mod_unique_pos with (q := Z.quot n q - 1); lia.
  - destruct (Z_lt_le_dec n 0) as [Hn|Hn].
    + pose proof (Z.rem_bound_pos_neg n q ltac:(lia) ltac:(lia)) as H2.
      assert (Z.rem n q = 0) by lia.
      apply Z.mod_unique_pos with (q := Z.quot n q); lia.
    + apply rem_floor_nonneg; lia.
Qed.

(** the helpers are WRONG without the positivity of the divisor, which is why the guard is explicit *)
Example exo_floor_div_needs_positive_divisor : exo_floor_div (-7) (-2) <> (-7) / (-2).
Proof. vm_compute. discriminate. Qed.

(** the raw C operators differ from Exo's on a negative dividend: the reason the helpers exist *)
Example raw_c_ops_truncate : Z.quot (-7) 2 = -3 /\ (-7) / 2 = -4 /\ Z.rem (-3) 4 = -3 /\ (-3) mod 4 = 1.
Proof. repeat split. Qed.

Lemma raw_div_ok_sound : forall rho sg a, flags_sound rho sg a -> raw_div_ok a = true -> 0 <= ceval rho sg a.
Proof.
  intros rho sg a HF H. destruct a; simpl in *; try discriminate.
  - auto.
  - lia.
  - destruct HF as (_ & _ & Hn). auto.
Qed.

Lemma raw_mod_ok_sound : forall rho sg a, flags_sound rho sg a -> raw_mod_ok a = true -> 0 <= ceval rho sg a.
Proof.
  intros rho sg a HF H. destruct a; simpl in *; try discriminate.
  - auto.
  - lia.
  - destruct HF as (_ & _ & Hn). auto.
Qed.

Lemma xeval_wrap : forall rho sg b e, xeval rho sg (wrap b e) = xeval rho sg e.
Proof. destruct b; reflexivity. Qed.

Theorem comp_cir_correct : forall e prec rho sg,
  wf_cir e = true -> flags_sound rho sg e ->
  xeval rho sg (comp_cir e prec) = ceval rho sg e.
Proof.
  induction e; intros prec rho sg Hwf HF; try reflexivity.
  - simpl in Hwf. apply andb_true_iff in Hwf as [Hwf Hop]. apply andb_true_iff in Hwf as [Ha Hb].
    destruct HF as (HF1 & HF2 & _).
    destruct op; cbn [comp_cir op_prec]; rewrite ?xeval_wrap; cbn [xeval c_binop ceval cop_den].
    + rewrite IHe1, IHe2; auto.
    + rewrite IHe1, IHe2; auto.
    + rewrite IHe1, IHe2; auto.
    + destruct e2; try discriminate.
      assert (Hc : 0 < v) by lia.
      destruct (raw_div_ok e1) eqn:R; cbn [xeval c_binop]; rewrite IHe1, IHe2; auto; cbn [ceval].
      * apply quot_floor_nonneg; auto. eapply raw_div_ok_sound; eauto.
      * apply exo_floor_div_correct; auto.
    + destruct e2; try discriminate.
      assert (Hc : 0 < v) by lia.
      destruct (raw_mod_ok e1) eqn:R; rewrite ?xeval_wrap; cbn [xeval c_binop]; rewrite IHe1, IHe2; auto; cbn [ceval].
      * apply rem_floor_nonneg; auto. eapply raw_mod_ok_sound; eauto.
      * apply exo_floor_mod_correct; auto.
  - simpl in Hwf. destruct HF as (HF1 & _). cbn [comp_cir]. cbv zeta. cbn [xeval ceval].
    destruct (starts_minus (comp_cir e usub_prec)); cbn [xeval]; rewrite IHe; auto.
Qed.

(** [emit] = comp_cir (simplify_cir e) at precedence 0, as every index expression is emitted *)
Theorem emit_correct : forall e rho sg,
  wf_cir e = true -> flags_sound rho sg e ->
  exists x, emit e = Some x /\ xeval rho sg x = ceval rho sg e.
Proof.
  intros e rho sg Hwf HF. unfold emit.
  destruct (simplify_cir_spec e Hwf) as (e' & E & W & S & F). rewrite E.
  eexists; split; [reflexivity|]. rewrite comp_cir_correct; auto.
Qed.

(** index quotient / remainder by a positive literal, for EVERY dividend value *)
Theorem comp_div_correct : forall a c nn prec rho sg,
  wf_cir a = true -> flags_sound rho sg a -> 0 < c ->
  xeval rho sg (comp_cir (CBin CDiv a (CConst c) nn) prec) = ceval rho sg a / c.
Proof.
  intros a c nn prec rho sg Hwf HF Hc.
  cbn [comp_cir op_prec].
  destruct (raw_div_ok a) eqn:R; cbn [xeval c_binop]; rewrite comp_cir_correct; auto.
  - apply quot_floor_nonneg; auto. eapply raw_div_ok_sound; eauto.
  - apply exo_floor_div_correct; auto.
Qed.

Theorem comp_mod_correct : forall a c nn prec rho sg,
  wf_cir a = true -> flags_sound rho sg a -> 0 < c ->
  xeval rho sg (comp_cir (CBin CMod a (CConst c) nn) prec) = ceval rho sg a mod c.
Proof.
  intros a c nn prec rho sg Hwf HF Hc.
  cbn [comp_cir op_prec].
  destruct (raw_mod_ok a) eqn:R; rewrite ?xeval_wrap; cbn [xeval c_binop]; rewrite comp_cir_correct; auto.
  - apply rem_floor_nonneg; auto. eapply raw_mod_ok_sound; eauto.
  - apply exo_floor_mod_correct; auto.
Qed.

(** hypotheses satisfiable, both branches taken: (i - 3) % 4 with i = 0 goes through the helper and yields 1;
    i % 4 with i flagged non-negative uses the raw operator *)
Example comp_mod_example :
  let e1 := CBin CMod (CBin CSub (CRead 1 true) (CConst 3) false) (CConst 4) true in
  let e2 := CBin CMod (CRead 1 true) (CConst 4) true in
  comp_cir e1 0 = XCall HFloorMod (XBin CSub (XVar 1) (XLit 3)) (XLit 4) /\
  xeval (fun _ => 0) (fun _ _ => 0) (comp_cir e1 0) = 1 /\
  comp_cir e2 0 = XBin CMod (XVar 1) (XLit 4) /\
  wf_cir e1 = true /\ flags_sound (fun _ => 0) (fun _ _ => 0) e1.
Proof. cbv. repeat split; try reflexivity; try discriminate; intros; discriminate. Qed.

Lemma floor_helpers_correct : forall n q, 0 < q ->
  exo_floor_div n q = n / q /\ exo_floor_mod n q = n mod q.
Proof. intros n q H. split; [apply exo_floor_div_correct | apply exo_floor_mod_correct]; exact H. Qed.
