(** * C02 — model of the C identifier environment of the backend: [Compiler.new_varname], [push], [pop]
      (LoopIR_compiler.py).  [names] and [env] are [ChainMap]s: a stack of scopes, lookups search the scopes from the
      innermost outwards, writes go to the innermost scope.  [names] maps a source name to the C identifier handed out
      last for it and every handed-out C identifier to itself; [env] maps a Sym to its C identifier. *)
From Coq Require Import List String Ascii Bool Arith NArith DecimalString.
Import ListNotations.
Local Open Scope string_scope.

Definition nscope := list (string * string).
Definition escope := list (positive * string).
Record nstate := mkN { st_names : list nscope; st_env : list escope }.

Fixpoint assoc_s (k : string) (l : nscope) : option string :=
  match l with [] => None | (k', v) :: r => if String.eqb k k' then Some v else assoc_s k r end.

(** ChainMap lookup *)
Fixpoint chain_lookup (k : string) (chain : list nscope) : option string :=
  match chain with
  | [] => None
  | sc :: r => match assoc_s k sc with Some v => Some v | None => chain_lookup k r end
  end.

Definition chain_mem (k : string) (chain : list nscope) : bool :=
  match chain_lookup k chain with Some _ => true | None => false end.

(** ChainMap assignment: always into the innermost scope *)
Definition chain_write {K V : Type} (k : K) (v : V) (chain : list (list (K * V))) : list (list (K * V)) :=
  match chain with
  | sc :: r => ((k, v) :: sc) :: r
  | [] => [[(k, v)]]
  end.

(** The regular expression of new_varname (anything, underscore, digits, end): it matches iff s has an underscore and
    everything after its LAST underscore is a (possibly empty) digit string; then the successor is the part before that
    underscore, an underscore, and the decimal successor of the digit string (the int of an empty string raises
    ValueError: None); otherwise the successor is s followed by _1. *)
Definition is_digit (c : ascii) : bool := let n := nat_of_ascii c in (48 <=? n)%nat && (n <=? 57)%nat.

Fixpoint span_digits (l : list ascii) : list ascii * list ascii :=
  match l with
  | c :: r => if is_digit c then let (d, rest) := span_digits r in (c :: d, rest) else ([], l)
  | [] => ([], [])
  end.

Definition parse_digits (l : list ascii) : N :=
  fold_left (fun acc c => (10 * acc + N.of_nat (nat_of_ascii c - 48))%N) l 0%N.

Definition show_N (n : N) : string := NilZero.string_of_uint (N.to_uint n).

Definition bump (s : string) : option string :=
  let (digs_rev, rest) := span_digits (rev (list_ascii_of_string s)) in
  match rest with
  | "_"%char :: pre_rev =>
      match digs_rev with
      | [] => None
      | _ => Some (string_of_list_ascii (rev pre_rev) ++ "_" ++ show_N (parse_digits (rev digs_rev) + 1))
      end
  | _ => Some (s ++ "_1")
  end.

(** [while s in self.names: s = successor(s)].  The successors of a name are pairwise distinct, so the loop ends after at
    most (number of keys + 1) rounds; [fuel] is that bound. *)
Fixpoint fresh (fuel : nat) (s : string) (chain : list nscope) : option string :=
  if chain_mem s chain then
    match fuel with
    | O => None
    | S f => match bump s with Some s' => fresh f s' chain | None => None end
    end
  else Some s.

Definition n_keys (chain : list nscope) : nat := List.length (List.concat chain).

Definition new_varname (st : nstate) (x : positive) (nm : string) : option (string * nstate) :=
  match chain_lookup nm (st_names st) with
  | None =>
      Some (nm, mkN (chain_write nm nm (st_names st)) (chain_write x nm (st_env st)))
  | Some s0 =>
      match fresh (S (n_keys (st_names st))) s0 (st_names st) with
      | Some s =>
          Some (s, mkN (chain_write s s (chain_write nm s (st_names st))) (chain_write x s (st_env st)))
      | None => None
      end
  end.

(** push() / push(only="env"): a new innermost scope of both maps; pop(): [.parents] (of a one-scope chain: one empty scope) *)
Definition push (st : nstate) : nstate := mkN ([] :: st_names st) ([] :: st_env st).
Definition parents {A} (chain : list (list A)) : list (list A) :=
  match chain with _ :: (_ :: _) as r => r | _ => [[]] end.
Definition pop (st : nstate) : nstate := mkN (parents (st_names st)) (parents (st_env st)).

Definition init : nstate := mkN [[]] [[]].

Inductive nop := NDecl (x : positive) (nm : string) | NPush | NPop.

(** the identifiers handed out by a sequence of operations ([None] = the implementation raised; the run stops there) *)
Fixpoint run_names (ops : list nop) (st : nstate) : list (option string) :=
  match ops with
  | [] => []
  | NDecl x nm :: r =>
      match new_varname st x nm with
      | Some (c, st') => Some c :: run_names r st'
      | None => [None]
      end
  | NPush :: r => run_names r (push st)
  | NPop :: r => run_names r (pop st)
  end.

Fixpoint run_state (ops : list nop) (st : nstate) : option nstate :=
  match ops with
  | [] => Some st
  | NDecl x nm :: r => match new_varname st x nm with Some (_, st') => run_state r st' | None => None end
  | NPush :: r => run_state r (push st)
  | NPop :: r => run_state r (pop st)
  end.

(** what the emitted C sees: the declarations in scope, innermost scope first, newest first *)
Definition live (st : nstate) : list (positive * string) := List.concat (st_env st).

(** the C identifier of a Sym ([self.env[sym]]) and the Sym a C identifier resolves to in the emitted code *)
Fixpoint env_lookup (x : positive) (l : list (positive * string)) : option string :=
  match l with [] => None | (y, c) :: r => if Pos.eqb x y then Some c else env_lookup x r end.
Fixpoint c_resolve (c : string) (l : list (positive * string)) : option positive :=
  match l with [] => None | (y, d) :: r => if String.eqb c d then Some y else c_resolve c r end.

(** comparison used by the correspondence shards *)
Fixpoint ostr_list_eqb (a b : list (option string)) : bool :=
  match a, b with
  | [], [] => true
  | Some x :: ar, Some y :: br => String.eqb x y && ostr_list_eqb ar br
  | None :: ar, None :: br => ostr_list_eqb ar br
  | _, _ => false
  end.
Definition chk_names (ops : list nop) (expected : list (option string)) : bool :=
  ostr_list_eqb (run_names ops init) expected.
