#!/venv/bin/python
"""Regenerate Gen_CIR.v from the CURRENT source of exo/backend/LoopIR_compiler.py (EXO_REPO, default /repo).
Exits non-zero, naming the construct and line, when the source leaves the translator's grammar; the stale
Gen_CIR.v is then removed so that nothing can be proved about an outdated translation.  An unchanged translation
keeps the file (and its time stamp) so that `make` does not rebuild the proofs."""
import os
import subprocess
import sys

here = os.path.dirname(os.path.abspath(__file__))
tr = os.path.join(here, "..", "..", "translator", "py2coq_cir.py")
out = os.path.join(here, "Gen_CIR.v")
tmp = out + ".new"
rc = subprocess.call([sys.executable, tr, "--repo", os.environ.get("EXO_REPO", "/repo"), "-o", tmp])
if rc != 0:
    for f in (out, tmp):
        if os.path.exists(f):
            os.remove(f)
    sys.exit(rc)
if os.path.exists(out) and open(out).read() == open(tmp).read():
    os.remove(tmp)
else:
    os.replace(tmp, out)
sys.exit(0)
