#!/venv/bin/python
"""Regenerate Gen_CIR.v from the CURRENT source of exo/backend/LoopIR_compiler.py (EXO_REPO, default /repo).
Exits non-zero, naming the construct and line, when the source leaves the translator's grammar; Gen_CIR.v is then
moved away (Gen_stale_CIR.v) so that nothing can be proved about an outdated translation.  An unchanged translation
keeps the file and its time stamp (also across a failed run in between), so that `make` does not rebuild the proofs."""
import os
import subprocess
import sys

here = os.path.dirname(os.path.abspath(__file__))
tr = os.path.join(here, "..", "..", "translator", "py2coq_cir.py")
out = os.path.join(here, "Gen_CIR.v")
stale = os.path.join(here, "Gen_stale_CIR.v")
tmp = out + ".new"
rc = subprocess.call([sys.executable, tr, "--repo", os.environ.get("EXO_REPO", "/repo"), "-o", tmp])
if rc != 0:
    if os.path.exists(tmp):
        os.remove(tmp)
    if os.path.exists(out):
        os.replace(out, stale)
    sys.exit(rc)
new = open(tmp).read()
if not os.path.exists(out) and os.path.exists(stale) and open(stale).read() == new:
    os.replace(stale, out)  # same translation as before the failure: keep its time stamp
if os.path.exists(out) and open(out).read() == new:
    os.remove(tmp)
else:
    os.replace(tmp, out)
sys.exit(0)
