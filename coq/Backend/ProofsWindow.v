(** * C02 — window structs: the (data offset, strides) that [window_struct_fields] / [Memory.window] /
      [generate_offset] put into an exo window struct address exactly the cells of the semantic view that
      Core.Sem's [apply_window] builds — for point / interval mixes and for windows of windows. *)
From Coq Require Import ZArith List Bool Lia ZifyBool.
From Backend Require Import Model Gen_CIR ModelComp ProofsSimplify ProofsDiv ProofsOffset.
From Core Require Sem.
Import ListNotations.
Local Open Scope Z_scope.

(** ** Core.Sem views: a cell address is offset + index . strides *)
Lemma flat_index_dot : forall dims idx off a,
  Sem.flat_index dims idx off = Sem.Ok a -> a = off + dot idx (map snd dims).
Proof.
  induction dims as [|[n s] dims]; destruct idx; cbn [Sem.flat_index]; intros off a H; try discriminate.
  - inversion H. cbn. lia.
  - destruct ((0 <=? z) && (z <? n)); [|discriminate].
    apply IHdims in H. cbn. lia.
Qed.

(** the index into the base view denoted by an index into the window: points are filled in, intervals shifted *)
Fixpoint merge_idx (acc : list Sem.wacc_v) (idx' : list Z) : list Z :=
  match acc with
  | [] => []
  | Sem.PointV i :: ar => i :: merge_idx ar idx'
  | Sem.IntervalV lo _ :: ar =>
      match idx' with
      | j :: jr => (lo + j) :: merge_idx ar jr
      | [] => []
      end
  end.

Lemma apply_window_shift : forall dims acc off o d,
  Sem.apply_window dims acc off = Sem.Ok (o, d) ->
  forall k, Sem.apply_window dims acc (off + k) = Sem.Ok (o + k, d).
Proof.
  induction dims as [|[n s] dims]; destruct acc as [|w acc]; cbn [Sem.apply_window]; intros off o d H k; try discriminate.
  - inversion H; subst. reflexivity.
  - destruct w as [i|lo hi].
    + destruct ((0 <=? i) && (i <? n)); [|discriminate].
      replace (off + k + i * s) with (off + i * s + k) by ring. apply IHdims; auto.
    + destruct ((0 <=? lo) && (lo <=? hi) && (hi <=? n)); [|discriminate].
      destruct (Sem.apply_window dims acc (off + lo * s)) as [[o1 d1]|] eqn:A; cbn [Sem.bind] in H; [|discriminate].
      inversion H; subst. replace (off + k + lo * s) with (off + lo * s + k) by ring.
      rewrite (IHdims _ _ _ _ A k). reflexivity.
Qed.

Theorem apply_window_cells : forall dims acc off off' dims',
  Sem.apply_window dims acc off = Sem.Ok (off', dims') ->
  forall idx' a, Sem.flat_index dims' idx' off' = Sem.Ok a ->
                 Sem.flat_index dims (merge_idx acc idx') off = Sem.Ok a.
Proof.
  induction dims as [|[n s] dims]; destruct acc as [|w acc]; cbn [Sem.apply_window];
    intros off off' dims' H; try discriminate.
  - inversion H; subst. intros idx' a Hf. destruct idx'; cbn in *; [auto | discriminate].
  - destruct w as [i|lo hi].
    + destruct ((0 <=? i) && (i <? n)) eqn:R; [|discriminate].
      intros idx' a Hf. cbn [merge_idx Sem.flat_index]. rewrite R. eapply IHdims; eauto.
    + destruct ((0 <=? lo) && (lo <=? hi) && (hi <=? n)) eqn:R; [|discriminate].
      destruct (Sem.apply_window dims acc (off + lo * s)) as [[o d]|] eqn:A; cbn [Sem.bind] in H; [|discriminate].
      inversion H; subst off' dims'. clear H.
      intros idx' a Hf. destruct idx' as [|j jr]; cbn [Sem.flat_index] in Hf; [discriminate|].
      destruct ((0 <=? j) && (j <? hi - lo)) eqn:Rj; [|discriminate].
      cbn [merge_idx Sem.flat_index]. replace ((0 <=? lo + j) && (lo + j <? n)) with true by lia.
      replace (off + (lo + j) * s) with (off + lo * s + j * s) by ring.
      eapply IHdims; [apply (apply_window_shift _ _ _ _ _ A (j * s))|].
      exact Hf.
Qed.

(** offset and kept strides of [apply_window], in closed form *)
Fixpoint acc_lo (acc : list Sem.wacc_v) : list Z :=
  match acc with
  | [] => []
  | Sem.PointV i :: r => i :: acc_lo r
  | Sem.IntervalV lo _ :: r => lo :: acc_lo r
  end.

Fixpoint keep_iv {A} (l : list A) (acc : list Sem.wacc_v) : list A :=
  match l, acc with
  | s :: lr, Sem.IntervalV _ _ :: ar => s :: keep_iv lr ar
  | s :: lr, Sem.PointV _ :: ar => keep_iv lr ar
  | _, _ => []
  end.

Fixpoint acc_widths (acc : list Sem.wacc_v) : list Z :=
  match acc with
  | [] => []
  | Sem.PointV _ :: r => acc_widths r
  | Sem.IntervalV lo hi :: r => (hi - lo) :: acc_widths r
  end.

Theorem apply_window_closed_form : forall dims acc off off' dims',
  Sem.apply_window dims acc off = Sem.Ok (off', dims') ->
  off' = off + dot (acc_lo acc) (map snd dims)
  /\ map snd dims' = keep_iv (map snd dims) acc
  /\ map fst dims' = acc_widths acc.
Proof.
  induction dims as [|[n s] dims]; destruct acc as [|w acc]; cbn [Sem.apply_window]; intros off off' dims' H; try discriminate.
  - inversion H; subst. cbn. repeat split; lia.
  - destruct w as [i|lo hi].
    + destruct ((0 <=? i) && (i <? n)); [|discriminate].
      apply IHdims in H. destruct H as (H1 & H2 & H3). cbn. repeat split; auto. lia.
    + destruct ((0 <=? lo) && (lo <=? hi) && (hi <=? n)); [|discriminate].
      destruct (Sem.apply_window dims acc (off + lo * s)) as [[o d]|] eqn:A; cbn [Sem.bind] in H; [|discriminate].
      inversion H; subst. apply IHdims in A. destruct A as (H1 & H2 & H3).
      cbn. repeat split; try congruence. lia.
Qed.

(** window of a window composes: applying two access lists in sequence addresses cells of the root view *)
Corollary window_of_window_cells : forall dims acc1 off off1 dims1 acc2 off2 dims2,
  Sem.apply_window dims acc1 off = Sem.Ok (off1, dims1) ->
  Sem.apply_window dims1 acc2 off1 = Sem.Ok (off2, dims2) ->
  forall idx a, Sem.flat_index dims2 idx off2 = Sem.Ok a ->
                Sem.flat_index dims (merge_idx acc1 (merge_idx acc2 idx)) off = Sem.Ok a.
Proof.
  intros. eapply apply_window_cells; eauto. eapply apply_window_cells; eauto.
Qed.

(** ** the emitted side: generate_offset is the dot product of its (index, stride) texts *)
Lemma xeval_index_expr : forall rho sg i s,
  match index_expr i s with
  | Some t => xeval rho sg t = xeval rho sg i * xeval rho sg s
  | None => xeval rho sg i * xeval rho sg s = 0
  end.
Proof.
  intros. unfold index_expr.
  destruct (is_lit 0 s) eqn:A.
  - destruct s; simpl in A; try discriminate. simpl. lia.
  - destruct (is_lit 0 i) eqn:B.
    + destruct i; simpl in B; try discriminate. simpl. lia.
    + simpl. destruct (is_lit 1 s) eqn:C.
      * destruct s; simpl in C; try discriminate. simpl. lia.
      * destruct (is_lit 1 i) eqn:D.
        -- destruct i; simpl in D; try discriminate. simpl. lia.
        -- destruct (one_char s); reflexivity.
Qed.

Lemma xeval_join_plus : forall rho sg ts,
  xeval rho sg (join_plus ts) = fold_right Z.add 0 (map (xeval rho sg) ts).
Proof.
  intros. destruct ts as [|t r]; [reflexivity|]. simpl.
  revert t. induction r; intros; simpl; [lia|]. rewrite IHr. simpl. lia.
Qed.

Theorem xeval_generate_offset : forall rho sg idxs ss,
  xeval rho sg (generate_offset idxs ss) = dot (map (xeval rho sg) idxs) (map (xeval rho sg) ss).
Proof.
  intros. unfold generate_offset. rewrite xeval_join_plus.
  revert ss. induction idxs as [|i ir]; destruct ss as [|s sr]; simpl; auto.
  pose proof (xeval_index_expr rho sg i s) as H.
  destruct (index_expr i s); simpl; rewrite IHir; lia.
Qed.

Lemma emit_all_correct : forall rho sg l,
  Forall (fun e => wf_cir e = true /\ flags_sound rho sg e) l ->
  exists xs, emit_all l = Some xs /\ map (xeval rho sg) xs = map (ceval rho sg) l.
Proof.
  induction l; intros H.
  - exists []. auto.
  - inversion H; subst. destruct H2 as [W F].
    destruct (emit_correct a rho sg W F) as (x & E & V).
    destruct (IHl H3) as (xs & Es & Vs).
    exists (x :: xs). simpl. rewrite E, Es. split; [reflexivity|]. simpl. congruence.
Qed.

(** values of a window access list under an environment *)
Definition wacc_val (rho : renv) (sg : senv) (w : waccess) : Sem.wacc_v :=
  match w with
  | WPoint p => Sem.PointV (ceval rho sg p)
  | WInterval lo hi => Sem.IntervalV (ceval rho sg lo) (ceval rho sg hi)
  end.

Lemma acc_lo_vals : forall rho sg acc, acc_lo (map (wacc_val rho sg) acc) = map (ceval rho sg) (map w_lo acc).
Proof. induction acc as [|[p|lo hi] acc]; simpl; congruence. Qed.

Lemma keep_iv_vals : forall {A} (l : list A) rho sg acc,
  keep_iv l (map (wacc_val rho sg) acc) = keep_intervals l acc.
Proof.
  induction l; destruct acc as [|[p|lo hi] acc]; simpl; auto. f_equal. auto.
Qed.

Lemma keep_intervals_map : forall {A B} (f : A -> B) l acc,
  map f (keep_intervals l acc) = keep_intervals (map f l) acc.
Proof.
  induction l; destruct acc as [|[p|lo hi] acc]; simpl; auto. f_equal. auto.
Qed.

(** ** the property *)
Theorem window_struct_fields_correct : forall ty acc all_strides rho sg,
  get_strides ty = Some all_strides ->
  Forall (fun e => wf_cir e = true /\ flags_sound rho sg e) (map w_lo acc) ->
  Forall (fun e => wf_cir e = true /\ flags_sound rho sg e) all_strides ->
  acc <> [] -> length all_strides = length acc ->
  exists data kept,
    window_struct_fields ty acc = Some (data, kept) /\
    forall extents off off' dims',
      length extents = length all_strides ->
      Sem.apply_window (combine extents (map (ceval rho sg) all_strides)) (map (wacc_val rho sg) acc) off
        = Sem.Ok (off', dims') ->
      (* the struct's data pointer and strides are the semantic view's offset and strides *)
      off' = off + xeval rho sg data /\
      map snd dims' = map (xeval rho sg) kept /\
      (* hence every element of the C window is the cell of the base view that the semantic window denotes *)
      forall idx' a, Sem.flat_index dims' idx' off' = Sem.Ok a ->
        a = (off + xeval rho sg data) + dot idx' (map (xeval rho sg) kept) /\
        Sem.flat_index (combine extents (map (ceval rho sg) all_strides))
                       (merge_idx (map (wacc_val rho sg) acc) idx') off = Sem.Ok a.
Proof.
  intros ty acc all_strides rho sg HG HL HS NE LEN.
  destruct (emit_all_correct rho sg _ HL) as (idxs & Ei & Vi).
  destruct (emit_all_correct rho sg _ HS) as (ss & Es & Vs).
  assert (Lss : length ss = length all_strides).
  { apply (f_equal (@length Z)) in Vs. now rewrite !map_length in Vs. }
  exists (generate_offset idxs ss), (keep_intervals ss acc). split.
  - unfold window_struct_fields. rewrite Ei, HG, Es.
    replace (0 <? Z.of_nat (length ss)) with true by (destruct acc; [congruence | simpl in *; lia]).
    replace (Nat.eqb (length ss) (length acc)) with true by (symmetry; apply Nat.eqb_eq; lia).
    reflexivity.
  - intros extents off off' dims' LE HA.
    pose proof (apply_window_closed_form _ _ _ _ _ HA) as (H1 & H2 & H3).
    assert (SND : map snd (combine extents (map (ceval rho sg) all_strides)) = map (ceval rho sg) all_strides).
    { clear - LE. rewrite <- (map_length (ceval rho sg)) in LE. revert LE.
      generalize (map (ceval rho sg) all_strides). clear. induction extents; destruct l; simpl; intros; try discriminate; auto.
      f_equal. apply IHextents. lia. }
    rewrite SND in H1, H2.
    assert (D : off' = off + xeval rho sg (generate_offset idxs ss)).
    { rewrite H1, xeval_generate_offset, Vi, Vs, acc_lo_vals. reflexivity. }
    assert (K : map snd dims' = map (xeval rho sg) (keep_intervals ss acc)).
    { rewrite H2, keep_iv_vals, keep_intervals_map, Vs. reflexivity. }
    repeat split; auto.
    + rewrite <- D, <- K. eapply flat_index_dot; eauto.
    + eapply apply_window_cells; eauto.
Qed.

(** hypotheses satisfiable; a point/interval mix over a strided window argument: x[i, 2:6] of x : [R][n, 8] *)
Example window_example :
  let ty := TyWindow 5 2 [] in
  let acc := [WPoint (CRead 1 true); WInterval (CConst 2) (CConst 6)] in
  window_struct_fields ty acc
  = Some (XBin CAdd (XBin CMul (XParen (XVar 1)) (XParen (XStride 5 0)))
                    (XBin CMul (XParen (XLit 2)) (XParen (XStride 5 1))),
          [XStride 5 1]).
Proof. reflexivity. Qed.

(** window of a window over a strided 2-d view: x[1:4, 2] then w[1:3]; element 1 of the inner window is base cell (3, 2) *)
Example window_of_window_example :
  let dims := [(4, 10); (5, 2)] in
  Sem.apply_window dims [Sem.IntervalV 1 4; Sem.PointV 2] 7 = Sem.Ok (21, [(3, 10)]) /\
  Sem.apply_window [(3, 10)] [Sem.IntervalV 1 3] 21 = Sem.Ok (31, [(2, 10)]) /\
  Sem.flat_index [(2, 10)] [1] 31 = Sem.Ok 41 /\
  merge_idx [Sem.IntervalV 1 4; Sem.PointV 2] (merge_idx [Sem.IntervalV 1 3] [1]) = [3; 2] /\
  Sem.flat_index dims [3; 2] 7 = Sem.Ok 41.
Proof. cbv. repeat split; reflexivity. Qed.
