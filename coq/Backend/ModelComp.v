(** * C02 — hand-written model of the parts of LoopIR_compiler.py that build C text:
      [lift_to_cir], [Compiler.comp_cir] (choice between the raw C operator and the floor helpers, parenthesisation),
      [Compiler.get_strides], [memory.generate_offset] / [Memory.window], [Compiler.window_struct_fields],
      [Compiler.access_str]; and the semantics of the emitted C expressions.
    (The pure functions [simplify_cir], [operations], [tensor_strides], [get_idx_offset] and the C bodies of
    exo_floor_div / exo_floor_mod are NOT written by hand: they are translated from the source into [Gen_CIR.v].) *)
From Coq Require Import ZArith List Bool String DecimalString.
From Backend Require Import Model Gen_CIR.
Import ListNotations.
Local Open Scope Z_scope.

(** ** semantics of emitted C expressions (unbounded integers; parentheses are transparent) *)
Fixpoint xeval (rho : renv) (sg : senv) (e : cexp) : Z :=
  match e with
  | XVar x => rho x
  | XStride x d => sg x d
  | XLit v => v
  | XBin op a b => c_binop op (xeval rho sg a) (xeval rho sg b)
  | XNeg a => - xeval rho sg a
  | XParen a => xeval rho sg a
  | XCall HFloorDiv a b => exo_floor_div (xeval rho sg a) (xeval rho sg b)
  | XCall HFloorMod a b => exo_floor_mod (xeval rho sg a) (xeval rho sg b)
  end.

(** ** lift_to_cir.  The range-analysis oracle [check_expr_bound(0, leq, e)] is part of the input: every node of the
    index expression carries the oracle's answer for it. *)
Inductive iexp :=
| IRead (x : positive) (nn : bool)
| IConst (v : Z)
| IBin (op : cop) (a b : iexp) (nn : bool)
| IUSub (a : iexp) (nn : bool)
| IOther.                                  (* StrideExpr, ReadConfig, ...: "bad case!" *)

Fixpoint lift_to_cir (e : iexp) : option cir :=
  match e with
  | IRead x nn => Some (CRead x nn)
  | IConst v => Some (CConst v)
  | IBin op a b nn =>
      match lift_to_cir a, lift_to_cir b with
      | Some l, Some r => Some (CBin op l r nn)
      | _, _ => None
      end
  | IUSub a nn => match lift_to_cir a with Some l => Some (CUSub l nn) | None => None end
  | IOther => None
  end.

(** ** comp_cir *)
Definition op_prec (op : cop) : Z := match op with CAdd | CSub => 50 | CMul | CDiv | CMod => 60 end.
Definition usub_prec : Z := 70.

(** [(isinstance(e.lhs, (CIR.Read, CIR.BinOp)) and e.lhs.is_non_neg) or (isinstance(e.lhs, CIR.Const) and e.lhs.val > 0)] *)
Definition raw_div_ok (a : cir) : bool :=
  match a with CRead _ nn | CBin _ _ _ nn => nn | CConst v => 0 <? v | _ => false end.
(** the same with [e.lhs.val >= 0] *)
Definition raw_mod_ok (a : cir) : bool :=
  match a with CRead _ nn | CBin _ _ _ nn => nn | CConst v => 0 <=? v | _ => false end.

Definition wrap (b : bool) (e : cexp) : cexp := if b then XParen e else e.

(** [arg.startswith("-")] on the text of a compiled operand: "--x" would be C's pre-decrement, so such an operand of a
    unary minus is parenthesised *)
Fixpoint starts_minus (x : cexp) : bool :=
  match x with
  | XLit v => v <? 0
  | XNeg _ => true
  | XBin _ a _ => starts_minus a
  | _ => false
  end.

Fixpoint comp_cir (e : cir) (prec : Z) : cexp :=
  match e with
  | CRead x _ => XVar x
  | CConst v => XLit v
  | CBin op a b _ =>
      let lp := op_prec op in
      let l := comp_cir a lp in
      let r := comp_cir b (lp + 1) in
      match op with
      | CDiv => if raw_div_ok a then XParen (XBin CDiv l r) else XCall HFloorDiv l r
      | CMod => if raw_mod_ok a then wrap (lp <? prec) (XBin CMod l r)
                else XCall HFloorMod (comp_cir a 0) (comp_cir b 0)
      | _ => wrap (lp <? prec) (XBin op l r)
      end
  | CStride x d => XStride x d
  | CUSub a _ => let x := comp_cir a usub_prec in XNeg (if starts_minus x then XParen x else x)
  end.

(** ** the text of an emitted expression; variable [x] is printed as "v<x>" (the harness names its symbols so) *)
Local Open Scope string_scope.
Definition zshow (z : Z) : string := NilZero.string_of_int (Z.to_int z).
Definition pshow (x : positive) : string := "v" ++ zshow (Zpos x).
Definition opshow (op : cop) : string :=
  match op with CAdd => "+" | CSub => "-" | CMul => "*" | CDiv => "/" | CMod => "%" end.

Fixpoint show (e : cexp) : string :=
  match e with
  | XVar x => pshow x
  | XStride x d => pshow x ++ ".strides[" ++ zshow (Z.of_nat d) ++ "]"
  | XLit v => zshow v
  | XBin op a b => show a ++ " " ++ opshow op ++ " " ++ show b
  | XNeg a => "-" ++ show a
  | XParen a => "(" ++ show a ++ ")"
  | XCall HFloorDiv a b => "exo_floor_div(" ++ show a ++ ", " ++ show b ++ ")"
  | XCall HFloorMod a b => "exo_floor_mod(" ++ show a ++ ", " ++ show b ++ ")"
  end.
Local Close Scope string_scope.

(** ** get_strides: a window's strides are its struct fields unless a stride assertion fixes them; a tensor is row-major *)
Inductive bufty :=
| TyTensor (shape : list cir)
| TyWindow (x : positive) (ndims : nat) (known : list (nat * Z)).

Fixpoint known_stride (known : list (nat * Z)) (d : nat) : option Z :=
  match known with
  | [] => None
  | (d', c) :: r => if Nat.eqb d d' then Some c else known_stride r d
  end.

Definition get_strides (ty : bufty) : option (list cir) :=
  match ty with
  | TyTensor shape => tensor_strides (fun x => x) shape
  | TyWindow x n known =>
      Some (map (fun d => match known_stride known d with Some c => CConst c | None => CStride x d end) (seq 0 n))
  end.

(** simplify-then-compile, as every index expression is emitted: [comp_cir(simplify_cir(e), env, prec=0)] *)
Definition emit (e : cir) : option cexp :=
  match simplify_cir e with Some e' => Some (comp_cir e' 0) | None => None end.

Fixpoint emit_all (l : list cir) : option (list cexp) :=
  match l with
  | [] => Some []
  | e :: r => match emit e, emit_all r with Some x, Some xs => Some (x :: xs) | _, _ => None end
  end.

(** access_str: the offset expression inside [buf[...]] / [buf.data[...]] *)
Definition access_offset (ty : bufty) (idx : list cir) : option cexp :=
  match get_strides ty with
  | Some strides => match get_idx_offset strides idx with Some e => emit e | None => None end
  | None => None
  end.

(** ** memory.generate_offset on the texts of indices and strides *)
Definition is_lit (k : Z) (e : cexp) : bool := match e with XLit v => v =? k | _ => false end.
Definition one_char (e : cexp) : bool := Nat.eqb (String.length (show e)) 1.

Definition index_expr (i s : cexp) : option cexp :=
  if is_lit 0 s || is_lit 0 i then None
  else if is_lit 1 s then Some i
  else if is_lit 1 i then Some s
  else Some (XBin CMul (XParen i) (if one_char s then s else XParen s)).

Fixpoint offset_terms (idx strides : list cexp) : list cexp :=
  match idx, strides with
  | i :: ir, s :: sr =>
      match index_expr i s with Some t => t :: offset_terms ir sr | None => offset_terms ir sr end
  | _, _ => []
  end.

Definition join_plus (ts : list cexp) : cexp :=
  match ts with
  | [] => XLit 0
  | t :: r => fold_left (fun acc u => XBin CAdd acc u) r t
  end.

Definition generate_offset (idx strides : list cexp) : cexp := join_plus (offset_terms idx strides).

(** ** window_struct_fields: data pointer = &base[offset] (or &base.data[offset]), strides = those of the interval dims *)
Inductive waccess := WPoint (pt : cir) | WInterval (lo hi : cir).
Definition w_lo (w : waccess) : cir := match w with WPoint p => p | WInterval lo _ => lo end.
Definition w_is_interval (w : waccess) : bool := match w with WInterval _ _ => true | _ => false end.

Fixpoint keep_intervals {A} (l : list A) (acc : list waccess) : list A :=
  match l, acc with
  | s :: lr, w :: ar => if w_is_interval w then s :: keep_intervals lr ar else keep_intervals lr ar
  | _, _ => []
  end.

Definition window_struct_fields (ty : bufty) (acc : list waccess) : option (cexp * list cexp) :=
  match emit_all (map w_lo acc), get_strides ty with
  | Some idxs, Some all_strides =>
      match emit_all all_strides with
      | Some ss =>
          if (0 <? Z.of_nat (List.length ss)) && (Nat.eqb (List.length ss) (List.length acc))
          then Some (generate_offset idxs ss, keep_intervals ss acc)
          else None
      | None => None
      end
  | _, _ => None
  end.

(** ** specification-side definitions (used by the theorems; no counterpart in the code) *)
Fixpoint product (shape : list Z) : Z := match shape with [] => 1 | n :: r => n * product r end.

Fixpoint row_major (shape idx : list Z) : Z :=
  match shape, idx with
  | n :: sr, i :: ir => i * product sr + row_major sr ir
  | _, _ => 0
  end.

Fixpoint dot (a b : list Z) : Z :=
  match a, b with
  | x :: ar, y :: br => x * y + dot ar br
  | _, _ => 0
  end.

Fixpoint in_range (idx shape : list Z) : Prop :=
  match idx, shape with
  | [], [] => True
  | i :: ir, n :: sr => 0 <= i < n /\ in_range ir sr
  | _, _ => False
  end.
