(** * C02 — name disambiguation: after any sequence of declarations and scope pushes / pops the C identifiers of the
      declarations in scope are pairwise distinct, so an identifier in the emitted C resolves to the Sym it was
      generated for (no capture, no collision). *)
From Coq Require Import List String Ascii Bool Arith NArith Lia.
From Backend Require Import ModelNames.
Import ListNotations.

Definition keys (chain : list nscope) : list string := map fst (List.concat chain).
Definition cnames (st : nstate) : list string := map snd (live st).

(** every identifier in use in a scope is recorded as a key of [names] in the same scope *)
Inductive covered : list nscope -> list escope -> Prop :=
| cov_nil : covered [] []
| cov_cons : forall ns es nr er,
    (forall c, In c (map snd es) -> In c (map fst ns)) -> covered nr er -> covered (ns :: nr) (es :: er).

Definition inv (st : nstate) : Prop := NoDup (cnames st) /\ covered (st_names st) (st_env st).

Lemma assoc_none_not_in : forall k l, assoc_s k l = None -> ~ In k (map fst l).
Proof.
  induction l as [|[k' v] l]; simpl; intros H; [tauto|].
  destruct (String.eqb k k') eqn:E; [discriminate|].
  apply String.eqb_neq in E. intros [A|A]; [congruence | apply IHl; auto].
Qed.

Lemma chain_lookup_none : forall k chain, chain_lookup k chain = None -> ~ In k (keys chain).
Proof.
  unfold keys. induction chain as [|sc r]; simpl; intros H; [tauto|].
  destruct (assoc_s k sc) eqn:A; [discriminate|].
  rewrite map_app, in_app_iff. intros [B|B]; [eapply assoc_none_not_in; eauto | apply IHr; auto].
Qed.

Lemma fresh_not_key : forall fuel s chain s', fresh fuel s chain = Some s' -> ~ In s' (keys chain).
Proof.
  induction fuel; simpl; intros s chain s' H; unfold chain_mem in H.
  - destruct (chain_lookup s chain) eqn:L; [discriminate|]. inversion H; subst. now apply chain_lookup_none.
  - destruct (chain_lookup s chain) eqn:L.
    + destruct (bump s); [eauto | discriminate].
    + inversion H; subst. now apply chain_lookup_none.
Qed.

Lemma covered_cnames_keys : forall ns es, covered ns es ->
  forall c, In c (map snd (List.concat es)) -> In c (keys ns).
Proof.
  unfold keys. induction 1; simpl; intros c Hc; [tauto|].
  rewrite map_app, in_app_iff in *. destruct Hc; [left; auto | right; auto].
Qed.

Lemma covered_more_keys : forall ns es kv, covered ns es -> covered (chain_write (fst kv) (snd kv) ns) es \/ ns = [].
Proof.
  intros ns es [k v] H. destruct H; [right; reflexivity|]. left. simpl. constructor; auto.
  intros c Hc. simpl. right. auto.
Qed.

Lemma inv_decl : forall st x c names',
  inv st -> ~ In c (keys (st_names st)) ->
  (* names' = the old chain with some keys added to its innermost scope, c among them *)
  (exists extra, names' = match st_names st with sc :: r => (extra ++ sc) :: r | [] => [extra] end
                 /\ In c (map fst extra)) ->
  st_names st <> [] ->
  inv (mkN names' (chain_write x c (st_env st))).
Proof.
  intros st x c names' [ND COV] NK (extra & -> & IN) NE.
  destruct st as [ns es]. simpl in *. unfold inv, cnames, live in *. simpl in *.
  destruct COV as [|n0 e0 nr er H0 COV]; [congruence|]. simpl. split.
  - constructor; auto. intros Hc. apply NK.
    eapply covered_cnames_keys with (es := e0 :: er); [constructor; eauto | exact Hc].
  - constructor; auto. intros d Hd. simpl in Hd. rewrite map_app, in_app_iff.
    destruct Hd as [<-|Hd]; [left; auto | right; auto].
Qed.

Lemma covered_nonempty : forall st, inv st -> st_names st <> [] -> st_env st <> [].
Proof. intros [ns es] [_ C] H. simpl in *. destruct C; congruence. Qed.

Lemma new_varname_inv : forall st x nm c st',
  inv st -> st_names st <> [] -> new_varname st x nm = Some (c, st') ->
  inv st' /\ st_names st' <> [] /\ ~ In c (cnames st) /\ live st' = (x, c) :: live st.
Proof.
  intros st x nm c st' I NE H. unfold new_varname in H.
  assert (LIVE : forall d, live (mkN (st_names st) (chain_write x d (st_env st))) = (x, d) :: live st).
  { intros d. unfold live. simpl. pose proof (covered_nonempty st I NE) as NE2.
    destruct (st_env st); [congruence | reflexivity]. }
  assert (NOTIN : forall d, ~ In d (keys (st_names st)) -> ~ In d (cnames st)).
  { intros d Hd Hc. apply Hd. destruct I as [_ COV]. eapply covered_cnames_keys; eauto. }
  destruct (chain_lookup nm (st_names st)) eqn:L.
  - destruct (fresh (S (n_keys (st_names st))) s (st_names st)) eqn:F; [|discriminate].
    inversion H; subst c st'. clear H. pose proof (fresh_not_key _ _ _ _ F) as NK.
    split; [|split; [|split]].
    + apply inv_decl; auto. exists [(s0, s0); (nm, s0)].
      destruct (st_names st); [congruence|]. simpl. split; [reflexivity | left; reflexivity].
    + simpl. destruct (st_names st); simpl; congruence.
    + auto.
    + unfold live in *. simpl. apply (LIVE s0).
  - inversion H; subst c st'. clear H. pose proof (chain_lookup_none _ _ L) as NK.
    split; [|split; [|split]].
    + apply inv_decl; auto. exists [(nm, nm)].
      destruct (st_names st); [congruence|]. simpl. split; [reflexivity | left; reflexivity].
    + simpl. destruct (st_names st); simpl; congruence.
    + auto.
    + unfold live in *. simpl. apply (LIVE nm).
Qed.

Lemma push_inv : forall st, inv st -> inv (push st).
Proof.
  intros [ns es] [ND C]. unfold inv, push, cnames, live in *. simpl in *. split; auto.
  constructor; [simpl; tauto | auto].
Qed.

Lemma NoDup_app_r : forall {A} (a b : list A), NoDup (a ++ b) -> NoDup b.
Proof. induction a; simpl; intros; auto. inversion H; auto. Qed.

Lemma pop_inv : forall st, inv st -> inv (pop st).
Proof.
  intros [ns es] [ND C]. unfold inv, pop, cnames, live in *. simpl in *.
  destruct C as [|n0 e0 nr er H0 C]; simpl.
  - split; [constructor | repeat constructor; simpl; tauto].
  - destruct C as [|n1 e1 nr' er' H1 C]; simpl.
    + split; [constructor | repeat constructor; simpl; tauto].
    + split; [|constructor; auto]. simpl in ND. rewrite map_app in ND. eapply NoDup_app_r; eauto.
Qed.

Lemma pop_nonempty : forall st, st_names (pop st) <> [].
Proof. intros [ns es]. unfold pop. simpl. destruct ns as [|? [|? ?]]; simpl; congruence. Qed.

Lemma init_inv : inv init /\ st_names init <> [].
Proof. unfold inv, init, cnames, live. simpl. repeat split; try constructor; simpl; try tauto; try congruence. constructor. Qed.

Theorem run_state_inv : forall ops st st',
  inv st -> st_names st <> [] -> run_state ops st = Some st' -> inv st' /\ st_names st' <> [].
Proof.
  induction ops as [|[x nm| |] ops]; simpl; intros st st' I NE H.
  - inversion H; subst; auto.
  - destruct (new_varname st x nm) as [[c st1]|] eqn:N; [|discriminate].
    destruct (new_varname_inv _ _ _ _ _ I NE N) as (I1 & NE1 & _). eauto.
  - eapply IHops; [apply push_inv; eauto | simpl; congruence | eauto].
  - eapply IHops; [apply pop_inv; eauto | apply pop_nonempty | eauto].
Qed.

(** the identifiers of the declarations in scope are pairwise distinct *)
Theorem names_injective : forall ops st,
  run_state ops init = Some st -> NoDup (map snd (live st)).
Proof.
  intros ops st H. destruct init_inv as [I NE].
  destruct (run_state_inv _ _ _ I NE H) as [[ND _] _]. exact ND.
Qed.

Lemma c_resolve_unique : forall l x c,
  NoDup (map snd l) -> In (x, c) l -> c_resolve c l = Some x.
Proof.
  induction l as [|[y d] l]; simpl; intros x c ND H; [tauto|].
  inversion ND; subst. destruct H as [E|H].
  - inversion E; subst. now rewrite String.eqb_refl.
  - destruct (String.eqb c d) eqn:E.
    + apply String.eqb_eq in E. subst d. exfalso. apply H2. apply in_map_iff. exists (x, c). auto.
    + auto.
Qed.

Lemma env_lookup_in : forall l x c, env_lookup x l = Some c -> In (x, c) l.
Proof.
  induction l as [|[y d] l]; simpl; intros x c H; [discriminate|].
  destruct (Pos.eqb x y) eqn:E.
  - apply Pos.eqb_eq in E. inversion H; subst. auto.
  - right. auto.
Qed.

(** hence the identifier emitted for a Sym resolves, in the emitted C, to the declaration of that Sym *)
Theorem names_resolve : forall ops st x c,
  run_state ops init = Some st -> env_lookup x (live st) = Some c -> c_resolve c (live st) = Some x.
Proof.
  intros ops st x c H L. apply c_resolve_unique; [eapply names_injective; eauto | apply env_lookup_in; auto].
Qed.

(** a new declaration never takes an identifier that is in scope (no capture of an outer variable) *)
Theorem names_no_capture : forall ops st x nm c st',
  run_state ops init = Some st -> new_varname st x nm = Some (c, st') -> ~ In c (map snd (live st)).
Proof.
  intros ops st x nm c st' H N. destruct init_inv as [I NE].
  destruct (run_state_inv _ _ _ I NE H) as [I1 NE1].
  destruct (new_varname_inv _ _ _ _ _ I1 NE1 N) as (_ & _ & NC & _). exact NC.
Qed.

(** the situation of the property text: loops i / i_1 / i; the innermost i must not become i_1 *)
Example names_example :
  run_names [NDecl 1 "i"; NPush; NDecl 2 "i_1"; NPush; NDecl 3 "i"; NDecl 4 "i"; NPop; NDecl 5 "i"] init
  = [Some "i"; Some "i_1"; Some "i_2"; Some "i_3"; Some "i_2"]%string.
Proof. reflexivity. Qed.

Example bump_examples :
  (bump "x" = Some "x_1" /\ bump "x_1" = Some "x_2" /\ bump "x_1_1" = Some "x_1_2" /\ bump "x_09" = Some "x_10"
   /\ bump "x_1a" = Some "x_1a_1" /\ bump "x_" = None)%string.
Proof. repeat split; reflexivity. Qed.
