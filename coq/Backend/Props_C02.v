(** * Property C02 — "Generated C computes what the procedure means": the index-arithmetic core of the C backend.

    What these theorems are about: [simplify_cir], [operations], [tensor_strides], [get_idx_offset] and the bodies
    of exo_floor_div / exo_floor_mod are TRANSLATED from the current source (Gen_CIR.v, regenerated on every run);
    [comp_cir], [get_strides], [generate_offset], [window_struct_fields] are the hand-written model of ModelComp.v,
    compared with the real functions on every run (harness/props/C02.py).  The semantic side ([apply_window],
    [flat_index], [dense_dims]) is Core.Sem, the reference semantics shared by all properties.
    Integers are unbounded [Z]: the widths of C's int types (overflow, the narrowing of int_fast32_t arguments to the
    [int] parameters of the helpers) are outside.  The statement-level part of the property (loops, calls, scalars by
    reference, configuration struct, casts, memories, name disambiguation) is not a theorem here: it is checked by
    executing the real generated C against the extracted Core.Sem interpreter (the search of harness/props/C02.py). *)
From Coq Require Import ZArith List Bool.
From Backend Require Import Model Gen_CIR ModelComp ProofsSimplify ProofsDiv ProofsOffset ProofsWindow ProofsAccess.
From Backend Require Import ModelNames ProofsNames.
From Core Require Sem.
Import ListNotations.
Local Open Scope Z_scope.

(** simplify_cir never fails on a well-formed expression (divisors are positive literals) and preserves its value *)
Theorem C02_simplify_cir : forall e rho sg, wf_cir e = true ->
  option_map (ceval rho sg) (simplify_cir e) = Some (ceval rho sg e).
Proof. exact simplify_cir_value. Qed.
Print Assumptions C02_simplify_cir.

(** ... and its well-formedness and the soundness of its non-negativity annotations *)
Theorem C02_simplify_cir_keeps : forall e e', wf_cir e = true -> simplify_cir e = Some e' ->
  wf_cir e' = true /\ (forall rho sg, ceval rho sg e' = ceval rho sg e) /\
  (forall rho sg, flags_sound rho sg e -> flags_sound rho sg e').
Proof. exact simplify_cir_keeps. Qed.
Print Assumptions C02_simplify_cir_keeps.

(** row-major linearisation: in-range indices give the row-major position, inside the buffer *)
Theorem C02_offset : forall shape idx strides e rho sg,
  tensor_strides (fun x => x) shape = Some strides ->
  get_idx_offset strides idx = Some e ->
  in_range (map (ceval rho sg) idx) (map (ceval rho sg) shape) ->
  ceval rho sg e = row_major (map (ceval rho sg) shape) (map (ceval rho sg) idx)
  /\ 0 <= ceval rho sg e < product (map (ceval rho sg) shape).
Proof. exact offset_row_major. Qed.
Print Assumptions C02_offset.

(** distinct in-range index tuples address distinct cells *)
Theorem C02_offset_injective : forall shape idx idx',
  in_range idx shape -> in_range idx' shape ->
  row_major shape idx = row_major shape idx' -> idx = idx'.
Proof. exact row_major_injective. Qed.
Print Assumptions C02_offset_injective.

(** the helpers emitted into the C file are floor division / floor modulo for every dividend *)
Theorem C02_floor_helpers : forall n q, 0 < q ->
  exo_floor_div n q = n / q /\ exo_floor_mod n q = n mod q.
Proof. exact floor_helpers_correct. Qed.
Print Assumptions C02_floor_helpers.

(** the emitted C for an index quotient / remainder (raw operator when the dividend is flagged non-negative,
    helper otherwise) is floor division / floor modulo, for every value of the dividend and positive literal divisor *)
Theorem C02_div : forall a c nn prec rho sg,
  wf_cir a = true -> flags_sound rho sg a -> 0 < c ->
  xeval rho sg (comp_cir (CBin CDiv a (CConst c) nn) prec) = ceval rho sg a / c.
Proof. exact comp_div_correct. Qed.
Print Assumptions C02_div.

Theorem C02_mod : forall a c nn prec rho sg,
  wf_cir a = true -> flags_sound rho sg a -> 0 < c ->
  xeval rho sg (comp_cir (CBin CMod a (CConst c) nn) prec) = ceval rho sg a mod c.
Proof. exact comp_mod_correct. Qed.
Print Assumptions C02_mod.

(** every emitted index expression evaluates, in C, to the Exo value of the expression *)
Theorem C02_comp_cir : forall e prec rho sg,
  wf_cir e = true -> flags_sound rho sg e ->
  xeval rho sg (comp_cir e prec) = ceval rho sg e.
Proof. exact comp_cir_correct. Qed.
Print Assumptions C02_comp_cir.

(** window structs: data pointer and strides are the offset and strides of Core.Sem's view, so every element of the
    C window is the cell of the base view that the semantic window denotes (points and intervals mixed) *)
Theorem C02_window : forall ty acc all_strides rho sg,
  get_strides ty = Some all_strides ->
  Forall (fun e => wf_cir e = true /\ flags_sound rho sg e) (map w_lo acc) ->
  Forall (fun e => wf_cir e = true /\ flags_sound rho sg e) all_strides ->
  acc <> [] -> length all_strides = length acc ->
  exists data kept,
    window_struct_fields ty acc = Some (data, kept) /\
    forall extents off off' dims',
      length extents = length all_strides ->
      Sem.apply_window (combine extents (map (ceval rho sg) all_strides)) (map (wacc_val rho sg) acc) off
        = Sem.Ok (off', dims') ->
      off' = off + xeval rho sg data /\
      map snd dims' = map (xeval rho sg) kept /\
      forall idx' a, Sem.flat_index dims' idx' off' = Sem.Ok a ->
        a = (off + xeval rho sg data) + dot idx' (map (xeval rho sg) kept) /\
        Sem.flat_index (combine extents (map (ceval rho sg) all_strides))
                       (merge_idx (map (wacc_val rho sg) acc) idx') off = Sem.Ok a.
Proof. exact window_struct_fields_correct. Qed.
Print Assumptions C02_window.

(** window of a window: the composed view addresses cells of the root view *)
Theorem C02_window_of_window : forall dims acc1 off off1 dims1 acc2 off2 dims2,
  Sem.apply_window dims acc1 off = Sem.Ok (off1, dims1) ->
  Sem.apply_window dims1 acc2 off1 = Sem.Ok (off2, dims2) ->
  forall idx a, Sem.flat_index dims2 idx off2 = Sem.Ok a ->
                Sem.flat_index dims (merge_idx acc1 (merge_idx acc2 idx)) off = Sem.Ok a.
Proof. exact window_of_window_cells. Qed.
Print Assumptions C02_window_of_window.

(** the emitted text of an access into a tensor: buf[offset] is the cell Core.Sem addresses *)
Theorem C02_access_tensor : forall shape idx rho sg,
  Forall (fun e => wf_cir e = true /\ flags_sound rho sg e) shape ->
  Forall (fun e => wf_cir e = true /\ flags_sound rho sg e) idx ->
  in_range (map (ceval rho sg) idx) (map (ceval rho sg) shape) ->
  idx <> [] ->
  exists x, access_offset (TyTensor shape) idx = Some x /\
            xeval rho sg x = row_major (map (ceval rho sg) shape) (map (ceval rho sg) idx) /\
            0 <= xeval rho sg x < product (map (ceval rho sg) shape) /\
            Sem.flat_index (Sem.dense_dims (map (ceval rho sg) shape)) (map (ceval rho sg) idx) 0
              = Sem.Ok (xeval rho sg x).
Proof. exact access_tensor_correct. Qed.
Print Assumptions C02_access_tensor.

(** ... and through a window with arbitrary (non-negative) strides: buf.data[offset] *)
Theorem C02_access_window : forall x n known idx rho sg dims off a,
  Forall (fun e => wf_cir e = true /\ flags_sound rho sg e) idx ->
  (forall d, 0 <= sg x d) -> (forall d c, known_stride known d = Some c -> 0 <= c) ->
  map snd dims = map (fun d => match known_stride known d with Some c => c | None => sg x d end) (seq 0 n) ->
  Sem.flat_index dims (map (ceval rho sg) idx) off = Sem.Ok a ->
  idx <> [] ->
  exists e, access_offset (TyWindow x n known) idx = Some e /\ a = off + xeval rho sg e.
Proof. exact access_window_correct. Qed.
Print Assumptions C02_access_window.

(** name disambiguation ([Compiler.new_varname] with the scoped [names] / [env] maps, model ModelNames.v, compared with
    the real methods on every run): after ANY sequence of declarations and scope pushes / pops that the implementation
    completes, the C identifiers of the declarations in scope are pairwise distinct, *)
Theorem C02_names_injective : forall ops st,
  run_state ops init = Some st -> NoDup (map snd (live st)).
Proof. exact names_injective. Qed.
Print Assumptions C02_names_injective.

(** a new declaration never receives an identifier that is in scope (an inner variable cannot capture an outer one), *)
Theorem C02_names_no_capture : forall ops st x nm c st',
  run_state ops init = Some st -> new_varname st x nm = Some (c, st') -> ~ In c (map snd (live st)).
Proof. exact names_no_capture. Qed.
Print Assumptions C02_names_no_capture.

(** and therefore the identifier emitted for a Sym resolves, by C's innermost-declaration rule, to that Sym *)
Theorem C02_names_resolve : forall ops st x c,
  run_state ops init = Some st -> env_lookup x (live st) = Some c -> c_resolve c (live st) = Some x.
Proof. exact names_resolve. Qed.
Print Assumptions C02_names_resolve.
