(** * C02 — executable comparison functions used by the correspondence shards (generated [Cases_*.v] files evaluate
      them with [vm_compute]; the expected values in those files are the outputs of the REAL implementation). *)
From Coq Require Import ZArith List Bool String.
From Backend Require Import Model Gen_CIR ModelComp.
Import ListNotations.
Local Open Scope Z_scope.

Fixpoint cir_eqb (a b : cir) : bool :=
  match a, b with
  | CRead x n, CRead y m => Pos.eqb x y && Bool.eqb n m
  | CStride x d, CStride y e => Pos.eqb x y && Nat.eqb d e
  | CConst u, CConst v => u =? v
  | CBin o a1 a2 n, CBin p b1 b2 m => cop_eqb o p && cir_eqb a1 b1 && cir_eqb a2 b2 && Bool.eqb n m
  | CUSub a1 n, CUSub b1 m => cir_eqb a1 b1 && Bool.eqb n m
  | _, _ => false
  end.

Definition opt_eqb {A} (eqb : A -> A -> bool) (a b : option A) : bool :=
  match a, b with Some x, Some y => eqb x y | None, None => true | _, _ => false end.

Fixpoint list_eqb {A} (eqb : A -> A -> bool) (a b : list A) : bool :=
  match a, b with
  | [], [] => true
  | x :: ar, y :: br => eqb x y && list_eqb eqb ar br
  | _, _ => false
  end.

(** simplify_cir: same tree or both fail *)
Definition chk_simplify (e : cir) (expected : option cir) : bool := opt_eqb cir_eqb (simplify_cir e) expected.

(** lift_to_cir *)
Definition chk_lift (e : iexp) (expected : option cir) : bool := opt_eqb cir_eqb (lift_to_cir e) expected.

(** comp_cir: same text *)
Definition chk_comp (e : cir) (prec : Z) (text : string) : bool := String.eqb (show (comp_cir e prec)) text.

(** tensor_strides / get_idx_offset: same trees *)
Definition chk_strides (shape : list cir) (expected : option (list cir)) : bool :=
  opt_eqb (list_eqb cir_eqb) (tensor_strides (fun x => x) shape) expected.
Definition chk_offset (strides idx : list cir) (expected : option cir) : bool :=
  opt_eqb cir_eqb (get_idx_offset strides idx) expected.

(** access_str: text of the offset *)
Definition chk_access (ty : bufty) (idx : list cir) (text : option string) : bool :=
  opt_eqb String.eqb (option_map show (access_offset ty idx)) text.

(** window_struct_fields: text of the data offset and of the strides list *)
Fixpoint join (sep : string) (l : list string) : string :=
  match l with
  | [] => EmptyString
  | [x] => x
  | x :: r => (x ++ sep ++ join sep r)%string
  end.

Definition chk_window (ty : bufty) (acc : list waccess) (expected : option (string * string)) : bool :=
  match window_struct_fields ty acc, expected with
  | Some (d, ks), Some (dt, kt) => String.eqb (show d) dt && String.eqb (join ", " (map show ks)) kt
  | None, None => true
  | _, _ => false
  end.

(** value of the emitted expression (as compiled by gcc from the real text) *)
Definition env_of (l : list (positive * Z)) : renv :=
  fun x => match find (fun p => Pos.eqb (fst p) x) l with Some p => snd p | None => 0 end.
Definition senv_of (l : list (positive * nat * Z)) : senv :=
  fun x d => match find (fun p => Pos.eqb (fst (fst p)) x && Nat.eqb (snd (fst p)) d) l with Some p => snd p | None => 0 end.

Definition chk_value (e : cir) (rho : list (positive * Z)) (sg : list (positive * nat * Z)) (v : Z) : bool :=
  match emit e with
  | Some x => xeval (env_of rho) (senv_of sg) x =? v
  | None => false
  end.

Fixpoint failures_from (k : nat) (l : list bool) : list nat :=
  match l with
  | [] => []
  | true :: r => failures_from (S k) r
  | false :: r => k :: failures_from (S k) r
  end.
Definition failures (l : list bool) : list nat := failures_from 0 l.

(** get_idx_offset over get_strides (trees), as access_str builds it before simplification *)
Definition chk_offset_ty (ty : bufty) (idx : list cir) (expected : option cir) : bool :=
  opt_eqb cir_eqb (match get_strides ty with Some s => get_idx_offset s idx | None => None end) expected.
