#!/venv/bin/python
"""Regenerate Gen_X86Instrs.v (+ _build/instrs.json) from the CURRENT exo/platforms/x86.py (EXO_REPO, default /repo).
Exits non-zero, naming the instruction and construct, when the source leaves the supported grammar."""
import os, sys
here = os.path.dirname(os.path.abspath(__file__))
sys.path.insert(0, os.path.join(os.path.dirname(os.path.dirname(here)), "translator"))
os.makedirs(os.path.join(here, "_build"), exist_ok=True)
import py2coq_x86
from pathlib import Path
sys.exit(py2coq_x86.main(["gen.py", here]))
