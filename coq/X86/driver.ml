(* C14 driver: one job per input line
     (run NAME DOM (ARG ...))      DOM = Q | Z      NAME = an @instr name or a probe name
     ARG = (name reg v ...) | (name mem (v ...) (v ...) (v ...)) | (name size n)     v = integer | p/q
   output: one line  frag=<state|none> body=<state|none>   with the same state syntax, values canonical. *)
type ostr = string
open X86model

let explode s = List.init (String.length s) (String.get s)

let coq_of_char c =
  let n = Char.code c in
  let b i = (n lsr i) land 1 = 1 in
  Ascii (b 0, b 1, b 2, b 3, b 4, b 5, b 6, b 7)

let rec coq_of_string_l = function [] -> EmptyString | c :: r -> String (coq_of_char c, coq_of_string_l r)
let coq_of_string s = coq_of_string_l (explode s)

let char_of_coq (Ascii (a, b, c, d, e, f, g, h)) =
  let v x i = if x then 1 lsl i else 0 in
  Char.chr (v a 0 + v b 1 + v c 2 + v d 3 + v e 4 + v f 5 + v g 6 + v h 7)

let rec string_of_coq = function EmptyString -> "" | String (c, r) -> String.make 1 (char_of_coq c) ^ string_of_coq r

(* decimal <-> Coq Z, arbitrary size *)
let rec z_of_small n = if n = 0 then Z0 else if n < 0 then Z.opp (z_of_small (-n)) else
  let rec pos n = if n = 1 then XH else if n land 1 = 0 then XO (pos (n / 2)) else XI (pos (n / 2)) in Zpos (pos n)

let z_of_decimal s =
  let neg = String.length s > 0 && s.[0] = '-' in
  let digits = if neg then String.sub s 1 (String.length s - 1) else s in
  let acc = ref Z0 in
  String.iter (fun c ->
    if c < '0' || c > '9' then failwith ("bad integer " ^ s);
    acc := Z.add (Z.mul !acc z_ten) (z_of_small (Char.code c - 48))) digits;
  if neg then Z.opp !acc else !acc

let rec small_of_z = function
  | Z0 -> 0
  | Zpos p -> let rec f = function XH -> 1 | XO q -> 2 * f q | XI q -> 2 * f q + 1 in f p
  | Zneg p -> - (small_of_z (Zpos p))

let rec decimal_of_z z =
  match z with
  | Z0 -> "0"
  | Zneg p -> "-" ^ decimal_of_z (Zpos p)
  | Zpos _ ->
    let buf = Buffer.create 20 in
    let rec go z acc = match z with
      | Z0 -> acc
      | _ -> let (q, r) = Z.div_eucl z z_ten in go q (string_of_int (small_of_z r) :: acc) in
    List.iter (Buffer.add_string buf) (go z []); Buffer.contents buf

(* s-expressions *)
type sx = A of ostr | L of sx list

let parse_sexp (s : ostr) : sx =
  let n = String.length s in
  let pos = ref 0 in
  let rec skip () = if !pos < n && (s.[!pos] = ' ' || s.[!pos] = '\t' || s.[!pos] = '\n' || s.[!pos] = '\r') then (incr pos; skip ()) in
  let rec rd () =
    skip ();
    if !pos >= n then failwith "eof";
    if s.[!pos] = '(' then begin
      incr pos;
      let items = ref [] in
      let rec loop () = skip ();
        if !pos >= n then failwith "unterminated";
        if s.[!pos] = ')' then incr pos else (items := rd () :: !items; loop ()) in
      loop (); L (List.rev !items)
    end else begin
      let st = !pos in
      while !pos < n && not (List.mem s.[!pos] [' '; '('; ')'; '\t'; '\n'; '\r']) do incr pos done;
      A (String.sub s st (!pos - st))
    end in
  rd ()

(* value domains *)
let q_of_atom a =
  match String.index_opt a '/' with
  | None -> qred { qnum = z_of_decimal a; qden = XH }
  | Some i ->
    let p = z_of_decimal (String.sub a 0 i) and d = z_of_decimal (String.sub a (i + 1) (String.length a - i - 1)) in
    (match d with Zpos dp -> qred { qnum = p; qden = dp } | _ -> failwith "bad denominator")

let atom_of_q q =
  let q = qred q in
  match q.qden with XH -> decimal_of_z q.qnum | d -> decimal_of_z q.qnum ^ "/" ^ decimal_of_z (Zpos d)

let atoms = function L l -> List.map (function A a -> a | _ -> failwith "atom expected") l | _ -> failwith "list expected"

let state_of_sx (conv : ostr -> 'r) (args : sx list) : 'r state =
  List.map (function
    | L (A name :: A "reg" :: vs) -> (coq_of_string name, AReg (List.map (function A a -> conv a | _ -> failwith "v") vs))
    | L [A name; A "mem"; pre; win; post] ->
      let f x = List.map conv (atoms x) in (coq_of_string name, AMem (f pre, f win, f post))
    | L [A name; A "size"; A n] -> (coq_of_string name, ASize (z_of_decimal n))
    | _ -> failwith "bad argument") args

let print_state (show : 'r -> ostr) (st : 'r state option) : ostr =
  match st with
  | None -> "none"
  | Some st ->
    "(" ^ String.concat " " (List.map (fun (n, v) ->
      let n = string_of_coq n in
      match v with
      | AReg l -> "(" ^ String.concat " " (n :: "reg" :: List.map show l) ^ ")"
      | AMem (a, b, c) -> let f l = "(" ^ String.concat " " (List.map show l) ^ ")" in
        "(" ^ n ^ " mem " ^ f a ^ " " ^ f b ^ " " ^ f c ^ ")"
      | ASize z -> "(" ^ n ^ " size " ^ decimal_of_z z ^ ")") st) ^ ")"

let table : (ostr, instr) Hashtbl.t = Hashtbl.create 200
let () = List.iter (fun i -> Hashtbl.replace table (string_of_coq i.iname) i) (all_instrs @ all_probes)

let () =
  try
    while true do
      let line = input_line stdin in
      if String.trim line <> "" then begin
        (try
          match parse_sexp line with
          | L [A "run"; A name; A dom; L args] ->
            let i = try Hashtbl.find table name with Not_found -> failwith ("unknown unit " ^ name) in
            if dom = "Q" then begin
              let st = state_of_sx q_of_atom args in
              Printf.printf "frag=%s body=%s\n" (print_state atom_of_q (q_frag i.ifrag st)) (print_state atom_of_q (q_body i.ibody st))
            end else begin
              let st = state_of_sx z_of_decimal args in
              Printf.printf "frag=%s body=%s\n" (print_state decimal_of_z (z_frag i.ifrag st)) (print_state decimal_of_z (z_body i.ibody st))
            end
          | L [A "names"] -> Hashtbl.iter (fun k _ -> print_string (k ^ " ")) table; print_newline ()
          | _ -> failwith "bad job"
        with Failure m -> Printf.printf "error=%s\n" m)
      end
    done
  with End_of_file -> ()
