From Coq Require Import ZArith List Bool String Lia Ring Ring_theory.
From X86 Require Import Model Spec Gen_X86Instrs Tactics.
Import ListNotations.
Open Scope Z_scope.
Section P.
Variable R : Type.
Variables (e0 e1 : R) (add sub mul div : R -> R -> R) (opp : R -> R) (ltb : R -> R -> bool)
          (tz : R -> Z) (oz : Z -> R) (und : Z -> R).
Hypothesis Hring : ring_theory e0 e1 add mul sub opp (@eq R).
Add Ring Rr : Hring.
Let o : ROps R := {| r0 := e0; r1 := e1; radd := add; rsub := sub; rmul := mul; rdiv := div; ropp := opp;
                     rltb := ltb; toZ := tz; ofZ := oz; rundef := und |}.

Ltac state_eq :=
  lazymatch goal with
  | |- @eq (list _) (_ :: _) (_ :: _) => apply f_equal2; [state_eq | state_eq]
  | |- @eq (prod _ _) (_, _) (_, _) => apply f_equal2; [state_eq | state_eq]
  | |- AReg _ = AReg _ => apply f_equal; state_eq
  | |- AMem _ _ _ = AMem _ _ _ => apply f_equal3; state_eq
  | |- _ => first [reflexivity | ring]
  end.
Ltac solve_instr I := prep I; vm_compute; state_eq.

Goal instr_ok R o lane_any instr_prefetch. Proof. Time first [ solve [timeout 60 (solve_instr instr_prefetch)]; idtac "OK prefetch" | idtac "FAILED prefetch" ]. Abort.
Goal instr_ok R o lane_any instr_mm256_setzero_ps. Proof. Time first [ solve [timeout 60 (solve_instr instr_mm256_setzero_ps)]; idtac "OK mm256_setzero_ps" | idtac "FAILED mm256_setzero_ps" ]. Abort.
Goal instr_ok R o lane_any instr_mm256_setzero_pd. Proof. Time first [ solve [timeout 60 (solve_instr instr_mm256_setzero_pd)]; idtac "OK mm256_setzero_pd" | idtac "FAILED mm256_setzero_pd" ]. Abort.
Goal instr_ok R o lane_any instr_mm256_loadu_ps. Proof. Time first [ solve [timeout 60 (solve_instr instr_mm256_loadu_ps)]; idtac "OK mm256_loadu_ps" | idtac "FAILED mm256_loadu_ps" ]. Abort.
Goal instr_ok R o lane_any instr_mm256_loadu_pd. Proof. Time first [ solve [timeout 60 (solve_instr instr_mm256_loadu_pd)]; idtac "OK mm256_loadu_pd" | idtac "FAILED mm256_loadu_pd" ]. Abort.
Goal instr_ok R o lane_any instr_mm256_storeu_ps. Proof. Time first [ solve [timeout 60 (solve_instr instr_mm256_storeu_ps)]; idtac "OK mm256_storeu_ps" | idtac "FAILED mm256_storeu_ps" ]. Abort.
Goal instr_ok R o lane_any instr_mm256_storeu_pd. Proof. Time first [ solve [timeout 60 (solve_instr instr_mm256_storeu_pd)]; idtac "OK mm256_storeu_pd" | idtac "FAILED mm256_storeu_pd" ]. Abort.
Goal instr_ok R o lane_any instr_mm256_fmadd_ps. Proof. Time first [ solve [timeout 60 (solve_instr instr_mm256_fmadd_ps)]; idtac "OK mm256_fmadd_ps" | idtac "FAILED mm256_fmadd_ps" ]. Abort.
Goal instr_ok R o lane_any instr_mm256_fmadd_pd. Proof. Time first [ solve [timeout 60 (solve_instr instr_mm256_fmadd_pd)]; idtac "OK mm256_fmadd_pd" | idtac "FAILED mm256_fmadd_pd" ]. Abort.
Goal instr_ok R o lane_any instr_mm256_broadcast_ss. Proof. Time first [ solve [timeout 60 (solve_instr instr_mm256_broadcast_ss)]; idtac "OK mm256_broadcast_ss" | idtac "FAILED mm256_broadcast_ss" ]. Abort.
Goal instr_ok R o lane_any instr_mm256_broadcast_sd. Proof. Time first [ solve [timeout 60 (solve_instr instr_mm256_broadcast_sd)]; idtac "OK mm256_broadcast_sd" | idtac "FAILED mm256_broadcast_sd" ]. Abort.
Goal instr_ok R o lane_any instr_mm256_broadcast_ss_scalar. Proof. Time first [ solve [timeout 60 (solve_instr instr_mm256_broadcast_ss_scalar)]; idtac "OK mm256_broadcast_ss_scalar" | idtac "FAILED mm256_broadcast_ss_scalar" ]. Abort.
Goal instr_ok R o lane_any instr_mm256_broadcast_sd_scalar. Proof. Time first [ solve [timeout 60 (solve_instr instr_mm256_broadcast_sd_scalar)]; idtac "OK mm256_broadcast_sd_scalar" | idtac "FAILED mm256_broadcast_sd_scalar" ]. Abort.
Goal instr_ok R o lane_any instr_mm256_fmadd_ps_broadcast. Proof. Time first [ solve [timeout 60 (solve_instr instr_mm256_fmadd_ps_broadcast)]; idtac "OK mm256_fmadd_ps_broadcast" | idtac "FAILED mm256_fmadd_ps_broadcast" ]. Abort.
Goal instr_ok R o lane_any instr_mm256_mul_ps. Proof. Time first [ solve [timeout 60 (solve_instr instr_mm256_mul_ps)]; idtac "OK mm256_mul_ps" | idtac "FAILED mm256_mul_ps" ]. Abort.
Goal instr_ok R o lane_any instr_mm256_mul_pd. Proof. Time first [ solve [timeout 60 (solve_instr instr_mm256_mul_pd)]; idtac "OK mm256_mul_pd" | idtac "FAILED mm256_mul_pd" ]. Abort.
Goal instr_ok R o lane_any instr_mm256_div_ps. Proof. Time first [ solve [timeout 60 (solve_instr instr_mm256_div_ps)]; idtac "OK mm256_div_ps" | idtac "FAILED mm256_div_ps" ]. Abort.
Goal instr_ok R o lane_any instr_mm256_div_pd. Proof. Time first [ solve [timeout 60 (solve_instr instr_mm256_div_pd)]; idtac "OK mm256_div_pd" | idtac "FAILED mm256_div_pd" ]. Abort.
Goal instr_ok R o lane_any instr_mm256_add_ps. Proof. Time first [ solve [timeout 60 (solve_instr instr_mm256_add_ps)]; idtac "OK mm256_add_ps" | idtac "FAILED mm256_add_ps" ]. Abort.
Goal instr_ok R o lane_any instr_mm256_add_pd. Proof. Time first [ solve [timeout 60 (solve_instr instr_mm256_add_pd)]; idtac "OK mm256_add_pd" | idtac "FAILED mm256_add_pd" ]. Abort.
Goal instr_ok R o lane_any instr_mm256_sub_ps. Proof. Time first [ solve [timeout 60 (solve_instr instr_mm256_sub_ps)]; idtac "OK mm256_sub_ps" | idtac "FAILED mm256_sub_ps" ]. Abort.
Goal instr_ok R o lane_any instr_mm256_sub_pd. Proof. Time first [ solve [timeout 60 (solve_instr instr_mm256_sub_pd)]; idtac "OK mm256_sub_pd" | idtac "FAILED mm256_sub_pd" ]. Abort.
Goal instr_ok R o lane_any instr_mm256_loadu_si256. Proof. Time first [ solve [timeout 60 (solve_instr instr_mm256_loadu_si256)]; idtac "OK mm256_loadu_si256" | idtac "FAILED mm256_loadu_si256" ]. Abort.
Goal instr_ok R o lane_any instr_mm256_storeu_si256. Proof. Time first [ solve [timeout 60 (solve_instr instr_mm256_storeu_si256)]; idtac "OK mm256_storeu_si256" | idtac "FAILED mm256_storeu_si256" ]. Abort.
Goal instr_ok R o lane_any instr_mm256_add_epi16. Proof. Time first [ solve [timeout 60 (solve_instr instr_mm256_add_epi16)]; idtac "OK mm256_add_epi16" | idtac "FAILED mm256_add_epi16" ]. Abort.
Goal instr_ok R o lane_any instr_mm512_setzero_ps. Proof. Time first [ solve [timeout 60 (solve_instr instr_mm512_setzero_ps)]; idtac "OK mm512_setzero_ps" | idtac "FAILED mm512_setzero_ps" ]. Abort.
Goal instr_ok R o lane_any instr_mm512_add_ps. Proof. Time first [ solve [timeout 60 (solve_instr instr_mm512_add_ps)]; idtac "OK mm512_add_ps" | idtac "FAILED mm512_add_ps" ]. Abort.
Goal instr_ok R o lane_any instr_mm512_mask_add_ps. Proof. Time first [ solve [timeout 60 (solve_instr instr_mm512_mask_add_ps)]; idtac "OK mm512_mask_add_ps" | idtac "FAILED mm512_mask_add_ps" ]. Abort.
Goal instr_ok R o lane_any instr_mm512_loadu_ps. Proof. Time first [ solve [timeout 60 (solve_instr instr_mm512_loadu_ps)]; idtac "OK mm512_loadu_ps" | idtac "FAILED mm512_loadu_ps" ]. Abort.
Goal instr_ok R o lane_any instr_mm512_storeu_ps. Proof. Time first [ solve [timeout 60 (solve_instr instr_mm512_storeu_ps)]; idtac "OK mm512_storeu_ps" | idtac "FAILED mm512_storeu_ps" ]. Abort.
Goal instr_ok R o lane_any instr_mm512_maskz_loadu_ps. Proof. Time first [ solve [timeout 60 (solve_instr instr_mm512_maskz_loadu_ps)]; idtac "OK mm512_maskz_loadu_ps" | idtac "FAILED mm512_maskz_loadu_ps" ]. Abort.
Goal instr_ok R o lane_any instr_mm512_mask_storeu_ps. Proof. Time first [ solve [timeout 60 (solve_instr instr_mm512_mask_storeu_ps)]; idtac "OK mm512_mask_storeu_ps" | idtac "FAILED mm512_mask_storeu_ps" ]. Abort.
Goal instr_ok R o lane_any instr_mm512_fmadd_ps. Proof. Time first [ solve [timeout 60 (solve_instr instr_mm512_fmadd_ps)]; idtac "OK mm512_fmadd_ps" | idtac "FAILED mm512_fmadd_ps" ]. Abort.
Goal instr_ok R o lane_any instr_mm512_mask_fmadd_ps. Proof. Time first [ solve [timeout 60 (solve_instr instr_mm512_mask_fmadd_ps)]; idtac "OK mm512_mask_fmadd_ps" | idtac "FAILED mm512_mask_fmadd_ps" ]. Abort.
Goal instr_ok R o lane_any instr_mm512_relu_ps. Proof. Time first [ solve [timeout 60 (solve_instr instr_mm512_relu_ps)]; idtac "OK mm512_relu_ps" | idtac "FAILED mm512_relu_ps" ]. Abort.
Goal instr_ok R o lane_any instr_mm512_mask_set1_ps. Proof. Time first [ solve [timeout 60 (solve_instr instr_mm512_mask_set1_ps)]; idtac "OK mm512_mask_set1_ps" | idtac "FAILED mm512_mask_set1_ps" ]. Abort.
Goal instr_ok R o lane_any instr_mm512_set1_ps. Proof. Time first [ solve [timeout 60 (solve_instr instr_mm512_set1_ps)]; idtac "OK mm512_set1_ps" | idtac "FAILED mm512_set1_ps" ]. Abort.
Goal instr_ok R o lane_any instr_avx2_set0_ps. Proof. Time first [ solve [timeout 60 (solve_instr instr_avx2_set0_ps)]; idtac "OK avx2_set0_ps" | idtac "FAILED avx2_set0_ps" ]. Abort.
Goal instr_ok R o lane_any instr_avx2_fmadd_memu_ps. Proof. Time first [ solve [timeout 60 (solve_instr instr_avx2_fmadd_memu_ps)]; idtac "OK avx2_fmadd_memu_ps" | idtac "FAILED avx2_fmadd_memu_ps" ]. Abort.
Goal instr_ok R o lane_any instr_avx2_select_ps. Proof. Time first [ solve [timeout 60 (solve_instr instr_avx2_select_ps)]; idtac "OK avx2_select_ps" | idtac "FAILED avx2_select_ps" ]. Abort.
Goal instr_ok R o lane_any instr_avx2_select_pd. Proof. Time first [ solve [timeout 60 (solve_instr instr_avx2_select_pd)]; idtac "OK avx2_select_pd" | idtac "FAILED avx2_select_pd" ]. Abort.
Goal instr_ok R o lane_any instr_avx2_assoc_reduce_add_ps. Proof. Time first [ solve [timeout 60 (solve_instr instr_avx2_assoc_reduce_add_ps)]; idtac "OK avx2_assoc_reduce_add_ps" | idtac "FAILED avx2_assoc_reduce_add_ps" ]. Abort.
Goal instr_ok R o lane_any instr_avx2_assoc_reduce_add_pd. Proof. Time first [ solve [timeout 60 (solve_instr instr_avx2_assoc_reduce_add_pd)]; idtac "OK avx2_assoc_reduce_add_pd" | idtac "FAILED avx2_assoc_reduce_add_pd" ]. Abort.
Goal instr_ok R o lane_any instr_avx2_sign_ps. Proof. Time first [ solve [timeout 60 (solve_instr instr_avx2_sign_ps)]; idtac "OK avx2_sign_ps" | idtac "FAILED avx2_sign_ps" ]. Abort.
Goal instr_ok R o lane_any instr_avx2_sign_pd. Proof. Time first [ solve [timeout 60 (solve_instr instr_avx2_sign_pd)]; idtac "OK avx2_sign_pd" | idtac "FAILED avx2_sign_pd" ]. Abort.
Goal instr_ok R o lane_any instr_avx2_reduce_add_wide_ps. Proof. Time first [ solve [timeout 60 (solve_instr instr_avx2_reduce_add_wide_ps)]; idtac "OK avx2_reduce_add_wide_ps" | idtac "FAILED avx2_reduce_add_wide_ps" ]. Abort.
Goal instr_ok R o lane_any instr_avx2_reduce_add_wide_pd. Proof. Time first [ solve [timeout 60 (solve_instr instr_avx2_reduce_add_wide_pd)]; idtac "OK avx2_reduce_add_wide_pd" | idtac "FAILED avx2_reduce_add_wide_pd" ]. Abort.
Goal instr_ok R o lane_any instr_avx2_reg_copy_ps. Proof. Time first [ solve [timeout 60 (solve_instr instr_avx2_reg_copy_ps)]; idtac "OK avx2_reg_copy_ps" | idtac "FAILED avx2_reg_copy_ps" ]. Abort.
Goal instr_ok R o lane_any instr_avx2_reg_copy_pd. Proof. Time first [ solve [timeout 60 (solve_instr instr_avx2_reg_copy_pd)]; idtac "OK avx2_reg_copy_pd" | idtac "FAILED avx2_reg_copy_pd" ]. Abort.
Goal instr_ok R o lane_any instr_avx2_mask_storeu_ps. Proof. Time first [ solve [timeout 60 (solve_instr instr_avx2_mask_storeu_ps)]; idtac "OK avx2_mask_storeu_ps" | idtac "FAILED avx2_mask_storeu_ps" ]. Abort.
Goal instr_ok R o lane_any instr_avx2_ui16_divide_by_3. Proof. Time first [ solve [timeout 60 (solve_instr instr_avx2_ui16_divide_by_3)]; idtac "OK avx2_ui16_divide_by_3" | idtac "FAILED avx2_ui16_divide_by_3" ]. Abort.
Goal instr_ok R o lane_any instr_mm256_prefix_load_ps. Proof. Time first [ solve [timeout 60 (solve_instr instr_mm256_prefix_load_ps)]; idtac "OK mm256_prefix_load_ps" | idtac "FAILED mm256_prefix_load_ps" ]. Abort.
Goal instr_ok R o lane_any instr_mm256_prefix_store_ps. Proof. Time first [ solve [timeout 60 (solve_instr instr_mm256_prefix_store_ps)]; idtac "OK mm256_prefix_store_ps" | idtac "FAILED mm256_prefix_store_ps" ]. Abort.
Goal instr_ok R o lane_any instr_mm256_prefix_add_ps. Proof. Time first [ solve [timeout 60 (solve_instr instr_mm256_prefix_add_ps)]; idtac "OK mm256_prefix_add_ps" | idtac "FAILED mm256_prefix_add_ps" ]. Abort.
Goal instr_ok R o lane_any instr_mm256_prefix_mul_ps. Proof. Time first [ solve [timeout 60 (solve_instr instr_mm256_prefix_mul_ps)]; idtac "OK mm256_prefix_mul_ps" | idtac "FAILED mm256_prefix_mul_ps" ]. Abort.
Goal instr_ok R o lane_any instr_mm256_prefix_sub_ps. Proof. Time first [ solve [timeout 60 (solve_instr instr_mm256_prefix_sub_ps)]; idtac "OK mm256_prefix_sub_ps" | idtac "FAILED mm256_prefix_sub_ps" ]. Abort.
Goal instr_ok R o lane_any instr_mm256_prefix_div_ps. Proof. Time first [ solve [timeout 60 (solve_instr instr_mm256_prefix_div_ps)]; idtac "OK mm256_prefix_div_ps" | idtac "FAILED mm256_prefix_div_ps" ]. Abort.
Goal instr_ok R o lane_any instr_mm256_prefix_broadcast_ss. Proof. Time first [ solve [timeout 60 (solve_instr instr_mm256_prefix_broadcast_ss)]; idtac "OK mm256_prefix_broadcast_ss" | idtac "FAILED mm256_prefix_broadcast_ss" ]. Abort.
Goal instr_ok R o lane_any instr_avx2_convert_f32_lower_to_f64. Proof. Time first [ solve [timeout 60 (solve_instr instr_avx2_convert_f32_lower_to_f64)]; idtac "OK avx2_convert_f32_lower_to_f64" | idtac "FAILED avx2_convert_f32_lower_to_f64" ]. Abort.
Goal instr_ok R o lane_any instr_avx2_convert_f32_upper_to_f64. Proof. Time first [ solve [timeout 60 (solve_instr instr_avx2_convert_f32_upper_to_f64)]; idtac "OK avx2_convert_f32_upper_to_f64" | idtac "FAILED avx2_convert_f32_upper_to_f64" ]. Abort.
End P.