#!/bin/bash
# Build the extracted C14 interpreter: coq/X86/_build/c14driver (needs Extract.vo => x86model.ml in _build/).
set -e
cd "$(dirname "$0")"
mkdir -p _build
if [ ! -f _build/x86model.ml ] || [ Extract.v -nt _build/x86model.ml ] || [ Gen_X86Instrs.v -nt _build/x86model.ml ] \
   || [ Gen_X86Probes.v -nt _build/x86model.ml ] || [ Model.v -nt _build/x86model.ml ]; then
  for f in Model Gen_X86Instrs Gen_X86Probes Spec; do
    [ -f $f.vo ] && [ ! $f.v -nt $f.vo ] || timeout 300 coqc -Q . X86 $f.v
  done
  timeout 300 coqc -Q . X86 Extract.v >/dev/null
fi
cp driver.ml _build/c14driver.ml
cd _build
timeout 300 ocamlfind ocamlopt -w -a -package str x86model.mli x86model.ml c14driver.ml -o c14driver
