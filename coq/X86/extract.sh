#!/bin/bash
# Build the extracted C14 interpreter: coq/X86/_build/c14driver.
# Extract.vo (built by `make`) writes _build/x86model.ml; this script only re-extracts when that file is stale.
set -e
cd "$(dirname "$0")"
mkdir -p _build
stale=0
for f in Extract.v Gen_X86Instrs.v Gen_X86Probes.v Model.v Spec.v; do
  [ -f _build/x86model.ml ] && [ ! $f -nt _build/x86model.ml ] || stale=1
done
if [ $stale = 1 ]; then
  for f in Model Gen_X86Instrs Gen_X86Probes Spec; do
    [ -f $f.vo ] && [ ! $f.v -nt $f.vo ] || timeout 300 coqc -Q . X86 $f.v
  done
  timeout 300 coqc -Q . X86 Extract.v >/dev/null
fi
if [ -x _build/c14driver ] && [ ! _build/x86model.ml -nt _build/c14driver ] && [ ! driver.ml -nt _build/c14driver ]; then
  exit 0
fi
cp driver.ml _build/c14driver.ml
cd _build
timeout 600 ocamlfind ocamlopt -w -a -package str x86model.mli x86model.ml c14driver.ml -o c14driver
