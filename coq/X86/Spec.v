(* C14 — what "the C fragment has exactly the effect of the Exo body" means (definitions of statements only). *)
From Coq Require Import ZArith List Bool String Ring_theory.
From X86 Require Import Model.
Import ListNotations.
Open Scope Z_scope.

(* real-number semantics: R is a commutative ring (division, the order test, toZ/ofZ and the contents of
   undefined lanes are uninterpreted: both sides of every theorem use them identically or not at all) *)
Definition ring_ok {R} (o : ROps R) : Prop :=
  ring_theory (r0 o) (r1 o) (radd o) (rmul o) (rsub o) (ropp o) (@eq R).

(* the integer instance used for the ui16 instructions: lanes are unbounded integers ("real-number" semantics of
   + on integers); [rdiv] is floor division, i.e. the value that exo's scalar C `(uint16_t)(x / 3.0)` stores
   for 0 <= x *)
Definition ZOps : ROps Z := {|
  r0 := 0; r1 := 1; radd := Z.add; rsub := Z.sub; rmul := Z.mul; rdiv := Z.div; ropp := Z.opp;
  rltb := Z.ltb; toZ := fun z => z; ofZ := fun z => z; rundef := fun _ => 0
|}.

Definition lane_any {R} : ety -> R -> Prop := fun _ _ => True.
Definition lane_u16 : ety -> Z -> Prop :=
  fun t z => match t with U16 => 0 <= z < 65536 | _ => True end.

Section Spec.
Variable R : Type.
Variable o : ROps R.
Variable lane_ok : ety -> R -> Prop.

(* an argument value fits its declaration; [full] is the whole state (window lengths may mention sizes) *)
Definition wf_arg (full : state R) (k : akind) (v : argval R) : Prop :=
  match k, v with
  | KReg t n, AReg l => zlen l = n /\ Forall (lane_ok t) l
  | KMem t len, AMem pre win post => Some (zlen win) = eval_iexpr R [] full len /\ Forall (lane_ok t) win
  | KScal t, AMem pre win post => zlen win = 1 /\ Forall (lane_ok t) win
  | KSize, ASize z => 1 <= z                       (* exo `size` arguments are positive *)
  | _, _ => False
  end.

Fixpoint wf_env (sig : list (string * akind)) (env full : state R) : Prop :=
  match sig, env with
  | [], [] => True
  | (n, k) :: sig', (n', v) :: env' => n' = n /\ wf_arg full k v /\ wf_env sig' env' full
  | _, _ => False
  end.

Fixpoint preds_hold (ps : list bexpr) (st : state R) : Prop :=
  match ps with
  | [] => True
  | p :: r => eval_bexpr R [] st p = Some true /\ preds_hold r st
  end.

(* both executions succeed and end in the same state (all operands, all of every underlying DRAM buffer) *)
Definition agree (a b : option (state R)) : Prop :=
  match a, b with
  | Some x, Some y => x = y
  | _, _ => False
  end.

Definition pre_ok (I : instr) (st : state R) : Prop :=
  wf_env (isig I) st st /\ preds_hold (ipreds I) st.

Definition instr_ok (I : instr) : Prop :=
  forall st, pre_ok I st -> agree (exec_frag R o (ifrag I) st) (exec_body R o (ibody I) st).

(* weaker observation: register [nm] is compared on its first [n] lanes only *)
Definition trunc_reg (nm : string) (n : Z) (st : state R) : state R :=
  map (fun p => match p with
                | (k, AReg l) => if String.eqb k nm then (k, AReg (firstn (Z.to_nat n) l)) else p
                | _ => p
                end) st.

Definition agree_upto (nm : string) (n : Z) (a b : option (state R)) : Prop :=
  match a, b with
  | Some x, Some y => trunc_reg nm n x = trunc_reg nm n y
  | _, _ => False
  end.


(* partial statements used next to a refutation *)
Definition instr_ok_when (I : instr) (c : bexpr) : Prop :=
  forall st, pre_ok I st -> eval_bexpr R [] st c = Some true ->
             agree (exec_frag R o (ifrag I) st) (exec_body R o (ibody I) st).

Definition instr_ok_prefix (I : instr) (reg size : string) : Prop :=
  forall st n, pre_ok I st -> lookup size st = Some (ASize n) ->
               agree_upto reg n (exec_frag R o (ifrag I) st) (exec_body R o (ibody I) st).

(* a canonical permitted state (every size = 1, every element = e): shows the hypotheses are satisfiable *)
Definition mk_arg (e : R) (k : akind) : argval R :=
  match k with
  | KReg t n => AReg (rep n e)
  | KMem t (ILit n) => AMem [e] (rep n e) [e; e]
  | KMem t _ => AMem [e] [e] [e; e]
  | KScal t => AMem [] [e] []
  | KSize => ASize 1
  end.
Definition mk_state (e : R) (sig : list (string * akind)) : state R :=
  map (fun p => (fst p, mk_arg e (snd p))) sig.

(* the instruction is wrong: some permitted state on which fragment and body do not agree *)
Definition instr_refuted (I : instr) : Prop :=
  exists st, pre_ok I st /\ ~ agree (exec_frag R o (ifrag I) st) (exec_body R o (ibody I) st).

End Spec.
