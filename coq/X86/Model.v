(* C14 — lane-level model of the x86 intrinsics used by exo/platforms/x86.py,
   the C-fragment AST/interpreter (exec_frag) and the Exo-body AST/interpreter
   (exec_body) over one state.  Executable Gallina only; no proofs here.

   Float lanes are values of an abstract type R with ring operations given by
   a record [ROps R] (real-number semantics: fmadd a b c = a*b+c, no rounding);
   integer / mask lanes are [Z] modulo 2^w.  DRAM windows are a contiguous
   (unit-stride) slice [win] of an underlying buffer [pre ++ win ++ post];
   index i >= length win addresses [post] (so a store past the window is
   visible), index < 0 is an error. *)
From Coq Require Import ZArith List Bool String.
Import ListNotations.
Open Scope Z_scope.

(* ------------------------------------------------------------------ basics *)

Inductive ety := F32 | F64 | RT | U16 | I8 | I16 | I32 | I64.

Definition ety_bits (t : ety) : Z :=
  match t with F32 => 32 | F64 => 64 | RT => 32 | U16 => 16 | I8 => 8 | I16 => 16 | I32 => 32 | I64 => 64 end.

Definition ety_is_int (t : ety) : bool :=
  match t with F32 | F64 | RT => false | _ => true end.

Definition ety_is_f32 (t : ety) : bool := match t with F32 | RT => true | _ => false end.
Definition ety_is_f64 (t : ety) : bool := match t with F64 => true | _ => false end.

Record ROps (R : Type) := {
  r0 : R; r1 : R;
  radd : R -> R -> R; rsub : R -> R -> R; rmul : R -> R -> R; rdiv : R -> R -> R;
  ropp : R -> R;
  rltb : R -> R -> bool;      (* strict order test used by cmp/max/select/relu *)
  toZ : R -> Z;               (* value of an integer-typed (ui16) element *)
  ofZ : Z -> R;
  rundef : Z -> R             (* contents of lanes the ISA leaves undefined *)
}.
Arguments r0 {R}. Arguments r1 {R}. Arguments radd {R}. Arguments rsub {R}. Arguments rmul {R}.
Arguments rdiv {R}. Arguments ropp {R}. Arguments rltb {R}. Arguments toZ {R}. Arguments ofZ {R}.
Arguments rundef {R}.

Fixpoint Zseq (lo : Z) (n : nat) : list Z :=
  match n with O => [] | S k => lo :: Zseq (lo + 1) k end.

Fixpoint lookup {A} (n : string) (l : list (string * A)) : option A :=
  match l with
  | [] => None
  | (k, v) :: r => if String.eqb k n then Some v else lookup n r
  end.

(* replace the binding of n (must exist), keeping the order *)
Fixpoint update {A} (n : string) (v : A) (l : list (string * A)) : option (list (string * A)) :=
  match l with
  | [] => None
  | (k, x) :: r =>
      if String.eqb k n then Some ((k, v) :: r)
      else match update n v r with Some r' => Some ((k, x) :: r') | None => None end
  end.

Definition zlen {A} (l : list A) : Z := Z.of_nat (List.length l).

Definition znth {A} (l : list A) (i : Z) : option A :=
  if i <? 0 then None else nth_error l (Z.to_nat i).

Fixpoint set_nth {A} (l : list A) (n : nat) (v : A) : option (list A) :=
  match l, n with
  | [], _ => None
  | _ :: r, O => Some (v :: r)
  | a :: r, S k => match set_nth r k v with Some r' => Some (a :: r') | None => None end
  end.

Definition zset {A} (l : list A) (i : Z) (v : A) : option (list A) :=
  if i <? 0 then None else set_nth l (Z.to_nat i) v.

Fixpoint map2 {A B C} (f : A -> B -> C) (l1 : list A) (l2 : list B) : list C :=
  match l1, l2 with
  | a :: r1, b :: r2 => f a b :: map2 f r1 r2
  | _, _ => []
  end.

Fixpoint map3 {A B C D} (f : A -> B -> C -> D) (l1 : list A) (l2 : list B) (l3 : list C) : list D :=
  match l1, l2, l3 with
  | a :: r1, b :: r2, c :: r3 => f a b c :: map3 f r1 r2 r3
  | _, _, _ => []
  end.

Fixpoint all_some {A} (l : list (option A)) : option (list A) :=
  match l with
  | [] => Some []
  | Some a :: r => match all_some r with Some r' => Some (a :: r') | None => None end
  | None :: _ => None
  end.

(* ------------------------------------------------------------------ state *)

Inductive argval (R : Type) :=
| AReg (l : list R)                 (* one vector register (a full-width window of an AVX2/AVX512 allocation) *)
| AMem (pre win post : list R)      (* DRAM window [win] inside the buffer pre ++ win ++ post; scalars: |win| = 1 *)
| ASize (z : Z).                    (* size / index argument *)
Arguments AReg {R}. Arguments AMem {R}. Arguments ASize {R}.

Definition state (R : Type) := list (string * argval R).

Inductive value (R : Type) :=
| VVec (l : list R)                 (* __m128/__m256/__m256d/__m512 with real lanes *)
| VInt (w : Z) (l : list Z)         (* a vector known by its bits, as w-bit lanes *)
| VMask (w : Z) (l : list bool)     (* comparison result: every w-bit lane all-ones (true) or all-zeros *)
| VScal (r : R)
| VNum (z : Z)                      (* C int *)
| VPtr (t : ety) (name : string).   (* address of element 0 of the window bound to [name] *)
Arguments VVec {R}. Arguments VInt {R}. Arguments VMask {R}. Arguments VScal {R}. Arguments VNum {R}. Arguments VPtr {R}.

(* ------------------------------------------------------------------ C fragment AST *)

Inductive pkind :=
| PReg (t : ety) (n : Z)   (* {x_data}, x a register window of n lanes: the register itself *)
| PLval (t : ety)          (* {x_data}, x a DRAM window: the lvalue of its element 0 *)
| PPtr (t : ety)           (* {x} / {x_data}, x a scalar passed by reference: the pointer (&x) *)
| PInt.                    (* {N}: size/index argument *)

Inductive cbop := CShl | CSub | CAdd.

Inductive intrin :=
| I_mm_prefetch
| I_mm256_setzero_ps | I_mm256_setzero_pd | I_mm512_setzero_ps
| I_mm256_loadu_ps | I_mm256_loadu_pd | I_mm512_loadu_ps | I_mm256_loadu_si256
| I_mm256_storeu_ps | I_mm256_storeu_pd | I_mm512_storeu_ps | I_mm256_storeu_si256
| I_mm256_fmadd_ps | I_mm256_fmadd_pd | I_mm512_fmadd_ps
| I_mm256_broadcast_ss | I_mm256_broadcast_sd
| I_mm256_mul_ps | I_mm256_mul_pd | I_mm256_div_ps | I_mm256_div_pd
| I_mm256_add_ps | I_mm256_add_pd | I_mm512_add_ps | I_mm256_sub_ps | I_mm256_sub_pd
| I_mm256_adds_epu16 | I_mm256_mulhi_epu16 | I_mm256_srli_epi16
| I_mm512_mask_add_ps | I_mm512_maskz_loadu_ps | I_mm512_mask_storeu_ps | I_mm512_mask_fmadd_ps
| I_mm512_max_ps | I_mm512_set1_ps | I_mm256_set1_ps | I_mm256_set1_pd
| I_mm256_xor_ps
| I_mm256_blendv_ps | I_mm256_blendv_pd | I_mm256_cmp_ps | I_mm256_cmp_pd
| I_mm256_hadd_ps | I_mm256_hadd_pd
| I_mm256_castps128_ps256 | I_mm256_castpd128_pd256 | I_mm256_extractf128_ps | I_mm256_extractf128_pd
| I_mm256_cvtss_f32 | I_mm256_cvtsd_f64 | I_mm256_cvtps_pd
| I_mm256_set1_epi8 | I_mm256_set1_epi16 | I_mm256_set1_epi32 | I_mm256_set_epi32
| I_mm256_cmpgt_epi32 | I_mm256_maskload_ps | I_mm256_maskstore_ps
| I_mm256_castsi256_ps.

Inductive cexpr :=
| EArg (k : pkind) (name : string)
| EAddr (e : cexpr)
| EVar (name : string)
| EInt (z : Z)
| EFlt (num den : Z)
| EBin (op : cbop) (a b : cexpr)
| ECall (f : intrin) (args : list cexpr)
| ECast (e : cexpr)                       (* pointer cast such as (const __m256i * ) e *)
| EInit (lanes : Z) (l : list cexpr).     (* float-vector initialiser list / compound literal, zero filled *)

Inductive cstmt :=
| SDecl (name : string) (e : cexpr)       (* T name = e; *)
| SAssign (lhs : cexpr) (e : cexpr)       (* lhs = e;  lhs a register placeholder or a local *)
| SDerefAdd (p : cexpr) (e : cexpr)       (* *p += e; *)
| SExpr (e : cexpr)                       (* call of an effectful intrinsic *)
| SBlock (l : list cstmt).

(* ------------------------------------------------------------------ Exo body AST *)

Inductive ibop := IAdd | ISub | IMul.
Inductive iexpr := IVar (s : string) | ILit (z : Z) | IBin (op : ibop) (a b : iexpr).
Inductive cmpop := CLt | CLe | CGt | CGe | CEq.
Inductive bexpr := BCmp (op : cmpop) (a b : iexpr) | BAnd (a b : bexpr) | BOr (a b : bexpr).
Inductive dbop := DAdd | DSub | DMul | DDiv.
Inductive extern := XSelect | XRelu.
Inductive dexpr :=
| DRead (name : string) (idx : list iexpr)
| DLit (num den : Z)
| DBin (op : dbop) (a b : dexpr)
| DNeg (a : dexpr)
| DExt (f : extern) (args : list dexpr).
Inductive stmt :=
| Assign (name : string) (idx : list iexpr) (e : dexpr)
| Reduce (name : string) (idx : list iexpr) (e : dexpr)
| For (i : string) (lo hi : iexpr) (body : list stmt)
| If (c : bexpr) (body orelse : list stmt)
| Pass.

(* ------------------------------------------------------------------ instruction records *)

Inductive akind :=
| KReg (t : ety) (n : Z)         (* [t][n] @ AVX2/AVX512 *)
| KMem (t : ety) (len : iexpr)   (* [t][len] in DRAM, unit stride asserted (or len = 1) *)
| KScal (t : ety)                (* scalar t, passed by reference *)
| KSize.                         (* size *)

Record instr := {
  iname : string;
  isig : list (string * akind);
  ipreds : list bexpr;           (* the non-stride assertions *)
  ifrag : list cstmt;
  ibody : list stmt
}.

Section Sem.
Variable R : Type.
Variable o : ROps R.

Definition mem_read (pre win post : list R) (i : Z) : option R :=
  if i <? 0 then None
  else if i <? zlen win then znth win i else znth post (i - zlen win).

Definition mem_write (pre win post : list R) (i : Z) (v : R) : option (argval R) :=
  if i <? 0 then None
  else if i <? zlen win then
         match zset win i v with Some w' => Some (AMem pre w' post) | None => None end
       else match zset post (i - zlen win) v with Some p' => Some (AMem pre win p') | None => None end.

Definition st_read (st : state R) (name : string) (i : Z) : option R :=
  match lookup name st with
  | Some (AReg l) => znth l i
  | Some (AMem pre win post) => mem_read pre win post i
  | _ => None
  end.

Definition st_write (st : state R) (name : string) (i : Z) (v : R) : option (state R) :=
  match lookup name st with
  | Some (AReg l) => match zset l i v with Some l' => update name (AReg l') st | None => None end
  | Some (AMem pre win post) =>
      match mem_write pre win post i v with Some a => update name a st | None => None end
  | _ => None
  end.

(* ------------------------------------------------------------------ integer lanes *)

Definition wrap32 (z : Z) : Z := ((z + 2^31) mod 2^32) - 2^31.      (* C int *)
Definition signed (w z : Z) : Z := let m := z mod 2^w in if m <? 2^(w-1) then m else m - 2^w.

Definition pack (w : Z) (l : list Z) : Z :=
  fold_right (fun x acc => (x mod 2^w) + 2^w * acc) 0 l.
Definition unpack (w : Z) (n : nat) (z : Z) : list Z :=
  map (fun i => (z / 2^(w * i)) mod 2^w) (Zseq 0 n).
(* reinterpret w-bit lanes as w'-bit lanes (little endian), e.g. 32 x epi8 -> 8 x epi32 *)
Definition relane (w w' : Z) (l : list Z) : list Z :=
  if w =? w' then l else unpack w' (Z.to_nat (zlen l * w / w')) (pack w l).

Definition norm_lane (w x : Z) : Z := x mod 2^w.
Definition adds_epu16_lane (a b : Z) : Z := Z.min 65535 (a mod 65536 + b mod 65536).
Definition mulhi_epu16_lane (a b : Z) : Z := ((a mod 65536) * (b mod 65536)) / 65536.
Definition srli_epi16_lane (k a : Z) : Z := if (k <? 0) || (15 <? k) then 0 else (a mod 65536) / 2^k.

Definition rep {A} (n : Z) (x : A) : list A := repeat x (Z.to_nat n).

Fixpoint rofpos (p : positive) : R :=
  match p with
  | xH => r1 o
  | xO q => rmul o (radd o (r1 o) (r1 o)) (rofpos q)
  | xI q => radd o (r1 o) (rmul o (radd o (r1 o) (r1 o)) (rofpos q))
  end.
Definition rofZ (z : Z) : R :=
  match z with Z0 => r0 o | Zpos p => rofpos p | Zneg p => ropp o (rofpos p) end.
Definition rlit (num den : Z) : R :=
  if den =? 1 then rofZ num else rdiv o (rofZ num) (rofZ den).

Definition locals := list (string * value R).

(* ------------------------------------------------------------------ intrinsic semantics *)

Definition vec2 (n : Z) (f : R -> R -> R) (a b : value R) : option (value R) :=
  match a, b with
  | VVec x, VVec y => if (zlen x =? n) && (zlen y =? n) then Some (VVec (map2 f x y)) else None
  | _, _ => None
  end.

Definition vec3 (n : Z) (f : R -> R -> R -> R) (a b c : value R) : option (value R) :=
  match a, b, c with
  | VVec x, VVec y, VVec z =>
      if (zlen x =? n) && (zlen y =? n) && (zlen z =? n) then Some (VVec (map3 f x y z)) else None
  | _, _, _ => None
  end.

Definition ones (w : Z) : Z := 2^w - 1.

Definition as_int (v : value R) : option (Z * list Z) :=
  match v with
  | VInt w l => Some (w, l)
  | VMask w bs => Some (w, map (fun b : bool => if b then ones w else 0) bs)
  | _ => None
  end.

Definition fma (a b c : R) : R := radd o (rmul o a b) c.
Definition rmax (a b : R) : R := if rltb o b a then a else b.     (* MAXPS: a > b ? a : b *)

(* sign bit of every w-bit lane of a mask operand, n lanes *)
Definition mask_bits (w n : Z) (m : value R) : option (list bool) :=
  match m with
  | VMask w0 bs =>
      if (w0 =? w) && (zlen bs =? n) then Some bs
      else let l' := relane w0 w (map (fun b : bool => if b then 2^w0 - 1 else 0) bs) in
           if zlen l' =? n then Some (map (fun z => Z.testbit z (w - 1)) l') else None
  | VInt w0 l => let l' := relane w0 w l in
                 if zlen l' =? n then Some (map (fun z => Z.testbit z (w - 1)) l') else None
  | VVec l => if zlen l =? n then Some (map (fun x => rltb o x (r0 o)) l) else None
  | _ => None
  end.

Definition kbits (n : Z) (k : Z) : list bool := map (fun i => Z.testbit (k mod 2^n) i) (Zseq 0 (Z.to_nat n)).

Definition load_lanes (st : state R) (name : string) (n : Z) : option (list R) :=
  all_some (map (fun i => st_read st name i) (Zseq 0 (Z.to_nat n))).

Definition load_masked (st : state R) (name : string) (bits : list bool) : option (list R) :=
  all_some (map2 (fun (b : bool) i => if b then st_read st name i else Some (r0 o)) bits
                 (Zseq 0 (List.length bits))).

Fixpoint store_masked (st : state R) (name : string) (i : Z) (bits : list bool) (l : list R)
  : option (state R) :=
  match bits, l with
  | [], [] => Some st
  | b :: bs, x :: xs =>
      if b then match st_write st name i x with
                | Some st' => store_masked st' name (i + 1) bs xs
                | None => None
                end
      else store_masked st name (i + 1) bs xs
  | _, _ => None
  end.

Definition hadd_ps (a b : list R) : option (list R) :=
  match a, b with
  | [a0;a1;a2;a3;a4;a5;a6;a7], [b0;b1;b2;b3;b4;b5;b6;b7] =>
      Some [radd o a0 a1; radd o a2 a3; radd o b0 b1; radd o b2 b3;
            radd o a4 a5; radd o a6 a7; radd o b4 b5; radd o b6 b7]
  | _, _ => None
  end.

Definition hadd_pd (a b : list R) : option (list R) :=
  match a, b with
  | [a0;a1;a2;a3], [b0;b1;b2;b3] => Some [radd o a0 a1; radd o b0 b1; radd o a2 a3; radd o b2 b3]
  | _, _ => None
  end.

(* value-returning intrinsics (may read memory) *)
Definition app_intrin (f : intrin) (args : list (value R)) (st : state R) : option (value R) :=
  match f, args with
  | I_mm256_setzero_ps, [] => Some (VVec (rep 8 (r0 o)))
  | I_mm256_setzero_pd, [] => Some (VVec (rep 4 (r0 o)))
  | I_mm512_setzero_ps, [] => Some (VVec (rep 16 (r0 o)))
  | I_mm256_loadu_ps, [VPtr t nm] =>
      if ety_is_f32 t then option_map VVec (load_lanes st nm 8) else None
  | I_mm256_loadu_pd, [VPtr t nm] =>
      if ety_is_f64 t then option_map VVec (load_lanes st nm 4) else None
  | I_mm512_loadu_ps, [VPtr t nm] =>
      if ety_is_f32 t then option_map VVec (load_lanes st nm 16) else None
  | I_mm256_loadu_si256, [VPtr t nm] =>
      if ety_is_int t then
        option_map (fun l => VInt (ety_bits t) (map (fun x => norm_lane (ety_bits t) (toZ o x)) l))
                   (load_lanes st nm (256 / ety_bits t))
      else None
  | I_mm256_fmadd_ps, [a; b; c] => vec3 8 fma a b c
  | I_mm256_fmadd_pd, [a; b; c] => vec3 4 fma a b c
  | I_mm512_fmadd_ps, [a; b; c] => vec3 16 fma a b c
  | I_mm256_broadcast_ss, [VPtr t nm] =>
      if ety_is_f32 t then option_map (fun x => VVec (rep 8 x)) (st_read st nm 0) else None
  | I_mm256_broadcast_sd, [VPtr t nm] =>
      if ety_is_f64 t then option_map (fun x => VVec (rep 4 x)) (st_read st nm 0) else None
  | I_mm256_mul_ps, [a; b] => vec2 8 (rmul o) a b
  | I_mm256_mul_pd, [a; b] => vec2 4 (rmul o) a b
  | I_mm256_div_ps, [a; b] => vec2 8 (rdiv o) a b
  | I_mm256_div_pd, [a; b] => vec2 4 (rdiv o) a b
  | I_mm256_add_ps, [a; b] => vec2 8 (radd o) a b
  | I_mm256_add_pd, [a; b] => vec2 4 (radd o) a b
  | I_mm512_add_ps, [a; b] => vec2 16 (radd o) a b
  | I_mm256_sub_ps, [a; b] => vec2 8 (rsub o) a b
  | I_mm256_sub_pd, [a; b] => vec2 4 (rsub o) a b
  | I_mm256_adds_epu16, [va; vb] =>
      match as_int va, as_int vb with
      | Some (wa, a), Some (wb, b) =>
          let a' := relane wa 16 a in let b' := relane wb 16 b in
          if (zlen a' =? 16) && (zlen b' =? 16) then Some (VInt 16 (map2 adds_epu16_lane a' b')) else None
      | _, _ => None
      end
  | I_mm256_mulhi_epu16, [va; vb] =>
      match as_int va, as_int vb with
      | Some (wa, a), Some (wb, b) =>
          let a' := relane wa 16 a in let b' := relane wb 16 b in
          if (zlen a' =? 16) && (zlen b' =? 16) then Some (VInt 16 (map2 mulhi_epu16_lane a' b')) else None
      | _, _ => None
      end
  | I_mm256_srli_epi16, [va; VNum k] =>
      match as_int va with
      | Some (wa, a) =>
          let a' := relane wa 16 a in
          if zlen a' =? 16 then Some (VInt 16 (map (srli_epi16_lane k) a')) else None
      | None => None
      end
  | I_mm512_mask_add_ps, [VVec s; VNum k; VVec a; VVec b] =>
      if (zlen s =? 16) && (zlen a =? 16) && (zlen b =? 16) then
        Some (VVec (map3 (fun (m : bool) x y => if m then y else x) (kbits 16 k) s (map2 (radd o) a b)))
      else None
  | I_mm512_mask_fmadd_ps, [VVec a; VNum k; VVec b; VVec c] =>
      if (zlen a =? 16) && (zlen b =? 16) && (zlen c =? 16) then
        Some (VVec (map3 (fun (m : bool) x y => if m then y else x) (kbits 16 k) a (map3 fma a b c)))
      else None
  | I_mm512_maskz_loadu_ps, [VNum k; VPtr t nm] =>
      if ety_is_f32 t then option_map VVec (load_masked st nm (kbits 16 k)) else None
  | I_mm512_max_ps, [a; b] => vec2 16 rmax a b
  | I_mm512_set1_ps, [VScal x] => Some (VVec (rep 16 x))
  | I_mm256_set1_ps, [VScal x] => Some (VVec (rep 8 x))
  | I_mm256_set1_pd, [VScal x] => Some (VVec (rep 4 x))
  | I_mm256_blendv_ps, [VVec a; VVec b; m] =>
      match mask_bits 32 8 m with
      | Some bs => if (zlen a =? 8) && (zlen b =? 8)
                   then Some (VVec (map3 (fun (c : bool) x y => if c then y else x) bs a b)) else None
      | None => None
      end
  | I_mm256_blendv_pd, [VVec a; VVec b; m] =>
      match mask_bits 64 4 m with
      | Some bs => if (zlen a =? 4) && (zlen b =? 4)
                   then Some (VVec (map3 (fun (c : bool) x y => if c then y else x) bs a b)) else None
      | None => None
      end
  | I_mm256_cmp_ps, [VVec a; VVec b; VNum p] =>        (* only _CMP_LT_OQ = 17 is modelled *)
      if (p =? 17) && (zlen a =? 8) && (zlen b =? 8)
      then Some (VMask 32 (map2 (rltb o) a b)) else None
  | I_mm256_cmp_pd, [VVec a; VVec b; VNum p] =>
      if (p =? 17) && (zlen a =? 4) && (zlen b =? 4)
      then Some (VMask 64 (map2 (rltb o) a b)) else None
  | I_mm256_hadd_ps, [VVec a; VVec b] => option_map VVec (hadd_ps a b)
  | I_mm256_hadd_pd, [VVec a; VVec b] => option_map VVec (hadd_pd a b)
  | I_mm256_castps128_ps256, [VVec a] =>
      if zlen a =? 4 then Some (VVec (a ++ map (rundef o) [4;5;6;7])) else None
  | I_mm256_castpd128_pd256, [VVec a] =>
      if zlen a =? 2 then Some (VVec (a ++ map (rundef o) [2;3])) else None
  | I_mm256_extractf128_ps, [VVec a; VNum i] =>
      if zlen a =? 8 then Some (VVec (if Z.testbit i 0 then skipn 4 a else firstn 4 a)) else None
  | I_mm256_extractf128_pd, [VVec a; VNum i] =>
      if zlen a =? 4 then Some (VVec (if Z.testbit i 0 then skipn 2 a else firstn 2 a)) else None
  | I_mm256_cvtss_f32, [VVec ((x :: _) as a)] => if zlen a =? 8 then Some (VScal x) else None
  | I_mm256_cvtsd_f64, [VVec ((x :: _) as a)] => if zlen a =? 4 then Some (VScal x) else None
  | I_mm256_cvtps_pd, [VVec a] => if zlen a =? 4 then Some (VVec a) else None
  | I_mm256_set1_epi8, [VNum z] => Some (VInt 8 (rep 32 (z mod 2^8)))
  | I_mm256_set1_epi16, [VNum z] => Some (VInt 16 (rep 16 (z mod 2^16)))
  | I_mm256_set1_epi32, [VNum z] => Some (VInt 32 (rep 8 (z mod 2^32)))
  | I_mm256_set_epi32, [VNum e7; VNum e6; VNum e5; VNum e4; VNum e3; VNum e2; VNum e1; VNum e0] =>
      Some (VInt 32 (map (fun z => z mod 2^32) [e0; e1; e2; e3; e4; e5; e6; e7]))
  | I_mm256_cmpgt_epi32, [va; vb] =>
      match as_int va, as_int vb with
      | Some (wa, a), Some (wb, b) =>
          let a' := relane wa 32 a in let b' := relane wb 32 b in
          if (zlen a' =? 8) && (zlen b' =? 8)
          then Some (VMask 32 (map2 (fun x y => signed 32 y <? signed 32 x) a' b'))
          else None
      | _, _ => None
      end
  | I_mm256_maskload_ps, [VPtr t nm; m] =>
      if ety_is_f32 t then
        match mask_bits 32 8 m with
        | Some bs => option_map VVec (load_masked st nm bs)
        | None => None
        end
      else None
  | I_mm256_castsi256_ps, [VInt w a] => Some (VInt w a)
  | I_mm256_castsi256_ps, [VMask w a] => Some (VMask w a)
  | _, _ => None
  end.

(* effectful intrinsics (statement position) *)
Definition app_effect (f : intrin) (args : list (value R)) (st : state R) : option (state R) :=
  match f, args with
  | I_mm_prefetch, [VPtr _ _; VNum _] => Some st
  | I_mm256_storeu_ps, [VPtr t nm; VVec l] =>
      if ety_is_f32 t && (zlen l =? 8) then store_masked st nm 0 (rep 8 true) l else None
  | I_mm256_storeu_pd, [VPtr t nm; VVec l] =>
      if ety_is_f64 t && (zlen l =? 4) then store_masked st nm 0 (rep 4 true) l else None
  | I_mm512_storeu_ps, [VPtr t nm; VVec l] =>
      if ety_is_f32 t && (zlen l =? 16) then store_masked st nm 0 (rep 16 true) l else None
  | I_mm256_storeu_si256, [VPtr t nm; v] =>
      match as_int v with
      | Some (w, l) =>
          if ety_is_int t then
            let l' := relane w (ety_bits t) l in
            if zlen l' =? 256 / ety_bits t
            then store_masked st nm 0 (map (fun _ => true) l') (map (ofZ o) l') else None
          else None
      | None => None
      end
  | I_mm512_mask_storeu_ps, [VPtr t nm; VNum k; VVec l] =>
      if ety_is_f32 t && (zlen l =? 16) then store_masked st nm 0 (kbits 16 k) l else None
  | I_mm256_maskstore_ps, [VPtr t nm; m; VVec l] =>
      if ety_is_f32 t && (zlen l =? 8) then
        match mask_bits 32 8 m with
        | Some bs => store_masked st nm 0 bs l
        | None => None
        end
      else None
  | _, _ => None
  end.

(* ------------------------------------------------------------------ exec_frag *)

(* C int arithmetic; `<<` follows the x86 shift (count taken modulo 32); for counts >= 31 the C
   expression is undefined behaviour and the model shows what this host computes. *)
Definition cbin (op : cbop) (a b : Z) : Z :=
  match op with
  | CShl => wrap32 (a * 2^(b mod 32))
  | CSub => wrap32 (a - b)
  | CAdd => wrap32 (a + b)
  end.

Fixpoint eval (e : cexpr) (loc : locals) (st : state R) {struct e} : option (value R) :=
  match e with
  | EArg (PReg t n) nm =>
      match lookup nm st with
      | Some (AReg l) =>
          if ety_is_int t then Some (VInt (ety_bits t) (map (fun x => norm_lane (ety_bits t) (toZ o x)) l))
          else Some (VVec l)
      | _ => None
      end
  | EArg (PLval t) nm =>
      if ety_is_int t then option_map (fun x => VNum (toZ o x)) (st_read st nm 0)
      else option_map VScal (st_read st nm 0)
  | EArg (PPtr t) nm => match lookup nm st with Some (AMem _ _ _) => Some (VPtr t nm) | _ => None end
  | EArg PInt nm => match lookup nm st with Some (ASize z) => Some (VNum z) | _ => None end
  | EAddr (EArg (PLval t) nm) =>
      match lookup nm st with Some (AMem _ _ _) => Some (VPtr t nm) | _ => None end
  | EAddr _ => None
  | EVar nm => lookup nm loc
  | EInt z => Some (VNum z)
  | EFlt n d => Some (VScal (rlit n d))
  | EBin op a b =>
      match eval a loc st, eval b loc st with
      | Some (VNum x), Some (VNum y) => Some (VNum (cbin op x y))
      | _, _ => None
      end
  | ECall I_mm256_xor_ps [EArg (PReg t n) a; EArg (PReg t' n') b] =>
      (* only the idiom x ^ x (identical operand) is modelled: all-zero bits = +0.0 *)
      match lookup a st with
      | Some (AReg l) =>
          if String.eqb a b && negb (ety_is_int t) && (zlen l =? 8) then Some (VVec (rep 8 (r0 o))) else None
      | _ => None
      end
  | ECall f args =>
      match (fix evs (l : list cexpr) : option (list (value R)) :=
               match l with
               | [] => Some []
               | a :: r => match eval a loc st, evs r with
                           | Some v, Some vs => Some (v :: vs)
                           | _, _ => None
                           end
               end) args with
      | Some vs => app_intrin f vs st
      | None => None
      end
  | ECast e' => eval e' loc st
  | EInit lanes l =>
      match (fix evs (l : list cexpr) : option (list R) :=
               match l with
               | [] => Some []
               | a :: r => match eval a loc st, evs r with
                           | Some (VScal x), Some xs => Some (x :: xs)
                           | Some (VNum z), Some xs => Some (rofZ z :: xs)
                           | _, _ => None
                           end
               end) l with
      | Some xs => if zlen xs <=? lanes then Some (VVec (xs ++ rep (lanes - zlen xs) (r0 o))) else None
      | None => None
      end
  end.

Definition eval_list (l : list cexpr) (loc : locals) (st : state R) : option (list (value R)) :=
  all_some (map (fun e => eval e loc st) l).

Definition assign_reg (t : ety) (n : Z) (nm : string) (v : value R) (st : state R) : option (state R) :=
  match lookup nm st with
  | Some (AReg _) =>
      match v with
      | VVec l => if negb (ety_is_int t) && (zlen l =? n) then update nm (AReg l) st else None
      | VInt _ _ | VMask _ _ =>
          match as_int v with
          | Some (w, l) =>
              let l' := relane w (ety_bits t) l in
              if ety_is_int t && (zlen l' =? n) then update nm (AReg (map (ofZ o) l')) st else None
          | None => None
          end
      | _ => None
      end
  | _ => None
  end.

Fixpoint set_local (nm : string) (v : value R) (loc : locals) : locals :=
  match loc with
  | [] => [(nm, v)]
  | (k, x) :: r => if String.eqb k nm then (k, v) :: r else (k, x) :: set_local nm v r
  end.

Fixpoint exec_cstmt (s : cstmt) (ls : option (locals * state R)) {struct s} : option (locals * state R) :=
  match ls with
  | None => None
  | Some (loc, st) =>
      match s with
      | SDecl nm e =>
          match eval e loc st with Some v => Some ((nm, v) :: loc, st) | None => None end
      | SAssign (EArg (PReg t n) nm) e =>
          match eval e loc st with
          | Some v => match assign_reg t n nm v st with Some st' => Some (loc, st') | None => None end
          | None => None
          end
      | SAssign (EVar nm) e =>
          match lookup nm loc, eval e loc st with
          | Some _, Some v => Some (set_local nm v loc, st)
          | _, _ => None
          end
      | SAssign _ _ => None
      | SDerefAdd p e =>
          match eval p loc st, eval e loc st with
          | Some (VPtr t nm), Some (VScal x) =>
              match st_read st nm 0 with
              | Some old => match st_write st nm 0 (radd o old x) with
                            | Some st' => Some (loc, st') | None => None end
              | None => None
              end
          | _, _ => None
          end
      | SExpr (ECall f args) =>
          match eval_list args loc st with
          | Some vs => match app_effect f vs st with Some st' => Some (loc, st') | None => None end
          | None => None
          end
      | SExpr _ => None
      | SBlock l =>
          (fix go (l : list cstmt) (ls : option (locals * state R)) :=
             match l with [] => ls | s' :: r => go r (exec_cstmt s' ls) end) l (Some (loc, st))
      end
  end.

Definition exec_frag (frag : list cstmt) (st : state R) : option (state R) :=
  option_map snd (fold_left (fun ls s => exec_cstmt s ls) frag (Some ([], st))).

Definition ienv := list (string * Z).

Fixpoint eval_iexpr (ie : ienv) (st : state R) (e : iexpr) : option Z :=
  match e with
  | IVar s => match lookup s ie with
              | Some z => Some z
              | None => match lookup s st with Some (ASize z) => Some z | _ => None end
              end
  | ILit z => Some z
  | IBin op a b =>
      match eval_iexpr ie st a, eval_iexpr ie st b with
      | Some x, Some y => Some (match op with IAdd => x + y | ISub => x - y | IMul => x * y end)
      | _, _ => None
      end
  end.

Fixpoint eval_bexpr (ie : ienv) (st : state R) (b : bexpr) : option bool :=
  match b with
  | BCmp op a c =>
      match eval_iexpr ie st a, eval_iexpr ie st c with
      | Some x, Some y =>
          Some (match op with CLt => x <? y | CLe => x <=? y | CGt => y <? x | CGe => y <=? x | CEq => x =? y end)
      | _, _ => None
      end
  | BAnd a c => match eval_bexpr ie st a, eval_bexpr ie st c with
                | Some x, Some y => Some (x && y) | _, _ => None end
  | BOr a c => match eval_bexpr ie st a, eval_bexpr ie st c with
               | Some x, Some y => Some (x || y) | _, _ => None end
  end.

(* a 1-D access x[i] or a scalar access x *)
Definition eval_idx (ie : ienv) (st : state R) (idx : list iexpr) : option Z :=
  match idx with
  | [] => Some 0
  | [e] => eval_iexpr ie st e
  | _ => None
  end.

Fixpoint eval_dexpr (ie : ienv) (st : state R) (e : dexpr) {struct e} : option R :=
  match e with
  | DRead nm idx => match eval_idx ie st idx with Some i => st_read st nm i | None => None end
  | DLit n d => Some (rlit n d)
  | DBin op a b =>
      match eval_dexpr ie st a, eval_dexpr ie st b with
      | Some x, Some y =>
          Some (match op with DAdd => radd o x y | DSub => rsub o x y | DMul => rmul o x y | DDiv => rdiv o x y end)
      | _, _ => None
      end
  | DNeg a => option_map (ropp o) (eval_dexpr ie st a)
  | DExt f args =>
      match f, args with
      | XSelect, [x; v; y; z] =>      (* externs.py: if (x < v) return y; else return z; *)
          match eval_dexpr ie st x, eval_dexpr ie st v, eval_dexpr ie st y, eval_dexpr ie st z with
          | Some x', Some v', Some y', Some z' => Some (if rltb o x' v' then y' else z')
          | _, _, _, _ => None
          end
      | XRelu, [x] =>                 (* externs.py: if (x > 0.0) return x; else return 0.0; *)
          match eval_dexpr ie st x with
          | Some x' => Some (if rltb o (r0 o) x' then x' else r0 o)
          | None => None
          end
      | _, _ => None
      end
  end.

Fixpoint exec_stmt (s : stmt) (ie : ienv) (ost : option (state R)) {struct s} : option (state R) :=
  match ost with
  | None => None
  | Some st =>
      let run := fix run (l : list stmt) (ie : ienv) (ost : option (state R)) {struct l} :=
                   match l with [] => ost | s' :: r => run r ie (exec_stmt s' ie ost) end in
      match s with
      | Assign nm idx e =>
          match eval_idx ie st idx, eval_dexpr ie st e with
          | Some i, Some v => st_write st nm i v
          | _, _ => None
          end
      | Reduce nm idx e =>
          match eval_idx ie st idx, eval_dexpr ie st e with
          | Some i, Some v =>
              match st_read st nm i with Some old => st_write st nm i (radd o old v) | None => None end
          | _, _ => None
          end
      | For i lo hi body =>
          match eval_iexpr ie st lo, eval_iexpr ie st hi with
          | Some l, Some h =>
              fold_left (fun acc k => run body ((i, k) :: ie) acc) (Zseq l (Z.to_nat (h - l))) (Some st)
          | _, _ => None
          end
      | If c body orelse =>
          match eval_bexpr ie st c with
          | Some true => run body ie (Some st)
          | Some false => run orelse ie (Some st)
          | None => None
          end
      | Pass => Some st
      end
  end.

Definition exec_body (body : list stmt) (st : state R) : option (state R) :=
  fold_left (fun acc s => exec_stmt s [] acc) body (Some st).

End Sem.

