(* C14 — Part 2: the ui16 instructions over the integer instance ZOps (lanes 0..65535, `+` unbounded,
          `/` = floor division: the value exo's scalar C stores for `x / 3.0` into a uint16_t);
   Part 3: refutations by witness states over ZOps (a commutative ring: [ring_ok_ZOps]);
   Examples: the hypotheses of every theorem are satisfiable. *)
From Coq Require Import ZArith List Bool String Lia Ring Ring_theory InitialRing.
From X86 Require Import Model Spec Gen_X86Instrs Tactics.
Import ListNotations.
Open Scope Z_scope.

(* ------------------------------------------------------------------ satisfiability of the hypotheses *)

Example ring_ok_ZOps : ring_ok ZOps.
Proof. exact Zth. Qed.

(* every instruction's precondition (argument shapes, positivity of sizes, its assertions, ui16 lane range)
   holds in the canonical state "all sizes 1, all elements 0" *)
Example pre_ok_satisfiable :
  Forall (fun I => pre_ok Z lane_u16 I (mk_state Z 0 (isig I))) all_instrs.
Proof.
  unfold all_instrs.
  repeat (apply Forall_cons;
          [ split; [ simpl; repeat (split; try reflexivity; try lia);
                     repeat (constructor; try (cbv [lane_u16]; lia))
                   | simpl; repeat (split; try reflexivity) ] | ]).
  apply Forall_nil.
Qed.

(* ------------------------------------------------------------------ Part 2: ui16 lanes *)

Ltac runZ :=
  cbv -[radd rmul rsub ropp r0 r1 rdiv rltb toZ ofZ rundef ZOps
        norm_lane adds_epu16_lane mulhi_epu16_lane srli_epi16_lane];
  cbv [radd rmul rsub ropp r0 r1 rdiv rltb toZ ofZ rundef ZOps].

Lemma norm_small : forall x, 0 <= x < 65536 -> norm_lane 16 x = x.
Proof. intros. unfold norm_lane. apply Z.mod_small. change (2^16) with 65536. lia. Qed.

(* complete sweep of the 65536 lane values *)
Fixpoint all_from (n : nat) (x : Z) (p : Z -> bool) : bool :=
  match n with O => true | S k => p x && all_from k (x + 1) p end.

Lemma all_from_spec : forall n x0 p, all_from n x0 p = true -> forall x, x0 <= x < x0 + Z.of_nat n -> p x = true.
Proof.
  induction n; simpl; intros x0 p H x Hx; [lia|].
  apply andb_true_iff in H. destruct H as [H1 H2].
  destruct (Z.eq_dec x x0); [subst; exact H1|]. apply (IHn (x0 + 1)); [exact H2|lia].
Qed.

Definition div3_frag_lane (x : Z) : Z :=
  srli_epi16_lane 1 (norm_lane 16 (mulhi_epu16_lane (norm_lane 16 x) 43691)).

Lemma div3_sweep : all_from (Z.to_nat 65536) 0 (fun x => div3_frag_lane x =? x / 3) = true.
Proof. vm_compute. reflexivity. Qed.

Lemma div3_lane : forall x, 0 <= x < 65536 -> div3_frag_lane x = x / 3.
Proof.
  intros x Hx. apply Z.eqb_eq.
  apply (all_from_spec _ _ _ div3_sweep). rewrite Z2Nat.id; lia.
Qed.

Ltac lane_hyps :=
  lanes_inv; cbv [lane_u16 lane_any] in *.

Ltac state_eqZ leaf :=
  lazymatch goal with
  | |- @eq (list _) (_ :: _) (_ :: _) => apply f_equal2; [state_eqZ leaf | state_eqZ leaf]
  | |- @eq (prod _ _) (_, _) (_, _) => apply f_equal2; [state_eqZ leaf | state_eqZ leaf]
  | |- AReg _ = AReg _ => apply f_equal; state_eqZ leaf
  | |- AMem _ _ _ = AMem _ _ _ => apply f_equal3; state_eqZ leaf
  | |- _ => first [reflexivity | leaf]
  end.

Lemma okZ_mm256_loadu_si256 : instr_ok Z ZOps lane_u16 instr_mm256_loadu_si256.
Proof.
  prep instr_mm256_loadu_si256. lane_hyps. runZ.
  state_eqZ ltac:(apply norm_small; assumption).
Qed.

Lemma okZ_mm256_storeu_si256 : instr_ok Z ZOps lane_u16 instr_mm256_storeu_si256.
Proof.
  prep instr_mm256_storeu_si256. lane_hyps. runZ.
  state_eqZ ltac:(apply norm_small; assumption).
Qed.

Lemma okZ_avx2_ui16_divide_by_3 : instr_ok Z ZOps lane_u16 instr_avx2_ui16_divide_by_3.
Proof.
  prep instr_avx2_ui16_divide_by_3. lane_hyps. runZ.
  change (1 + (1 + 1) * 1) with 3.
  state_eqZ ltac:(apply div3_lane; assumption).
Qed.

(* mm256_add_epi16 expands to the SATURATING _mm256_adds_epu16; it agrees with `x[i] + y[i]` only when no
   lane overflows *)
Definition no_overflow16 (st : state Z) : Prop :=
  forall xs ys, lookup "x" st = Some (AReg xs) -> lookup "y" st = Some (AReg ys) ->
                Forall2 (fun x y => x + y <= 65535) xs ys.

Lemma adds_no_overflow : forall x y, 0 <= x < 65536 -> 0 <= y < 65536 -> x + y <= 65535 ->
  adds_epu16_lane (norm_lane 16 x) (norm_lane 16 y) = x + y.
Proof.
  intros. rewrite !norm_small by assumption. unfold adds_epu16_lane.
  rewrite !Z.mod_small by lia. lia.
Qed.

Lemma partialZ_mm256_add_epi16 :
  forall st, pre_ok Z lane_u16 instr_mm256_add_epi16 st -> no_overflow16 st ->
             agree Z (exec_frag Z ZOps (ifrag instr_mm256_add_epi16) st)
                     (exec_body Z ZOps (ibody instr_mm256_add_epi16) st).
Proof.
  unfold no_overflow16. prep instr_mm256_add_epi16.
  match goal with H : forall xs ys, _ -> _ -> Forall2 _ xs ys |- _ => specialize (H _ _ eq_refl eq_refl) end.
  repeat match goal with H : Forall2 _ (_ :: _) (_ :: _) |- _ => inversion H; clear H; subst end.
  lane_hyps. runZ.
  state_eqZ ltac:(apply adds_no_overflow; assumption).
Qed.

Example no_overflow16_satisfiable :
  no_overflow16 (mk_state Z 0 (isig instr_mm256_add_epi16)).
Proof.
  intros xs ys Hx Hy. vm_compute in Hx, Hy. injection Hx as <-. injection Hy as <-.
  repeat constructor; discriminate.
Qed.

(* ------------------------------------------------------------------ Part 3: refutations *)

Ltac pre_tac :=
  split; [ simpl; repeat (split; try reflexivity; try lia); repeat constructor; cbv [lane_u16]; try lia
         | simpl; repeat (split; try reflexivity) ].

Ltac refute W :=
  exists W; split; [ pre_tac | vm_compute; let H := fresh "H" in intro H; first [exact H | discriminate H] ].

(* _mm512_mask_fmadd_ps(A, k, B, C) copies A (not C) into the lanes whose mask bit is clear *)
Definition W_mm512_mask_fmadd_ps : state Z :=
  [("N", ASize 1); ("A", AReg (rep 16 2)); ("B", AReg (rep 16 3)); ("C", AReg (rep 16 5))].
Lemma refuted_mm512_mask_fmadd_ps : instr_refuted Z ZOps lane_any instr_mm512_mask_fmadd_ps.
Proof. refute W_mm512_mask_fmadd_ps. Qed.

(* _mm512_maskz_loadu_ps zeroes the lanes >= N; the body leaves them unchanged *)
Definition W_mm512_maskz_loadu_ps : state Z :=
  [("N", ASize 1); ("dst", AReg (rep 16 7)); ("src", AMem [] [9] [])].
Lemma refuted_mm512_maskz_loadu_ps : instr_refuted Z ZOps lane_any instr_mm512_maskz_loadu_ps.
Proof. refute W_mm512_maskz_loadu_ps. Qed.

(* "mm512_mask_set1_ps" expands to the unmasked _mm512_set1_ps: lanes >= N are overwritten *)
Definition W_mm512_mask_set1_ps : state Z :=
  [("N", ASize 1); ("dst", AReg (rep 16 7)); ("src", AMem [] [9] [])].
Lemma refuted_mm512_mask_set1_ps : instr_refuted Z ZOps lane_any instr_mm512_mask_set1_ps.
Proof. refute W_mm512_mask_set1_ps. Qed.

(* _mm256_maskload_ps zeroes the lanes >= bound; the body leaves them unchanged *)
Definition W_mm256_prefix_load_ps : state Z :=
  [("dst", AReg (rep 8 7)); ("src", AMem [] (rep 8 9) []); ("bound", ASize 1)].
Lemma refuted_mm256_prefix_load_ps : instr_refuted Z ZOps lane_any instr_mm256_prefix_load_ps.
Proof. refute W_mm256_prefix_load_ps. Qed.

(* no upper bound on N is asserted: at N = 32 the x86 shift gives (1 << 32) - 1 = 0, no lane is written,
   while the body writes all 16 (the C expression is undefined behaviour from N = 31 on) *)
Definition W_mm512_mask_add_ps : state Z :=
  [("N", ASize 32); ("out", AReg (rep 16 0)); ("x", AReg (rep 16 1)); ("y", AReg (rep 16 1))].
Lemma refuted_mm512_mask_add_ps : instr_refuted Z ZOps lane_any instr_mm512_mask_add_ps.
Proof. refute W_mm512_mask_add_ps. Qed.

(* the fragment passes the float lvalue {rhs_data} where _mm256_fmadd_ps expects a __m256 (and multiplies
   dst by lhs instead of lhs by rhs): it has no meaning at all (gcc rejects it) *)
Definition W_mm256_fmadd_ps_broadcast : state Z :=
  [("dst", AReg (rep 8 1)); ("lhs", AReg (rep 8 1)); ("rhs", AMem [] [1] [])].
Lemma refuted_mm256_fmadd_ps_broadcast : instr_refuted Z ZOps lane_any instr_mm256_fmadd_ps_broadcast.
Proof. refute W_mm256_fmadd_ps_broadcast. Qed.

Lemma frag_ill_typed_mm256_fmadd_ps_broadcast :
  forall R (o : ROps R) st, exec_frag R o (ifrag instr_mm256_fmadd_ps_broadcast) st = None.
Proof.
  intros R o st. cbv [instr_mm256_fmadd_ps_broadcast ifrag exec_frag fold_left exec_cstmt].
  destruct (eval R o _ [] st) as [v|] eqn:E; [|reflexivity]. exfalso. revert E.
  cbv [eval]. fold (eval R o).
  destruct (lookup "dst" st) as [[ | | ]|]; try discriminate;
  destruct (lookup "lhs" st) as [[ | | ]|]; try discriminate;
  cbv [ety_is_int]; destruct (st_read R st "rhs" 0); cbv [option_map app_intrin vec3]; discriminate.
Qed.

(* saturating add: 65535 + 1 gives 65535, the body says 65536 *)
Definition W_mm256_add_epi16 : state Z :=
  [("out", AReg (rep 16 0)); ("x", AReg (rep 16 65535)); ("y", AReg (rep 16 1))].
Lemma refuted_mm256_add_epi16 : instr_refuted Z ZOps lane_u16 instr_mm256_add_epi16.
Proof. refute W_mm256_add_epi16. Qed.

(* ------------------------------------------------------------------ the extra hypotheses of the partial statements are satisfiable *)

Example when_satisfiable_mm512_mask_add_ps :
  exists st, pre_ok Z lane_any instr_mm512_mask_add_ps st /\
             eval_bexpr Z [] st (BCmp CLe (IVar "N") (ILit 30)) = Some true.
Proof.
  exists [("N", ASize 30); ("out", AReg (rep 16 0)); ("x", AReg (rep 16 1)); ("y", AReg (rep 16 1))].
  split; [pre_tac | reflexivity].
Qed.

Example prefix_satisfiable :
  (exists n, pre_ok Z lane_any instr_mm512_mask_fmadd_ps W_mm512_mask_fmadd_ps /\ lookup "N" W_mm512_mask_fmadd_ps = Some (ASize n)) /\
  (exists n, pre_ok Z lane_any instr_mm512_maskz_loadu_ps W_mm512_maskz_loadu_ps /\ lookup "N" W_mm512_maskz_loadu_ps = Some (ASize n)) /\
  (exists n, pre_ok Z lane_any instr_mm512_mask_set1_ps W_mm512_mask_set1_ps /\ lookup "N" W_mm512_mask_set1_ps = Some (ASize n)) /\
  (exists n, pre_ok Z lane_any instr_mm256_prefix_load_ps W_mm256_prefix_load_ps /\ lookup "bound" W_mm256_prefix_load_ps = Some (ASize n)).
Proof.
  repeat split; try (exists 1; split; [pre_tac | reflexivity]).
Qed.
