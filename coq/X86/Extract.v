(* C14 — extraction of the two interpreters and of the generated instruction / probe tables (ExtrOcamlBasic only).
   Instances: Q (exact rationals, kept reduced) for float lanes; ZOps for ui16 lanes. *)
Require Extraction.
Require Import ExtrOcamlBasic.
From Coq Require Import ZArith QArith List String.
From X86 Require Import Model Spec Gen_X86Instrs Gen_X86Probes.

Definition QOps : ROps Q := {|
  r0 := 0%Q; r1 := 1%Q;
  radd := fun a b => Qred (a + b); rsub := fun a b => Qred (a - b);
  rmul := fun a b => Qred (a * b); rdiv := fun a b => Qred (a / b);
  ropp := fun a => Qred (- a);
  rltb := fun a b => negb (Qle_bool b a);
  toZ := fun q => (Qnum q / Zpos (Qden q))%Z;
  ofZ := inject_Z;
  rundef := fun _ => 0%Q
|}.

Definition q_frag := exec_frag Q QOps.
Definition q_body := exec_body Q QOps.
Definition z_frag := exec_frag Z ZOps.
Definition z_body := exec_body Z ZOps.
Definition z_ten := 10%Z.

Cd "_build".
Extraction "x86model.ml" q_frag q_body z_frag z_body all_instrs all_probes z_ten
  Z.add Z.mul Z.opp Z.div_eucl Z.compare Z.of_nat Z.to_nat Qred.
Cd "..".
