(* C14 — Library instructions do what their Exo bodies say.  ONLY the property theorems.

   Every theorem is about a term of Gen_X86Instrs.v, which gen.py regenerates from exo/platforms/x86.py on every
   run: [ifrag I] is the parsed C format string, [ibody I] the LoopIR body exo built, [isig]/[ipreds] the
   argument declarations and (non-stride) assertions.

     instr_ok R o lane_ok I :=
       forall st, wf_env (isig I) st st /\ preds_hold (ipreds I) st ->
                  agree (exec_frag R o (ifrag I) st) (exec_body R o (ibody I) st)
     agree a b := both executions succeed and yield the same state (every operand, and every DRAM buffer in
                  full: the window [win] together with the rest [pre]/[post] of the underlying buffer).

   Float instructions: for every R and operations forming a commutative ring (real-number semantics; the
   order test, division, and the contents of ISA-undefined lanes are arbitrary).  ui16 instructions: over the
   integers (ZOps), every lane in 0..65535.

   To FLIP an instruction <I> after x86.py is repaired (done for avx2_mask_storeu_ps): in Proofs.v, inside Section
   Float, add     Lemma okS_<I> : instr_ok R o lane_any instr_<I>.  Proof. solve_instr instr_<I>. Qed.
   and after it   Lemma ok_<I> : forall R (o : ROps R), ring_ok o -> instr_ok R o lane_any instr_<I>.  Proof. lift okS_<I>. Qed.
   delete refuted_<I> / partial_<I> (they stop compiling, which is the signal) and replace the pair
   C14_<I>_refuted / C14_<I>_partial below by the full-strength statement
     "C14_<I> : forall R (o : ROps R), ring_ok o -> instr_ok R o lane_any instr_<I>"   proved by   exact ok_<I>. *)
From Coq Require Import ZArith List String.
From X86 Require Import Model Spec Gen_X86Instrs Proofs ProofsZ.
Import ListNotations.
Open Scope Z_scope.
Open Scope string_scope.

Theorem C14_prefetch : forall R (o : ROps R), ring_ok o -> instr_ok R o lane_any instr_prefetch.
Proof. exact ok_prefetch. Qed.
Print Assumptions C14_prefetch.

Theorem C14_mm256_setzero_ps : forall R (o : ROps R), ring_ok o -> instr_ok R o lane_any instr_mm256_setzero_ps.
Proof. exact ok_mm256_setzero_ps. Qed.
Print Assumptions C14_mm256_setzero_ps.

Theorem C14_mm256_setzero_pd : forall R (o : ROps R), ring_ok o -> instr_ok R o lane_any instr_mm256_setzero_pd.
Proof. exact ok_mm256_setzero_pd. Qed.
Print Assumptions C14_mm256_setzero_pd.

Theorem C14_mm256_loadu_ps : forall R (o : ROps R), ring_ok o -> instr_ok R o lane_any instr_mm256_loadu_ps.
Proof. exact ok_mm256_loadu_ps. Qed.
Print Assumptions C14_mm256_loadu_ps.

Theorem C14_mm256_loadu_pd : forall R (o : ROps R), ring_ok o -> instr_ok R o lane_any instr_mm256_loadu_pd.
Proof. exact ok_mm256_loadu_pd. Qed.
Print Assumptions C14_mm256_loadu_pd.

Theorem C14_mm256_storeu_ps : forall R (o : ROps R), ring_ok o -> instr_ok R o lane_any instr_mm256_storeu_ps.
Proof. exact ok_mm256_storeu_ps. Qed.
Print Assumptions C14_mm256_storeu_ps.

Theorem C14_mm256_storeu_pd : forall R (o : ROps R), ring_ok o -> instr_ok R o lane_any instr_mm256_storeu_pd.
Proof. exact ok_mm256_storeu_pd. Qed.
Print Assumptions C14_mm256_storeu_pd.

Theorem C14_mm256_fmadd_ps : forall R (o : ROps R), ring_ok o -> instr_ok R o lane_any instr_mm256_fmadd_ps.
Proof. exact ok_mm256_fmadd_ps. Qed.
Print Assumptions C14_mm256_fmadd_ps.

Theorem C14_mm256_fmadd_pd : forall R (o : ROps R), ring_ok o -> instr_ok R o lane_any instr_mm256_fmadd_pd.
Proof. exact ok_mm256_fmadd_pd. Qed.
Print Assumptions C14_mm256_fmadd_pd.

Theorem C14_mm256_broadcast_ss : forall R (o : ROps R), ring_ok o -> instr_ok R o lane_any instr_mm256_broadcast_ss.
Proof. exact ok_mm256_broadcast_ss. Qed.
Print Assumptions C14_mm256_broadcast_ss.

Theorem C14_mm256_broadcast_sd : forall R (o : ROps R), ring_ok o -> instr_ok R o lane_any instr_mm256_broadcast_sd.
Proof. exact ok_mm256_broadcast_sd. Qed.
Print Assumptions C14_mm256_broadcast_sd.

Theorem C14_mm256_broadcast_ss_scalar : forall R (o : ROps R), ring_ok o -> instr_ok R o lane_any instr_mm256_broadcast_ss_scalar.
Proof. exact ok_mm256_broadcast_ss_scalar. Qed.
Print Assumptions C14_mm256_broadcast_ss_scalar.

Theorem C14_mm256_broadcast_sd_scalar : forall R (o : ROps R), ring_ok o -> instr_ok R o lane_any instr_mm256_broadcast_sd_scalar.
Proof. exact ok_mm256_broadcast_sd_scalar. Qed.
Print Assumptions C14_mm256_broadcast_sd_scalar.

Theorem C14_mm256_mul_ps : forall R (o : ROps R), ring_ok o -> instr_ok R o lane_any instr_mm256_mul_ps.
Proof. exact ok_mm256_mul_ps. Qed.
Print Assumptions C14_mm256_mul_ps.

Theorem C14_mm256_mul_pd : forall R (o : ROps R), ring_ok o -> instr_ok R o lane_any instr_mm256_mul_pd.
Proof. exact ok_mm256_mul_pd. Qed.
Print Assumptions C14_mm256_mul_pd.

Theorem C14_mm256_div_ps : forall R (o : ROps R), ring_ok o -> instr_ok R o lane_any instr_mm256_div_ps.
Proof. exact ok_mm256_div_ps. Qed.
Print Assumptions C14_mm256_div_ps.

Theorem C14_mm256_div_pd : forall R (o : ROps R), ring_ok o -> instr_ok R o lane_any instr_mm256_div_pd.
Proof. exact ok_mm256_div_pd. Qed.
Print Assumptions C14_mm256_div_pd.

Theorem C14_mm256_add_ps : forall R (o : ROps R), ring_ok o -> instr_ok R o lane_any instr_mm256_add_ps.
Proof. exact ok_mm256_add_ps. Qed.
Print Assumptions C14_mm256_add_ps.

Theorem C14_mm256_add_pd : forall R (o : ROps R), ring_ok o -> instr_ok R o lane_any instr_mm256_add_pd.
Proof. exact ok_mm256_add_pd. Qed.
Print Assumptions C14_mm256_add_pd.

Theorem C14_mm256_sub_ps : forall R (o : ROps R), ring_ok o -> instr_ok R o lane_any instr_mm256_sub_ps.
Proof. exact ok_mm256_sub_ps. Qed.
Print Assumptions C14_mm256_sub_ps.

Theorem C14_mm256_sub_pd : forall R (o : ROps R), ring_ok o -> instr_ok R o lane_any instr_mm256_sub_pd.
Proof. exact ok_mm256_sub_pd. Qed.
Print Assumptions C14_mm256_sub_pd.

Theorem C14_mm512_setzero_ps : forall R (o : ROps R), ring_ok o -> instr_ok R o lane_any instr_mm512_setzero_ps.
Proof. exact ok_mm512_setzero_ps. Qed.
Print Assumptions C14_mm512_setzero_ps.

Theorem C14_mm512_add_ps : forall R (o : ROps R), ring_ok o -> instr_ok R o lane_any instr_mm512_add_ps.
Proof. exact ok_mm512_add_ps. Qed.
Print Assumptions C14_mm512_add_ps.

Theorem C14_mm512_loadu_ps : forall R (o : ROps R), ring_ok o -> instr_ok R o lane_any instr_mm512_loadu_ps.
Proof. exact ok_mm512_loadu_ps. Qed.
Print Assumptions C14_mm512_loadu_ps.

Theorem C14_mm512_storeu_ps : forall R (o : ROps R), ring_ok o -> instr_ok R o lane_any instr_mm512_storeu_ps.
Proof. exact ok_mm512_storeu_ps. Qed.
Print Assumptions C14_mm512_storeu_ps.

Theorem C14_mm512_mask_storeu_ps : forall R (o : ROps R), ring_ok o -> instr_ok R o lane_any instr_mm512_mask_storeu_ps.
Proof. exact ok_mm512_mask_storeu_ps. Qed.
Print Assumptions C14_mm512_mask_storeu_ps.

Theorem C14_mm512_fmadd_ps : forall R (o : ROps R), ring_ok o -> instr_ok R o lane_any instr_mm512_fmadd_ps.
Proof. exact ok_mm512_fmadd_ps. Qed.
Print Assumptions C14_mm512_fmadd_ps.

Theorem C14_mm512_relu_ps : forall R (o : ROps R), ring_ok o -> instr_ok R o lane_any instr_mm512_relu_ps.
Proof. exact ok_mm512_relu_ps. Qed.
Print Assumptions C14_mm512_relu_ps.

Theorem C14_mm512_set1_ps : forall R (o : ROps R), ring_ok o -> instr_ok R o lane_any instr_mm512_set1_ps.
Proof. exact ok_mm512_set1_ps. Qed.
Print Assumptions C14_mm512_set1_ps.

Theorem C14_avx2_set0_ps : forall R (o : ROps R), ring_ok o -> instr_ok R o lane_any instr_avx2_set0_ps.
Proof. exact ok_avx2_set0_ps. Qed.
Print Assumptions C14_avx2_set0_ps.

Theorem C14_avx2_fmadd_memu_ps : forall R (o : ROps R), ring_ok o -> instr_ok R o lane_any instr_avx2_fmadd_memu_ps.
Proof. exact ok_avx2_fmadd_memu_ps. Qed.
Print Assumptions C14_avx2_fmadd_memu_ps.

Theorem C14_avx2_select_ps : forall R (o : ROps R), ring_ok o -> instr_ok R o lane_any instr_avx2_select_ps.
Proof. exact ok_avx2_select_ps. Qed.
Print Assumptions C14_avx2_select_ps.

Theorem C14_avx2_select_pd : forall R (o : ROps R), ring_ok o -> instr_ok R o lane_any instr_avx2_select_pd.
Proof. exact ok_avx2_select_pd. Qed.
Print Assumptions C14_avx2_select_pd.

Theorem C14_avx2_assoc_reduce_add_ps : forall R (o : ROps R), ring_ok o -> instr_ok R o lane_any instr_avx2_assoc_reduce_add_ps.
Proof. exact ok_avx2_assoc_reduce_add_ps. Qed.
Print Assumptions C14_avx2_assoc_reduce_add_ps.

Theorem C14_avx2_assoc_reduce_add_pd : forall R (o : ROps R), ring_ok o -> instr_ok R o lane_any instr_avx2_assoc_reduce_add_pd.
Proof. exact ok_avx2_assoc_reduce_add_pd. Qed.
Print Assumptions C14_avx2_assoc_reduce_add_pd.

Theorem C14_avx2_sign_ps : forall R (o : ROps R), ring_ok o -> instr_ok R o lane_any instr_avx2_sign_ps.
Proof. exact ok_avx2_sign_ps. Qed.
Print Assumptions C14_avx2_sign_ps.

Theorem C14_avx2_sign_pd : forall R (o : ROps R), ring_ok o -> instr_ok R o lane_any instr_avx2_sign_pd.
Proof. exact ok_avx2_sign_pd. Qed.
Print Assumptions C14_avx2_sign_pd.

Theorem C14_avx2_reduce_add_wide_ps : forall R (o : ROps R), ring_ok o -> instr_ok R o lane_any instr_avx2_reduce_add_wide_ps.
Proof. exact ok_avx2_reduce_add_wide_ps. Qed.
Print Assumptions C14_avx2_reduce_add_wide_ps.

Theorem C14_avx2_reduce_add_wide_pd : forall R (o : ROps R), ring_ok o -> instr_ok R o lane_any instr_avx2_reduce_add_wide_pd.
Proof. exact ok_avx2_reduce_add_wide_pd. Qed.
Print Assumptions C14_avx2_reduce_add_wide_pd.

Theorem C14_avx2_reg_copy_ps : forall R (o : ROps R), ring_ok o -> instr_ok R o lane_any instr_avx2_reg_copy_ps.
Proof. exact ok_avx2_reg_copy_ps. Qed.
Print Assumptions C14_avx2_reg_copy_ps.

Theorem C14_avx2_reg_copy_pd : forall R (o : ROps R), ring_ok o -> instr_ok R o lane_any instr_avx2_reg_copy_pd.
Proof. exact ok_avx2_reg_copy_pd. Qed.
Print Assumptions C14_avx2_reg_copy_pd.

Theorem C14_mm256_prefix_store_ps : forall R (o : ROps R), ring_ok o -> instr_ok R o lane_any instr_mm256_prefix_store_ps.
Proof. exact ok_mm256_prefix_store_ps. Qed.
Print Assumptions C14_mm256_prefix_store_ps.

Theorem C14_mm256_prefix_add_ps : forall R (o : ROps R), ring_ok o -> instr_ok R o lane_any instr_mm256_prefix_add_ps.
Proof. exact ok_mm256_prefix_add_ps. Qed.
Print Assumptions C14_mm256_prefix_add_ps.

Theorem C14_mm256_prefix_mul_ps : forall R (o : ROps R), ring_ok o -> instr_ok R o lane_any instr_mm256_prefix_mul_ps.
Proof. exact ok_mm256_prefix_mul_ps. Qed.
Print Assumptions C14_mm256_prefix_mul_ps.

Theorem C14_mm256_prefix_sub_ps : forall R (o : ROps R), ring_ok o -> instr_ok R o lane_any instr_mm256_prefix_sub_ps.
Proof. exact ok_mm256_prefix_sub_ps. Qed.
Print Assumptions C14_mm256_prefix_sub_ps.

Theorem C14_mm256_prefix_div_ps : forall R (o : ROps R), ring_ok o -> instr_ok R o lane_any instr_mm256_prefix_div_ps.
Proof. exact ok_mm256_prefix_div_ps. Qed.
Print Assumptions C14_mm256_prefix_div_ps.

Theorem C14_mm256_prefix_broadcast_ss : forall R (o : ROps R), ring_ok o -> instr_ok R o lane_any instr_mm256_prefix_broadcast_ss.
Proof. exact ok_mm256_prefix_broadcast_ss. Qed.
Print Assumptions C14_mm256_prefix_broadcast_ss.

Theorem C14_avx2_convert_f32_lower_to_f64 : forall R (o : ROps R), ring_ok o -> instr_ok R o lane_any instr_avx2_convert_f32_lower_to_f64.
Proof. exact ok_avx2_convert_f32_lower_to_f64. Qed.
Print Assumptions C14_avx2_convert_f32_lower_to_f64.

Theorem C14_avx2_convert_f32_upper_to_f64 : forall R (o : ROps R), ring_ok o -> instr_ok R o lane_any instr_avx2_convert_f32_upper_to_f64.
Proof. exact ok_avx2_convert_f32_upper_to_f64. Qed.
Print Assumptions C14_avx2_convert_f32_upper_to_f64.

(* ------------------------------------------------------------------ ui16 lanes (integers, 0..65535) *)

Theorem C14_mm256_loadu_si256 :
  instr_ok Z ZOps lane_u16 instr_mm256_loadu_si256.
Proof. exact okZ_mm256_loadu_si256. Qed.
Print Assumptions C14_mm256_loadu_si256.

Theorem C14_mm256_storeu_si256 :
  instr_ok Z ZOps lane_u16 instr_mm256_storeu_si256.
Proof. exact okZ_mm256_storeu_si256. Qed.
Print Assumptions C14_mm256_storeu_si256.

(* body `x / 3.0` read as floor division (what exo's scalar C stores into a uint16_t); complete sweep of 0..65535 *)
Theorem C14_avx2_ui16_divide_by_3 :
  instr_ok Z ZOps lane_u16 instr_avx2_ui16_divide_by_3.
Proof. exact okZ_avx2_ui16_divide_by_3. Qed.
Print Assumptions C14_avx2_ui16_divide_by_3.

Theorem C14_avx2_ui16_divide_by_3_lane :
  forall x, 0 <= x < 65536 -> div3_frag_lane x = x / 3.
Proof. exact div3_lane. Qed.
Print Assumptions C14_avx2_ui16_divide_by_3_lane.

(* ------------------------------------------------------------------ refuted instructions *)
(* the witnesses live in ZOps, a commutative ring: *)
Theorem C14_ZOps_is_a_ring :
  ring_ok ZOps.
Proof. exact ring_ok_ZOps. Qed.
Print Assumptions C14_ZOps_is_a_ring.

(* was refuted (mask built with _mm256_set1_epi8((1<<N)-1): all lanes or none); repaired in /repo by
   "fix: avx2_mask_storeu_ps must store the first N lanes" and now proved at full strength for every 1 <= N <= 8 *)
Theorem C14_avx2_mask_storeu_ps : forall R (o : ROps R), ring_ok o -> instr_ok R o lane_any instr_avx2_mask_storeu_ps.
Proof. exact ok_avx2_mask_storeu_ps. Qed.
Print Assumptions C14_avx2_mask_storeu_ps.

(* _mm512_mask_fmadd_ps copies A, not C, into the unselected lanes; the first N lanes are right *)
Theorem C14_mm512_mask_fmadd_ps_refuted :
  instr_refuted Z ZOps lane_any instr_mm512_mask_fmadd_ps.
Proof. exact refuted_mm512_mask_fmadd_ps. Qed.
Print Assumptions C14_mm512_mask_fmadd_ps_refuted.

Theorem C14_mm512_mask_fmadd_ps_partial :
  forall R (o : ROps R), ring_ok o ->
  instr_ok_prefix R o lane_any instr_mm512_mask_fmadd_ps "C" "N".
Proof. exact partial_mm512_mask_fmadd_ps. Qed.
Print Assumptions C14_mm512_mask_fmadd_ps_partial.

(* maskz load zeroes lanes >= N, the body keeps them *)
Theorem C14_mm512_maskz_loadu_ps_refuted :
  instr_refuted Z ZOps lane_any instr_mm512_maskz_loadu_ps.
Proof. exact refuted_mm512_maskz_loadu_ps. Qed.
Print Assumptions C14_mm512_maskz_loadu_ps_refuted.

Theorem C14_mm512_maskz_loadu_ps_partial :
  forall R (o : ROps R), ring_ok o ->
  instr_ok_prefix R o lane_any instr_mm512_maskz_loadu_ps "dst" "N".
Proof. exact partial_mm512_maskz_loadu_ps. Qed.
Print Assumptions C14_mm512_maskz_loadu_ps_partial.

(* unmasked _mm512_set1_ps overwrites lanes >= N, the body keeps them *)
Theorem C14_mm512_mask_set1_ps_refuted :
  instr_refuted Z ZOps lane_any instr_mm512_mask_set1_ps.
Proof. exact refuted_mm512_mask_set1_ps. Qed.
Print Assumptions C14_mm512_mask_set1_ps_refuted.

Theorem C14_mm512_mask_set1_ps_partial :
  forall R (o : ROps R), ring_ok o ->
  instr_ok_prefix R o lane_any instr_mm512_mask_set1_ps "dst" "N".
Proof. exact partial_mm512_mask_set1_ps. Qed.
Print Assumptions C14_mm512_mask_set1_ps_partial.

(* _mm256_maskload_ps zeroes lanes >= bound, the body keeps them *)
Theorem C14_mm256_prefix_load_ps_refuted :
  instr_refuted Z ZOps lane_any instr_mm256_prefix_load_ps.
Proof. exact refuted_mm256_prefix_load_ps. Qed.
Print Assumptions C14_mm256_prefix_load_ps_refuted.

Theorem C14_mm256_prefix_load_ps_partial :
  forall R (o : ROps R), ring_ok o ->
  instr_ok_prefix R o lane_any instr_mm256_prefix_load_ps "dst" "bound".
Proof. exact partial_mm256_prefix_load_ps. Qed.
Print Assumptions C14_mm256_prefix_load_ps_partial.

(* N has no asserted upper bound; (1 << N) - 1 is all-ones on the low 16 bits only up to N = 31 (and defined C only up to 30) *)
Theorem C14_mm512_mask_add_ps_refuted :
  instr_refuted Z ZOps lane_any instr_mm512_mask_add_ps.
Proof. exact refuted_mm512_mask_add_ps. Qed.
Print Assumptions C14_mm512_mask_add_ps_refuted.

Theorem C14_mm512_mask_add_ps_partial :
  forall R (o : ROps R), ring_ok o ->
  instr_ok_when R o lane_any instr_mm512_mask_add_ps (BCmp CLe (IVar "N") (ILit 30)).
Proof. exact partial_mm512_mask_add_ps. Qed.
Print Assumptions C14_mm512_mask_add_ps_partial.

(* ill-typed fragment (float passed as __m256; wrong operand order): no state on which it has a meaning, so no partial statement *)
Theorem C14_mm256_fmadd_ps_broadcast_refuted :
  instr_refuted Z ZOps lane_any instr_mm256_fmadd_ps_broadcast.
Proof. exact refuted_mm256_fmadd_ps_broadcast. Qed.
Print Assumptions C14_mm256_fmadd_ps_broadcast_refuted.

Theorem C14_mm256_fmadd_ps_broadcast_never_runs :
  forall R (o : ROps R) st, exec_frag R o (ifrag instr_mm256_fmadd_ps_broadcast) st = None.
Proof. exact frag_ill_typed_mm256_fmadd_ps_broadcast. Qed.
Print Assumptions C14_mm256_fmadd_ps_broadcast_never_runs.

(* saturating _mm256_adds_epu16 against `x[i] + y[i]` *)
Theorem C14_mm256_add_epi16_refuted :
  instr_refuted Z ZOps lane_u16 instr_mm256_add_epi16.
Proof. exact refuted_mm256_add_epi16. Qed.
Print Assumptions C14_mm256_add_epi16_refuted.

Theorem C14_mm256_add_epi16_partial :
  forall st, pre_ok Z lane_u16 instr_mm256_add_epi16 st -> no_overflow16 st ->
  agree Z (exec_frag Z ZOps (ifrag instr_mm256_add_epi16) st) (exec_body Z ZOps (ibody instr_mm256_add_epi16) st).
Proof. exact partialZ_mm256_add_epi16. Qed.
Print Assumptions C14_mm256_add_epi16_partial.
