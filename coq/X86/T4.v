From Coq Require Import ZArith List Bool String.
From X86 Require Import Model Spec Gen_X86Instrs.
Import ListNotations.
Open Scope Z_scope.
Open Scope string_scope.
Definition st0 : state Z := [("x", AReg [1;2;3;4;5;6;7;8]); ("result", AMem [] [100] [])].
Eval vm_compute in exec_frag Z ZOps (ifrag instr_avx2_assoc_reduce_add_ps) st0.
Eval vm_compute in exec_body Z ZOps (ibody instr_avx2_assoc_reduce_add_ps) st0.
Eval vm_compute in eval Z ZOps (ECall I_mm256_hadd_ps [(EArg (PReg F32 8) "x"); (EArg (PReg F32 8) "x")]) [] st0.
Eval vm_compute in exec_cstmt Z ZOps (SDecl "tmp" (ECall I_mm256_hadd_ps [(EArg (PReg F32 8) "x"); (EArg (PReg F32 8) "x")])) (Some ([], st0)).
Eval vm_compute in exec_cstmt Z ZOps (SBlock [SDecl "tmp" (ECall I_mm256_hadd_ps [(EArg (PReg F32 8) "x"); (EArg (PReg F32 8) "x")]); (SAssign (EVar "tmp") (ECall I_mm256_hadd_ps [(EVar "tmp"); (EVar "tmp")]))]) (Some ([], st0)).
Definition loc1 : locals Z := [("tmp", VVec [10; 10; 10; 10; 26; 26; 26; 26])].
Eval vm_compute in eval Z ZOps (ECall I_mm256_castps128_ps256 [(ECall I_mm256_extractf128_ps [(EVar "tmp"); (EInt 1)])]) loc1 st0.
Eval vm_compute in eval Z ZOps ((ECall I_mm256_extractf128_ps [(EVar "tmp"); (EInt 1)])) loc1 st0.
Eval vm_compute in eval Z ZOps (ECall I_mm256_cvtss_f32 [(EVar "tmp")]) loc1 st0.
Eval vm_compute in exec_cstmt Z ZOps (SDerefAdd (EArg (PPtr F32) "result") (ECall I_mm256_cvtss_f32 [(EVar "tmp")])) (Some (loc1, st0)).
