(* C14 — proofs about the GENERATED terms of Gen_X86Instrs.v.
   Part 1: every float instruction, for an arbitrary commutative ring R (Section variables; the bundled
           statements "forall R (o : ROps R), ring_ok o -> ..." are derived by [lift_ops]).
   Part 2: the ui16 instructions over the integer instance ZOps.
   Part 3: refutations (witness states over ZOps, which is a commutative ring: [ring_ok_ZOps]). *)
From Coq Require Import ZArith List Bool String Lia Ring Ring_theory.
From X86 Require Import Model Spec Gen_X86Instrs Tactics.
Import ListNotations.
Open Scope Z_scope.

(* ------------------------------------------------------------------ Part 1: float lanes in a commutative ring *)
Section Float.
Variable R : Type.
Variables (e0 e1 : R) (add sub mul div : R -> R -> R) (opp : R -> R) (ltb : R -> R -> bool)
          (tz : R -> Z) (oz : Z -> R) (und : Z -> R).
Hypothesis Hring : ring_theory e0 e1 add mul sub opp (@eq R).
Add Ring Rr : Hring.
Let o : ROps R := {| r0 := e0; r1 := e1; radd := add; rsub := sub; rmul := mul; rdiv := div; ropp := opp;
                     rltb := ltb; toZ := tz; ofZ := oz; rundef := und |}.

Ltac state_eq :=
  lazymatch goal with
  | |- @eq (list _) (_ :: _) (_ :: _) => apply f_equal2; [state_eq | state_eq]
  | |- @eq (prod _ _) (_, _) (_, _) => apply f_equal2; [state_eq | state_eq]
  | |- AReg _ = AReg _ => apply f_equal; state_eq
  | |- AMem _ _ _ = AMem _ _ _ => apply f_equal3; state_eq
  | |- _ => first [reflexivity | ring]
  end.
(* destruct the permitted state to concrete shape, enumerate the sizes, run both interpreters, compare *)
Ltac solve_instr I := prep I; vm_compute; state_eq.

Lemma okS_prefetch : instr_ok R o lane_any instr_prefetch.
Proof. solve_instr instr_prefetch. Qed.

Lemma okS_mm256_setzero_ps : instr_ok R o lane_any instr_mm256_setzero_ps.
Proof. solve_instr instr_mm256_setzero_ps. Qed.

Lemma okS_mm256_setzero_pd : instr_ok R o lane_any instr_mm256_setzero_pd.
Proof. solve_instr instr_mm256_setzero_pd. Qed.

Lemma okS_mm256_loadu_ps : instr_ok R o lane_any instr_mm256_loadu_ps.
Proof. solve_instr instr_mm256_loadu_ps. Qed.

Lemma okS_mm256_loadu_pd : instr_ok R o lane_any instr_mm256_loadu_pd.
Proof. solve_instr instr_mm256_loadu_pd. Qed.

Lemma okS_mm256_storeu_ps : instr_ok R o lane_any instr_mm256_storeu_ps.
Proof. solve_instr instr_mm256_storeu_ps. Qed.

Lemma okS_mm256_storeu_pd : instr_ok R o lane_any instr_mm256_storeu_pd.
Proof. solve_instr instr_mm256_storeu_pd. Qed.

Lemma okS_mm256_fmadd_ps : instr_ok R o lane_any instr_mm256_fmadd_ps.
Proof. solve_instr instr_mm256_fmadd_ps. Qed.

Lemma okS_mm256_fmadd_pd : instr_ok R o lane_any instr_mm256_fmadd_pd.
Proof. solve_instr instr_mm256_fmadd_pd. Qed.

Lemma okS_mm256_broadcast_ss : instr_ok R o lane_any instr_mm256_broadcast_ss.
Proof. solve_instr instr_mm256_broadcast_ss. Qed.

Lemma okS_mm256_broadcast_sd : instr_ok R o lane_any instr_mm256_broadcast_sd.
Proof. solve_instr instr_mm256_broadcast_sd. Qed.

Lemma okS_mm256_broadcast_ss_scalar : instr_ok R o lane_any instr_mm256_broadcast_ss_scalar.
Proof. solve_instr instr_mm256_broadcast_ss_scalar. Qed.

Lemma okS_mm256_broadcast_sd_scalar : instr_ok R o lane_any instr_mm256_broadcast_sd_scalar.
Proof. solve_instr instr_mm256_broadcast_sd_scalar. Qed.

Lemma okS_mm256_mul_ps : instr_ok R o lane_any instr_mm256_mul_ps.
Proof. solve_instr instr_mm256_mul_ps. Qed.

Lemma okS_mm256_mul_pd : instr_ok R o lane_any instr_mm256_mul_pd.
Proof. solve_instr instr_mm256_mul_pd. Qed.

Lemma okS_mm256_div_ps : instr_ok R o lane_any instr_mm256_div_ps.
Proof. solve_instr instr_mm256_div_ps. Qed.

Lemma okS_mm256_div_pd : instr_ok R o lane_any instr_mm256_div_pd.
Proof. solve_instr instr_mm256_div_pd. Qed.

Lemma okS_mm256_add_ps : instr_ok R o lane_any instr_mm256_add_ps.
Proof. solve_instr instr_mm256_add_ps. Qed.

Lemma okS_mm256_add_pd : instr_ok R o lane_any instr_mm256_add_pd.
Proof. solve_instr instr_mm256_add_pd. Qed.

Lemma okS_mm256_sub_ps : instr_ok R o lane_any instr_mm256_sub_ps.
Proof. solve_instr instr_mm256_sub_ps. Qed.

Lemma okS_mm256_sub_pd : instr_ok R o lane_any instr_mm256_sub_pd.
Proof. solve_instr instr_mm256_sub_pd. Qed.

Lemma okS_mm512_setzero_ps : instr_ok R o lane_any instr_mm512_setzero_ps.
Proof. solve_instr instr_mm512_setzero_ps. Qed.

Lemma okS_mm512_add_ps : instr_ok R o lane_any instr_mm512_add_ps.
Proof. solve_instr instr_mm512_add_ps. Qed.

Lemma okS_mm512_loadu_ps : instr_ok R o lane_any instr_mm512_loadu_ps.
Proof. solve_instr instr_mm512_loadu_ps. Qed.

Lemma okS_mm512_storeu_ps : instr_ok R o lane_any instr_mm512_storeu_ps.
Proof. solve_instr instr_mm512_storeu_ps. Qed.

Lemma okS_mm512_mask_storeu_ps : instr_ok R o lane_any instr_mm512_mask_storeu_ps.
Proof. solve_instr instr_mm512_mask_storeu_ps. Qed.

Lemma okS_mm512_fmadd_ps : instr_ok R o lane_any instr_mm512_fmadd_ps.
Proof. solve_instr instr_mm512_fmadd_ps. Qed.

Lemma okS_mm512_relu_ps : instr_ok R o lane_any instr_mm512_relu_ps.
Proof. solve_instr instr_mm512_relu_ps. Qed.

Lemma okS_mm512_set1_ps : instr_ok R o lane_any instr_mm512_set1_ps.
Proof. solve_instr instr_mm512_set1_ps. Qed.

Lemma okS_avx2_set0_ps : instr_ok R o lane_any instr_avx2_set0_ps.
Proof. solve_instr instr_avx2_set0_ps. Qed.

Lemma okS_avx2_fmadd_memu_ps : instr_ok R o lane_any instr_avx2_fmadd_memu_ps.
Proof. solve_instr instr_avx2_fmadd_memu_ps. Qed.

Lemma okS_avx2_select_ps : instr_ok R o lane_any instr_avx2_select_ps.
Proof. solve_instr instr_avx2_select_ps. Qed.

Lemma okS_avx2_select_pd : instr_ok R o lane_any instr_avx2_select_pd.
Proof. solve_instr instr_avx2_select_pd. Qed.

Lemma okS_avx2_assoc_reduce_add_ps : instr_ok R o lane_any instr_avx2_assoc_reduce_add_ps.
Proof. solve_instr instr_avx2_assoc_reduce_add_ps. Qed.

Lemma okS_avx2_assoc_reduce_add_pd : instr_ok R o lane_any instr_avx2_assoc_reduce_add_pd.
Proof. solve_instr instr_avx2_assoc_reduce_add_pd. Qed.

Lemma okS_avx2_sign_ps : instr_ok R o lane_any instr_avx2_sign_ps.
Proof. solve_instr instr_avx2_sign_ps. Qed.

Lemma okS_avx2_sign_pd : instr_ok R o lane_any instr_avx2_sign_pd.
Proof. solve_instr instr_avx2_sign_pd. Qed.

Lemma okS_avx2_reduce_add_wide_ps : instr_ok R o lane_any instr_avx2_reduce_add_wide_ps.
Proof. solve_instr instr_avx2_reduce_add_wide_ps. Qed.

Lemma okS_avx2_reduce_add_wide_pd : instr_ok R o lane_any instr_avx2_reduce_add_wide_pd.
Proof. solve_instr instr_avx2_reduce_add_wide_pd. Qed.

Lemma okS_avx2_reg_copy_ps : instr_ok R o lane_any instr_avx2_reg_copy_ps.
Proof. solve_instr instr_avx2_reg_copy_ps. Qed.

Lemma okS_avx2_reg_copy_pd : instr_ok R o lane_any instr_avx2_reg_copy_pd.
Proof. solve_instr instr_avx2_reg_copy_pd. Qed.

Lemma okS_mm256_prefix_store_ps : instr_ok R o lane_any instr_mm256_prefix_store_ps.
Proof. solve_instr instr_mm256_prefix_store_ps. Qed.

Lemma okS_mm256_prefix_add_ps : instr_ok R o lane_any instr_mm256_prefix_add_ps.
Proof. solve_instr instr_mm256_prefix_add_ps. Qed.

Lemma okS_mm256_prefix_mul_ps : instr_ok R o lane_any instr_mm256_prefix_mul_ps.
Proof. solve_instr instr_mm256_prefix_mul_ps. Qed.

Lemma okS_mm256_prefix_sub_ps : instr_ok R o lane_any instr_mm256_prefix_sub_ps.
Proof. solve_instr instr_mm256_prefix_sub_ps. Qed.

Lemma okS_mm256_prefix_div_ps : instr_ok R o lane_any instr_mm256_prefix_div_ps.
Proof. solve_instr instr_mm256_prefix_div_ps. Qed.

Lemma okS_mm256_prefix_broadcast_ss : instr_ok R o lane_any instr_mm256_prefix_broadcast_ss.
Proof. solve_instr instr_mm256_prefix_broadcast_ss. Qed.

Lemma okS_avx2_convert_f32_lower_to_f64 : instr_ok R o lane_any instr_avx2_convert_f32_lower_to_f64.
Proof. solve_instr instr_avx2_convert_f32_lower_to_f64. Qed.

Lemma okS_avx2_convert_f32_upper_to_f64 : instr_ok R o lane_any instr_avx2_convert_f32_upper_to_f64.
Proof. solve_instr instr_avx2_convert_f32_upper_to_f64. Qed.

(* partial statements next to the refutations of Part 3 *)
Lemma partS_mm512_mask_add_ps :
  instr_ok_when R o lane_any instr_mm512_mask_add_ps (BCmp CLe (IVar "N") (ILit 30)).
Proof. solve_instr instr_mm512_mask_add_ps. Qed.

(* repaired in /repo (fix: avx2_mask_storeu_ps must store the first N lanes): full strength, every N <= 8 *)
Lemma okS_avx2_mask_storeu_ps : instr_ok R o lane_any instr_avx2_mask_storeu_ps.
Proof. solve_instr instr_avx2_mask_storeu_ps. Qed.

Lemma partS_mm512_maskz_loadu_ps : instr_ok_prefix R o lane_any instr_mm512_maskz_loadu_ps "dst" "N".
Proof. solve_instr instr_mm512_maskz_loadu_ps. Qed.

Lemma partS_mm512_mask_fmadd_ps : instr_ok_prefix R o lane_any instr_mm512_mask_fmadd_ps "C" "N".
Proof. solve_instr instr_mm512_mask_fmadd_ps. Qed.

Lemma partS_mm512_mask_set1_ps : instr_ok_prefix R o lane_any instr_mm512_mask_set1_ps "dst" "N".
Proof. solve_instr instr_mm512_mask_set1_ps. Qed.

Lemma partS_mm256_prefix_load_ps : instr_ok_prefix R o lane_any instr_mm256_prefix_load_ps "dst" "bound".
Proof. solve_instr instr_mm256_prefix_load_ps. Qed.

End Float.

(* from "for all operations forming a ring" to "for every ROps record that is a ring" *)
Ltac lift L := intros R [ ] Hr; first [ eapply L; exact Hr | eapply L ].

Lemma ok_prefetch : forall R (o : ROps R), ring_ok o -> instr_ok R o lane_any instr_prefetch.
Proof. lift okS_prefetch. Qed.

Lemma ok_mm256_setzero_ps : forall R (o : ROps R), ring_ok o -> instr_ok R o lane_any instr_mm256_setzero_ps.
Proof. lift okS_mm256_setzero_ps. Qed.

Lemma ok_mm256_setzero_pd : forall R (o : ROps R), ring_ok o -> instr_ok R o lane_any instr_mm256_setzero_pd.
Proof. lift okS_mm256_setzero_pd. Qed.

Lemma ok_mm256_loadu_ps : forall R (o : ROps R), ring_ok o -> instr_ok R o lane_any instr_mm256_loadu_ps.
Proof. lift okS_mm256_loadu_ps. Qed.

Lemma ok_mm256_loadu_pd : forall R (o : ROps R), ring_ok o -> instr_ok R o lane_any instr_mm256_loadu_pd.
Proof. lift okS_mm256_loadu_pd. Qed.

Lemma ok_mm256_storeu_ps : forall R (o : ROps R), ring_ok o -> instr_ok R o lane_any instr_mm256_storeu_ps.
Proof. lift okS_mm256_storeu_ps. Qed.

Lemma ok_mm256_storeu_pd : forall R (o : ROps R), ring_ok o -> instr_ok R o lane_any instr_mm256_storeu_pd.
Proof. lift okS_mm256_storeu_pd. Qed.

Lemma ok_mm256_fmadd_ps : forall R (o : ROps R), ring_ok o -> instr_ok R o lane_any instr_mm256_fmadd_ps.
Proof. lift okS_mm256_fmadd_ps. Qed.

Lemma ok_mm256_fmadd_pd : forall R (o : ROps R), ring_ok o -> instr_ok R o lane_any instr_mm256_fmadd_pd.
Proof. lift okS_mm256_fmadd_pd. Qed.

Lemma ok_mm256_broadcast_ss : forall R (o : ROps R), ring_ok o -> instr_ok R o lane_any instr_mm256_broadcast_ss.
Proof. lift okS_mm256_broadcast_ss. Qed.

Lemma ok_mm256_broadcast_sd : forall R (o : ROps R), ring_ok o -> instr_ok R o lane_any instr_mm256_broadcast_sd.
Proof. lift okS_mm256_broadcast_sd. Qed.

Lemma ok_mm256_broadcast_ss_scalar : forall R (o : ROps R), ring_ok o -> instr_ok R o lane_any instr_mm256_broadcast_ss_scalar.
Proof. lift okS_mm256_broadcast_ss_scalar. Qed.

Lemma ok_mm256_broadcast_sd_scalar : forall R (o : ROps R), ring_ok o -> instr_ok R o lane_any instr_mm256_broadcast_sd_scalar.
Proof. lift okS_mm256_broadcast_sd_scalar. Qed.

Lemma ok_mm256_mul_ps : forall R (o : ROps R), ring_ok o -> instr_ok R o lane_any instr_mm256_mul_ps.
Proof. lift okS_mm256_mul_ps. Qed.

Lemma ok_mm256_mul_pd : forall R (o : ROps R), ring_ok o -> instr_ok R o lane_any instr_mm256_mul_pd.
Proof. lift okS_mm256_mul_pd. Qed.

Lemma ok_mm256_div_ps : forall R (o : ROps R), ring_ok o -> instr_ok R o lane_any instr_mm256_div_ps.
Proof. lift okS_mm256_div_ps. Qed.

Lemma ok_mm256_div_pd : forall R (o : ROps R), ring_ok o -> instr_ok R o lane_any instr_mm256_div_pd.
Proof. lift okS_mm256_div_pd. Qed.

Lemma ok_mm256_add_ps : forall R (o : ROps R), ring_ok o -> instr_ok R o lane_any instr_mm256_add_ps.
Proof. lift okS_mm256_add_ps. Qed.

Lemma ok_mm256_add_pd : forall R (o : ROps R), ring_ok o -> instr_ok R o lane_any instr_mm256_add_pd.
Proof. lift okS_mm256_add_pd. Qed.

Lemma ok_mm256_sub_ps : forall R (o : ROps R), ring_ok o -> instr_ok R o lane_any instr_mm256_sub_ps.
Proof. lift okS_mm256_sub_ps. Qed.

Lemma ok_mm256_sub_pd : forall R (o : ROps R), ring_ok o -> instr_ok R o lane_any instr_mm256_sub_pd.
Proof. lift okS_mm256_sub_pd. Qed.

Lemma ok_mm512_setzero_ps : forall R (o : ROps R), ring_ok o -> instr_ok R o lane_any instr_mm512_setzero_ps.
Proof. lift okS_mm512_setzero_ps. Qed.

Lemma ok_mm512_add_ps : forall R (o : ROps R), ring_ok o -> instr_ok R o lane_any instr_mm512_add_ps.
Proof. lift okS_mm512_add_ps. Qed.

Lemma ok_mm512_loadu_ps : forall R (o : ROps R), ring_ok o -> instr_ok R o lane_any instr_mm512_loadu_ps.
Proof. lift okS_mm512_loadu_ps. Qed.

Lemma ok_mm512_storeu_ps : forall R (o : ROps R), ring_ok o -> instr_ok R o lane_any instr_mm512_storeu_ps.
Proof. lift okS_mm512_storeu_ps. Qed.

Lemma ok_mm512_mask_storeu_ps : forall R (o : ROps R), ring_ok o -> instr_ok R o lane_any instr_mm512_mask_storeu_ps.
Proof. lift okS_mm512_mask_storeu_ps. Qed.

Lemma ok_mm512_fmadd_ps : forall R (o : ROps R), ring_ok o -> instr_ok R o lane_any instr_mm512_fmadd_ps.
Proof. lift okS_mm512_fmadd_ps. Qed.

Lemma ok_mm512_relu_ps : forall R (o : ROps R), ring_ok o -> instr_ok R o lane_any instr_mm512_relu_ps.
Proof. lift okS_mm512_relu_ps. Qed.

Lemma ok_mm512_set1_ps : forall R (o : ROps R), ring_ok o -> instr_ok R o lane_any instr_mm512_set1_ps.
Proof. lift okS_mm512_set1_ps. Qed.

Lemma ok_avx2_set0_ps : forall R (o : ROps R), ring_ok o -> instr_ok R o lane_any instr_avx2_set0_ps.
Proof. lift okS_avx2_set0_ps. Qed.

Lemma ok_avx2_fmadd_memu_ps : forall R (o : ROps R), ring_ok o -> instr_ok R o lane_any instr_avx2_fmadd_memu_ps.
Proof. lift okS_avx2_fmadd_memu_ps. Qed.

Lemma ok_avx2_select_ps : forall R (o : ROps R), ring_ok o -> instr_ok R o lane_any instr_avx2_select_ps.
Proof. lift okS_avx2_select_ps. Qed.

Lemma ok_avx2_select_pd : forall R (o : ROps R), ring_ok o -> instr_ok R o lane_any instr_avx2_select_pd.
Proof. lift okS_avx2_select_pd. Qed.

Lemma ok_avx2_assoc_reduce_add_ps : forall R (o : ROps R), ring_ok o -> instr_ok R o lane_any instr_avx2_assoc_reduce_add_ps.
Proof. lift okS_avx2_assoc_reduce_add_ps. Qed.

Lemma ok_avx2_assoc_reduce_add_pd : forall R (o : ROps R), ring_ok o -> instr_ok R o lane_any instr_avx2_assoc_reduce_add_pd.
Proof. lift okS_avx2_assoc_reduce_add_pd. Qed.

Lemma ok_avx2_sign_ps : forall R (o : ROps R), ring_ok o -> instr_ok R o lane_any instr_avx2_sign_ps.
Proof. lift okS_avx2_sign_ps. Qed.

Lemma ok_avx2_sign_pd : forall R (o : ROps R), ring_ok o -> instr_ok R o lane_any instr_avx2_sign_pd.
Proof. lift okS_avx2_sign_pd. Qed.

Lemma ok_avx2_reduce_add_wide_ps : forall R (o : ROps R), ring_ok o -> instr_ok R o lane_any instr_avx2_reduce_add_wide_ps.
Proof. lift okS_avx2_reduce_add_wide_ps. Qed.

Lemma ok_avx2_reduce_add_wide_pd : forall R (o : ROps R), ring_ok o -> instr_ok R o lane_any instr_avx2_reduce_add_wide_pd.
Proof. lift okS_avx2_reduce_add_wide_pd. Qed.

Lemma ok_avx2_reg_copy_ps : forall R (o : ROps R), ring_ok o -> instr_ok R o lane_any instr_avx2_reg_copy_ps.
Proof. lift okS_avx2_reg_copy_ps. Qed.

Lemma ok_avx2_reg_copy_pd : forall R (o : ROps R), ring_ok o -> instr_ok R o lane_any instr_avx2_reg_copy_pd.
Proof. lift okS_avx2_reg_copy_pd. Qed.

Lemma ok_mm256_prefix_store_ps : forall R (o : ROps R), ring_ok o -> instr_ok R o lane_any instr_mm256_prefix_store_ps.
Proof. lift okS_mm256_prefix_store_ps. Qed.

Lemma ok_mm256_prefix_add_ps : forall R (o : ROps R), ring_ok o -> instr_ok R o lane_any instr_mm256_prefix_add_ps.
Proof. lift okS_mm256_prefix_add_ps. Qed.

Lemma ok_mm256_prefix_mul_ps : forall R (o : ROps R), ring_ok o -> instr_ok R o lane_any instr_mm256_prefix_mul_ps.
Proof. lift okS_mm256_prefix_mul_ps. Qed.

Lemma ok_mm256_prefix_sub_ps : forall R (o : ROps R), ring_ok o -> instr_ok R o lane_any instr_mm256_prefix_sub_ps.
Proof. lift okS_mm256_prefix_sub_ps. Qed.

Lemma ok_mm256_prefix_div_ps : forall R (o : ROps R), ring_ok o -> instr_ok R o lane_any instr_mm256_prefix_div_ps.
Proof. lift okS_mm256_prefix_div_ps. Qed.

Lemma ok_mm256_prefix_broadcast_ss : forall R (o : ROps R), ring_ok o -> instr_ok R o lane_any instr_mm256_prefix_broadcast_ss.
Proof. lift okS_mm256_prefix_broadcast_ss. Qed.

Lemma ok_avx2_convert_f32_lower_to_f64 : forall R (o : ROps R), ring_ok o -> instr_ok R o lane_any instr_avx2_convert_f32_lower_to_f64.
Proof. lift okS_avx2_convert_f32_lower_to_f64. Qed.

Lemma ok_avx2_convert_f32_upper_to_f64 : forall R (o : ROps R), ring_ok o -> instr_ok R o lane_any instr_avx2_convert_f32_upper_to_f64.
Proof. lift okS_avx2_convert_f32_upper_to_f64. Qed.

Lemma partial_mm512_mask_add_ps : forall R (o : ROps R), ring_ok o ->
  instr_ok_when R o lane_any instr_mm512_mask_add_ps (BCmp CLe (IVar "N") (ILit 30)).
Proof. lift partS_mm512_mask_add_ps. Qed.

Lemma ok_avx2_mask_storeu_ps : forall R (o : ROps R), ring_ok o -> instr_ok R o lane_any instr_avx2_mask_storeu_ps.
Proof. lift okS_avx2_mask_storeu_ps. Qed.

Lemma partial_mm512_maskz_loadu_ps : forall R (o : ROps R), ring_ok o ->
  instr_ok_prefix R o lane_any instr_mm512_maskz_loadu_ps "dst" "N".
Proof. lift partS_mm512_maskz_loadu_ps. Qed.

Lemma partial_mm512_mask_fmadd_ps : forall R (o : ROps R), ring_ok o ->
  instr_ok_prefix R o lane_any instr_mm512_mask_fmadd_ps "C" "N".
Proof. lift partS_mm512_mask_fmadd_ps. Qed.

Lemma partial_mm512_mask_set1_ps : forall R (o : ROps R), ring_ok o ->
  instr_ok_prefix R o lane_any instr_mm512_mask_set1_ps "dst" "N".
Proof. lift partS_mm512_mask_set1_ps. Qed.

Lemma partial_mm256_prefix_load_ps : forall R (o : ROps R), ring_ok o ->
  instr_ok_prefix R o lane_any instr_mm256_prefix_load_ps "dst" "bound".
Proof. lift partS_mm256_prefix_load_ps. Qed.
