From Coq Require Import ZArith List Bool String Lia Ring Ring_theory.
From X86 Require Import Model Spec Gen_X86Instrs Tactics.
Import ListNotations.
Open Scope Z_scope.
Section P.
Variable R : Type.
Variables (e0 e1 : R) (add sub mul div : R -> R -> R) (opp : R -> R) (ltb : R -> R -> bool)
          (tz : R -> Z) (oz : Z -> R) (und : Z -> R).
Hypothesis Hring : ring_theory e0 e1 add mul sub opp (@eq R).
Add Ring Rr : Hring.
Let o : ROps R := {| r0 := e0; r1 := e1; radd := add; rsub := sub; rmul := mul; rdiv := div; ropp := opp;
                     rltb := ltb; toZ := tz; ofZ := oz; rundef := und |}.

Ltac state_eq :=
  lazymatch goal with
  | |- @eq (list _) (_ :: _) (_ :: _) => apply f_equal2; [state_eq | state_eq]
  | |- @eq (prod _ _) (_, _) (_, _) => apply f_equal2; [state_eq | state_eq]
  | |- AReg _ = AReg _ => apply f_equal; state_eq
  | |- AMem _ _ _ = AMem _ _ _ => apply f_equal3; state_eq
  | |- _ => first [reflexivity | ring]
  end.
Ltac solve_instr I := prep I; vm_compute; state_eq.


Goal instr_ok R o lane_any instr_mm512_mask_storeu_ps.
Proof.
  unfold instr_ok, pre_ok. intros st [Hwf Hp].
  unfold instr_mm512_mask_storeu_ps in Hwf; cbv [isig] in Hwf.
  Time apply wf_env_cons in Hwf.
  Time destruct Hwf as (v & e' & E & Hv & H).
  Time subst st.
  Time assert True by exact I.
  Time destruct v.
  Time clear Hp.
  Time all: assert True by exact I.
Abort.
End P.
