(* C14 — proof infrastructure: inversion of [pre_ok], enumeration of size arguments, symbolic execution. *)
From Coq Require Import ZArith List Bool String Lia Ring Ring_theory.
From X86 Require Import Model Spec.
Import ListNotations.
Open Scope Z_scope.

Lemma len0 : forall A (l : list A), zlen l = 0 -> l = [].
Proof. destruct l; cbv [zlen]; simpl; intros; [reflexivity|lia]. Qed.

Lemma lenS : forall A (l : list A) n, 0 < n -> zlen l = n -> exists a l', l = a :: l' /\ zlen l' = n - 1.
Proof. destruct l; cbv [zlen]; simpl; intros; [lia|]. eexists; eexists; split; [reflexivity|lia]. Qed.

Ltac list_len :=
  repeat match goal with
  | H : zlen ?l = 0 |- _ => apply len0 in H; subst l
  | H : zlen ?l = ?n |- _ =>
      let a := fresh "a" in let l' := fresh "l" in let E := fresh in
      apply lenS in H; [|reflexivity]; destruct H as (a & l' & E & H); subst l;
      let m := eval vm_compute in (n - 1) in change (n - 1) with m in H
  end.

Lemma Zseq_in : forall n lo z, lo <= z < lo + Z.of_nat n -> In z (Zseq lo n).
Proof. induction n; simpl; intros; [lia|]. destruct (Z.eq_dec lo z); [left; auto| right; apply IHn; lia]. Qed.

Lemma wf_env_cons : forall R lo n k sig (env full : state R),
  wf_env R lo ((n, k) :: sig) env full ->
  exists v env', env = (n, v) :: env' /\ wf_arg R lo full k v /\ wf_env R lo sig env' full.
Proof.
  intros R lo n k sig [|[n' v] env'] full H; simpl in H; [contradiction|].
  destruct H as (-> & Hv & H). eauto.
Qed.

Lemma wf_env_nil : forall R lo (env full : state R), wf_env R lo [] env full -> env = [].
Proof. intros R lo [|[? ?] ?] full H; simpl in H; [reflexivity|contradiction]. Qed.

Ltac break_env :=
  repeat match goal with
  | H : wf_env _ _ (_ :: _) ?e _ |- _ =>
      let v := fresh "v" in let e' := fresh "env" in let Hv := fresh "Hv" in
      apply wf_env_cons in H; destruct H as (v & e' & -> & Hv & H)
  | H : wf_env _ _ [] ?e _ |- _ => apply wf_env_nil in H; subst e
  end.

Ltac break_args :=
  repeat match goal with
  | H : wf_arg _ _ _ _ ?v |- _ => destruct v; cbv [wf_arg] in H; try contradiction
  end.

(* evaluate predicates / window lengths without touching comparisons on the (symbolic) sizes *)
Ltac eval_preds H :=
  cbv [preds_hold eval_bexpr eval_iexpr lookup String.eqb Ascii.eqb Bool.eqb] in H.

Ltac norm_hyps :=
  repeat match goal with
  | H : _ /\ _ |- _ => destruct H
  | H : True |- _ => clear H
  | H : Some _ = Some _ |- _ => injection H as H
  | H : ASize _ = ASize ?b |- _ => injection H as H; try subst b
  | H : (_ <=? _) = true |- _ => apply Z.leb_le in H
  | H : (_ <? _) = true |- _ => apply Z.ltb_lt in H
  | H : (_ =? _) = true |- _ => apply Z.eqb_eq in H
  | H : (_ && _)%bool = true |- _ => apply andb_true_iff in H
  | H : Some _ = eval_iexpr _ _ _ _ |- _ => eval_preds H
  end.

(* case split a size variable z (1 <= z known) over 1..K for the smallest K in the list that lia accepts *)
Ltac enum_size z :=
  let Hin := fresh "Hin" in
  first [ assert (Hin : In z (Zseq 1 8)) by (apply Zseq_in; simpl; lia)
        | assert (Hin : In z (Zseq 1 16)) by (apply Zseq_in; simpl; lia)
        | assert (Hin : In z (Zseq 1 30)) by (apply Zseq_in; simpl; lia) ];
  simpl in Hin;
  repeat (destruct Hin as [Hin | Hin]; [rewrite <- Hin in *; clear Hin; try (exfalso; lia)|]); [..|contradiction].

Ltac enum_sizes :=
  repeat match goal with
  | H : 1 <= ?z |- _ => is_var z; enum_size z
  end.

Ltac lanes_inv :=
  repeat match goal with
  | H : Forall _ (_ :: _) |- _ => inversion H; clear H; subst
  | H : Forall _ [] |- _ => clear H
  end.

(* symbolic execution keeping the ring operations (and the integer lane functions) folded *)
Ltac run :=
  cbv -[radd rmul rsub ropp r0 r1 rdiv rltb toZ ofZ rundef
        norm_lane adds_epu16_lane mulhi_epu16_lane srli_epi16_lane].

Ltac prep I :=
  unfold instr_ok, instr_ok_when, instr_ok_prefix, pre_ok;
  intros;
  repeat match goal with H : _ /\ _ |- _ => destruct H end;
  repeat match goal with
  | H : wf_env _ _ (isig I) _ _ |- _ => unfold I in H; cbv [isig] in H
  | H : preds_hold _ (ipreds I) _ |- _ => unfold I in H; cbv [ipreds] in H
  end;
  break_env; break_args;
  repeat match goal with
  | H : preds_hold _ _ _ |- _ => eval_preds H
  | H : eval_bexpr _ _ _ _ = Some true |- _ => eval_preds H
  | H : lookup _ _ = Some (ASize _) |- _ => cbv [lookup String.eqb Ascii.eqb Bool.eqb] in H
  end;
  norm_hyps; list_len;
  enum_sizes;
  norm_hyps; list_len;
  repeat match goal with H : _ = ?v |- _ => is_var v; subst v end;
  unfold I.
