(** * unroll_loop (DoUnroll) as a whole-procedure rewrite: a loop with literal bounds becomes the concatenation of
    its body with the iteration variable replaced by each value in turn.  (For bodies that declare nothing at
    their top level; the implementation alpha-renames inner binders of each copy, so the term-level tie covers
    bodies without inner binders, where Alpha_Rename is the identity on Syms.) *)
From Coq Require Import ZArith List Bool Lia.
From Core Require Import Syntax Sem Equiv Induction PartialEval PartialEvalSound Subst Rules RewriteAtL RemoveLoop.
Import ListNotations.
Local Open Scope Z_scope.

Section Unroll2.
  Variable i : sym.

  Lemma iteration_subst : forall body k st s,
    forallb (okbind (okbD i)) body = true -> forallb (nm_s i (fun _ => false)) body = true ->
    loop_body i body k st = Ok s -> scoped (pe_ss i (Int k) body) st = Ok s.
  Proof.
    intros body k st s Hok Hnm Hrun. unfold loop_body, scoped in *.
    pose proof (body_sub i (Int k) (VInt k) (okbD i) (TD i) (fun _ => True) (fun _ => false) (okbD_i i)
                  (fun _ _ => eq_refl) (fun _ _ => eq_refl) (fun e y Hy _ => TD_lookup i e y Hy
                     ltac:(unfold hidx; apply Pos.eqb_neq; exact Hy))
                  (TD_cons i) (fun _ _ _ _ _ => I)
                  body (bind_var i (BVal (VInt k)) st) Hok Hnm) as Hsim.
    assert (Hinv : inv i (VInt k) (TD i) (fun _ => True) (bind_var i (BVal (VInt k)) st)).
    { split; [cbn [bind_var s_env lookup]; rewrite Pos.eqb_refl; reflexivity|exact I]. }
    specialize (Hsim Hinv).
    assert (Ht : tst (TD i) (bind_var i (BVal (VInt k)) st) = st).
    { unfold tst, with_env, bind_var. cbn [s_env s_heap s_next s_cfg TD]. rewrite Pos.eqb_refl. destruct st; reflexivity. }
    rewrite Ht in Hsim.
    destruct (exec_list body (bind_var i (BVal (VInt k)) st)) as [s1|] eqn:E1; cbn [bind] in Hrun; [|discriminate Hrun].
    destruct (exec_list (pe_ss i (Int k) body) st) as [s2|] eqn:E2; cbn [rsim] in Hsim; [|contradiction].
    destruct Hsim as [-> _]. cbn [bind]. rewrite <- Hrun. reflexivity.
  Qed.

  Lemma iter_unrolled2 : forall body, forallb (okbind (okbD i)) body = true ->
    forallb (nm_s i (fun _ => false)) body = true -> forallb nodecl body = true ->
    forall n lo st st', iter_loop n lo (loop_body i body) st = Ok st' -> exec_list (unrolled i body lo n) st = Ok st'.
  Proof.
    intros body Hok Hnm Hnd. induction n as [|n IH]; intros lo st st' H; cbn [iter_loop unrolled exec_list] in *; [exact H|].
    destruct (loop_body i body lo st) as [s1|] eqn:E; cbn [bind] in H; [|discriminate H].
    pose proof (iteration_subst body lo st s1 Hok Hnm E) as Hs. unfold scoped in Hs.
    destruct (exec_list (pe_ss i (Int lo) body) st) as [s2|] eqn:E2; cbn [bind] in Hs; [|discriminate Hs].
    injection Hs as <-.
    rewrite exec_list_app, E2. cbn [bind].
    rewrite <- (exec_list_env_nodecl _ _ _ (pe_nodecl i lo body Hnd) E2), with_env_same in H. apply IH, H.
  Qed.

  Theorem rule_unroll_loop2 : forall body lo n par,
    forallb (okbind (okbD i)) body = true -> forallb (nm_s i (fun _ => false)) body = true ->
    forallb nodecl body = true ->
    refines [For i (Int lo) (Int (lo + Z.of_nat n)) body par] (unrolled i body lo n).
  Proof.
    intros body lo n par Hok Hnm Hnd st st' H. rewrite single, exec_For in H. cbn [eval bind as_int] in H.
    destruct (lo + Z.of_nat n <? lo) eqn:E; [apply Z.ltb_lt in E; lia|].
    replace (Z.to_nat (lo + Z.of_nat n - lo)) with n in H by lia. eapply iter_unrolled2; eassumption.
  Qed.
End Unroll2.

Definition unroll_f (i : sym) (s : stmt) : option (list stmt) :=
  match s with
  | For j (Int lo) (Int hi) body par =>
      if Pos.eqb j i && (lo <=? hi) then Some (unrolled i body lo (Z.to_nat (hi - lo))) else None
  | _ => None
  end.
Definition unroll_ok (i : sym) (s : stmt) : bool :=
  match s with
  | For j lo hi body par =>
      forallb (okbind (okbD i)) body && forallb (nm_s i (fun _ => false)) body && forallb nodecl body
  | _ => false
  end.
Definition unroll_proc (i : sym) : proc -> proc := rwl_proc (unroll_f i).
Definition unroll_ok_proc (i : sym) : proc -> bool := okl_proc (unroll_f i) (unroll_ok i).

Theorem unroll_proc_preserves : forall i p inp bufs cfg,
  unroll_ok_proc i p = true -> run p inp = Done bufs cfg -> run (unroll_proc i p) inp = Done bufs cfg.
Proof.
  intros i p inp bufs cfg Hok. unfold unroll_proc, unroll_ok_proc in *.
  apply rwl_proc_preserves with (ok := unroll_ok i); [|exact Hok].
  intros s l Hf Hs. destruct s; cbn [unroll_f] in Hf; try discriminate Hf.
  destruct lo; try discriminate Hf. destruct hi; try discriminate Hf.
  destruct (Pos.eqb i0 i && (z <=? z0)) eqn:E; [|discriminate Hf]. injection Hf as <-.
  apply andb_true_iff in E as [E1 E2]. apply Pos.eqb_eq in E1. subst i0. apply Z.leb_le in E2.
  cbn [unroll_ok] in Hs. apply andb_true_iff in Hs as [Hs H3]. apply andb_true_iff in Hs as [H1 H2].
  replace z0 with (z + Z.of_nat (Z.to_nat (z0 - z))) at 1 by lia.
  apply rule_unroll_loop2; assumption.
Qed.
