(** Property C04 — theorems only. *)
From Coq Require Import ZArith List Bool.
From Core Require Import Syntax Sem Equiv.
Import ListNotations.

(** a derived procedure is safe wherever the source is: it runs to completion (no out-of-bounds access,
    no unbound or ill-typed variable, no negative trip count, no failed callee assertion, no shape
    mismatch) on every input on which the source runs to completion *)
Definition safe_on (p : proc) (inp : input) : Prop := exists bufs cfg, run p inp = Done bufs cfg.

Theorem C04_safety_preserved : forall formals preds c a b inp,
  refines a b ->
  safe_on (Proc formals preds (plug c a)) inp -> safe_on (Proc formals preds (plug c b)) inp.
Proof.
  intros formals preds c a b inp H [bufs [cfg Hr]]. exists bufs, cfg.
  eapply run_refines; [apply refines_plug, H | exact Hr].
Qed.
Print Assumptions C04_safety_preserved.
