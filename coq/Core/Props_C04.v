(** Property C04 — theorems only. *)
From Coq Require Import ZArith List Bool.
From Core Require Import Syntax Sem Wf Equiv Subst ShiftLoop DivideLoop ReorderLoops WfSubst.
Import ListNotations.

(** a derived procedure is safe wherever the source is: it runs to completion (no out-of-bounds access,
    no unbound or ill-typed variable, no negative trip count, no failed callee assertion, no shape
    mismatch) on every input on which the source runs to completion *)
Definition safe_on (p : proc) (inp : input) : Prop := exists bufs cfg, run p inp = Done bufs cfg.

Theorem C04_safety_preserved : forall formals preds c a b inp,
  refines a b ->
  safe_on (Proc formals preds (plug c a)) inp -> safe_on (Proc formals preds (plug c b)) inp.
Proof.
  intros formals preds c a b inp H [bufs [cfg Hr]]. exists bufs, cfg.
  eapply run_refines; [apply refines_plug, H | exact Hr].
Qed.
Print Assumptions C04_safety_preserved.

(** well-scopedness (the checker [Wf.wf_stmt] that the harness runs on every derived procedure) is preserved by
    the modelled rewrites: the rewritten statement is well-scoped in every scope in which the original is, the new
    iteration Syms being fresh for that scope *)
Theorem C04_substitution_preserves_wf : forall x c okb hid,
  okb x = false -> (forall y, okb y = true -> hid y = false) ->
  forall body S S' S1, WfSubst.srel x c hid S S' ->
  forallb (Subst.okbind okb) body = true -> forallb (Subst.nm_s x hid) body = true ->
  wf_stmts S body = Some S1 -> exists S1', wf_stmts S' (PartialEval.pe_ss x c body) = Some S1'.
Proof. exact WfSubst.wf_body_subst. Qed.
Print Assumptions C04_substitution_preserves_wf.

Theorem C04_shift_loop_wf : forall i lo hi nlo V body par sc,
  wf_expr sc nlo = true ->
  forallb (Subst.okbind (ShiftLoop.okb i V)) body = true -> forallb (Subst.nm_s i (fun _ => false)) body = true ->
  wf_stmt sc (For i lo hi body par) = Some sc ->
  wf_stmt sc (ShiftLoop.shift_loop_rw i lo hi nlo body par) = Some sc.
Proof. exact WfSubst.shift_preserves_wf. Qed.
Print Assumptions C04_shift_loop_wf.

Theorem C04_divide_loop_guard_wf : forall i io ii q N body par sc,
  mem io sc = false -> mem ii sc = false -> io <> ii ->
  forallb (Subst.okbind (DivideLoop.okbF i io ii)) body = true -> forallb (Subst.nm_s i (DivideLoop.hidF io ii)) body = true ->
  wf_stmt sc (For i (Int 0) N body par) = Some sc ->
  wf_stmt sc (DivideLoop.divide_guard_rw i io ii q N body par) = Some sc.
Proof. exact WfSubst.divide_guard_preserves_wf. Qed.
Print Assumptions C04_divide_loop_guard_wf.

Theorem C04_divide_loop_perfect_wf : forall i io ii q N H body par sc,
  mem io sc = false -> mem ii sc = false -> io <> ii -> wf_expr sc H = true ->
  forallb (Subst.okbind (DivideLoop.okbF i io ii)) body = true -> forallb (Subst.nm_s i (DivideLoop.hidF io ii)) body = true ->
  wf_stmt sc (For i (Int 0) N body par) = Some sc ->
  wf_stmt sc (DivideLoop.flat_rw i io ii q H body par) = Some sc.
Proof. exact WfSubst.divide_perfect_preserves_wf. Qed.
Print Assumptions C04_divide_loop_perfect_wf.

Theorem C04_reorder_loops_wf : forall i j li hi lj hj body pi pj sc,
  ReorderLoops.reorder_syn_ok i (For i li hi [For j lj hj body pj] pi) = true ->
  wf_stmt sc (For i li hi [For j lj hj body pj] pi) = Some sc ->
  wf_stmt sc (For j lj hj [For i li hi body pi] pj) = Some sc.
Proof. exact WfSubst.reorder_preserves_wf. Qed.
Print Assumptions C04_reorder_loops_wf.
