(** * Substitution of an index expression for a variable: general simulation lemma.

    Many scheduling rewrites replace every read of a loop variable [x] in a body by an expression [c]
    over other (or re-bound) variables: shift_loop (i := i + (lo - new_lo)), divide_loop
    (i := c*io + ii), mult_loops, unroll (i := literal), partial_eval (argument := literal).
    [pe_ss x c] (PartialEval.v) is that substitution.  This file proves, once and for all, that running
    the substituted body in an environment transformed by [T] simulates running the original body,
    provided that in the transformed environment [c] evaluates to the value [x] had, that [T] leaves
    all other variables alone, and that the body does not re-bind the variables [c] depends on.
    PartialEvalSound.v is the instance T = drop x, c = literal. *)
From Coq Require Import ZArith List Bool Lia QArith Qcanon.
From Core Require Import Syntax Sem Equiv Induction PartialEval PartialEvalSound.
Import ListNotations.
Local Open Scope Z_scope.

Section Subst.
  Variable x : sym.
  Variable c : expr.
  Variable cv : value.
  Variable okb : sym -> bool.          (* symbols the body may bind *)
  Variable T : env -> env.             (* environment of the rewritten run, from that of the original *)
  Variable Good : env -> Prop.         (* what the rewritten environment must satisfy for [c] to mean [cv] *)

  Hypothesis okb_x : okb x = false.
  Hypothesis c_eval : forall st, Good (s_env st) -> eval st c = Ok cv.
  Hypothesis c_noview : forall st, Good (s_env st) -> eval_view st c = Err TypeErr.
  Hypothesis T_lookup : forall e y, y <> x -> lookup y (T e) = lookup y e.
  Hypothesis T_x : forall e, match lookup x (T e) with Some (BView _) => False | _ => True end.
  Hypothesis T_cons : forall y b e, okb y = true -> T ((y, b) :: e) = (y, b) :: T e.
  Hypothesis Good_cons : forall y b e, okb y = true -> Good e -> Good ((y, b) :: e).

  Notation pe_e := (pe_e x c).
  Notation pe_s := (pe_s x c).

  Definition tst (st : state) : state := with_env (T (s_env st)) st.
  Definition inv (st : state) : Prop := lookup x (s_env st) = Some (BVal cv) /\ Good (T (s_env st)).
  Definition SR (st1 st2 : state) : Prop := st2 = tst st1 /\ inv st1.

  Lemma okb_ne : forall y, okb y = true -> y <> x.
  Proof. intros y H ->. rewrite okb_x in H. discriminate H. Qed.

  Lemma tst_heap : forall st, s_heap (tst st) = s_heap st. Proof. reflexivity. Qed.
  Lemma tst_cfg : forall st, s_cfg (tst st) = s_cfg st. Proof. reflexivity. Qed.
  Lemma tst_env : forall st, s_env (tst st) = T (s_env st). Proof. reflexivity. Qed.

  Lemma inv_good : forall st, inv st -> Good (s_env (tst st)).
  Proof. intros st [_ H]. exact H. Qed.

  (** ** expressions *)
  Lemma get_view_sub : forall st y, inv st -> rsim eq (get_view st y) (get_view (tst st) y).
  Proof.
    intros st y [Hb Hg]. unfold get_view. rewrite tst_env.
    destruct (Pos.eq_dec y x) as [->|Hne].
    - rewrite Hb. pose proof (T_x (s_env st)) as Hx.
      destruct (lookup x (T (s_env st))) as [[v|w]|]; cbn; [exact I|contradiction|exact I].
    - rewrite T_lookup by exact Hne. apply rsim_refl.
  Qed.

  Definition esub (st : state) (e : expr) : Prop := rsim eq (eval st e) (eval (tst st) (pe_e e)).

  Lemma eval_ints_sub : forall st l, Forall (esub st) l ->
    rsim eq (eval_ints st l) (eval_ints (tst st) (pe_es x c l)).
  Proof.
    intros st l H. induction H as [|a r Ha Hr IH]; [cbn; reflexivity|].
    cbn [pe_es map eval_ints]. fold (pe_es x c r).
    eapply rsim_eq_bind; [exact Ha|]. intro v. destruct (as_int v); cbn [bind]; [|exact I].
    eapply rsim_eq_bind; [exact IH|]. intro zs. cbn. reflexivity.
  Qed.

  Lemma eval_vals_sub : forall st l, Forall (esub st) l ->
    rsim eq (eval_vals st l) (eval_vals (tst st) (pe_es x c l)).
  Proof.
    intros st l H. induction H as [|a r Ha Hr IH]; [cbn; reflexivity|].
    cbn [pe_es map eval_vals]. fold (pe_es x c r).
    eapply rsim_eq_bind; [exact Ha|]. intro v.
    eapply rsim_eq_bind; [exact IH|]. intro zs. cbn. reflexivity.
  Qed.

  Lemma eval_waccs_sub : forall st l, Forall (PW (esub st)) l ->
    rsim eq (eval_waccs st l) (eval_waccs (tst st) (map (pe_w x c) l)).
  Proof.
    intros st l H. induction H as [|w r Hw Hr IH]; [cbn; reflexivity|].
    destruct w as [a|a b]; cbn [map pe_w eval_waccs PW] in *.
    - eapply rsim_eq_bind; [exact Hw|]. intro v. destruct (as_int v); cbn [bind]; [|exact I].
      eapply rsim_eq_bind; [exact IH|]. intro rs. cbn. reflexivity.
    - destruct Hw as [Ha Hb].
      eapply rsim_eq_bind; [exact Ha|]. intro v. destruct (as_int v); cbn [bind]; [|exact I].
      eapply rsim_eq_bind; [exact Hb|]. intro v'. destruct (as_int v'); cbn [bind]; [|exact I].
      eapply rsim_eq_bind; [exact IH|]. intro rs. cbn. reflexivity.
  Qed.

  Theorem eval_sub : forall e st, inv st -> esub st e.
  Proof.
    intros e st Hb. unfold esub. induction e using expr_ind2.
    - (* Var *) cbn [PartialEval.pe_e]. destruct (Pos.eqb x0 x) eqn:E.
      + apply Pos.eqb_eq in E. subst x0. rewrite (c_eval (tst st)) by (apply inv_good, Hb).
        cbn [eval]. destruct Hb as [Hb _]. rewrite Hb. cbn. reflexivity.
      + apply Pos.eqb_neq in E. cbn [eval]. rewrite tst_env, T_lookup by exact E. apply rsim_refl.
    - cbn. reflexivity.
    - cbn. reflexivity.
    - cbn. reflexivity.
    - (* Read *) rewrite pe_e_Read, !eval_Read.
      eapply rsim_eq_bind; [apply get_view_sub, Hb|]. intro w.
      eapply rsim_eq_bind; [apply eval_ints_sub, H|]. intro is. rewrite tst_heap. apply rsim_refl.
    - (* USub *) cbn [PartialEval.pe_e eval]. eapply rsim_eq_bind; [exact IHe|]. intro v. apply rsim_refl.
    - (* BinOp *) cbn [PartialEval.pe_e eval]. eapply rsim_eq_bind; [exact IHe1|]. intro v1.
      eapply rsim_eq_bind; [exact IHe2|]. intro v2. apply rsim_refl.
    - (* Extern *) rewrite pe_e_Extern, !eval_Extern.
      eapply rsim_eq_bind; [apply eval_vals_sub, H|]. intro vs. apply rsim_refl.
    - (* WindowE *) rewrite pe_e_WindowE. cbn [eval]. exact I.
    - (* Stride *) cbn [PartialEval.pe_e eval].
      eapply rsim_eq_bind; [apply get_view_sub, Hb|]. intro w. apply rsim_refl.
    - (* ReadCfg *) cbn [PartialEval.pe_e eval]. rewrite tst_cfg. apply rsim_refl.
  Qed.

  Lemma eval_ints_sub' : forall st l, inv st -> rsim eq (eval_ints st l) (eval_ints (tst st) (pe_es x c l)).
  Proof. intros. apply eval_ints_sub. apply Forall_forall. intros e _. apply eval_sub, H. Qed.

  Lemma eval_view_sub : forall st e, inv st -> rsim eq (eval_view st e) (eval_view (tst st) (pe_e e)).
  Proof.
    intros st e Hb. destruct e; try (cbn; exact I).
    - (* Var *) cbn [PartialEval.pe_e]. destruct (Pos.eqb x0 x).
      + rewrite (c_noview (tst st)) by (apply inv_good, Hb). cbn. exact I.
      + cbn. exact I.
    - (* Read *) rewrite pe_e_Read. destruct idx as [|a r].
      + cbn [pe_es map eval_view]. apply get_view_sub, Hb.
      + cbn [pe_es map eval_view]. fold (pe_es x c (a :: r)).
        eapply rsim_eq_bind; [apply get_view_sub, Hb|]. intro w.
        eapply rsim_eq_bind; [apply (eval_ints_sub' st (a :: r)), Hb|]. intro is. apply rsim_refl.
    - (* WindowE *) rewrite pe_e_WindowE. cbn [eval_view].
      eapply rsim_eq_bind; [apply get_view_sub, Hb|]. intro w.
      eapply rsim_eq_bind; [apply eval_waccs_sub|].
      { apply Forall_forall. intros wa _. destruct wa; cbn [PW]; [apply eval_sub, Hb | split; apply eval_sub, Hb]. }
      intro av. apply rsim_refl.
  Qed.

  (** ** statements *)
  (** every binder inside the body is allowed by [okb] (in particular it is not [x]) *)
  Fixpoint okbind (s : stmt) {struct s} : bool :=
    match s with
    | For i _ _ body _ =>
        okb i &&
        (fix go (l : list stmt) : bool := match l with [] => true | a :: r => okbind a && go r end) body
    | If _ a b =>
        (fix go (l : list stmt) : bool := match l with [] => true | a :: r => okbind a && go r end) a &&
        (fix go (l : list stmt) : bool := match l with [] => true | a :: r => okbind a && go r end) b
    | Alloc y _ | WindowS y _ => okb y
    | _ => true
    end.

  Lemma go_okbind : forall l,
    (fix go (l : list stmt) : bool := match l with [] => true | a :: r => okbind a && go r end) l = forallb okbind l.
  Proof. induction l as [|a r IH]; [reflexivity|]. cbn [forallb]. rewrite <- IH. reflexivity. Qed.

  Lemma inv_bind_var : forall y b st, okb y = true -> inv st -> inv (bind_var y b st).
  Proof.
    unfold inv. intros y b st Hy [Hb Hg]. cbn [bind_var s_env]. split.
    - cbn [lookup]. destruct (Pos.eqb x y) eqn:E; [apply Pos.eqb_eq in E; symmetry in E; apply okb_ne in Hy; contradiction|].
      exact Hb.
    - rewrite T_cons by exact Hy. apply Good_cons; assumption.
  Qed.
  Lemma tst_bind_var : forall y b st, okb y = true -> tst (bind_var y b st) = bind_var y b (tst st).
  Proof.
    intros y b st Hy. unfold tst, bind_var, with_env. cbn [s_env s_heap s_next s_cfg].
    rewrite T_cons by exact Hy. reflexivity.
  Qed.

  Definition ssub (s : stmt) : Prop :=
    okbind s = true -> forall st, inv st -> rsim SR (exec s st) (exec (pe_s s) (tst st)).

  Lemma exec_list_sub : forall l, Forall ssub l -> forallb okbind l = true ->
    forall st, inv st -> rsim SR (exec_list l st) (exec_list (pe_ss x c l) (tst st)).
  Proof.
    intros l H. induction H as [|s r Hs Hr IH]; intros Hnb st Hb.
    - cbn. split; [reflexivity|exact Hb].
    - cbn [forallb] in Hnb. apply andb_true_iff in Hnb as [Hn1 Hn2].
      cbn [pe_ss map exec_list]. fold (pe_ss x c r).
      eapply rsim_bind; [apply Hs; assumption|]. intros st1 st2 [-> Hb1]. apply IH; assumption.
  Qed.

  Lemma scoped_sub : forall l,
    (forall st, inv st -> rsim SR (exec_list l st) (exec_list (pe_ss x c l) (tst st))) ->
    forall st, inv st -> rsim SR (scoped l st) (scoped (pe_ss x c l) (tst st)).
  Proof.
    intros l H st Hb. unfold scoped.
    eapply rsim_bind; [apply H, Hb|]. intros st1 st2 [-> Hb1]. cbn. split; [reflexivity|exact Hb].
  Qed.

  Lemma iter_loop_sub : forall f g,
    (forall k st, inv st -> rsim SR (f k st) (g k (tst st))) ->
    forall n k st, inv st -> rsim SR (iter_loop n k f st) (iter_loop n k g (tst st)).
  Proof.
    intros f g H. induction n as [|n IH]; intros k st Hb; cbn [iter_loop].
    - split; [reflexivity|exact Hb].
    - eapply rsim_bind; [apply H, Hb|]. intros st1 st2 [-> Hb1]. apply IH, Hb1.
  Qed.

  Lemma eval_actuals_sub : forall formals args st, inv st ->
    rsim eq (eval_actuals st formals args) (eval_actuals (tst st) formals (pe_es x c args)).
  Proof.
    induction formals as [|[y k] fr IH]; intros args st Hb; destruct args as [|e er]; cbn [pe_es map eval_actuals]; try exact I.
    - reflexivity.
    - fold (pe_es x c er).
      assert (Ha : rsim eq (eval_actual st k e) (eval_actual (tst st) k (pe_e e))).
      { destruct k; cbn [eval_actual];
          try (eapply rsim_eq_bind; [apply eval_sub, Hb|]; intro v; apply rsim_refl);
          (eapply rsim_eq_bind; [apply eval_view_sub, Hb|]; intro w; apply rsim_refl). }
      eapply rsim_eq_bind; [exact Ha|]. intro b.
      eapply rsim_eq_bind; [apply IH, Hb|]. intro bs. apply rsim_refl.
  Qed.

  Theorem exec_sub : forall s, ssub s.
  Proof.
    induction s using stmt_ind2; unfold ssub; intros Hnb st Hb.
    - (* Assign *) cbn [PartialEval.pe_s exec].
      eapply rsim_eq_bind; [apply get_view_sub, Hb|]. intro w.
      eapply rsim_eq_bind; [apply eval_ints_sub', Hb|]. intro is.
      eapply rsim_eq_bind; [apply eval_sub, Hb|]. intro v.
      destruct (as_data v); cbn [bind]; [|exact I]. rewrite tst_heap.
      destruct (cell_write _ _ _ _); cbn [bind]; [|exact I]. split; [reflexivity|exact Hb].
    - (* Reduce *) cbn [PartialEval.pe_s exec].
      eapply rsim_eq_bind; [apply get_view_sub, Hb|]. intro w.
      eapply rsim_eq_bind; [apply eval_ints_sub', Hb|]. intro is.
      eapply rsim_eq_bind; [apply eval_sub, Hb|]. intro v.
      destruct (as_data v); cbn [bind]; [|exact I]. rewrite tst_heap.
      destruct (cell_read _ _ _); cbn [bind]; [|exact I].
      destruct (cell_write _ _ _ _); cbn [bind]; [|exact I]. split; [reflexivity|exact Hb].
    - (* WriteCfg *) cbn [PartialEval.pe_s exec].
      eapply rsim_eq_bind; [apply eval_sub, Hb|]. intro v. cbn. split; [reflexivity|exact Hb].
    - (* Pass *) cbn. split; [reflexivity|exact Hb].
    - (* If *) rewrite pe_s_If, !exec_If. cbn [okbind] in Hnb. rewrite !go_okbind in Hnb.
      apply andb_true_iff in Hnb as [Hna Hnb'].
      eapply rsim_eq_bind; [apply eval_sub, Hb|]. intro v.
      destruct (as_bool v) as [[]|]; cbn [bind]; [| |exact I].
      + apply scoped_sub; [|exact Hb]. intros st0 Hb0. apply exec_list_sub; assumption.
      + apply scoped_sub; [|exact Hb]. intros st0 Hb0. apply exec_list_sub; assumption.
    - (* For *) rewrite pe_s_For, !exec_For. cbn [okbind] in Hnb. rewrite go_okbind in Hnb.
      apply andb_true_iff in Hnb as [Hni Hnbody].
      eapply rsim_eq_bind; [apply eval_sub, Hb|]. intro vl. destruct (as_int vl) as [l|]; cbn [bind]; [|exact I].
      eapply rsim_eq_bind; [apply eval_sub, Hb|]. intro vh. destruct (as_int vh) as [h|]; cbn [bind]; [|exact I].
      destruct (h <? l); [exact I|].
      apply iter_loop_sub; [|exact Hb]. intros k st0 Hb0. unfold loop_body.
      rewrite <- tst_bind_var by exact Hni.
      eapply rsim_bind; [apply exec_list_sub; [exact H|exact Hnbody|apply inv_bind_var; assumption]|].
      intros st1 st2 [-> Hb1]. cbn. split; [reflexivity|exact Hb0].
    - (* Alloc *) cbn [PartialEval.pe_s exec]. cbn [okbind] in Hnb.
      eapply rsim_eq_bind; [apply eval_ints_sub', Hb|]. intro sh.
      destruct (all_pos sh); [|exact I]. cbn.
      split.
      + unfold tst, with_env, bind_var. cbn [s_env s_heap s_next s_cfg]. rewrite T_cons by exact Hnb. reflexivity.
      + apply inv_bind_var; [exact Hnb|]. exact Hb.
    - (* Call *) destruct f as [formals preds body]. cbn [PartialEval.pe_s]. rewrite !exec_Call.
      eapply rsim_eq_bind; [apply eval_actuals_sub, Hb|]. intro acts.
      replace (with_env [] (tst st)) with (with_env [] st) by reflexivity.
      destruct (bind_args formals acts (with_env [] st)) as [callee|]; cbn [bind]; [|exact I].
      destruct (check_preds callee preds); cbn [bind]; [|exact I].
      destruct (exec_list body callee) as [st'|]; cbn [bind]; [|exact I].
      cbn. split; [reflexivity|exact Hb].
    - (* WindowS *) cbn [PartialEval.pe_s exec]. cbn [okbind] in Hnb.
      eapply rsim_eq_bind; [apply eval_view_sub, Hb|]. intro w. cbn.
      split.
      + unfold tst, with_env, bind_var. cbn [s_env s_heap s_next s_cfg]. rewrite T_cons by exact Hnb. reflexivity.
      + apply inv_bind_var; [exact Hnb|]. exact Hb.
  Qed.

  (** the form used by the rewrite rules: a whole body *)
  Corollary body_sub : forall body st, forallb okbind body = true -> inv st ->
    rsim SR (exec_list body st) (exec_list (pe_ss x c body) (tst st)).
  Proof.
    intros body st Hok Hi. apply exec_list_sub; [|exact Hok|exact Hi].
    apply Forall_forall. intros s _. apply exec_sub.
  Qed.
End Subst.
