(** * Substitution of an index expression for a variable: general simulation lemma.

    Many scheduling rewrites replace every read of a loop variable [x] in a body by an expression [c]
    over other (or re-bound) variables: shift_loop (i := i + (lo - new_lo)), divide_loop
    (i := c*io + ii), mult_loops, unroll (i := literal), partial_eval (argument := literal).
    [pe_ss x c] (PartialEval.v) is that substitution.  This file proves, once and for all, that running
    the substituted body in an environment transformed by [T] simulates running the original body,
    provided that in the transformed environment [c] evaluates to the value [x] had, that [T] leaves
    all other variables alone, and that the body does not re-bind the variables [c] depends on.
    PartialEvalSound.v is the instance T = drop x, c = literal. *)
From Coq Require Import ZArith List Bool Lia QArith Qcanon.
From Core Require Import Syntax Sem Equiv Induction PartialEval PartialEvalSound.
Import ListNotations.
Local Open Scope Z_scope.

Section Subst.
  Variable x : sym.
  Variable c : expr.
  Variable cv : value.
  Variable okb : sym -> bool.          (* symbols the body may bind *)
  Variable T : env -> env.             (* environment of the rewritten run, from that of the original *)
  Variable Good : env -> Prop.         (* what the rewritten environment must satisfy for [c] to mean [cv] *)
  Variable hid : sym -> bool.          (* symbols whose binding [T] may change or add: the body must not mention them *)

  Hypothesis okb_x : okb x = false.
  Hypothesis c_eval : forall st, Good (s_env st) -> eval st c = Ok cv.
  Hypothesis c_noview : forall st, Good (s_env st) -> eval_view st c = Err TypeErr.
  Hypothesis T_lookup : forall e y, y <> x -> hid y = false -> lookup y (T e) = lookup y e.
  Hypothesis T_cons : forall y b e, okb y = true -> T ((y, b) :: e) = (y, b) :: T e.
  Hypothesis Good_cons : forall y b e, okb y = true -> Good e -> Good ((y, b) :: e).

  Notation pe_e := (pe_e x c).
  Notation pe_s := (pe_s x c).

  Definition tst (st : state) : state := with_env (T (s_env st)) st.
  Definition inv (st : state) : Prop := lookup x (s_env st) = Some (BVal cv) /\ Good (T (s_env st)).
  Definition SR (st1 st2 : state) : Prop := st2 = tst st1 /\ inv st1.

  Lemma okb_ne : forall y, okb y = true -> y <> x.
  Proof. intros y H ->. rewrite okb_x in H. discriminate H. Qed.

  Lemma tst_heap : forall st, s_heap (tst st) = s_heap st. Proof. reflexivity. Qed.
  Lemma tst_cfg : forall st, s_cfg (tst st) = s_cfg st. Proof. reflexivity. Qed.
  Lemma tst_env : forall st, s_env (tst st) = T (s_env st). Proof. reflexivity. Qed.

  Lemma inv_good : forall st, inv st -> Good (s_env (tst st)).
  Proof. intros st [_ H]. exact H. Qed.

  (** no hidden symbol occurs, and [x] is never used as a buffer name (it is a control variable) *)
  Fixpoint nm_e (e : expr) {struct e} : bool :=
    match e with
    | Var y => negb (hid y)
    | Int _ | BoolC _ | Real _ | ReadCfg _ => true
    | Read y idx => negb (hid y) && negb (Pos.eqb y x) &&
        (fix go (l : list expr) : bool := match l with [] => true | a :: r => nm_e a && go r end) idx
    | USub a => nm_e a
    | BinOp _ a b => nm_e a && nm_e b
    | Extern _ args => (fix go (l : list expr) : bool := match l with [] => true | a :: r => nm_e a && go r end) args
    | WindowE y acc => negb (hid y) && negb (Pos.eqb y x) &&
        (fix go (l : list wacc) : bool :=
           match l with
           | [] => true
           | Point a :: r => nm_e a && go r
           | Interval a b :: r => nm_e a && nm_e b && go r
           end) acc
    | Stride y _ => negb (hid y) && negb (Pos.eqb y x)
    end.
  Definition nm_w (w : wacc) : bool := match w with Point a => nm_e a | Interval a b => nm_e a && nm_e b end.
  Lemma go_nm_e : forall l,
    (fix go (l : list expr) : bool := match l with [] => true | a :: r => nm_e a && go r end) l = forallb nm_e l.
  Proof. induction l as [|a r IH]; [reflexivity|]. cbn [forallb]. rewrite <- IH. reflexivity. Qed.
  Lemma go_nm_w : forall l,
    (fix go (l : list wacc) : bool :=
       match l with
       | [] => true
       | Point a :: r => nm_e a && go r
       | Interval a b :: r => nm_e a && nm_e b && go r
       end) l = forallb nm_w l.
  Proof. induction l as [|[a|a b] r IH]; [reflexivity| |]; cbn [forallb nm_w]; rewrite <- IH; reflexivity. Qed.

  Fixpoint nm_s (s : stmt) {struct s} : bool :=
    match s with
    | Assign y idx rhs | Reduce y idx rhs => negb (hid y) && negb (Pos.eqb y x) && forallb nm_e idx && nm_e rhs
    | WriteCfg _ rhs => nm_e rhs
    | Pass => true
    | If e a b =>
        nm_e e &&
        (fix go (l : list stmt) : bool := match l with [] => true | a :: r => nm_s a && go r end) a &&
        (fix go (l : list stmt) : bool := match l with [] => true | a :: r => nm_s a && go r end) b
    | For _ lo hi body _ =>
        nm_e lo && nm_e hi &&
        (fix go (l : list stmt) : bool := match l with [] => true | a :: r => nm_s a && go r end) body
    | Alloc _ shape => forallb nm_e shape
    | Call _ args => forallb nm_e args
    | WindowS _ rhs => nm_e rhs
    end.
  Lemma go_nm_s : forall l,
    (fix go (l : list stmt) : bool := match l with [] => true | a :: r => nm_s a && go r end) l = forallb nm_s l.
  Proof. induction l as [|a r IH]; [reflexivity|]. cbn [forallb]. rewrite <- IH. reflexivity. Qed.

  (** ** expressions *)
  Lemma get_view_sub : forall st y, negb (hid y) && negb (Pos.eqb y x) = true -> inv st ->
    rsim eq (get_view st y) (get_view (tst st) y).
  Proof.
    intros st y Hy [Hb Hg]. apply andb_true_iff in Hy as [Hy Hne].
    apply negb_true_iff in Hy. apply negb_true_iff, Pos.eqb_neq in Hne.
    unfold get_view. rewrite tst_env, T_lookup by assumption. apply rsim_refl.
  Qed.

  Lemma Forall_nm : forall (Q : expr -> Prop) l,
    Forall (fun e => nm_e e = true -> Q e) l -> forallb nm_e l = true -> Forall Q l.
  Proof.
    intros Q l H. induction H as [|a r Ha Hr IH]; intro Hn; [constructor|].
    cbn [forallb] in Hn. apply andb_true_iff in Hn as [H1 H2]. constructor; auto.
  Qed.

  Definition esub (st : state) (e : expr) : Prop := rsim eq (eval st e) (eval (tst st) (pe_e e)).

  Lemma eval_ints_sub : forall st l, Forall (esub st) l ->
    rsim eq (eval_ints st l) (eval_ints (tst st) (pe_es x c l)).
  Proof.
    intros st l H. induction H as [|a r Ha Hr IH]; [cbn; reflexivity|].
    cbn [pe_es map eval_ints]. fold (pe_es x c r).
    eapply rsim_eq_bind; [exact Ha|]. intro v. destruct (as_int v); cbn [bind]; [|exact I].
    eapply rsim_eq_bind; [exact IH|]. intro zs. cbn. reflexivity.
  Qed.

  Lemma eval_vals_sub : forall st l, Forall (esub st) l ->
    rsim eq (eval_vals st l) (eval_vals (tst st) (pe_es x c l)).
  Proof.
    intros st l H. induction H as [|a r Ha Hr IH]; [cbn; reflexivity|].
    cbn [pe_es map eval_vals]. fold (pe_es x c r).
    eapply rsim_eq_bind; [exact Ha|]. intro v.
    eapply rsim_eq_bind; [exact IH|]. intro zs. cbn. reflexivity.
  Qed.

  Lemma eval_waccs_sub : forall st l, Forall (PW (esub st)) l ->
    rsim eq (eval_waccs st l) (eval_waccs (tst st) (map (pe_w x c) l)).
  Proof.
    intros st l H. induction H as [|w r Hw Hr IH]; [cbn; reflexivity|].
    destruct w as [a|a b]; cbn [map pe_w eval_waccs PW] in *.
    - eapply rsim_eq_bind; [exact Hw|]. intro v. destruct (as_int v); cbn [bind]; [|exact I].
      eapply rsim_eq_bind; [exact IH|]. intro rs. cbn. reflexivity.
    - destruct Hw as [Ha Hb].
      eapply rsim_eq_bind; [exact Ha|]. intro v. destruct (as_int v); cbn [bind]; [|exact I].
      eapply rsim_eq_bind; [exact Hb|]. intro v'. destruct (as_int v'); cbn [bind]; [|exact I].
      eapply rsim_eq_bind; [exact IH|]. intro rs. cbn. reflexivity.
  Qed.

  Theorem eval_sub : forall e st, nm_e e = true -> inv st -> esub st e.
  Proof.
    intros e st Hn Hb. unfold esub. induction e using expr_ind2; cbn [nm_e] in Hn.
    - (* Var *) cbn [PartialEval.pe_e]. destruct (Pos.eqb x0 x) eqn:E.
      + apply Pos.eqb_eq in E. subst x0. rewrite (c_eval (tst st)) by (apply inv_good, Hb).
        cbn [eval]. destruct Hb as [Hb _]. rewrite Hb. cbn. reflexivity.
      + apply Pos.eqb_neq in E. apply negb_true_iff in Hn. cbn [eval]. rewrite tst_env, T_lookup by assumption. apply rsim_refl.
    - cbn. reflexivity.
    - cbn. reflexivity.
    - cbn. reflexivity.
    - (* Read *) rewrite go_nm_e in Hn. apply andb_true_iff in Hn as [Hy Hl].
      rewrite pe_e_Read, !eval_Read.
      eapply rsim_eq_bind; [apply get_view_sub; assumption|]. intro w.
      eapply rsim_eq_bind; [apply eval_ints_sub, Forall_nm; assumption|]. intro is. rewrite tst_heap. apply rsim_refl.
    - (* USub *) cbn [PartialEval.pe_e eval]. eapply rsim_eq_bind; [apply IHe, Hn|]. intro v. apply rsim_refl.
    - (* BinOp *) apply andb_true_iff in Hn as [H1 H2]. cbn [PartialEval.pe_e eval]. eapply rsim_eq_bind; [apply IHe1, H1|]. intro v1.
      eapply rsim_eq_bind; [apply IHe2, H2|]. intro v2. apply rsim_refl.
    - (* Extern *) rewrite go_nm_e in Hn. rewrite pe_e_Extern, !eval_Extern.
      eapply rsim_eq_bind; [apply eval_vals_sub, Forall_nm; assumption|]. intro vs. apply rsim_refl.
    - (* WindowE *) rewrite pe_e_WindowE. cbn [eval]. exact I.
    - (* Stride *) cbn [PartialEval.pe_e eval].
      eapply rsim_eq_bind; [apply get_view_sub; assumption|]. intro w. apply rsim_refl.
    - (* ReadCfg *) cbn [PartialEval.pe_e eval]. rewrite tst_cfg. apply rsim_refl.
  Qed.

  Lemma eval_ints_sub' : forall st l, forallb nm_e l = true -> inv st ->
    rsim eq (eval_ints st l) (eval_ints (tst st) (pe_es x c l)).
  Proof.
    intros st l Hn Hb. apply eval_ints_sub. apply Forall_forall. intros e He. apply eval_sub; [|exact Hb].
    rewrite forallb_forall in Hn. apply Hn, He.
  Qed.

  Lemma eval_view_sub : forall st e, nm_e e = true -> inv st -> rsim eq (eval_view st e) (eval_view (tst st) (pe_e e)).
  Proof.
    intros st e Hn Hb. destruct e; try (cbn; exact I); cbn [nm_e] in Hn.
    - (* Var *) cbn [PartialEval.pe_e]. destruct (Pos.eqb x0 x).
      + rewrite (c_noview (tst st)) by (apply inv_good, Hb). cbn. exact I.
      + cbn. exact I.
    - (* Read *) rewrite go_nm_e in Hn. apply andb_true_iff in Hn as [Hy Hl].
      rewrite pe_e_Read. destruct idx as [|a r].
      + cbn [pe_es map eval_view]. apply get_view_sub; assumption.
      + cbn [pe_es map eval_view]. fold (pe_es x c (a :: r)).
        eapply rsim_eq_bind; [apply get_view_sub; assumption|]. intro w.
        eapply rsim_eq_bind; [apply (eval_ints_sub' st (a :: r)); assumption|]. intro is. apply rsim_refl.
    - (* WindowE *) rewrite go_nm_w in Hn. apply andb_true_iff in Hn as [Hy Hl].
      rewrite pe_e_WindowE. cbn [eval_view].
      eapply rsim_eq_bind; [apply get_view_sub; assumption|]. intro w.
      eapply rsim_eq_bind; [apply eval_waccs_sub|].
      { apply Forall_forall. intros wa Hwa. rewrite forallb_forall in Hl. specialize (Hl wa Hwa).
        destruct wa; cbn [PW nm_w] in *; [apply eval_sub; assumption|].
        apply andb_true_iff in Hl as [H1 H2]. split; apply eval_sub; assumption. }
      intro av. apply rsim_refl.
  Qed.

  (** ** statements *)
  (** every binder inside the body is allowed by [okb] (in particular it is not [x]) *)
  Fixpoint okbind (s : stmt) {struct s} : bool :=
    match s with
    | For i _ _ body _ =>
        okb i &&
        (fix go (l : list stmt) : bool := match l with [] => true | a :: r => okbind a && go r end) body
    | If _ a b =>
        (fix go (l : list stmt) : bool := match l with [] => true | a :: r => okbind a && go r end) a &&
        (fix go (l : list stmt) : bool := match l with [] => true | a :: r => okbind a && go r end) b
    | Alloc y _ | WindowS y _ => okb y
    | _ => true
    end.

  Lemma go_okbind : forall l,
    (fix go (l : list stmt) : bool := match l with [] => true | a :: r => okbind a && go r end) l = forallb okbind l.
  Proof. induction l as [|a r IH]; [reflexivity|]. cbn [forallb]. rewrite <- IH. reflexivity. Qed.

  Lemma inv_bind_var : forall y b st, okb y = true -> inv st -> inv (bind_var y b st).
  Proof.
    unfold inv. intros y b st Hy [Hb Hg]. cbn [bind_var s_env]. split.
    - cbn [lookup]. destruct (Pos.eqb x y) eqn:E; [apply Pos.eqb_eq in E; symmetry in E; apply okb_ne in Hy; contradiction|].
      exact Hb.
    - rewrite T_cons by exact Hy. apply Good_cons; assumption.
  Qed.
  Lemma tst_bind_var : forall y b st, okb y = true -> tst (bind_var y b st) = bind_var y b (tst st).
  Proof.
    intros y b st Hy. unfold tst, bind_var, with_env. cbn [s_env s_heap s_next s_cfg].
    rewrite T_cons by exact Hy. reflexivity.
  Qed.

  Definition ssub (s : stmt) : Prop :=
    okbind s = true -> nm_s s = true -> forall st, inv st -> rsim SR (exec s st) (exec (pe_s s) (tst st)).

  Lemma exec_list_sub : forall l, Forall ssub l -> forallb okbind l = true -> forallb nm_s l = true ->
    forall st, inv st -> rsim SR (exec_list l st) (exec_list (pe_ss x c l) (tst st)).
  Proof.
    intros l H. induction H as [|s r Hs Hr IH]; intros Hnb Hnm st Hb.
    - cbn. split; [reflexivity|exact Hb].
    - cbn [forallb] in Hnb, Hnm. apply andb_true_iff in Hnb as [Hn1 Hn2]. apply andb_true_iff in Hnm as [Hm1 Hm2].
      cbn [pe_ss map exec_list]. fold (pe_ss x c r).
      eapply rsim_bind; [apply Hs; assumption|]. intros st1 st2 [-> Hb1]. apply IH; assumption.
  Qed.

  Lemma scoped_sub : forall l,
    (forall st, inv st -> rsim SR (exec_list l st) (exec_list (pe_ss x c l) (tst st))) ->
    forall st, inv st -> rsim SR (scoped l st) (scoped (pe_ss x c l) (tst st)).
  Proof.
    intros l H st Hb. unfold scoped.
    eapply rsim_bind; [apply H, Hb|]. intros st1 st2 [-> Hb1]. cbn. split; [reflexivity|exact Hb].
  Qed.

  Lemma iter_loop_sub : forall f g,
    (forall k st, inv st -> rsim SR (f k st) (g k (tst st))) ->
    forall n k st, inv st -> rsim SR (iter_loop n k f st) (iter_loop n k g (tst st)).
  Proof.
    intros f g H. induction n as [|n IH]; intros k st Hb; cbn [iter_loop].
    - split; [reflexivity|exact Hb].
    - eapply rsim_bind; [apply H, Hb|]. intros st1 st2 [-> Hb1]. apply IH, Hb1.
  Qed.

  Lemma eval_actuals_sub : forall formals args st, forallb nm_e args = true -> inv st ->
    rsim eq (eval_actuals st formals args) (eval_actuals (tst st) formals (pe_es x c args)).
  Proof.
    induction formals as [|[y k] fr IH]; intros args st Hn Hb; destruct args as [|e er]; cbn [pe_es map eval_actuals]; try exact I.
    - reflexivity.
    - fold (pe_es x c er). cbn [forallb] in Hn. apply andb_true_iff in Hn as [Hn1 Hn2].
      assert (Ha : rsim eq (eval_actual st k e) (eval_actual (tst st) k (pe_e e))).
      { destruct k; cbn [eval_actual];
          try (eapply rsim_eq_bind; [apply eval_sub; assumption|]; intro v; apply rsim_refl);
          (eapply rsim_eq_bind; [apply eval_view_sub; assumption|]; intro w; apply rsim_refl). }
      eapply rsim_eq_bind; [exact Ha|]. intro b.
      eapply rsim_eq_bind; [apply IH; assumption|]. intro bs. apply rsim_refl.
  Qed.

  Theorem exec_sub : forall s, ssub s.
  Proof.
    induction s using stmt_ind2; unfold ssub; intros Hnb Hnm st Hb; cbn [nm_s] in Hnm.
    - (* Assign *) apply andb_true_iff in Hnm as [Hnm Hr]. apply andb_true_iff in Hnm as [Hy Hi].
      cbn [PartialEval.pe_s exec].
      eapply rsim_eq_bind; [apply get_view_sub; assumption|]. intro w.
      eapply rsim_eq_bind; [apply eval_ints_sub'; assumption|]. intro is.
      eapply rsim_eq_bind; [apply eval_sub; assumption|]. intro v.
      destruct (as_data v); cbn [bind]; [|exact I]. rewrite tst_heap.
      destruct (cell_write _ _ _ _); cbn [bind]; [|exact I]. split; [reflexivity|exact Hb].
    - (* Reduce *) apply andb_true_iff in Hnm as [Hnm Hr]. apply andb_true_iff in Hnm as [Hy Hi].
      cbn [PartialEval.pe_s exec].
      eapply rsim_eq_bind; [apply get_view_sub; assumption|]. intro w.
      eapply rsim_eq_bind; [apply eval_ints_sub'; assumption|]. intro is.
      eapply rsim_eq_bind; [apply eval_sub; assumption|]. intro v.
      destruct (as_data v); cbn [bind]; [|exact I]. rewrite tst_heap.
      destruct (cell_read _ _ _); cbn [bind]; [|exact I].
      destruct (cell_write _ _ _ _); cbn [bind]; [|exact I]. split; [reflexivity|exact Hb].
    - (* WriteCfg *) cbn [PartialEval.pe_s exec].
      eapply rsim_eq_bind; [apply eval_sub; assumption|]. intro v. cbn. split; [reflexivity|exact Hb].
    - (* Pass *) cbn. split; [reflexivity|exact Hb].
    - (* If *) rewrite pe_s_If, !exec_If. cbn [okbind] in Hnb. rewrite !go_okbind in Hnb. rewrite !go_nm_s in Hnm.
      apply andb_true_iff in Hnb as [Hna Hnb'].
      apply andb_true_iff in Hnm as [Hnm Hmb]. apply andb_true_iff in Hnm as [Hme Hma].
      eapply rsim_eq_bind; [apply eval_sub; assumption|]. intro v.
      destruct (as_bool v) as [[]|]; cbn [bind]; [| |exact I].
      + apply scoped_sub; [|exact Hb]. intros st0 Hb0. apply exec_list_sub; assumption.
      + apply scoped_sub; [|exact Hb]. intros st0 Hb0. apply exec_list_sub; assumption.
    - (* For *) rewrite pe_s_For, !exec_For. cbn [okbind] in Hnb. rewrite go_okbind in Hnb. rewrite go_nm_s in Hnm.
      apply andb_true_iff in Hnb as [Hni Hnbody].
      apply andb_true_iff in Hnm as [Hnm Hmbody]. apply andb_true_iff in Hnm as [Hmlo Hmhi].
      eapply rsim_eq_bind; [apply eval_sub; assumption|]. intro vl. destruct (as_int vl) as [l|]; cbn [bind]; [|exact I].
      eapply rsim_eq_bind; [apply eval_sub; assumption|]. intro vh. destruct (as_int vh) as [h|]; cbn [bind]; [|exact I].
      destruct (h <? l); [exact I|].
      apply iter_loop_sub; [|exact Hb]. intros k st0 Hb0. unfold loop_body.
      rewrite <- tst_bind_var by exact Hni.
      eapply rsim_bind; [apply exec_list_sub; [exact H|exact Hnbody|exact Hmbody|apply inv_bind_var; assumption]|].
      intros st1 st2 [-> Hb1]. cbn. split; [reflexivity|exact Hb0].
    - (* Alloc *) cbn [PartialEval.pe_s exec]. cbn [okbind] in Hnb.
      eapply rsim_eq_bind; [apply eval_ints_sub'; assumption|]. intro sh.
      destruct (all_pos sh); [|exact I]. cbn.
      split.
      + unfold tst, with_env, bind_var. cbn [s_env s_heap s_next s_cfg]. rewrite T_cons by exact Hnb. reflexivity.
      + apply inv_bind_var; [exact Hnb|]. exact Hb.
    - (* Call *) destruct f as [formals preds body]. cbn [PartialEval.pe_s]. rewrite !exec_Call.
      eapply rsim_eq_bind; [apply eval_actuals_sub; assumption|]. intro acts.
      replace (with_env [] (tst st)) with (with_env [] st) by reflexivity.
      destruct (bind_args formals acts (with_env [] st)) as [callee|]; cbn [bind]; [|exact I].
      destruct (check_preds callee preds); cbn [bind]; [|exact I].
      destruct (exec_list body callee) as [st'|]; cbn [bind]; [|exact I].
      cbn. split; [reflexivity|exact Hb].
    - (* WindowS *) cbn [PartialEval.pe_s exec]. cbn [okbind] in Hnb.
      eapply rsim_eq_bind; [apply eval_view_sub; assumption|]. intro w. cbn.
      split.
      + unfold tst, with_env, bind_var. cbn [s_env s_heap s_next s_cfg]. rewrite T_cons by exact Hnb. reflexivity.
      + apply inv_bind_var; [exact Hnb|]. exact Hb.
  Qed.

  (** the form used by the rewrite rules: a whole body *)
  Corollary body_sub : forall body st, forallb okbind body = true -> forallb nm_s body = true -> inv st ->
    rsim SR (exec_list body st) (exec_list (pe_ss x c body) (tst st)).
  Proof.
    intros body st Hok Hnm Hi. apply exec_list_sub; [|exact Hok|exact Hnm|exact Hi].
    apply Forall_forall. intros s _. apply exec_sub.
  Qed.
End Subst.

