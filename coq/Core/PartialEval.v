(** * partial_eval (DoPartialEval, LoopIR_scheduling.py): model and correctness.

    The implementation substitutes a literal for every read of the chosen index/size/bool argument
    (in the body, in the assertions and in the shapes of later arguments) and removes the argument from
    the signature.  [pe_proc] is that rewrite on the deep embedding; the harness compares its output with
    the exported result of the real [Procedure.partial_eval] term by term (harness/props/C19.py). *)
From Coq Require Import ZArith List Bool Lia.
From Core Require Import Syntax Sem Equiv.
Import ListNotations.
Local Open Scope Z_scope.

Section PE.
  Variable x : sym.        (* the argument being fixed *)
  Variable c : expr.       (* the literal: Int z or BoolC b *)

  Fixpoint pe_e (e : expr) {struct e} : expr :=
    match e with
    | Var y => if Pos.eqb y x then c else Var y
    | Int _ | BoolC _ | Real _ | ReadCfg _ | Stride _ _ => e
    | Read y idx => Read y ((fix go (l : list expr) : list expr :=
                               match l with [] => [] | a :: r => pe_e a :: go r end) idx)
    | USub a => USub (pe_e a)
    | BinOp op a b => BinOp op (pe_e a) (pe_e b)
    | Extern f args => Extern f ((fix go (l : list expr) : list expr :=
                                    match l with [] => [] | a :: r => pe_e a :: go r end) args)
    | WindowE y acc =>
        WindowE y ((fix go (l : list wacc) : list wacc :=
                      match l with
                      | [] => []
                      | Point a :: r => Point (pe_e a) :: go r
                      | Interval a b :: r => Interval (pe_e a) (pe_e b) :: go r
                      end) acc)
    end.

  Definition pe_es (l : list expr) : list expr := map pe_e l.

  Definition pe_w (w : wacc) : wacc :=
    match w with Point a => Point (pe_e a) | Interval a b => Interval (pe_e a) (pe_e b) end.

  Lemma go_map_e : forall l,
    (fix go (l : list expr) : list expr := match l with [] => [] | a :: r => pe_e a :: go r end) l = map pe_e l.
  Proof. induction l as [|a r IH]; [reflexivity|]. cbn [map]. rewrite <- IH. reflexivity. Qed.
  Lemma go_map_w : forall l,
    (fix go (l : list wacc) : list wacc :=
       match l with
       | [] => []
       | Point a :: r => Point (pe_e a) :: go r
       | Interval a b :: r => Interval (pe_e a) (pe_e b) :: go r
       end) l = map pe_w l.
  Proof. induction l as [|[a|a b] r IH]; [reflexivity| |]; cbn [map pe_w]; rewrite <- IH; reflexivity. Qed.
  Lemma pe_e_Read : forall y idx, pe_e (Read y idx) = Read y (pe_es idx).
  Proof. intros. cbn [pe_e]. rewrite go_map_e. reflexivity. Qed.
  Lemma pe_e_Extern : forall f args, pe_e (Extern f args) = Extern f (pe_es args).
  Proof. intros. cbn [pe_e]. rewrite go_map_e. reflexivity. Qed.
  Lemma pe_e_WindowE : forall y acc, pe_e (WindowE y acc) = WindowE y (map pe_w acc).
  Proof. intros. cbn [pe_e]. rewrite go_map_w. reflexivity. Qed.

  (** the callee of a call is a separate procedure with its own symbols: untouched (as in Python) *)
  Fixpoint pe_s (s : stmt) {struct s} : stmt :=
    match s with
    | Assign y idx rhs => Assign y (pe_es idx) (pe_e rhs)
    | Reduce y idx rhs => Reduce y (pe_es idx) (pe_e rhs)
    | WriteCfg f rhs => WriteCfg f (pe_e rhs)
    | Pass => Pass
    | If e body orelse =>
        If (pe_e e)
           ((fix go (l : list stmt) : list stmt := match l with [] => [] | a :: r => pe_s a :: go r end) body)
           ((fix go (l : list stmt) : list stmt := match l with [] => [] | a :: r => pe_s a :: go r end) orelse)
    | For i lo hi body par =>
        For i (pe_e lo) (pe_e hi)
            ((fix go (l : list stmt) : list stmt := match l with [] => [] | a :: r => pe_s a :: go r end) body) par
    | Alloc y shape => Alloc y (pe_es shape)
    | Call f args => Call f (pe_es args)
    | WindowS y rhs => WindowS y (pe_e rhs)
    end.

  Definition pe_ss (l : list stmt) : list stmt := map pe_s l.

  Lemma go_map_s : forall l,
    (fix go (l : list stmt) : list stmt := match l with [] => [] | a :: r => pe_s a :: go r end) l = map pe_s l.
  Proof. induction l as [|a r IH]; [reflexivity|]. cbn [map]. rewrite <- IH. reflexivity. Qed.
  Lemma pe_s_If : forall e a b, pe_s (If e a b) = If (pe_e e) (pe_ss a) (pe_ss b).
  Proof. intros. cbn [pe_s]. rewrite !go_map_s. reflexivity. Qed.
  Lemma pe_s_For : forall i lo hi a par, pe_s (For i lo hi a par) = For i (pe_e lo) (pe_e hi) (pe_ss a) par.
  Proof. intros. cbn [pe_s]. rewrite go_map_s. reflexivity. Qed.

  Definition pe_kind (k : argkind) : argkind :=
    match k with KTensor shape w => KTensor (pe_es shape) w | _ => k end.

  Fixpoint pe_formals (fs : list (sym * argkind)) : list (sym * argkind) :=
    match fs with
    | [] => []
    | (y, k) :: r => if Pos.eqb y x then pe_formals r else (y, pe_kind k) :: pe_formals r
    end.

  Definition pe_proc (p : proc) : proc :=
    match p with
    | Proc formals preds body => Proc (pe_formals formals) (pe_es preds) (pe_ss body)
    end.
End PE.
