#!/bin/bash
# builds the extracted reference interpreter: coq/Core/_build/interp   (atomic: build aside, then rename)
set -e
cd "$(dirname "$0")"
mkdir -p _build
if [ -x _build/interp ] && [ _build/interp -nt ocaml/interp.ml ] && [ _build/interp -nt driver.ml ]; then exit 0; fi
exec 9>_build/.lock
flock 9
if [ -x _build/interp ] && [ _build/interp -nt ocaml/interp.ml ] && [ _build/interp -nt driver.ml ]; then exit 0; fi
T=_build/tmp.$$
mkdir -p $T
cp ocaml/interp.ml ocaml/interp.mli driver.ml $T/
(cd $T && (ocamlfind ocamlopt -O2 -w -a interp.mli interp.ml driver.ml -o interp 2>/dev/null || ocamlfind ocamlopt -w -a interp.mli interp.ml driver.ml -o interp))
mv -f $T/interp _build/interp
rm -rf $T
