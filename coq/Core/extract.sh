#!/bin/bash
# builds the extracted reference interpreter: coq/Core/_build/interp
set -e
cd "$(dirname "$0")"
mkdir -p _build
cp ocaml/interp.ml ocaml/interp.mli driver.ml _build/
cd _build
ocamlfind ocamlopt -O2 -w -a interp.mli interp.ml driver.ml -o interp 2>/dev/null || ocamlfind ocamlopt -w -a interp.mli interp.ml driver.ml -o interp
