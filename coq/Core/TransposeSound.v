(** * Correctness of transpose: the transposed procedure on the transposed view of the same cells. *)
From Coq Require Import ZArith List Bool Lia QArith Qcanon.
From Core Require Import Syntax Sem Equiv Induction PartialEvalSound Transpose.
Import ListNotations.
Local Open Scope Z_scope.

Section Sound.
  Variable a : sym.
  Notation tr_e := (tr_e a).
  Notation tr_s := (tr_s a).

  Definition swview (w : view) : view := mkView (vloc w) (voff w) (swap2 (vdims w)).
  Definition swb (b : binding) : binding := match b with BView w => BView (swview w) | BVal _ => b end.

  Fixpoint tmap (e : env) : env :=
    match e with
    | [] => []
    | (y, b) :: r => (y, if Pos.eqb y a then swb b else b) :: tmap r
    end.

  Definition tst (st : state) : state := with_env (tmap (s_env st)) st.

  (** the argument is bound to a 2-dimensional view wherever it is visible *)
  Definition inv (st : state) : Prop :=
    forall w, lookup a (s_env st) = Some (BView w) -> exists d0 d1, vdims w = [d0; d1].
  Definition R (st1 st2 : state) : Prop := st2 = tst st1 /\ inv st1.

  Lemma lookup_tmap : forall e y,
    lookup y (tmap e) = match lookup y e with Some b => Some (if Pos.eqb y a then swb b else b) | None => None end.
  Proof.
    induction e as [|[z b] r IH]; intro y; [reflexivity|]. cbn [tmap lookup].
    destruct (Pos.eqb y z) eqn:E; [|apply IH]. apply Pos.eqb_eq in E. subst z. reflexivity.
  Qed.

  Lemma tst_heap : forall st, s_heap (tst st) = s_heap st. Proof. reflexivity. Qed.
  Lemma tst_cfg : forall st, s_cfg (tst st) = s_cfg st. Proof. reflexivity. Qed.
  Lemma tst_env : forall st, s_env (tst st) = tmap (s_env st). Proof. reflexivity. Qed.

  Lemma get_view_ne : forall st y, y <> a -> get_view (tst st) y = get_view st y.
  Proof.
    intros st y Hne. unfold get_view. rewrite tst_env, lookup_tmap.
    destruct (Pos.eqb y a) eqn:E; [apply Pos.eqb_eq in E; contradiction|]. destruct (lookup y (s_env st)) as [[|]|]; reflexivity.
  Qed.

  Lemma get_view_a : forall st,
    get_view (tst st) a = match get_view st a with Ok w => Ok (swview w) | Err e => Err e end.
  Proof.
    intro st. unfold get_view. rewrite tst_env, lookup_tmap, Pos.eqb_refl.
    destruct (lookup a (s_env st)) as [[v|w]|]; reflexivity.
  Qed.

  (** ** two-dimensional accesses commute with the swap *)
  Lemma flat_index_swap : forall d0 d1 i j acc,
    rsim eq (flat_index [d0; d1] [i; j] acc) (flat_index [d1; d0] [j; i] acc).
  Proof.
    intros [n0 s0] [n1 s1] i j acc. cbn [flat_index].
    destruct ((0 <=? i) && (i <? n0)); destruct ((0 <=? j) && (j <? n1)); cbn; auto. ring.
  Qed.

  Lemma flat_index_arity : forall (d0 d1 : Z * Z) idx acc, length idx <> 2%nat ->
    exists e, flat_index [d0; d1] idx acc = Err e.
  Proof.
    intros [n0 s0] [n1 s1] idx acc Hl. destruct idx as [|i [|j [|k r]]]; cbn [flat_index length] in *; try (exfalso; apply Hl; reflexivity).
    - eexists; reflexivity.
    - destruct (_ && _); eexists; reflexivity.
    - destruct (_ && _); [destruct (_ && _)|]; eexists; reflexivity.
  Qed.

  Lemma cell_read_swap : forall h w d0 d1 i j, vdims w = [d0; d1] ->
    rsim eq (cell_read h w [i; j]) (cell_read h (swview w) [j; i]).
  Proof.
    intros h w d0 d1 i j Hd. unfold cell_read, swview. cbn [vdims vloc voff]. rewrite Hd. cbn [swap2].
    pose proof (flat_index_swap d0 d1 i j (voff w)) as H.
    destruct (flat_index [d0; d1] [i; j] (voff w)); destruct (flat_index [d1; d0] [j; i] (voff w)); cbn in H; try contradiction; cbn [bind]; [|exact I].
    subst. apply rsim_refl.
  Qed.

  Lemma cell_write_swap : forall h w d0 d1 i j v, vdims w = [d0; d1] ->
    rsim eq (cell_write h w [i; j] v) (cell_write h (swview w) [j; i] v).
  Proof.
    intros h w d0 d1 i j v Hd. unfold cell_write, swview. cbn [vdims vloc voff]. rewrite Hd. cbn [swap2].
    pose proof (flat_index_swap d0 d1 i j (voff w)) as H.
    destruct (flat_index [d0; d1] [i; j] (voff w)); destruct (flat_index [d1; d0] [j; i] (voff w)); cbn in H; try contradiction; cbn [bind]; [|exact I].
    subst. apply rsim_refl.
  Qed.

  Lemma cell_read_arity : forall h w d0 d1 idx, vdims w = [d0; d1] -> length idx <> 2%nat ->
    exists e, cell_read h w idx = Err e.
  Proof. intros. unfold cell_read. rewrite H. destruct (flat_index_arity d0 d1 idx (voff w) H0) as [e ->]. eexists; reflexivity. Qed.
  Lemma cell_write_arity : forall h w d0 d1 idx v, vdims w = [d0; d1] -> length idx <> 2%nat ->
    exists e, cell_write h w idx v = Err e.
  Proof. intros. unfold cell_write. rewrite H. destruct (flat_index_arity d0 d1 idx (voff w) H0) as [e ->]. eexists; reflexivity. Qed.

  Lemma eval_ints_length : forall st l zs, eval_ints st l = Ok zs -> length zs = length l.
  Proof.
    induction l as [|x r IH]; intros zs; cbn [eval_ints].
    - intro H; inversion H; reflexivity.
    - destruct (eval st x) as [v|]; cbn [bind]; [|discriminate]. destruct (as_int v); cbn [bind]; [|discriminate].
      destruct (eval_ints st r) as [zr|]; cbn [bind]; [|discriminate]. intro H; inversion H; subst. cbn [length]. f_equal. apply IH. reflexivity.
  Qed.

  (** ** expressions *)
  (** uses of [a] the rewrite supports: never as a whole buffer, windows keep at most one dimension *)
  Definition both_iv (acc : list wacc) : bool :=
    match acc with [Interval _ _; Interval _ _] => true | _ => false end.

  Fixpoint ok_e (e : expr) {struct e} : bool :=
    match e with
    | Var _ | Int _ | BoolC _ | Real _ | ReadCfg _ | Stride _ _ => true
    | Read y idx =>
        negb (Pos.eqb y a && match idx with [] => true | _ => false end) &&
        (fix go (l : list expr) : bool := match l with [] => true | x :: r => ok_e x && go r end) idx
    | USub x => ok_e x
    | BinOp _ x y => ok_e x && ok_e y
    | Extern _ args => (fix go (l : list expr) : bool := match l with [] => true | x :: r => ok_e x && go r end) args
    | WindowE y acc =>
        negb (Pos.eqb y a && both_iv acc) &&
        (fix go (l : list wacc) : bool :=
           match l with
           | [] => true
           | Point x :: r => ok_e x && go r
           | Interval x z :: r => ok_e x && ok_e z && go r
           end) acc
    end.
  Definition ok_es (l : list expr) : bool := forallb ok_e l.
  Definition ok_w (w : wacc) : bool := match w with Point x => ok_e x | Interval x z => ok_e x && ok_e z end.
  Lemma ogo_e : forall l,
    (fix go (l : list expr) : bool := match l with [] => true | x :: r => ok_e x && go r end) l = ok_es l.
  Proof. induction l as [|x r IH]; [reflexivity|]. unfold ok_es in *. cbn [forallb]. rewrite <- IH. reflexivity. Qed.
  Lemma ogo_w : forall l,
    (fix go (l : list wacc) : bool :=
       match l with
       | [] => true
       | Point x :: r => ok_e x && go r
       | Interval x z :: r => ok_e x && ok_e z && go r
       end) l = forallb ok_w l.
  Proof. induction l as [|[x|x z] r IH]; [reflexivity| |]; cbn [forallb ok_w]; rewrite <- IH; reflexivity. Qed.

  Definition esim (st : state) (e : expr) : Prop :=
    ok_e e = true -> rsim eq (eval st e) (eval (tst st) (tr_e e)).

  Lemma eval_ints_sim : forall st l, Forall (esim st) l -> ok_es l = true ->
    rsim eq (eval_ints st l) (eval_ints (tst st) (tr_es a l)).
  Proof.
    intros st l H. induction H as [|x r Hx Hr IH]; intro Hok; [cbn; reflexivity|].
    cbn [ok_es forallb] in Hok. apply andb_true_iff in Hok as [H1 H2].
    cbn [tr_es map eval_ints]. fold (tr_es a r).
    eapply rsim_eq_bind; [apply Hx, H1|]. intro v. destruct (as_int v); cbn [bind]; [|exact I].
    eapply rsim_eq_bind; [apply IH, H2|]. intro zs. cbn. reflexivity.
  Qed.

  Lemma eval_vals_sim : forall st l, Forall (esim st) l -> ok_es l = true ->
    rsim eq (eval_vals st l) (eval_vals (tst st) (tr_es a l)).
  Proof.
    intros st l H. induction H as [|x r Hx Hr IH]; intro Hok; [cbn; reflexivity|].
    cbn [ok_es forallb] in Hok. apply andb_true_iff in Hok as [H1 H2].
    cbn [tr_es map eval_vals]. fold (tr_es a r).
    eapply rsim_eq_bind; [apply Hx, H1|]. intro v.
    eapply rsim_eq_bind; [apply IH, H2|]. intro zs. cbn. reflexivity.
  Qed.

  Lemma eval_waccs_sim : forall st l, Forall (PW (esim st)) l -> forallb ok_w l = true ->
    rsim eq (eval_waccs st l) (eval_waccs (tst st) (map (tr_w a) l)).
  Proof.
    intros st l H. induction H as [|w r Hw Hr IH]; intro Hok; [cbn; reflexivity|].
    cbn [forallb] in Hok. apply andb_true_iff in Hok as [H1 H2].
    destruct w as [x|x z]; cbn [map tr_w eval_waccs PW ok_w] in *.
    - eapply rsim_eq_bind; [apply Hw, H1|]. intro v. destruct (as_int v); cbn [bind]; [|exact I].
      eapply rsim_eq_bind; [apply IH, H2|]. intro rs. cbn. reflexivity.
    - apply andb_true_iff in H1 as [Hx Hz]. destruct Hw as [Ex Ez].
      eapply rsim_eq_bind; [apply Ex, Hx|]. intro v. destruct (as_int v); cbn [bind]; [|exact I].
      eapply rsim_eq_bind; [apply Ez, Hz|]. intro v'. destruct (as_int v'); cbn [bind]; [|exact I].
      eapply rsim_eq_bind; [apply IH, H2|]. intro rs. cbn. reflexivity.
  Qed.

  (** evaluating the two indices of an access in the other order gives the swapped pair (up to errors) *)
  Lemma eval_ints_pair_swap : forall st1 st2 x y x' y',
    rsim eq (eval st1 x) (eval st2 x') -> rsim eq (eval st1 y) (eval st2 y') ->
    rsim (fun l1 l2 => exists i j, l1 = [i; j] /\ l2 = [j; i]) (eval_ints st1 [x; y]) (eval_ints st2 [y'; x']).
  Proof.
    intros st1 st2 x y x' y' Hx Hy. cbn [eval_ints].
    destruct (eval st1 x) as [vx|]; destruct (eval st2 x') as [vx'|]; cbn [rsim] in Hx; try contradiction;
      destruct (eval st1 y) as [vy|]; destruct (eval st2 y') as [vy'|]; cbn [rsim] in Hy; try contradiction; subst; cbn [bind];
      try (destruct (as_int vx'); cbn [bind]; exact I); try (destruct (as_int vy'); cbn [bind]; exact I); try exact I.
    destruct (as_int vx') as [i|]; destruct (as_int vy') as [j|]; cbn [bind rsim]; auto. exists i, j. split; reflexivity.
  Qed.

  Theorem eval_sim : forall e st, inv st -> esim st e.
  Proof.
    intros e st Hinv. unfold esim. induction e using expr_ind2; intro Hok.
    - (* Var *) cbn [Transpose.tr_e eval]. rewrite tst_env, lookup_tmap.
      destruct (lookup x (s_env st)) as [[v|w]|]; [|destruct (Pos.eqb x a)|]; cbn; auto.
      destruct (Pos.eqb x a); cbn; auto.
    - cbn; reflexivity.
    - cbn; reflexivity.
    - cbn; reflexivity.
    - (* Read *) cbn [ok_e] in Hok. rewrite ogo_e in Hok. apply andb_true_iff in Hok as [Hwhole Hidx].
      rewrite tr_e_Read, !eval_Read. destruct (Pos.eqb x a) eqn:E.
      + apply Pos.eqb_eq in E. subst x. rewrite get_view_a.
        destruct (get_view st a) as [w|] eqn:Hg; cbn [bind]; [|exact I].
        assert (Hd : exists d0 d1, vdims w = [d0; d1]).
        { apply Hinv. unfold get_view in Hg. destruct (lookup a (s_env st)) as [[v|w']|]; try discriminate. inversion Hg; reflexivity. }
        destruct Hd as (d0 & d1 & Hd). rewrite tst_heap.
        destruct idx as [|e1 [|e2 [|e3 r]]].
        * cbn [tr_es map swap2 eval_ints bind]. destruct (cell_read_arity (s_heap st) w d0 d1 [] Hd) as [er ->]; [discriminate|].
          destruct (cell_read_arity (s_heap st) (swview w) d1 d0 []) as [er' ->]; [unfold swview; cbn; rewrite Hd; reflexivity|discriminate|]. exact I.
        * inversion H as [|? ? H1 H2]; subst. cbn [ok_es forallb] in Hidx. rewrite andb_true_r in Hidx.
          cbn [tr_es map swap2 eval_ints].
          pose proof (H1 Hidx) as Hs.
          destruct (eval st e1) as [v|]; destruct (eval (tst st) (tr_e e1)) as [v'|]; cbn [rsim] in Hs; try contradiction; cbn [bind]; [|exact I].
          subst. destruct (as_int v') as [i|]; cbn [bind]; [|exact I].
          destruct (cell_read_arity (s_heap st) w d0 d1 [i] Hd) as [er ->]; [discriminate|].
          destruct (cell_read_arity (s_heap st) (swview w) d1 d0 [i]) as [er' ->]; [unfold swview; cbn; rewrite Hd; reflexivity|discriminate|]. exact I.
        * inversion H as [|? ? H1 H2]; subst. inversion H2 as [|? ? H3 H4]; subst.
          cbn [ok_es forallb] in Hidx. apply andb_true_iff in Hidx as [Ho1 Ho2]. rewrite andb_true_r in Ho2.
          cbn [tr_es map swap2].
          eapply rsim_bind; [apply (eval_ints_pair_swap st (tst st) e1 e2 (tr_e e1) (tr_e e2) (H1 Ho1) (H3 Ho2))|].
          intros l1 l2 (i & j & -> & ->).
          eapply rsim_eq_bind; [apply (cell_read_swap _ _ _ _ _ _ Hd)|]. intro d. cbn. reflexivity.
        * (* three or more indices: both fail *)
          cbn [tr_es map swap2].
          assert (Hs : rsim eq (eval_ints st (e1 :: e2 :: e3 :: r)) (eval_ints (tst st) (tr_es a (e1 :: e2 :: e3 :: r)))) by (apply eval_ints_sim; assumption).
          cbn [tr_es map] in Hs.
          destruct (eval_ints st (e1 :: e2 :: e3 :: r)) as [l1|] eqn:E1; destruct (eval_ints (tst st) _) as [l2|]; cbn [rsim] in Hs; try contradiction; cbn [bind]; [|exact I].
          subst. assert (Hl : length l2 <> 2%nat).
          { rewrite (eval_ints_length _ _ _ E1). cbn [length]. lia. }
          destruct (cell_read_arity (s_heap st) w d0 d1 l2 Hd Hl) as [er ->].
          destruct (cell_read_arity (s_heap st) (swview w) d1 d0 l2) as [er' ->]; [unfold swview; cbn; rewrite Hd; reflexivity|exact Hl|]. exact I.
      + apply Pos.eqb_neq in E. rewrite (get_view_ne st x E).
        eapply rsim_eq_bind; [apply rsim_refl|]. intro w.
        eapply rsim_eq_bind; [apply eval_ints_sim; assumption|]. intro is. rewrite tst_heap. apply rsim_refl.
    - (* USub *) cbn [ok_e] in Hok. cbn [Transpose.tr_e eval]. eapply rsim_eq_bind; [apply IHe, Hok|]. intro v. apply rsim_refl.
    - (* BinOp *) cbn [ok_e] in Hok. apply andb_true_iff in Hok as [H1 H2]. cbn [Transpose.tr_e eval].
      eapply rsim_eq_bind; [apply IHe1, H1|]. intro v1. eapply rsim_eq_bind; [apply IHe2, H2|]. intro v2. apply rsim_refl.
    - (* Extern *) cbn [ok_e] in Hok. rewrite ogo_e in Hok. rewrite tr_e_Extern, !eval_Extern.
      eapply rsim_eq_bind; [apply eval_vals_sim; assumption|]. intro vs. apply rsim_refl.
    - (* WindowE *) rewrite tr_e_WindowE. cbn [eval]. exact I.
    - (* Stride *) cbn [Transpose.tr_e]. destruct (Pos.eqb x a) eqn:E.
      + apply Pos.eqb_eq in E. subst x. cbn [eval]. rewrite get_view_a.
        destruct (get_view st a) as [w|] eqn:Hg; cbn [bind]; [|exact I].
        assert (Hd : exists d0 d1, vdims w = [d0; d1]).
        { apply Hinv. unfold get_view in Hg. destruct (lookup a (s_env st)) as [[v|w']|]; try discriminate. inversion Hg; reflexivity. }
        destruct Hd as ([n0 s0] & [n1 s1] & Hd). unfold swview. cbn [vdims]. rewrite Hd. cbn [swap2].
        destruct d as [|[|d]]; cbn; auto. destruct d; cbn; auto.
      + apply Pos.eqb_neq in E. cbn [eval]. rewrite (get_view_ne st x E). apply rsim_refl.
    - (* ReadCfg *) cbn [Transpose.tr_e eval]. rewrite tst_cfg. apply rsim_refl.
  Qed.

  Lemma eval_ints_sim' : forall st l, inv st -> ok_es l = true ->
    rsim eq (eval_ints st l) (eval_ints (tst st) (tr_es a l)).
  Proof. intros. apply eval_ints_sim; [|assumption]. apply Forall_forall. intros e _. apply eval_sim; assumption. Qed.

  (** ** windows of the transposed argument *)
  Lemma apply_window_arity : forall (d0 d1 : Z * Z) acc off, length acc <> 2%nat ->
    exists e, apply_window [d0; d1] acc off = Err e.
  Proof.
    intros [n0 s0] [n1 s1] acc off Hl.
    destruct acc as [|v0 [|v1 [|v2 r]]]; cbn [length] in Hl; try (exfalso; apply Hl; reflexivity).
    - eexists; reflexivity.
    - destruct v0; cbn [apply_window]; destruct (_ && _); cbn [bind]; eexists; reflexivity.
    - destruct v0, v1; cbn [apply_window];
        repeat (match goal with |- context [if ?b then _ else _] =>
                  match type of b with bool => destruct b end end; cbn [bind apply_window]);
        try (eexists; reflexivity);
        repeat (match goal with |- context [apply_window ?d ?a ?o] => destruct (apply_window d a o) as [[? ?]|] end; cbn [bind]);
        eexists; reflexivity.
  Qed.

  Definition is_ivv (v : wacc_v) : bool := match v with IntervalV _ _ => true | PointV _ => false end.

  Lemma apply_window_swap : forall d0 d1 v0 v1 off, is_ivv v0 && is_ivv v1 = false ->
    rsim eq (apply_window [d0; d1] [v0; v1] off) (apply_window [d1; d0] [v1; v0] off).
  Proof.
    intros [n0 s0] [n1 s1] v0 v1 off H. destruct v0 as [i|l0 h0], v1 as [j|l1 h1]; cbn [is_ivv andb] in H; try discriminate;
      cbn [apply_window];
      repeat (match goal with |- context [if ?b then _ else _] =>
                match type of b with bool => destruct b end end; cbn [bind rsim apply_window]);
      try exact I; try (f_equal; ring).
  Qed.

  Lemma eval_view_sim : forall st e, inv st -> ok_e e = true ->
    rsim (fun w1 w2 => w2 = w1) (eval_view st e) (eval_view (tst st) (tr_e e)).
  Proof.
    intros st e Hinv Hok. destruct e; try (cbn; exact I).
    - (* Read *) cbn [ok_e] in Hok. rewrite ogo_e in Hok. apply andb_true_iff in Hok as [Hwhole Hidx].
      rewrite tr_e_Read. destruct (Pos.eqb x a) eqn:E.
      + apply Pos.eqb_eq in E. subst x. cbn [andb] in Hwhole.
        destruct idx as [|e1 r]; [discriminate Hwhole|].
        assert (Hne : forall l, tr_es a (e1 :: r) = l -> True) by auto.
        destruct r as [|e2 [|e3 r]].
        * (* one index: both fail *)
          cbn [tr_es map swap2 eval_view]. rewrite get_view_a.
          destruct (get_view st a) as [w|] eqn:Hg; cbn [bind]; [|exact I].
          assert (Hd : exists d0 d1, vdims w = [d0; d1]).
          { apply Hinv. unfold get_view in Hg. destruct (lookup a (s_env st)) as [[v|w']|]; try discriminate. inversion Hg; reflexivity. }
          destruct Hd as (d0 & d1 & Hd).
          pose proof (eval_ints_sim' st [e1] Hinv Hidx) as Hs. cbn [tr_es map] in Hs.
          destruct (eval_ints st [e1]) as [l1|] eqn:E1; destruct (eval_ints (tst st) [tr_e e1]) as [l2|]; cbn [rsim] in Hs; try contradiction; cbn [bind]; [|exact I].
          subst. pose proof (eval_ints_length _ _ _ E1) as Hl. cbn [length] in Hl.
          destruct (flat_index_arity d0 d1 l2 (voff w)) as [er Her]; [lia|].
          destruct (flat_index_arity d1 d0 l2 (voff w)) as [er' Her']; [lia|].
          rewrite Hd, Her. unfold swview. cbn [vdims voff]. rewrite Hd. cbn [swap2]. rewrite Her'. cbn. exact I.
        * (* two indices *)
          cbn [tr_es map swap2 eval_view]. rewrite get_view_a.
          destruct (get_view st a) as [w|] eqn:Hg; cbn [bind]; [|exact I].
          assert (Hd : exists d0 d1, vdims w = [d0; d1]).
          { apply Hinv. unfold get_view in Hg. destruct (lookup a (s_env st)) as [[v|w']|]; try discriminate. inversion Hg; reflexivity. }
          destruct Hd as (d0 & d1 & Hd).
          cbn [ok_es forallb] in Hidx. apply andb_true_iff in Hidx as [Ho1 Ho2]. rewrite andb_true_r in Ho2.
          eapply rsim_bind; [apply (eval_ints_pair_swap st (tst st) e1 e2 (tr_e e1) (tr_e e2));
                             [apply eval_sim; assumption | apply eval_sim; assumption]|].
          intros l1 l2 (i & j & -> & ->).
          unfold swview. cbn [vdims voff vloc]. rewrite Hd. cbn [swap2].
          pose proof (flat_index_swap d0 d1 i j (voff w)) as Hf.
          destruct (flat_index [d0; d1] [i; j] (voff w)); destruct (flat_index [d1; d0] [j; i] (voff w)); cbn [rsim] in Hf; try contradiction; cbn [bind]; [|exact I].
          subst. cbn. reflexivity.
        * (* three or more indices: both fail *)
          cbn [tr_es map swap2 eval_view]. rewrite get_view_a.
          destruct (get_view st a) as [w|] eqn:Hg; cbn [bind]; [|exact I].
          assert (Hd : exists d0 d1, vdims w = [d0; d1]).
          { apply Hinv. unfold get_view in Hg. destruct (lookup a (s_env st)) as [[v|w']|]; try discriminate. inversion Hg; reflexivity. }
          destruct Hd as (d0 & d1 & Hd).
          pose proof (eval_ints_sim' st (e1 :: e2 :: e3 :: r) Hinv Hidx) as Hs. cbn [tr_es map] in Hs.
          destruct (eval_ints st (e1 :: e2 :: e3 :: r)) as [l1|] eqn:E1; destruct (eval_ints (tst st) _) as [l2|]; cbn [rsim] in Hs; try contradiction; cbn [bind]; [|exact I].
          subst. pose proof (eval_ints_length _ _ _ E1) as Hl. cbn [length] in Hl.
          destruct (flat_index_arity d0 d1 l2 (voff w)) as [er Her]; [lia|].
          destruct (flat_index_arity d1 d0 l2 (voff w)) as [er' Her']; [lia|].
          rewrite Hd, Her. unfold swview. cbn [vdims voff]. rewrite Hd. cbn [swap2]. rewrite Her'. cbn. exact I.
      + apply Pos.eqb_neq in E. destruct idx as [|e1 r].
        * cbn [tr_es map eval_view]. rewrite (get_view_ne st x E). destruct (get_view st x); cbn; auto.
        * cbn [tr_es map eval_view]. fold (tr_es a (e1 :: r)). rewrite (get_view_ne st x E).
          destruct (get_view st x) as [w|]; cbn [bind]; [|exact I].
          eapply rsim_eq_bind; [apply (eval_ints_sim' st (e1 :: r) Hinv Hidx)|]. intro is.
          destruct (flat_index _ _ _); cbn; auto.
    - (* WindowE *) cbn [ok_e] in Hok. rewrite ogo_w in Hok. apply andb_true_iff in Hok as [Hboth Hacc].
      rewrite tr_e_WindowE.
      assert (Hws : rsim eq (eval_waccs st acc) (eval_waccs (tst st) (map (tr_w a) acc))).
      { apply eval_waccs_sim; [|exact Hacc]. apply Forall_forall. intros wa _.
        destruct wa; cbn [PW]; [apply eval_sim, Hinv | split; apply eval_sim, Hinv]. }
      destruct (Pos.eqb x a) eqn:E.
      + apply Pos.eqb_eq in E. subst x. cbn [andb] in Hboth.
        cbn [eval_view]. rewrite get_view_a.
        destruct (get_view st a) as [w|] eqn:Hg; cbn [bind]; [|exact I].
        assert (Hd : exists d0 d1, vdims w = [d0; d1]).
        { apply Hinv. unfold get_view in Hg. destruct (lookup a (s_env st)) as [[v|w']|]; try discriminate. inversion Hg; reflexivity. }
        destruct Hd as (d0 & d1 & Hd). unfold swview. cbn [vdims voff vloc]. rewrite Hd. cbn [swap2].
        destruct (Nat.eq_dec (length acc) 2) as [H2|Hn2].
        * (* exactly two accesses, not both intervals *)
          destruct acc as [|w0 [|w1 [|w2 r]]]; try discriminate H2. clear H2 Hws.
          cbn [forallb] in Hacc. apply andb_true_iff in Hacc as [Ha0 Ha1]. rewrite andb_true_r in Ha1.
          cbn [map swap2].
          assert (Hev : forall e, ok_e e = true -> rsim eq (eval st e) (eval (tst st) (tr_e e))) by (intros; apply eval_sim; assumption).
          destruct w0 as [x0|x0 z0], w1 as [x1|x1 z1]; cbn [both_iv negb] in Hboth; try discriminate Hboth;
            cbn [ok_w] in Ha0, Ha1; cbn [tr_w eval_waccs];
            repeat match goal with
                   | H : _ && _ = true |- _ => apply andb_true_iff in H as [? ?]
                   end;
            repeat match goal with
                   | H : ok_e ?e = true |- _ =>
                       let Hs := fresh "Hs" in
                       pose proof (Hev e H) as Hs; clear H;
                       destruct (eval st e) as [?v|]; destruct (eval (tst st) (tr_e e)) as [?v'|];
                       cbn [rsim] in Hs; try contradiction; [subst|]
                   end;
            cbn [bind]; try exact I;
            repeat match goal with
                   | |- context [as_int ?v] => destruct (as_int v); cbn [bind]; try exact I
                   end;
            (eapply rsim_bind; [apply apply_window_swap; reflexivity|]; intros [o1 dm1] [o2 dm2] Heq; inversion Heq; subst; cbn; reflexivity).
        * (* any other number of accesses: both sides fail *)
          assert (Hlen : forall st' l vs, eval_waccs st' l = Ok vs -> length vs = length l).
          { clear. intros st' l. induction l as [|[x|x z] r IH]; intros vs; cbn [eval_waccs].
            - intro H; inversion H; reflexivity.
            - destruct (eval st' x) as [v|]; cbn [bind]; [|discriminate]. destruct (as_int v); cbn [bind]; [|discriminate].
              destruct (eval_waccs st' r) as [rs|]; cbn [bind]; [|discriminate]. intro H; inversion H; subst. cbn [length]. f_equal. apply IH. reflexivity.
            - destruct (eval st' x) as [v|]; cbn [bind]; [|discriminate]. destruct (as_int v); cbn [bind]; [|discriminate].
              destruct (eval st' z) as [v2|]; cbn [bind]; [|discriminate]. destruct (as_int v2); cbn [bind]; [|discriminate].
              destruct (eval_waccs st' r) as [rs|]; cbn [bind]; [|discriminate]. intro H; inversion H; subst. cbn [length]. f_equal. apply IH. reflexivity. }
          assert (Hsw : swap2 (map (tr_w a) acc) = map (tr_w a) acc).
          { destruct acc as [|w0 [|w1 [|w2 r]]]; try reflexivity. exfalso. apply Hn2. reflexivity. }
          rewrite Hsw.
          destruct (eval_waccs st acc) as [l1|] eqn:E1; destruct (eval_waccs (tst st) (map (tr_w a) acc)) as [l2|];
            cbn [rsim] in Hws; try contradiction; cbn [bind]; [|exact I].
          subst. pose proof (Hlen _ _ _ E1) as Hl.
          destruct (apply_window_arity d0 d1 l2 (voff w)) as [er ->]; [congruence|].
          destruct (apply_window_arity d1 d0 l2 (voff w)) as [er' ->]; [congruence|]. cbn. exact I.
      + apply Pos.eqb_neq in E. cbn [eval_view]. rewrite (get_view_ne st x E).
        destruct (get_view st x) as [w|]; cbn [bind]; [|exact I].
        eapply rsim_eq_bind; [exact Hws|]. intro av. destruct (apply_window _ _ _) as [[o dm]|]; cbn; auto.
    - (* Stride *) cbn [Transpose.tr_e]. destruct (Pos.eqb x a); cbn; exact I.
  Qed.

  (** ** statements *)
  Fixpoint ok_s (s : stmt) {struct s} : bool :=
    match s with
    | Assign _ idx rhs | Reduce _ idx rhs => ok_es idx && ok_e rhs
    | WriteCfg _ rhs => ok_e rhs
    | Pass => true
    | If e x y =>
        ok_e e &&
        (fix go (l : list stmt) : bool := match l with [] => true | s' :: r => ok_s s' && go r end) x &&
        (fix go (l : list stmt) : bool := match l with [] => true | s' :: r => ok_s s' && go r end) y
    | For i lo hi x _ =>
        negb (Pos.eqb i a) && ok_e lo && ok_e hi &&
        (fix go (l : list stmt) : bool := match l with [] => true | s' :: r => ok_s s' && go r end) x
    | Alloc y shape => negb (Pos.eqb y a) && ok_es shape
    | WindowS y rhs => negb (Pos.eqb y a) && ok_e rhs
    | Call _ args => ok_es args
    end.
  Lemma ogo_s : forall l,
    (fix go (l : list stmt) : bool := match l with [] => true | s' :: r => ok_s s' && go r end) l = forallb ok_s l.
  Proof. induction l as [|x r IH]; [reflexivity|]. cbn [forallb]. rewrite <- IH. reflexivity. Qed.

  Lemma tst_with_heap : forall h st, tst (with_heap h st) = with_heap h (tst st). Proof. reflexivity. Qed.
  Lemma tst_bind_var : forall y b st, y <> a -> tst (bind_var y b st) = bind_var y b (tst st).
  Proof.
    intros y b st Hne. unfold tst, bind_var, with_env. cbn [s_env s_heap s_next s_cfg tmap].
    destruct (Pos.eqb y a) eqn:E; [apply Pos.eqb_eq in E; contradiction|]. reflexivity.
  Qed.
  Lemma inv_bind_var : forall y b st, y <> a -> inv st -> inv (bind_var y b st).
  Proof.
    unfold inv. intros y b st Hne Hi w. cbn [bind_var s_env lookup].
    destruct (Pos.eqb a y) eqn:E; [apply Pos.eqb_eq in E; congruence|]. apply Hi.
  Qed.

  (** the location an access to [y] at [idx] designates, in both programs *)
  Definition loc_of (st : state) (y : sym) (idx : list expr) : result (view * list Z) :=
    do w <- get_view st y; do is <- eval_ints st idx; Ok (w, is).

  Definition same_cell (p1 p2 : view * list Z) : Prop :=
    forall h : heap,
      rsim eq (cell_read h (fst p1) (snd p1)) (cell_read h (fst p2) (snd p2)) /\
      (forall d : dval, rsim eq (cell_write h (fst p1) (snd p1) d) (cell_write h (fst p2) (snd p2) d)).

  Lemma loc_sim : forall st y idx, inv st -> ok_es idx = true ->
    rsim same_cell (loc_of st y idx)
         (loc_of (tst st) y (if Pos.eqb y a then swap2 (tr_es a idx) else tr_es a idx)).
  Proof.
    intros st y idx Hinv Hok. unfold loc_of. destruct (Pos.eqb y a) eqn:E.
    - apply Pos.eqb_eq in E. subst y. rewrite get_view_a.
      destruct (get_view st a) as [w|] eqn:Hg; cbn [bind]; [|exact I].
      assert (Hd : exists d0 d1, vdims w = [d0; d1]).
      { apply Hinv. unfold get_view in Hg. destruct (lookup a (s_env st)) as [[v|w']|]; try discriminate. inversion Hg; reflexivity. }
      destruct Hd as (d0 & d1 & Hd).
      destruct (Nat.eq_dec (length idx) 2) as [H2|Hn2].
      + destruct idx as [|e1 [|e2 [|e3 r]]]; try discriminate H2. clear H2.
        cbn [ok_es forallb] in Hok. apply andb_true_iff in Hok as [Ho1 Ho2]. rewrite andb_true_r in Ho2.
        cbn [tr_es map swap2].
        eapply rsim_bind; [apply (eval_ints_pair_swap st (tst st) e1 e2 (tr_e e1) (tr_e e2)); apply eval_sim; assumption|].
        intros l1 l2 (i & j & -> & ->). cbn [rsim]. intro h. cbn [fst snd]. split.
        * apply (cell_read_swap _ _ _ _ _ _ Hd).
        * intro d. apply (cell_write_swap _ _ _ _ _ _ _ Hd).
      + assert (Hsw : swap2 (tr_es a idx) = tr_es a idx).
        { destruct idx as [|e1 [|e2 [|e3 r]]]; try reflexivity. exfalso. apply Hn2. reflexivity. }
        rewrite Hsw. pose proof (eval_ints_sim' st idx Hinv Hok) as Hs.
        destruct (eval_ints st idx) as [l1|] eqn:E1; destruct (eval_ints (tst st) (tr_es a idx)) as [l2|]; cbn [rsim] in Hs; try contradiction; cbn [bind]; [|exact I].
        subst. cbn [rsim]. pose proof (eval_ints_length _ _ _ E1) as Hl. intro h. cbn [fst snd]. split.
        * destruct (cell_read_arity h w d0 d1 l2 Hd) as [er ->]; [congruence|].
          destruct (cell_read_arity h (swview w) d1 d0 l2) as [er' ->]; [unfold swview; cbn; rewrite Hd; reflexivity|congruence|]. exact I.
        * intro d. destruct (cell_write_arity h w d0 d1 l2 d Hd) as [er ->]; [congruence|].
          destruct (cell_write_arity h (swview w) d1 d0 l2 d) as [er' ->]; [unfold swview; cbn; rewrite Hd; reflexivity|congruence|]. exact I.
    - apply Pos.eqb_neq in E. rewrite (get_view_ne st y E).
      destruct (get_view st y) as [w|]; cbn [bind]; [|exact I].
      eapply rsim_eq_bind; [apply eval_ints_sim'; assumption|]. intro is. cbn [rsim]. intro h. split; [apply rsim_refl|intro d; apply rsim_refl].
  Qed.

  Definition ssim (s : stmt) : Prop :=
    nobind a s = true -> ok_s s = true -> forall st, inv st -> rsim R (exec s st) (exec (tr_s s) (tst st)).

  Lemma exec_list_sim : forall l, Forall ssim l -> forallb (nobind a) l = true -> forallb ok_s l = true ->
    forall st, inv st -> rsim R (exec_list l st) (exec_list (tr_ss a l) (tst st)).
  Proof.
    intros l H. induction H as [|s r Hs Hr IH]; intros Hnb Hok st Hi.
    - cbn. split; [reflexivity|exact Hi].
    - cbn [forallb] in Hnb, Hok. apply andb_true_iff in Hnb as [Hn1 Hn2]. apply andb_true_iff in Hok as [Ho1 Ho2].
      cbn [tr_ss map exec_list]. fold (tr_ss a r).
      eapply rsim_bind; [apply Hs; assumption|]. intros st1 st2 [-> Hi1]. apply IH; assumption.
  Qed.

  Lemma iter_loop_sim : forall f g,
    (forall k st, inv st -> rsim R (f k st) (g k (tst st))) ->
    forall n k st, inv st -> rsim R (iter_loop n k f st) (iter_loop n k g (tst st)).
  Proof.
    intros f g H. induction n as [|n IH]; intros k st Hi; cbn [iter_loop].
    - split; [reflexivity|exact Hi].
    - eapply rsim_bind; [apply H, Hi|]. intros st1 st2 [-> Hi1]. apply IH, Hi1.
  Qed.

  Lemma eval_actuals_sim : forall formals args st, inv st -> ok_es args = true ->
    rsim eq (eval_actuals st formals args) (eval_actuals (tst st) formals (tr_es a args)).
  Proof.
    induction formals as [|[y k] fr IH]; intros args st Hi Hok; destruct args as [|e er]; cbn [tr_es map eval_actuals]; try exact I.
    - reflexivity.
    - fold (tr_es a er). cbn [ok_es forallb] in Hok. apply andb_true_iff in Hok as [H1 H2].
      assert (Ha : rsim eq (eval_actual st k e) (eval_actual (tst st) k (tr_e e))).
      { destruct k; cbn [eval_actual];
          try (eapply rsim_eq_bind; [apply eval_sim; assumption|]; intro v; apply rsim_refl);
          (eapply rsim_bind; [apply eval_view_sim; assumption|]; intros w1 w2 ->; cbn; reflexivity). }
      eapply rsim_eq_bind; [exact Ha|]. intro b.
      eapply rsim_eq_bind; [apply IH; assumption|]. intro bs. apply rsim_refl.
  Qed.

  Lemma loc_unfold : forall st y idx A (K : view -> list Z -> result A),
    (do w <- get_view st y; do is <- eval_ints st idx; K w is) =
    (do p <- loc_of st y idx; K (fst p) (snd p)).
  Proof. intros. unfold loc_of. destruct (get_view st y); cbn [bind]; [|reflexivity]. destruct (eval_ints st idx); reflexivity. Qed.

  Theorem exec_sim : forall s, ssim s.
  Proof.
    induction s using stmt_ind2; unfold ssim; intros Hnb Hok st Hi.
    - (* Assign *) cbn [ok_s] in Hok. apply andb_true_iff in Hok as [Hoi Hor]. cbn [Transpose.tr_s exec].
      rewrite !loc_unfold.
      eapply rsim_bind; [apply loc_sim; assumption|]. intros p1 p2 Hp.
      eapply rsim_eq_bind; [apply eval_sim; assumption|]. intro v.
      destruct (as_data v) as [d|]; cbn [bind]; [|exact I]. rewrite tst_heap.
      destruct (Hp (s_heap st)) as [_ Hw]. specialize (Hw d).
      destruct (cell_write _ (fst p1) _ _) as [h1|]; destruct (cell_write _ (fst p2) _ _) as [h2|]; cbn [rsim] in Hw; try contradiction; cbn [bind]; [|exact I].
      subst. split; [reflexivity|exact Hi].
    - (* Reduce *) cbn [ok_s] in Hok. apply andb_true_iff in Hok as [Hoi Hor]. cbn [Transpose.tr_s exec].
      rewrite !loc_unfold.
      eapply rsim_bind; [apply loc_sim; assumption|]. intros p1 p2 Hp.
      eapply rsim_eq_bind; [apply eval_sim; assumption|]. intro v.
      destruct (as_data v) as [d|]; cbn [bind]; [|exact I]. rewrite tst_heap.
      destruct (Hp (s_heap st)) as [Hr Hw].
      destruct (cell_read _ (fst p1) _) as [o1|]; destruct (cell_read _ (fst p2) _) as [o2|]; cbn [rsim] in Hr; try contradiction; cbn [bind]; [|exact I].
      subst. specialize (Hw (dadd o2 d)).
      destruct (cell_write _ (fst p1) _ _) as [h1|]; destruct (cell_write _ (fst p2) _ _) as [h2|]; cbn [rsim] in Hw; try contradiction; cbn [bind]; [|exact I].
      subst. split; [reflexivity|exact Hi].
    - (* WriteCfg *) cbn [ok_s] in Hok. cbn [Transpose.tr_s exec].
      eapply rsim_eq_bind; [apply eval_sim; assumption|]. intro v. cbn. split; [reflexivity|exact Hi].
    - (* Pass *) cbn. split; [reflexivity|exact Hi].
    - (* If *) rewrite tr_s_If, !exec_If. cbn [nobind] in Hnb. rewrite !go_forallb in Hnb.
      apply andb_true_iff in Hnb as [Hna Hnb'].
      cbn [ok_s] in Hok. rewrite !ogo_s in Hok. apply andb_true_iff in Hok as [Hok Hob]. apply andb_true_iff in Hok as [Hoc Hoa].
      eapply rsim_eq_bind; [apply eval_sim; assumption|]. intro v.
      destruct (as_bool v) as [[]|]; cbn [bind]; [| |exact I]; unfold scoped.
      + eapply rsim_bind; [apply exec_list_sim; assumption|]. intros st1 st2 [-> Hi1]. cbn. split; [reflexivity|exact Hi].
      + eapply rsim_bind; [apply exec_list_sim; assumption|]. intros st1 st2 [-> Hi1]. cbn. split; [reflexivity|exact Hi].
    - (* For *) rewrite tr_s_For, !exec_For. cbn [nobind] in Hnb. rewrite go_forallb in Hnb.
      apply andb_true_iff in Hnb as [Hni Hnbody]. apply negb_true_iff, Pos.eqb_neq in Hni.
      cbn [ok_s] in Hok. rewrite ogo_s in Hok. apply andb_true_iff in Hok as [Hok Hobody].
      apply andb_true_iff in Hok as [Hok Hohi]. apply andb_true_iff in Hok as [_ Holo].
      eapply rsim_eq_bind; [apply eval_sim; assumption|]. intro vl. destruct (as_int vl) as [l|]; cbn [bind]; [|exact I].
      eapply rsim_eq_bind; [apply eval_sim; assumption|]. intro vh. destruct (as_int vh) as [h|]; cbn [bind]; [|exact I].
      destruct (h <? l); [exact I|].
      apply iter_loop_sim; [|exact Hi]. intros k st0 Hi0. unfold loop_body.
      rewrite <- tst_bind_var by exact Hni.
      eapply rsim_bind; [apply exec_list_sim; [exact H|exact Hnbody|exact Hobody|apply inv_bind_var; assumption]|].
      intros st1 st2 [-> Hi1]. cbn. split; [reflexivity|exact Hi0].
    - (* Alloc *) cbn [Transpose.tr_s exec]. cbn [ok_s] in Hok. apply andb_true_iff in Hok as [Hne Hosh].
      apply negb_true_iff, Pos.eqb_neq in Hne.
      eapply rsim_eq_bind; [apply eval_ints_sim'; assumption|]. intro sh.
      destruct (all_pos sh); [|exact I]. cbn.
      split; [|apply inv_bind_var; [exact Hne|exact Hi]].
      unfold tst, with_env, bind_var. cbn [s_env s_heap s_next s_cfg tmap].
      destruct (Pos.eqb x a) eqn:E; [apply Pos.eqb_eq in E; contradiction|]. reflexivity.
    - (* Call *) destruct f as [formals preds body]. cbn [Transpose.tr_s]. rewrite !exec_Call. cbn [ok_s] in Hok.
      eapply rsim_eq_bind; [apply eval_actuals_sim; assumption|]. intro acts.
      replace (with_env [] (tst st)) with (with_env [] st) by reflexivity.
      destruct (bind_args formals acts (with_env [] st)) as [callee|]; cbn [bind]; [|exact I].
      destruct (check_preds callee preds); cbn [bind]; [|exact I].
      destruct (exec_list body callee) as [st'|]; cbn [bind]; [|exact I].
      cbn. split; [reflexivity|exact Hi].
    - (* WindowS *) cbn [Transpose.tr_s exec]. cbn [ok_s] in Hok. apply andb_true_iff in Hok as [Hne Hor].
      apply negb_true_iff, Pos.eqb_neq in Hne.
      eapply rsim_bind; [apply eval_view_sim; assumption|]. intros w1 w2 ->. cbn.
      split; [|apply inv_bind_var; [exact Hne|exact Hi]].
      unfold tst, with_env, bind_var. cbn [s_env s_heap s_next s_cfg tmap].
      destruct (Pos.eqb x a) eqn:E; [apply Pos.eqb_eq in E; contradiction|]. reflexivity.
  Qed.
End Sound.

(** ** whole procedures *)
Lemma view_span_swap : forall d0 d1, view_span [d0; d1] = view_span [d1; d0].
Proof.
  intros [n0 s0] [n1 s1]. cbn [view_span].
  destruct (0 <? n0); destruct (0 <? n1); try reflexivity. f_equal. f_equal; lia.
Qed.

Section Top.
  Variable a : sym.
  Notation R := (R a).
  Notation tst := (tst a).

  Definition ok_kind (k : argkind) : bool :=
    match k with KTensor shape _ => ok_es a shape | _ => true end.

  Lemma bind_args_sim : forall fs bs st1 st2,
    (forall y k, In (y, k) fs -> y <> a /\ ok_kind k = true) -> R st1 st2 ->
    rsim R (bind_args fs bs st1) (bind_args (tr_formals a fs) bs st2).
  Proof.
    induction fs as [|[y k] fs IH]; intros bs st1 st2 Hne HR; destruct bs as [|b bs]; cbn [tr_formals map fst snd bind_args]; try exact I.
    - exact HR.
    - destruct (Hne y k (or_introl eq_refl)) as [Hy Hk].
      assert (Hne' : forall y0 k0, In (y0, k0) fs -> y0 <> a /\ ok_kind k0 = true) by (intros; apply Hne; right; assumption).
      destruct HR as [-> Hi].
      assert (HR' : R (bind_var y b st1) (bind_var y b (tst st1))).
      { split; [symmetry; apply tst_bind_var, Hy | apply inv_bind_var; assumption]. }
      fold (tr_formals a fs).
      destruct k, b as [[z|bb|d]|w]; cbn [tr_kind]; try exact I.
      + destruct (0 <? z); [apply IH; assumption|exact I].
      + apply IH; assumption.
      + apply IH; assumption.
      + apply IH; assumption.
      + destruct (vdims w); [apply IH; assumption|exact I].
      + destruct (Pos.eqb y a) eqn:E; [apply Pos.eqb_eq in E; contradiction|].
        cbn [ok_kind] in Hk.
        eapply rsim_eq_bind; [apply eval_ints_sim'; assumption|]. intro sh.
        destruct (all_pos sh); [|exact I]. destruct (list_eq_dec _ _ _); [apply IH; assumption|exact I].
  Qed.

  Lemma check_preds_sim : forall ps st, inv a st -> ok_es a ps = true ->
    rsim eq (check_preds st ps) (check_preds (tst st) (tr_es a ps)).
  Proof.
    induction ps as [|p r IH]; intros st Hi Hok; cbn [tr_es map check_preds]; [reflexivity|]. fold (tr_es a r).
    cbn [ok_es forallb] in Hok. apply andb_true_iff in Hok as [H1 H2].
    eapply rsim_eq_bind; [apply eval_sim; assumption|]. intro v.
    destruct (as_bool v) as [[]|]; cbn [bind]; [apply IH; assumption|exact I|exact I].
  Qed.

  Definition osim (o1 o2 : outcome) : Prop :=
    match o1, o2 with
    | Done b1 c1, Done b2 c2 => b1 = b2 /\ c1 = c2
    | Invalid _, Invalid _ => True
    | Fails _, Fails _ => True
    | _, _ => False
    end.

  Theorem transpose_correct : forall fpre s0 s1 win fpost preds body ipre off d0 d1 cells ipost cfg,
    length ipre = length fpre ->
    (forall y k, In (y, k) fpre -> y <> a /\ ok_kind k = true) ->
    (forall y k, In (y, k) fpost -> y <> a /\ ok_kind k = true) ->
    ok_e a s0 = true -> ok_e a s1 = true ->
    ok_es a preds = true -> forallb (ok_s a) body = true -> forallb (nobind a) body = true ->
    osim (run (Proc (fpre ++ (a, KTensor [s0; s1] win) :: fpost) preds body)
              (mkInput (ipre ++ InBuf off [d0; d1] cells :: ipost) cfg))
         (run (tr_proc a (Proc (fpre ++ (a, KTensor [s0; s1] win) :: fpost) preds body))
              (mkInput (ipre ++ InBuf off [d1; d0] cells :: ipost) cfg)).
  Proof.
    intros fpre s0 s1 win fpost preds body ipre off d0 d1 cells ipost cfg Hlen Hpre Hpost Hs0 Hs1 Hpreds Hbody Hnb.
    unfold run, tr_proc. cbn [in_args in_cfg].
    rewrite !forallb_app. cbn [forallb inbuf_ok]. rewrite (view_span_swap d1 d0).
    destruct (forallb inbuf_ok ipre && (_ && forallb inbuf_ok ipost)); [|cbn; exact I].
    rewrite !load_inputs_app. cbn [load_inputs].
    pose proof (load_inputs_length ipre (mkState [] [] 1%positive cfg)) as Hl1.
    destruct (load_inputs ipre (mkState [] [] 1%positive cfg)) as [bpre st1] eqn:Eld. cbn [fst] in Hl1.
    set (st1' := mkState (s_env st1) ((s_next st1, cells) :: s_heap st1) (Pos.succ (s_next st1)) (s_cfg st1)).
    destruct (load_inputs ipost st1') as [bpost st2] eqn:Heqp.
    assert (Hlb : length fpre = length bpre) by congruence.
    unfold tr_formals. rewrite map_app. cbn [map fst snd tr_kind]. rewrite Pos.eqb_refl. cbn [tr_es map swap2].
    fold (tr_formals a fpre). fold (tr_formals a fpost).
    assert (Hlb' : length (tr_formals a fpre) = length bpre) by (unfold tr_formals; rewrite map_length; exact Hlb).
    rewrite (bind_args_app fpre bpre _ _ st2 Hlb), (bind_args_app (tr_formals a fpre) bpre _ _ st2 Hlb').
    (* phase 1: the arguments before [a] *)
    assert (HR0 : R st2 st2).
    { assert (He : s_env st2 = []).
      { pose proof (load_inputs_env ipre (mkState [] [] 1%positive cfg)) as E1. rewrite Eld in E1. cbn [snd s_env] in E1.
        pose proof (load_inputs_env ipost st1') as E2. destruct (load_inputs ipost st1') as [bp s2] eqn:E3.
        inversion Heqp. subst. cbn [snd] in E2. rewrite E2. unfold st1'. cbn [s_env]. exact E1. }
      split.
      - unfold TransposeSound.tst, with_env. rewrite He. cbn [tmap]. destruct st2; cbn in *; subst; reflexivity.
      - unfold inv. rewrite He. cbn [lookup]. discriminate. }
    pose proof (bind_args_sim fpre bpre st2 st2 Hpre HR0) as H1.
    destruct (bind_args fpre bpre st2) as [sa|]; destruct (bind_args (tr_formals a fpre) bpre st2) as [sa'|];
      cbn [rsim] in H1; try contradiction; cbn [bind]; [|exact I].
    destruct H1 as [-> Hia].
    (* phase 2: the transposed argument itself *)
    set (w := mkView (s_next st1) off [d0; d1]).
    change (mkView (s_next st1) off [d1; d0]) with (swview w).
    cbn [bind_args].
    pose proof (eval_ints_pair_swap sa (tst sa) s0 s1 (tr_e a s0) (tr_e a s1)
                  (eval_sim a s0 sa Hia Hs0) (eval_sim a s1 sa Hia Hs1)) as Hsh.
    destruct (eval_ints sa [s0; s1]) as [l1|]; destruct (eval_ints (tst sa) [tr_e a s1; tr_e a s0]) as [l2|];
      cbn [rsim] in Hsh; try contradiction; cbn [bind]; [|exact I].
    destruct Hsh as (i & j & -> & ->).
    cbn [all_pos]. replace ((0 <? j) && ((0 <? i) && true)) with ((0 <? i) && ((0 <? j) && true)) by (destruct (0 <? i), (0 <? j); reflexivity).
    destruct ((0 <? i) && ((0 <? j) && true)); [|exact I].
    unfold swview, w. cbn [vdims swap2 map fst].
    destruct (list_eq_dec Z.eq_dec [i; j] [fst d0; fst d1]) as [E1|N1];
      destruct (list_eq_dec Z.eq_dec [j; i] [fst d1; fst d0]) as [E2|N2]; try exact I;
      try (exfalso; inversion E1; subst; apply N2; reflexivity);
      try (exfalso; inversion E2; subst; apply N1; reflexivity).
    (* phase 3: the remaining arguments *)
    assert (HR2 : R (bind_var a (BView w) sa)
                    (bind_var a (BView (mkView (s_next st1) off [d1; d0])) (tst sa))).
    { split.
      - unfold TransposeSound.tst, with_env, bind_var. cbn [s_env s_heap s_next s_cfg tmap swb]. rewrite Pos.eqb_refl. reflexivity.
      - unfold inv. intros w0. cbn [bind_var s_env lookup]. rewrite Pos.eqb_refl. intro H; inversion H; subst. exists d0, d1. reflexivity. }
    pose proof (bind_args_sim fpost bpost _ _ Hpost HR2) as H3.
    destruct (bind_args fpost bpost _) as [s3|]; destruct (bind_args (tr_formals a fpost) bpost _) as [s3'|];
      cbn [rsim] in H3; try contradiction; [|exact I].
    destruct H3 as [-> Hi3].
    (* assertions and body *)
    pose proof (check_preds_sim preds s3 Hi3 Hpreds) as Hp.
    destruct (check_preds s3 preds); destruct (check_preds (tst s3) (tr_es a preds)); cbn [rsim] in Hp; try contradiction; [|exact I].
    pose proof (exec_list_sim a body (proj2 (Forall_forall _ _) (fun s _ => exec_sim a s)) Hnb Hbody s3 Hi3) as He.
    destruct (exec_list body s3) as [s4|]; destruct (exec_list (tr_ss a body) (tst s3)) as [s4'|]; cbn [rsim] in He; try contradiction; [|exact I].
    destruct He as [-> _]. cbn [osim]. split; [|reflexivity].
    rewrite !collect_bufs_app. cbn [collect_bufs vloc]. reflexivity.
  Qed.
End Top.

(** non-vacuity: a 2x3 matrix copied into its row sums, original vs transposed *)
Example transpose_example :
  let a := 1%positive in let y := 2%positive in let i := 3%positive in let j := 4%positive in
  let body := [For i (Int 0) (Int 2) [For j (Int 0) (Int 3)
                 [Reduce y [Var i] (Read a [Var i; Var j])] false] false] in
  let p := Proc ([] ++ (a, KTensor [Int 2; Int 3] true) :: [(y, KTensor [Int 2] false)]) [] body in
  let cells := map (fun z => Some (Q2Qc (inject_Z z))) [1; 2; 3; 4; 5; 6] in
  let ycells := [Some (Q2Qc 0); Some (Q2Qc 0)] in
  forallb (ok_s a) body = true /\ forallb (nobind a) body = true /\
  run p (mkInput ([] ++ InBuf 0 [(2, 3); (3, 1)] cells :: [InBuf 0 [(2, 1)] ycells]) [])
  = run (tr_proc a p) (mkInput ([] ++ InBuf 0 [(3, 1); (2, 3)] cells :: [InBuf 0 [(2, 1)] ycells]) []).
Proof. split; [reflexivity|]. split; [reflexivity|]. vm_compute. reflexivity. Qed.
